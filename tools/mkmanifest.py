#!/usr/bin/env python3
"""Regenerates MANIFEST.json from the table below (kept in one place so that the
manifest, the not_applicable list and the registered checks cannot drift apart)."""
import json, os
HERE = os.path.dirname(os.path.dirname(os.path.abspath(__file__)))
ALL = [f"C{i:02d}" for i in range(1, 21)]

COMMON_NOTE = ("Trusted: Lean 4.33 kernel + axioms printed by #print axioms (only propext, Classical.choice, Quot.sound; "
               "no native_decide/bv_decide/sorry/user axioms — audited on every run); the hand-written Lean model, tied to "
               "/repo only by this run's differential correspondence (strength bounded by the seeded generator whose "
               "distribution is in the evidence); Python harness, canonicalisation and brute-force oracles; CPython/NumPy "
               "semantics and the puan-rspy wheel (outside /repo).")

CHECKS = {
    "C03": dict(
        text=("Theorems (Props/C03.lean): on every interpretation fixing all leaves, interval evaluation returns exactly the "
              "point value of the arithmetic truth function with the two override rules (evaluate_total), which is the plain "
              "truth function when nothing is overridden (evaluate_total_plain), for the node and its children. Proved for all "
              "trees/depths/signs/values/Int bounds. Tie: the model's evaluate / evaluate_propositions are run against the real "
              "ones on seeded random validated models with all three value forms; an independent recursive evaluator is the "
              "failing-input oracle."),
        note="Models restricted to validated, reference-free ones; evaluate is called on deep copies (known finding F-C09a). " ,
        technique="Lean 4 theorem (mutual structural induction) + per-run model/code differential correspondence",
        ref="§4 C03"),
}

def main():
    checks = []
    for pid, c in CHECKS.items():
        checks.append({
            "property_id": pid,
            "quick_cmd": f"./check {pid} --tier quick",
            "thorough_cmd": f"./check {pid} --tier thorough",
            "evidence_file": f"evidence/{pid}.json",
            "replay_cmd_template": f"./check {pid} --replay {{path}}",
            "engine": "lean-model+correspondence",
            "level_claimed": {"category": "proof", "text": c["text"], "design_ref": c["ref"]},
            "level_note": c["note"] + " " + COMMON_NOTE,
            "technique": c["technique"],
        })
    na = [{"property_id": p, "reason": "not claimed yet: model/theorems/correspondence for this property are still under construction (see DESIGN.md §9); nothing about the technique makes it inapplicable"}
          for p in ALL if p not in CHECKS]
    m = {
        "version": 1,
        "setup_cmd": "cd lean && lake build",
        "hooks": {
            "guard": "PUAN_VERIF",
            "enable": "no hooks: every check observes public API results and structural snapshots from outside; PUAN_VERIF is reserved and unused",
            "baseline_off_cmd": "cd /repo && /venv/bin/python -m pytest -ra -q -p no:cacheprovider --timeout=900 --continue-on-collection-errors",
            "source_commits": [],
            "add_only": True,
        },
        "engines": [{"name": "lean-model+correspondence", "path": "lean/ + harness/",
                     "serves_properties": sorted(CHECKS),
                     "kind_free_text": "hand-written executable Lean 4 model with machine-checked theorems; Python harness runs the real code and the model's driver on the same seeded inputs and diffs canonicalised outputs; brute-force oracles search for a failing input"}],
        "checks": checks,
        "not_applicable": na,
        "notes": "All checks: ./check <id> [--tier quick|thorough] [--replay file]; VERIF_SEED / VERIF_TIER honoured; exit 2 = harness error/timeout (never a verdict).",
    }
    json.dump(m, open(os.path.join(HERE, "MANIFEST.json"), "w"), indent=1)
    print(f"wrote MANIFEST.json: {len(checks)} checks, {len(na)} not_applicable")

main()
