#!/usr/bin/env python3
"""Regenerates MANIFEST.json from the table below (kept in one place so that the
manifest, the not_applicable list and the registered checks cannot drift apart)."""
import json, os
HERE = os.path.dirname(os.path.dirname(os.path.abspath(__file__)))
ALL = [f"C{i:02d}" for i in range(1, 21)]

COMMON_NOTE = ("Trusted: Lean 4.33 kernel + axioms printed by #print axioms (only propext, Classical.choice, Quot.sound; "
               "no native_decide/bv_decide/sorry/user axioms — audited on every run); the hand-written Lean model, tied to "
               "/repo only by this run's differential correspondence (strength bounded by the seeded generator whose "
               "distribution is in the evidence); Python harness, canonicalisation and brute-force oracles; CPython/NumPy "
               "semantics and the puan-rspy wheel (outside /repo).")

CHECKS = {
    "C01": dict(
        text=("Theorems (Props/C01.lean): for every tree (any depth/arity/sign/value/Int bounds, no compound pre-fixed), if x "
              "agrees with the leaf assignment and carries each sub-proposition's evaluated truth value, every big-M row is "
              "satisfied without asserting the top node (enc_feasible) and, with the top node asserted, all rows hold iff the "
              "model evaluates to 1 (enc_active_iff); the extension exists (agrees_ext) for coherent models (one id, one value), "
              "and validation gives coherence (validated_coherent, built on C10: every occurrence of an id has the same sign, "
              "value and child ids, and by induction on the sub-tree size the children evaluate alike) — "
              "encoding_agrees_with_evaluation states the property in one theorem for models that errors() accepts; the "
              "executable row list means the row predicate (rows_spec). Tie: the model's row set and column list are compared with to_ge_polyhedron (both "
              "`active` settings, rows from puan-rspy) on seeded random validated models; oracle: in-bounds assignments "
              "extended by the real evaluate_propositions and tested on the real matrix with Python ints."),
        note="Rows are compared as a set keyed by column id. puan-rspy's row construction is outside /repo; its observable output is what is modelled.",
        technique="Lean 4 theorem (mutual structural induction, omega) + per-run model/code differential correspondence",
        ref="§4 C01"),
    "C02": dict(
        text=("Theorems (Props/C02.lean): completeness — every in-bounds leaf assignment making the model true extends to an "
              "in-box integer point of the asserted system (complete); soundness — in solver-safe form (no compound under a "
              "negative parent) x(id) <= truth value for every node, hence the leaf part of every in-box integer point of the "
              "asserted system makes the model true (sound, sound_active); the hypothesis is forced (unsafe_witness); 'negation pushes "
              "inwards to re-establish this form' — expr_safe / expr_sound: every constructor expression of the safe grammar "
              "(Ast.SafeExpr: boolean variables; All/Any/XNor/Imply/Not/positively signed AtLeast over safe arguments, arbitrarily "
              "nested; AtMost/Xor/negatively signed AtLeast over variables) builds a solver-safe model, so the leaf part of every "
              "in-box integer point of its asserted system makes it true (Lemmas/SafeBuild.lean: the invariant is preserved by "
              "every constructor and by negate). Tie: same encode correspondence as C01 incl. the solver-safe flag, on random "
              "models, hash-colliding twins handled in the same process, and a stream of nested negations; oracle: brute-force "
              "enumeration of every in-box integer point of the real matrix, both inclusions, soundness demanded for solver-safe "
              "models and for every expression of the safe grammar."),
        note="Enumeration only for boxes up to 20000 (quick) / 300000 (thorough) points; auxiliary columns free. For expressions of the safe grammar 'no sub-proposition pre-fixed' is proved too (Ast.build_free01), so expr_sound has no such hypothesis.",
        technique="Lean 4 theorem (mutual structural induction, omega) + per-run model/code differential correspondence",
        ref="§4 C02"),
    "C04": dict(
        text=("Theorems (Props/C04.lean): per constructor (evalPt_mkAll/mkAny/mkAtMost/mkXor/mkXNor/mkNot/mkImply) the built node "
              "evaluates to conjunction / disjunction / at-most-k / exactly-one / not-exactly-one / negation / material "
              "implication of its 0/1-valued arguments, and build_truth: for every constructor expression (arbitrary nesting) "
              "over boolean leaves with legal signs and pairwise distinct All-arguments, the built model evaluates to the "
              "expression's truth function (induction over the expression, through negate_compl and the Good invariant that "
              "constructors and negate preserve); json_truth (with fromJson_userJson, truth_viaJson) — plog.from_json dispatches the "
              "JSON of an expression to the same constructor calls and the model it builds evaluates to the expression's truth "
              "function; cic_semantics — the model Imply.from_cicJE builds from a rule dictionary (default component mapping or a "
              "cmp2prop returning id strings) evaluates on every 0/1 assignment to what the rule says: REQUIRES_ALL / REQUIRES_ANY "
              "/ ONE_OR_NONE / FORBIDS_ALL / REQUIRES_EXCLUSIVELY of the consequence's components, implied by the ALL / ANY "
              "combination of the sub-conditions. Tie: trees built by the real constructors (propositions handed over as list, "
              "tuple, generator, iterator, map), by plog.from_json (compared with the model's from_json on the same JSON) and by "
              "Imply.from_cicJE (default mapping, cmp2prop returning strings / variables, ids under another key; compared with the "
              "model's Cic.toAst on the same dictionary) are compared structurally with the model's build; oracle: full truth "
              "tables against an independent truth function; thorough adds an exhaustive small scope."),
        note="AtLeast(k<=0) without explicit sign is read by the constructor's documented sign rule. Judged on models that errors() accepts (pairwise distinct All-arguments). The JSON a user writes (Ast.userJson) and the rule dictionary (Cic) are part of the Lean model since session 3; the harness keeps its own rendering of both mappings as a cross-check.",
        technique="Lean 4 theorem (induction over constructor expressions) + differential correspondence + truth-table oracle",
        ref="§4 C04"),
    "C05": dict(
        text=("Theorems (Props/C05.lean), about negate() as repaired by the fix: commit for defect D1: negate_compl — for every "
              "tree and in-bounds assignment the negated model evaluates to 1 - original (all four branches of the inward push, "
              "with the constructor's re-sorting); negate_safe — solver-safe + boolean leaves stays solver-safe; negate_keeps_id; negate_fixed_top / negate_free_top — (finding F05b, repaired) the negation of a proposition fixed by its own variable is fixed to the opposite constant under evaluate's node-fixing rule, a free one stays free; negate_compl_fx — the complement at full strength under evaluate's node-fixing rule (evalOv with the empty dictionary), for models with fixed nodes anywhere (signs +-1, assignment in the leaf bounds, fixed nodes fixed to 0 or 1 and never of a generated id); fixOk_negate / negate_negate_fx — that well-formedness survives negation, and the double negation evaluates like the model under the same rule; negate_negate_eval / negate_negate_id — the negation negated once more evaluates like the model again and still carries the explicit id (the negation is a model like any other). "
              "Tie: negate() output compared structurally (ids incl. SHA-256 generated ones, bounds, sign, value, child order, "
              "generated flag); oracle: real evaluate on original and negation over all/sampled in-bounds assignments."),
        note="Defect D1 was found by this check on the pinned tree and repaired; defect F05b (negation of a proposition fixed by its own variable kept the constant) was found in session 5 when outputs of assume() entered the stream, and repaired (known_findings.json, corpus/C05). Since the repair the complement is a theorem for models with fixed nodes anywhere (negate_compl_fx).",
        technique="Lean 4 theorem (mutual structural induction over the inward push) + per-run model/code differential correspondence",
        ref="§4 C05"),
    "C06": dict(
        text=("Theorems (Props/C06.lean): evalB_sound — for every tree and every interpretation (partial, interval-valued, naming "
              "sub-proposition ids), the returned bounds contain the node's value under every completion inside the given "
              "intervals / declared bounds; const_never_contradicted; evalB_mono; eqBounds_enclose + eqBounds_attained — the "
              "reported equation bounds are exactly the attainable range of s*sum - v over the children's boxes (explicit "
              "witnesses); tautology_iff / contradiction_iff. Tie: evaluate_propositions and the per-node flags are compared "
              "with the model; oracle: enumeration of completions and of children's boxes."),
        note="One level of the tree per theorem application (the recursion is that of assume); evaluate is called on deep copies (F-C09a).",
        technique="Lean 4 theorem (interval-arithmetic soundness by mutual induction; exactness with explicit witnesses) + differential correspondence",
        ref="§4 C06"),
    "C07": dict(
        text=("Theorem (Props/C07.lean), about assume() as repaired by the fix: commit for defect D6: assume_evaluate — for any "
              "assumption A (leaves and sub-proposition ids, constants or ranges) and any further interpretation I of leaves A "
              "left open (inside declared bounds), evaluate(I) of assume(A) equals evaluate(A u I) of the original; proved "
              "through the pruning and re-sorting assume performs (stored_sums), using monotonicity and well-formedness of "
              "computed intervals; assume_bounds_contain. Tie: assume() output compared structurally with the model; oracle: "
              "assume-then-evaluate vs evaluate-on-union on the real code, and completions against assumed bounds."),
        note="The hypothesis 'I stays inside declared bounds' is forced by the proof (DESIGN §4 C07). Defect D6 found by this check and repaired.",
        technique="Lean 4 theorem (mutual induction, permutation invariance, monotonicity) + differential correspondence",
        ref="§4 C07"),
    "C08": dict(
        text=("Theorems (Props/C08.lean): reduce_preserves_evaluate — for every tree and every interpretation of the still-free "
              "leaves (inside declared bounds, no sub-proposition id named) the reduced model evaluates like the unreduced one "
              "(constants folded into the threshold: const_split; decided nodes stay decided: monotonicity); reduce_no_const — "
              "the result is a single constant or contains no variable/sub-proposition with constant bounds. Tie: reduce() "
              "output compared structurally; oracle: evaluation of reduced vs unreduced on interpretations of the free leaves "
              "and a scan for surviving constants."),
        note="Models are fixed by declared constant leaves and by a preceding real assume().",
        technique="Lean 4 theorem (mutual induction; reduce's bounds = evaluation on the empty interpretation) + differential correspondence",
        ref="§4 C08"),
    "C09": dict(
        text=("Model (Model/Hist.lean): a heap of immutable values, step = (heap unchanged, result = pure function of the "
              "receiver's value). Theorems (Props/C09.lean): step_heap, run_history_free, same_as_fresh (results of any history "
              "equal the calls on freshly built objects), leaky_others / leaky_pure_calls / leak_none (the one known impurity, "
              "modelled by stepLeaky, touches only the receiver, only through assume/evaluate/evaluate_propositions, and only "
              "when the dictionary names a sub-proposition id). These are true by construction in the model; the assurance "
              "comes from the correspondence: real objects are driven through seeded histories (incl. hash-/eq-equal twin "
              "configurators) and after every call the result is compared with the model's pure function of the receiver's "
              "current snapshot and with a freshly built identical object, and every live object is snapshotted."),
        note="Known finding F-C09a (listed in known_findings.json) is reported as KNOWN-FINDING and matched exactly against the model's leak(); F-C09b was found by this check and repaired. Calls without a Lean model (errors, to_json, to_b64, solve, select, leafs) are judged by fresh-object comparison and snapshots only.",
        technique="Lean 4 theorem over a heap/step model (thin) + history-driven differential correspondence with structural snapshots",
        ref="§4 C09"),
    "C13": dict(
        text=("Theorems (Props/C13.lean). About `shadow` in its key form shadowSpec (key of a column = row of its last non-zero "
              "entry, then magnitude; weights = bit allocation over the sorted keys): shadow_clauses — for every array and every "
              "column: zero kept, sign of the last non-zero entry kept, magnitude a function of the key (equal priorities, equal "
              "weights), magnitude >= 1, strictly smaller key => strictly smaller magnitude (weight_strict_mono; later rows above "
              "earlier rows, then magnitude), and magnitude = 1 + the sum of the magnitudes of ALL columns ranked strictly below "
              "(weight_dominates, shadow_strictly_dominates) — by an invariant of the allocation along any sorted key list "
              "(Lemmas/Shadow.lean: table_weight, insertion sort is a sorted permutation). About `prio` in key form (prioSpec): "
              "rank_strict_mono, rank_dense, rank_pos, rank_le_distinct — the rank is a function of the key, strictly smaller key "
              "=> strictly smaller rank, rank = 1 + number of distinct keys strictly below (dense, at most the number of distinct "
              "keys); `rank` is compared as ranking(prioSpec), and ranking itself is an order-preserving dense ranking "
              "(ranking_strict_mono, ranking_eq_iff, ranking_dense); the selection methods: firstNZ_spec / lastNZ_spec (first / "
              "last non-zero entry, 0 for a column of zeros), minNZ_spec (smallest non-zero entry), lmax_spec (largest entry), "
              "compress0_selection. About the integer bit allocation "
              "that puan-rspy computes: oba_pos, oba_equal, oba_dominates, oba_mono. Tie: ndint_compress compared, for shadow, "
              "BOTH with the model that mirrors the code's plumbing (shadow2d / prio2d) and with the key forms shadowSpec / prioSpec, on 1-D, 2-D (both axes) and 3-D "
              "batches incl. all-zero and fully overridden rows; py_optimized_bit_allocation_64 compared with oba; prio / rank / "
              "first / last / min / max compared with the model; oracle: the statement's clauses checked on the real output per "
              "2-D slice; thorough: every 3x3 array over {-1,0,1,2} and every 2x3 array over {-2..2} x 7 methods."),
        note="first / last / min / max, and the final `ranking` step of `rank`, have no theorem: they rest on the correspondence and the oracle. 64-bit overflow is outside the model (unbounded Int); generated sizes keep totals far below 2^63.",
        technique="Lean 4 theorem (invariant of the bit allocation over sorted keys, insertion-sort permutation) + differential correspondence against both the plumbing model and the key specification + clause-by-clause oracle",
        ref="§4 C13, §10"),
    "C10": dict(
        text=("Theorems (Props/C10.lean), about errors() as repaired by the fix: commits for defects D4 and D5: errors_nil_iff; "
              "single_bounds (an accepted model gives every id one pair of bounds), single_definition + sameDef_spec (every "
              "sub-proposition id one sign, value and child-id list), no_duplicate_child (no node lists a child twice; through "
              "the representative lemma for flatten()'s de-duplication); conversely shared_identical_accepted / "
              "distinct_ids_accepted — a model in which one id always means one and the same sub-proposition (shared objects, "
              "identical copies, or pairwise distinct ids) and no node lists a child twice passes both ambivalence checks and "
              "the duplicate-edge check (flatten()'s de-duplication leaves pairwise distinct ids, edges of distinct parents "
              "differ), hence is accepted when its id graph is acyclic; the cycle clause itself: cycle_detected / "
              "errors_nil_acyclic (the model's bounded search finds every circular reference — each round that does not end "
              "the search expands a node not expanded before, so entries + 1 rounds suffice — hence an accepted model has no "
              "id that reaches itself), tree_acyclic / tree_kids_nodup / tree_with_distinct_ids_accepted (a tree with pairwise "
              "distinct ids has no cycle and lists no child twice: accepted, no hypothesis left). Tie: errors() compared with the model (accept/"
              "reject and error kinds) on a valid stream and an adversarial stream (duplicated child, reused ids with "
              "different bounds/sign/value/children, equal-sum bounds, -1/-2 bounds, '-' in ids, leaf named like a compound, "
              "self reference, cycles, generated-id coincidences across parents, same-id nodes whose children swap bounds of equal sum); oracle: an independent validator implementing the statement on the snapshot."),
        note="The cycle clause (id graph with dict override) is a bounded search in the model; that the bound suffices and that trees with distinct ids are acyclic are theorems since session 4; that graphlib reports a cycle exactly when the model's search does is tied by the correspondence, not proved. Defects D4 and D5 were found by this check and repaired.",
        technique="Lean 4 theorem (list lemmas over the non-deduplicating walk) + differential correspondence on adversarial models + independent validator",
        ref="§4 C10"),
    "C11": dict(
        text=("Theorems (Props/C11.lean, positional model of ge_polyhedron): redRows_sound (reported rows hold at every in-box "
              "point); redCols_forced (a column reported with a value takes it in every in-box solution, value within bounds; "
              "via C12); reduce_sound + reduce_complete + empty_stays_empty (for masks satisfying Cert — forced columns within "
              "bounds, removed rows implied — the reduced polyhedron's solutions are exactly the projections of the original "
              "ones, with merge as inverse); rrc_cert: the fixpoint loop of reducable_rows_and_columns (any fuel) returns masks "
              "satisfying Cert, proved by a loop invariant through the scatter/keep composition lemmas; reduce_shape. Tie: "
              "reducable_rows, reducable_columns_approx, reducable_rows_and_columns and reduce compared with the model on "
              "seeded matrices; oracle: full enumeration of the box; variables/index of the result checked against its shape."),
        note="Hypotheses: declared bounds within the default int16 range (the code masks with those constants), matrix rows as long as the column list. float64 floor division assumed exact on generated magnitudes. The literal reading of 'reported rows hold at every in-box point' is applied to reducable_rows() (DESIGN §4 C11).",
        technique="Lean 4 theorem (list induction, loop invariant over the fixpoint iteration) + differential correspondence + enumeration oracle",
        ref="§4 C11"),
    "C12": dict(
        text=("Theorems (Props/C12.lean): tightenCol_sound — every in-box integer solution lies within the tightened bounds of "
              "each column (floor division with positive and negative divisors); tightenCol_within — never wider than declared; "
              "crossed_infeasible; tighten_get (the vector is tightenCol column by column); rowBounds_enclose + "
              "rowBounds_attained — reported row bounds are exactly min and max of row.x - b over the box (explicit witnesses); "
              "nRowComb_card — the per-row combination count is the length of a duplicate-free list of exactly the restrictions of "
              "the in-box points to the row's non-zero columns (Lemmas/Comb.lean); aMinMax_entry, aMin_row_sum, aMax_row_sum — "
              "A_min / A_max bound every term c*x entry by entry and sum to the quantities reducable_rows / tightening use. "
              "Tie: tighten_column_bounds, row_bounds, column_bounds, A_min, A_max, n_row_combinations compared with the model; "
              "oracle: full enumeration of the box incl. the per-row combination counts and the extreme terms."),
        note="At least one row and column; bounds within int16 range; float64 floor division assumed exact on generated magnitudes.",
        technique="Lean 4 theorem (Int.ediv lemmas, list induction) + differential correspondence + enumeration oracle",
        ref="§4 C12"),
    "C14": dict(
        text=("Theorems (Props/C14.lean): lex_of_dominance / lex_of_cert — for an objective whose absolute weights pass the "
              "decidable dominance certificate (non-negative, equal inside a level, each strictly larger than the sum of all "
              "weights of lower levels), and any two 0/1 configurations, the sign of the objective difference is the sign of "
              "the level-sum difference at the highest level where they differ; equal_of_no_difference; shadow_objective_dominates / "
              "configurator_objective_lex — for EVERY priority input the objective in key form (C13's shadowSpec over [default "
              "priorities, user priorities]; key = (row, magnitude)) passes that certificate, hence ranks any two 0/1 "
              "configurations by user priority magnitude, then the non-default branch, then every other column (level_order); lex_by_level_sums / totAbove_zero_of_levels — the ranking stated in level sums only (configurations whose level sums agree at every level above l are ranked by their sums at l); optimal_lex_maximal / configurator_optimal_lex / top_priority_followed — the statement's 'hence': a configuration optimal against a feasible y is at least as good as y at the highest level where they differ, so the top-priority item is taken (avoided) whenever y shows it can be, with user levels tied no more non-default helpers are on, with those tied no more columns are selected; "
              "evalPt_mkCcAny / evalPt_mkCcXor — the default restructuring never changes what a rule means: cc.Any is true iff at "
              "least one, cc.Xor iff exactly one alternative is true, whatever the default (defaults enter the objective only, not "
              "the feasible set); ccAny_truth / ccXor_truth / stingy_truth — the same over constructor expressions (C04's build_truth "
              "for the arguments): cc.Any(...) / cc.Xor(...) / StingyConfigurator(...) hold iff at least one / exactly one / every "
              "argument holds; defaultPrios_sound_cover (every entry of default_prios is the id and tag of a sub-proposition and every id has an entry; of equal sub-propositions the first met decides, dedup_head) / defaultPrios_spec / ccAny_default_helper / ccXor_default_helper / ccAny_default_prio — default_prios has one entry per "
              "sub-proposition (its prio tag, else -1; flattened ids pairwise distinct), and a defaulted cc.Any holds its default "
              "item next to ONE helper tagged -2 that is true exactly when a non-default alternative is selected. Certificate tie: the "
              "Lean driver evaluates the certificate on every objective vector the real select() hands to the solver, with "
              "levels = user priority magnitudes above default magnitude 2 (non-default branch) above default magnitude 1. "
              "Equality ties: structure after the default restructuring (cc_build), default_prios, and the objective vector "
              "(shadow over [defaults, user priorities]) compared with the model — both with the plumbing model and with the key "
              "form the theorem is about. Oracle: pairs of feasible 0/1 configurations "
              "ranked lexicographically by the statement's levels vs the objective values."),
        note="Since session 3 the certificate is also a theorem about the key-form objective for all inputs; that the real objective equals the key form is tied per run (op objective: w and spec) and, independently, the certificate is still evaluated on the real vectors. Boolean items only.",
        technique="Lean 4 theorem (dominance => lexicographic order; the shadow weights over [defaults, user] dominate for every input) + decidable certificate evaluated on the implementation's output + differential correspondence",
        ref="§4 C14"),
    "C15": dict(
        text=("Theorems (Props/C15.lean): objective_entry / objective_length (entry at each column = weight given for that "
              "column's id, else 0), objectives_per_request (one vector per request, request k's vector a function of request k alone) / objective_unnamed_zero, zipKeep_mem / solve_keeps / select_keeps (returned vectors become id->value dictionaries "
              "over exactly the kept columns: solve omits generated helper variables unless asked, select keeps only leaf "
              "items with only_leafs), none_gives_empty, exact_solver_valid (with C02: a point of the asserted polyhedron of a "
              "solver-safe model satisfies the model). Tie: polyhedron, objective vectors and result dictionaries of solve() / "
              "select() compared with the model under four harness solvers (recorder with distinct values per column, exact "
              "brute force, None, raising); oracle: the statement's clauses incl. InfeasibleError mapping."),
        note="The built-in beta solver is never exercised (it does not terminate on some integer models); the solver is a parameter of the model.",
        technique="Lean 4 theorem (list lemmas + C02) + differential correspondence with scripted solvers",
        ref="§4 C15"),
    "C16": dict(
        text=("Model (Model/Json.lean): toJson for every class (incl. Imply's re-negated condition, Xor/XNor/cc.Any/cc.Xor/"
              "StingyConfigurator shapes) and toAst (the constructor call from_json makes, for the plog and the configurator "
              "class maps). Theorems (Props/C16.lean): frag_roundtrip — for the fragment variable / AtLeast with any legal sign "
              "and value / AtMost / Any / All / Xor / ExactlyOne, nested arbitrarily, from_json(to_json(t)) builds a model over the "
              "same leaf variables with the same bounds (multiset of occurrences, leafList) that evaluates like t on every "
              "assignment (sgnOf_signJ: the sign written only when it differs from the default reads "
              "back as the sign; All re-derives its value from the number of distinct children, which needs the children to "
              "stay pairwise distinct after the round trip — DistinctRT, the hypothesis that fails exactly on known finding "
              "F16f; Xor is rebuilt from the propositions of one half); fragN_roundtrip — the same fragment plus Imply and XNor "
              "nodes (hence every model Not(...) / negate produce): from_json(to_json(t)) evaluates like t on every assignment "
              "inside the leaf bounds; its core is nrt_node: the JSON written for the negation of a held condition (toJsonNeg, "
              "mirroring negate's case analysis: no atoms / grouped non-negative atoms / wrapped boolean atoms / not pushed) "
              "reads back as the complement, for nodes of any class; build_roundtrip — the same for what the constructors build "
              "(every constructor expression over the plog classes, RTExpr, builds a model of the fragment: closure of the "
              "fragment under negate plus the shape each constructor produces); ccXor_items_roundtrip / ccAny_items_roundtrip "
              "— a defaulted cc.Xor / cc.Any over items, through the configurator's class map, is read back as the same class "
              "over the same items with the same default and evaluates identically (and stays Good); all theorems of the file are "
              "stated for both class maps (cfg: plog's and the configurator's, which reads every Xor as cc.Xor); "
              "configurator_roundtrip — StingyConfigurator(*rules) is written as a StingyConfigurator node, read back as one, and "
              "holds on the same in-bounds assignments, for rules that are constructor expressions over the plog classes and "
              "defaulted cc.Xor / cc.Any whose alternatives are again such expressions, nested arbitrarily (CcXorRule / CcAnyRule are "
              "members of the fragment: fragN_mkCcXor_items, fragN_mkCcAny_items, rtn_ccXor, rtn_ccAny on ccXor_roundtrip_gen / "
              "ccAny_roundtrip_gen; build_untagged: no constructor tags what it returns; e.g. a defaulted choice below an Imply "
              "below the configurator, a choice below a choice); items_configurator_exact — a StingyConfigurator over defaulted cc.Xor / cc.Any "
              "rules over items (ids pairwise distinct) is read back as the very same model, hence with the same default priorities, "
              "polyhedron, columns and JSON (ccAny_items_exact, ccXor_items_exact, stingy_exact); everyday_configurator_exact — the same for configurators whose rules are defaulted choices over items, plain Any / All / AtMost / AtLeast rules over items (plainItemRule_rtx; for a generated id the sign passed the way to_json writes it — otherwise F16f) and conditionals Imply(item, item-or-such-a-rule) (imply_item_rtx: the held negated condition All(item).negate() is written as AtLeast(1,[item]) and negated again on reading — the same node, generated id included); defaults_kept — whenever the configurator's class map "
              "reads back what a cc.Any / cc.Xor node wrote, the model it builds carries the same default; evaluation and "
              "default priorities of the configurator classes are tied by correspondence + oracle only; "
              "id_written_iff — for every class an explicitly given id is written and a generated one is not. Tie: to_json "
              "(through json.dumps/loads) and from_json compared with the model for every class incl. configurators; oracle: "
              "leaves and bounds, evaluation on assignments, explicit ids kept, no id emitted for generated ones, defaults and "
              "default priorities on named ids."),
        note="PARTIAL at the theorem level: for configurators with rules other than defaulted choices, plain rules and item-conditioned implications over items (everyday_configurator_exact), default priorities and the polyhedron after the round trip are covered by the correspondence and the oracle, not by a theorem; the theorems keep the hypotheses DistinctRT (All / StingyConfigurator, fails exactly on F16f) and two inequalities of generated ids (Imply / XNor). Findings F16a-F16e were found by this check and repaired (five fix: commits). KNOWN FINDING F16g (session 5, not repaired): a defaulted cc.Xor written through its negation (Imply condition, Not) has the generated id of its rebuilt 'at least one' half emitted by to_json. KNOWN FINDING F16f (not repaired, known_findings.json): siblings that differ only in the sign argument as passed get different generated ids but equal JSON, collapse after the round trip and change the value of an enclosing All — found while extending the theorem to All; the check prints KNOWN-FINDING for it and still reports every other round-trip failure.",
        technique="Lean 4 theorem (mutual induction over the fragment) + differential correspondence (both directions) + round-trip oracle",
        ref="§4 C16"),
    "C17": dict(
        text=("Theorems (Props/C17.lean): unpack_pack, b64_roundtrip (under the assumption that pickle∘gzip∘base64 round-trips, "
              "unpacking the packed payload gives the same matrix, default priority vector, variables, index and dtype), "
              "order_matters (the payload's field order is the constructor's argument order), b64_roundtrip_prop. Thin by "
              "nature. Tie: the real payload is decoded with pickle in the harness and compared field by field, in order, with "
              "the model's pack; real round trips compared through full structural snapshots (text form, classes, ids, bounds, "
              "generated-id flags, defaults, priorities; matrix, variables, index, default priority vector, dtype) and queries "
              "(evaluate; select with a recorder and an exact solver)."),
        note="pickle / gzip / base64 are assumed, not proved; the assurance is the correspondence.",
        technique="Lean 4 theorem (thin, codec as a parameter) + field-by-field payload correspondence + round-trip snapshots",
        ref="§4 C17"),
    "C18": dict(
        text=("Theorems (Props/C18.lean): add_eq_mk (add returns the configurator built from the current rules followed by the new "
              "one under the same id), add_keeps_id, add_refuses / add_accepts (refusal exactly when the rule's id names a "
              "top-level rule or item), addAll_kids (any sequence of additions ends in the id-sorted union of old and new "
              "rules, i.e. the directly constructed configurator; via uniqueness of sorted arrangements for distinct ids), "
              "add_semantics (the extended configurator holds exactly when the old rules and the new rule hold). "
              "Tie: add() output compared structurally with the model; oracle: add vs direct construction observed through "
              "structure, default prios, polyhedron + default priority vector, objectives and solutions with a recorder and "
              "an exact solver; original snapshotted after every add."),
        note="Refusal concerns top-level ids only (a nested leaf id is accepted), as the statement says.",
        technique="Lean 4 theorem (sorted-permutation uniqueness) + differential correspondence + observational comparison",
        ref="§4 C18"),
    "C19": dict(
        text=("Theorems (Props/C19.lean): satisfied_spec (all rows hold), separable_spec and separable_eq_not_satisfied (the "
              "negation), ineqSep_spec (per row: some point of the group violates it), shapes (vector -> scalar, matrix -> "
              "vector, stack -> matrix; one entry per row for ineq_separate_points). Near-definitional in the model; the "
              "assurance comes from the tie: ineqs_satisfied / separable / ineq_separate_points compared with the model on "
              "seeded matrices x points of ndim 1, 2, 3 including nesting shape and scalar-vs-array; oracle: A x >= b with "
              "Python ints."),
        note="Thin theorems (List.all/any specifications); most of the assurance is the correspondence.",
        technique="Lean 4 theorem (List.all/any specs) + differential correspondence incl. output shapes",
        ref="§4 C19"),
    "C20": dict(
        text=("Theorems (Props/C20.lean): construct_get + entry_spec (given value at the id's column, else the declared default: "
              "callable / lower bound / NaN; unknown ids never looked up), fromListBool_get, fromListInt_get + idxOf_first "
              "(1-based first position), toList_mem, const_column_is_integer, varIndices_partition + varIndices_range (bool/int index sets partition "
              "the columns by bounds = (0,1)), splitRow_spec. Tie: construct (all dtype/default combinations), both "
              "from_list's (flat and nested), to_list, the index properties and A/b of a polyhedron compared with the model "
              "on variable lists with ascii/unicode/int/tuple ids."),
        note="Ids are carried as canonical text; tuple ids are not used inside boolean from_list's `lst` (a tuple in first position is the documented nested-group form). Thin theorems; most of the assurance is the correspondence.",
        technique="Lean 4 theorem (list lemmas) + differential correspondence",
        ref="§4 C20"),
    "C03": dict(
        text=("Theorems (Props/C03.lean): on every interpretation fixing all leaves, interval evaluation returns exactly the "
              "point value of the arithmetic truth function with the two override rules (evaluate_total), which is the plain "
              "truth function when nothing is overridden (evaluate_total_plain), for the node and its children. Proved for all "
              "trees/depths/signs/values/Int bounds. Tie: the model's evaluate / evaluate_propositions are run against the real "
              "ones on seeded random validated models with all three value forms; an independent recursive evaluator is the "
              "failing-input oracle."),
        note="Models restricted to validated, reference-free ones; evaluate is called on deep copies (known finding F-C09a). " ,
        technique="Lean 4 theorem (mutual structural induction) + per-run model/code differential correspondence",
        ref="§4 C03"),
}

def main():
    checks = []
    for pid, c in CHECKS.items():
        checks.append({
            "property_id": pid,
            "quick_cmd": f"./check {pid} --tier quick",
            "thorough_cmd": f"./check {pid} --tier thorough",
            "evidence_file": f"evidence/{pid}.json",
            "replay_cmd_template": f"./check {pid} --replay {{path}}",
            "engine": "lean-model+correspondence",
            "level_claimed": {"category": "proof", "text": c["text"], "design_ref": c["ref"]},
            "level_note": c["note"] + " " + COMMON_NOTE,
            "technique": c["technique"],
        })
    na = [{"property_id": p, "reason": "not claimed yet: model/theorems/correspondence for this property are still under construction (see DESIGN.md §9); nothing about the technique makes it inapplicable"}
          for p in ALL if p not in CHECKS]
    m = {
        "version": 1,
        "setup_cmd": "cd lean && lake build",
        "hooks": {
            "guard": "PUAN_VERIF",
            "enable": "no hooks: every check observes public API results and structural snapshots from outside; PUAN_VERIF is reserved and unused",
            "baseline_off_cmd": "cd /repo && /venv/bin/python -m pytest -ra -q -p no:cacheprovider --timeout=900 --continue-on-collection-errors",
            "source_commits": [],
            "add_only": True,
        },
        "engines": [{"name": "lean-model+correspondence", "path": "lean/ + harness/",
                     "serves_properties": sorted(CHECKS),
                     "kind_free_text": "hand-written executable Lean 4 model with machine-checked theorems; Python harness runs the real code and the model's driver on the same seeded inputs and diffs canonicalised outputs; brute-force oracles search for a failing input"}],
        "checks": checks,
        "not_applicable": na,
        "notes": "All checks: ./check <id> [--tier quick|thorough] [--replay file]; VERIF_SEED / VERIF_TIER honoured; exit 2 = harness error/timeout (never a verdict).",
    }
    json.dump(m, open(os.path.join(HERE, "MANIFEST.json"), "w"), indent=1)
    print(f"wrote MANIFEST.json: {len(checks)} checks, {len(na)} not_applicable")

main()
