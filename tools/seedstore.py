#!/usr/bin/env python3
"""tools/seedstore.py <seed-id> <round-note> <check>=<how it is caught> [...] — writes seeded/<id>/meta.json from the agent's
meta (meta.agent.json) and the confirmation run (result.json) that tools/seedtest.sh left there."""
import json, sys, os
sid, note = sys.argv[1], sys.argv[2]
d = f"/verif/seeded/{sid}"
ag = json.load(open(f"{d}/meta.agent.json"))
res = json.load(open(f"{d}/result.json"))
caught = dict(x.split("=", 1) for x in sys.argv[3:])
m = {"id": sid, "property": sid.split("-")[0], "summary": ag.get("summary", "")[:1000],
     "needs_to_manifest": (ag.get("needs") or ag.get("needs_to_manifest") or "")[:1000],
     "confirmed": {"demo_exit_on_unchanged_tree": res["demo_clean_exit"], "demo_exit_with_change": res["demo_seeded_exit"],
                   "suite_with_change": res["suite"].strip()},
     "ran": [f"tools/seedtest.sh {sid} <worktree> " + " ".join(caught)],
     "caught_by": caught,
     "origin": f"independent sub-agent ({note}) given only the property text and a scratch worktree"}
json.dump(m, open(f"{d}/meta.json", "w"), indent=1)
print("stored", sid, m["confirmed"])
