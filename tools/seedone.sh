#!/bin/bash
# tools/seedone.sh <seed-id> [seed…] — applies one stored seeded change to /repo, runs the quick check of its property with
# each given VERIF seed, undoes the change.
cd /verif
id=$1; shift
if ! git -C /repo diff --quiet; then echo "/repo is dirty, abort"; exit 2; fi
prop=$(python3 -c "import json;print(json.load(open('seeded/$id/meta.json'))['property'])")
git -C /repo apply /verif/seeded/$id/patch.diff || exit 2
for s in ${@:-0}; do
  VERIF_LINECOV=0 VERIF_TIMEOUT=900 ./check $prop --tier quick --seed $s 2>/dev/null | grep -E "VIOLATION|tier=" | tr '\n' ' '; echo
done
git -C /repo checkout -- .
