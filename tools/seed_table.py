#!/usr/bin/env python3
"""Regenerates the seeded-change table of DESIGN.md (between the SEEDED-TABLE markers) from seeded/*/meta.json."""
import json, glob, re, os
root = os.path.dirname(os.path.dirname(os.path.abspath(__file__)))
rows = []
for d in sorted(glob.glob(os.path.join(root, "seeded", "*"))):
    try:
        m = json.load(open(os.path.join(d, "meta.json")))
    except Exception:
        continue
    def short(s, n):
        s = " ".join(str(s).split())
        return (s[:n - 1] + "…") if len(s) > n else s
    caught = "; ".join(f"**{k}**: {short(v, 200)}" for k, v in m.get("caught_by", {}).items())
    rows.append(f"| {m['id']} | {m['property']} | {short(m.get('summary', ''), 240)} | {short(m.get('needs_to_manifest', ''), 200)} | {caught} |")
table = "| id | property | change | needs, to manifest | outcome of the checks run against it |\n|---|---|---|---|---|\n" + "\n".join(rows)
p = os.path.join(root, "DESIGN.md")
s = open(p).read()
s2 = re.sub(r"(<!-- SEEDED-TABLE-BEGIN -->\n).*?(\n<!-- SEEDED-TABLE-END -->)", lambda mm: mm.group(1) + table + mm.group(2), s, flags=re.S)
open(p, "w").write(s2)
print(f"{len(rows)} seeded changes in the table")
