#!/usr/bin/env python3
"""Runs the repository suite (guard off) and compares with /root/.vp/BASELINE.json stable_pass."""
import json, subprocess, sys, tempfile, os, shutil, xml.etree.ElementTree as ET
repo = sys.argv[1] if len(sys.argv) > 1 else "/repo"
base = json.load(open("/root/.vp/BASELINE.json"))
out = tempfile.mktemp(suffix=".xml")
shutil.rmtree(os.path.join(repo, ".hypothesis"), ignore_errors=True)
p = subprocess.run(["/venv/bin/python", "-m", "pytest", "-ra", "-q", "-p", "no:cacheprovider", "--timeout=900",
                    "--continue-on-collection-errors", f"--junitxml={out}"], cwd=repo, capture_output=True, text=True,
                   env={**os.environ, "PYTHONPATH": repo})
shutil.rmtree(os.path.join(repo, ".hypothesis"), ignore_errors=True)
passed, failed = set(), set()
for tc in ET.parse(out).getroot().iter("testcase"):
    name = f"{tc.get('classname')}::{tc.get('name')}"
    bad = any(c.tag in ("failure", "error") for c in tc)
    skipped = any(c.tag == "skipped" for c in tc)
    (failed if bad else passed).add(name) if not skipped else None
os.unlink(out)
missing = [t for t in base["stable_pass"] if t not in passed]
print(f"passed={len(passed)} failed={len(failed)} baseline_missing={len(missing)}")
for m in missing:
    print("  MISSING", m)
new_fail = sorted(failed - set(base["always_fail"]))
for f in new_fail:
    print("  NEW-FAIL", f)
sys.exit(1 if missing else 0)
