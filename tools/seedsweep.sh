#!/bin/bash
# tools/seedsweep.sh [seed] — applies every stored seeded change to /repo in turn, runs the quick check of the property
# it targets, and undoes it; prints one line per change (detected / MISSED, failures, disagreements).
# Regression test of the checks' detection power after generator changes.  Evidence files are rewritten by these runs:
# re-run the checks on the clean tree afterwards.
cd /verif
seed=${1:-0}
if ! git -C /repo diff --quiet; then echo "/repo is dirty, abort"; exit 2; fi
for d in seeded/*/; do
  id=$(basename $d)
  prop=$(python3 -c "import json;print(json.load(open('$d/meta.json'))['property'])")
  git -C /repo apply /verif/$d/patch.diff 2>/dev/null || { echo "$id: patch does not apply"; continue; }
  out=$(VERIF_LINECOV=0 VERIF_TIMEOUT=900 ./check $prop --tier quick --seed $seed 2>/dev/null | grep -E "VIOLATION|tier=" | tr '\n' ' ')
  git -C /repo checkout -- .
  if echo "$out" | grep -q "VIOLATION"; then
    nf=$(echo "$out" | sed 's/.*property_failures=\([0-9]*\).*/\1/'); nd=$(echo "$out" | sed 's/.*disagreements=\([0-9]*\).*/\1/')
    tag="detected"; echo "$out" | grep -q "no-failing-input-found" && tag="detected(no-failing-input)"
    echo "$id $prop $tag failures=$nf disagreements=$nd"
  else
    echo "$id $prop MISSED :: $out"
  fi
done
git -C /repo status --short | head -3
