#!/bin/bash
# tools/seedtest.sh <seed-id> <worktree> <check ids...>
# confirms a seeded change (demo passes on /repo, fails on the worktree, suite unchanged in the worktree),
# stores it under seeded/<seed-id>/, applies it to /repo, runs the given checks, and undoes it.
set -u
id=$1; wt=$2; shift 2
dst=/verif/seeded/$id
mkdir -p $dst
cp $wt/_seed/patch.diff $wt/_seed/demo.py $dst/ 2>/dev/null
cp $wt/_seed/meta.json $dst/meta.agent.json 2>/dev/null
cd /tmp
PYTHONPATH=/repo timeout 600 /venv/bin/python $dst/demo.py > $dst/demo_clean.out 2>&1; c=$?
PYTHONPATH=$wt timeout 600 /venv/bin/python $dst/demo.py > $dst/demo_seeded.out 2>&1; s=$?
echo "demo: clean exit=$c seeded exit=$s"
suite=$(python3 /verif/tools/baseline.py $wt 2>&1 | tail -3 | tr '\n' ' ')
echo "suite in worktree: $suite"
if ! git -C /repo diff --quiet; then echo "/repo is dirty, abort"; exit 2; fi
git -C /repo apply $dst/patch.diff || { echo "patch does not apply"; exit 2; }
res=""
for p in "$@"; do
  out=$(cd /verif && ./check $p --tier quick 2>/dev/null | grep -E "VIOLATION|KNOWN|tier=" | tr '\n' ' ')
  echo "check $p: $out"
  res="$res | $p: $out"
done
git -C /repo checkout -- .
git -C /repo status --short | head -3
C="$c" S="$s" SUITE="$suite" RES="$res" python3 -c 'import json,os,sys; json.dump({"demo_clean_exit": int(os.environ["C"]), "demo_seeded_exit": int(os.environ["S"]), "suite": os.environ["SUITE"], "checks": os.environ["RES"]}, open(sys.argv[1],"w"))' $dst/result.json
