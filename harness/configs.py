"""Configurators: seeded generator (ASTs), twins, recorder solver, snapshots."""
import copy
import numpy as np
from trees import *
from polys import *


def gen_configurator(rng, quick=True, int_leaf=False, nested=True, top_items=False, nest_p=0.3, fix_root_p=0.0, odd_items_p=0.0, multi_default_p=0.0):
    """AST of a StingyConfigurator over boolean items (optionally one integer item `t`)"""
    items = list("abcdefgh")[:rng.randint(3, 5 if quick else 7)]
    # item ids come in several shapes; some look like generated ids ("VAR…"), some contain blanks / dashes / non-ASCII
    style = rng.random()
    if style < 0.15:
        items = [rng.choice(["VAR-", "VARIANT_", "VAR"]) + x for x in items]
    elif style < 0.3:
        items = [rng.choice(["", "x ", "Ω", "item-"]) + x for x in items]
    elif style < 0.48:
        # ids that contain one another / sort differently as numbers and as strings
        pool = rng.choice([["1", "10", "11", "2", "21", "100", "110"], ["S", "L", "XL", "XXL", "XXXL", "XS", "XXS"],
                           ["A", "A1", "A12", "AA", "A123", "AB", "1A"]])
        items = rng.sample(pool, len(items))
    k = [0]
    def rid():
        k[0] += 1
        return f"R{k[0]}"
    # how the items are handed over: id strings, plain variable objects, or instances of a variable subclass
    form = rng.choice(["str", "str", "str", "var", "sub"])
    odd = {}
    if odd_items_p and rng.random() < odd_items_p:
        # one item declared (wherever it occurs) as a variable object with bounds of its own: fixed, excluded, integer-valued
        odd[rng.choice(items)] = rng.choice([(1, 1), (0, 0), (0, 3), (1, 2), (1, 1)])
    def item(i):
        if i in odd: return {"c": "var", "id": i, "lo": odd[i][0], "hi": odd[i][1]}
        if form == "str": return {"c": "str", "id": i}
        if form == "var": return {"c": "var", "id": i, "lo": 0, "hi": 1}
        return {"c": "var", "id": i, "lo": 0, "hi": 1, "$sub": True}
    def leaf():
        return item(rng.choice(items))
    def group(n):
        ids = rng.sample(items, min(n, len(items)))
        return [item(i) for i in ids]
    def rule(depth, kinds=("ccAny", "ccXor", "ccAnyD", "ccXorD", "AtMost", "All", "Any", "Imply", "Xor", "ExactlyOne", "XNor", "AtLeast")):
        kind = rng.choice(kinds)
        a = {}
        if rng.random() < 0.7: a["id"] = rid()
        if kind in ("ccAny", "ccXor", "ccAnyD", "ccXorD"):
            args = group(rng.randint(2, 4) if kind.endswith("D") and multi_default_p else rng.randint(2, 3))
            if nested and depth > 0 and rng.random() < nest_p:
                # choices nested in choices — half of the time a defaulted choice below a (defaulted) choice
                args.append(rule(depth - 1, ("ccAnyD", "ccXorD")) if rng.random() < 0.5 else rule(depth - 1))
            if nested and depth > 0 and rng.random() < 0.12:
                # a choice between exactly two alternatives of which at least one is a rule of its own (an item or a whole
                # sub-rule; two sub-rules) — with a default that names the item, names nothing that is there, or without one
                plain = ("AtMost", "All", "Any", "AtLeast")
                args = [rule(depth - 1, plain), rule(depth - 1, plain)] if rng.random() < 0.4 else group(1) + [rule(depth - 1, plain)]
            a.update(c=kind[:5], args=args)
            if kind.endswith("D") and not [x for x in args if x["c"] in ("str", "var")]:
                a["default"] = ["zz-none"]
            elif kind.endswith("D"):
                cands = [x["id"] for x in args if x["c"] in ("str", "var")]
                containing = [d for d in cands if any(o != d and o in d for o in cands)]
                # (when ids contain one another, mostly the longer one is the default)
                a["default"] = [rng.choice(containing) if containing and rng.random() < 0.7 else rng.choice(cands)]
                if multi_default_p and len(cands) >= 3 and rng.random() < multi_default_p:
                    # several defaults in the caller's order of preference (the first one is THE default), possibly with an
                    # entry that is no alternative at all
                    more = [c for c in cands if c != a["default"][0]]
                    a["default"] = a["default"] + rng.sample(more, rng.randint(1, len(more) - 1) if len(more) > 1 else 1)
                    if rng.random() < 0.2: a["default"].insert(rng.randint(1, len(a["default"])), "zz-none")
        elif kind == "AtMost":
            a.update(c="AtMost", v=rng.randint(1, 2), args=group(rng.randint(2, 3)))
        elif kind in ("All", "Any", "Xor", "ExactlyOne", "XNor"):
            args = group(rng.randint(1, 3))
            if nested and depth > 0 and rng.random() < 0.2:
                # a (defaulted) choice or another rule as one of the members of a plain connective, XNor included
                args.append(rule(depth - 1, ("ccAnyD", "ccXorD", "ccAnyD", "ccXorD", "AtMost", "Any")))
            a.update(c=kind, args=args)
        elif kind == "AtLeast":
            a.update(c="AtLeast", v=rng.randint(1, 2), args=group(rng.randint(2, 3)))
        else:
            cond = {"c": rng.choice(["All", "Any"]), "args": group(rng.randint(1, 2))}
            cons = rule(0) if nested and rng.random() < 0.5 else {"c": rng.choice(["All", "Any"]), "args": group(rng.randint(1, 2))}
            a.update(c="Imply", cond=cond, cons=cons)
        return a
    rules, seen = [], set()
    for _ in range(rng.randint(1, 3 if quick else 4)):
        r = rule(1)
        rules.append(r)
    if nested and rng.random() < 0.3:
        # one compound object used by two rules: as the only non-default alternative of a defaulted choice, and elsewhere
        shared = {"$k": 9000 + rng.randint(1, 999), "c": rng.choice(["All", "Any", "AtMost"]), "args": group(2)}
        if shared["c"] == "AtMost": shared["v"] = 1
        if rng.random() < 0.5: shared["id"] = rid()
        dflt_item = leaf()
        rules.append({"c": rng.choice(["ccAny", "ccXor"]), "args": [dflt_item, shared], "default": [dflt_item["id"]], **({"id": rid()} if rng.random() < 0.7 else {})})
        rules.append({"c": "Any", "args": [shared, {"c": "All", "args": group(2)}], **({"id": rid()} if rng.random() < 0.7 else {})})
    if nested and rng.random() < 0.08:
        # a defaulted choice whose non-default alternatives are exactly a group that another rule mentions as a plain "any of"
        # of its own (a separate, equal object): the generated non-default branch coincides with that sub-rule
        g3 = group(3)
        if len(g3) == 3:
            rules.append({"c": rng.choice(["ccAny", "ccXor"]), "args": g3, "default": [g3[2]["id"]], **({"id": rid()} if rng.random() < 0.7 else {})})
            other = {"c": "Any", "args": [dict(g3[0]), dict(g3[1])]}
            rules.append({"c": "Imply", "cond": {"c": "All", "args": group(1)}, "cons": other, **({"id": rid()} if rng.random() < 0.7 else {})}
                         if rng.random() < 0.6 else {"c": "Any", "args": [other, {"c": "All", "args": group(2)}], **({"id": rid()} if rng.random() < 0.7 else {})})
    if int_leaf:
        lo = rng.randint(0, 2)
        rules.append({"c": "AtLeast", "v": rng.randint(1, 3), "args": [{"c": "var", "id": "t", "lo": lo, "hi": lo + rng.randint(2, 4)},
                                                                      {"c": "str", "id": items[0]}], "id": rid(), "sign": 1})
    if top_items and rng.random() < 0.35:
        # items listed directly in the configurator: strings, variable objects (also fixed or integer-valued ones)
        for i in rng.sample(["p", "q", "n"], rng.randint(1, 2)):
            r = rng.random()
            if r < 0.3: rules.append({"c": "str", "id": i})
            elif r < 0.5: rules.append({"c": "var", "id": i, "lo": 0, "hi": 1, **({"$sub": True} if rng.random() < 0.4 else {})})
            elif r < 0.75: rules.append({"c": "var", "id": i, "lo": 1, "hi": 1})
            else: rules.append({"c": "var", "id": i, "lo": 0, "hi": rng.randint(2, 3)})
    cfg = {"c": "Stingy", "args": rules}
    if rng.random() < 0.8: cfg["id"] = "cfg"
    if fix_root_p and "id" in cfg and rng.random() < fix_root_p:
        cfg["$fix"] = rng.choice([1, 1, 0])        # the configurator's own variable given as variable(id, (c, c))
    return cfg


def valid_configurator(rng, quick=True, dup_top_p=0.0, **kw):
    for _ in range(200):
        a = gen_configurator(rng, quick, **kw)
        try:
            o = build(a)
        except Exception:
            continue
        t = snap(o)
        prios, classes = {}, {}
        for n in subs(t):
            if n["k"] == "node":
                prios.setdefault(n["id"], set()).add(n.get("prio"))
                classes.setdefault(n["id"], set()).add(n.get("cls"))
        if any(len(v) > 1 and len(classes[i]) > 1 for i, v in prios.items()):
            continue        # a generated id shared by a tagged and an untagged node of DIFFERENT classes: both stay in flatten()
                            # and which tag the dictionary keeps follows the set order (equal objects: the first met, modelled)
        if well_formed(t) and not o.errors() and (free01(t) or (kw.get("fix_root_p") and a.get("$fix") is not None)):
            if dup_top_p and rng.random() < dup_top_p:
                # the same item / the same rule object listed twice directly under an otherwise valid configurator (errors()
                # reports the repeated child; add() and the constructor accept such configurators all the same)
                a2 = copy.deepcopy(a)
                r = rng.choice(a2["args"])
                if r.get("c") not in ("str", "var") and "$k" not in r: r["$k"] = 8000 + rng.randint(1, 999)
                a2["args"].insert(rng.randint(0, len(a2["args"])), r if r.get("c") not in ("str", "var") else dict(r))
                try:
                    o2 = build(a2)
                    return a2, o2, snap(o2)
                except Exception:
                    pass
            return a, o, t
    raise RuntimeError("no valid configurator generated")


def twin_of(a):
    """same ids, integer leaf `t` with bounds (lo+1, hi-1): equal hash sum, different definition"""
    b = copy.deepcopy(a)
    def walk(x):
        if isinstance(x, dict):
            if x.get("c") == "var" and x.get("id") == "t":
                x["lo"] += 1; x["hi"] -= 1
            for v in x.values(): walk(v)
        elif isinstance(x, list):
            for v in x: walk(v)
    walk(b)
    return b


class Recorder:
    """solver callable that records what it is handed and answers a fixed script"""
    def __init__(self, answers=None):
        self.calls = []
        self.answers = answers
    def __call__(self, polyhedron, objectives):
        objs = [np.asarray(o).tolist() for o in objectives]
        self.calls.append((polyhedron, objs))
        if self.answers is not None:
            return self.answers(polyhedron, objs)
        return [(None, 0, 5) for _ in objs]


def config_poly_snap(g):
    rows, avars = poly_snap(g)
    dpv = [int(v) for v in np.asarray(g.default_prio_vector).tolist()]
    return {"rows": rows_json(rows), "vars": avars, "dpv": dpv}


def default_prios_of(t):
    """expected default prio dictionary from a snapshot: prio tag where present else -1 (sorted by id)"""
    out = {}
    for n in subs(t):
        # of several equal sub-propositions flatten() keeps the one it meets first (pre-order, children in id order)
        out.setdefault(n["id"], n["prio"] if n["k"] == "node" and n.get("prio") is not None else -1)
    return out
