"""
Shared machinery of every property check: build + audit of the Lean side, the line
protocol to the Lean driver, bookkeeping of cases / disagreements / property
failures, verdict, replay files and evidence.
"""
import os, sys, json, time, random, subprocess, fcntl, re, hashlib, traceback, collections, copy

VERIF = os.path.dirname(os.path.dirname(os.path.abspath(__file__)))
LEAN = os.path.join(VERIF, "lean")
REPO = os.environ.get("PUAN_SRC", "/repo")
ALLOWED_AXIOMS = {"propext", "Classical.choice", "Quot.sound"}
FORBIDDEN = re.compile(r"\bsorry\b|\badmit\b|^axiom |native_decide|bv_decide|implemented_by|\bunsafe |maxHeartbeats 0")

TRUSTED_BASE = [
    "Lean 4.33.0 kernel; axioms per theorem from `#print axioms` (allowed: propext, Classical.choice, Quot.sound)",
    "hand-written Lean model tied to /repo only by this run's correspondence (differential execution)",
    "Python harness: generators, canonicalisation, brute-force oracles",
    "CPython / NumPy semantics; puan-rspy wheel (outside /repo); no int64 overflow on generated sizes",
]


def import_puan():
    """import puan from the tree under check and assert that is what we got"""
    if REPO not in sys.path:
        sys.path.insert(0, REPO)
    import warnings
    warnings.filterwarnings("ignore")
    import puan
    got = os.path.realpath(os.path.dirname(os.path.dirname(puan.__file__)))
    if got != os.path.realpath(REPO):
        raise RuntimeError(f"puan imported from {got}, expected {REPO}")
    return puan


# --------------------------------------------------------------------------- Lean side

class LeanError(Exception):
    pass


def _lock():
    os.makedirs(os.path.join(LEAN, ".lake"), exist_ok=True)
    f = open(os.path.join(LEAN, ".lake", "verif.lock"), "w")
    fcntl.flock(f, fcntl.LOCK_EX)
    return f


def lean_build(targets):
    """lake build the given targets; returns (ok, output)"""
    lk = _lock()
    try:
        p = subprocess.run(["lake", "build"] + list(targets), cwd=LEAN, capture_output=True, text=True, timeout=3000)
        return p.returncode == 0, p.stdout + p.stderr
    finally:
        lk.close()


def strip_comments(src):
    src = re.sub(r"/-.*?-/", "", src, flags=re.S)
    return re.sub(r"--.*", "", src)


def lean_grep_forbidden():
    hits = []
    for root, _, files in os.walk(os.path.join(LEAN, "Puan")):
        for fn in files:
            if fn.endswith(".lean"):
                p = os.path.join(root, fn)
                for n, line in enumerate(strip_comments(open(p).read()).split("\n"), 1):
                    if FORBIDDEN.search(line):
                        hits.append(f"{os.path.relpath(p, LEAN)}:{n}: {line.strip()}")
    return hits


def prop_theorems(pid):
    """names of the theorems (and the number of `example`s) in Props/<pid>.lean"""
    path = os.path.join(LEAN, "Puan", "Props", f"{pid}.lean")
    src = strip_comments(open(path).read())
    ns = re.findall(r"^namespace\s+(\S+)", src, flags=re.M)
    prefix = (ns[0] + ".") if ns else ""
    names = [prefix + m for m in re.findall(r"^theorem\s+(\S+)", src, flags=re.M)]
    examples = len(re.findall(r"^example\b", src, flags=re.M))
    return names, examples


def lean_audit(pid):
    """`#print axioms` for every property theorem; returns dict name -> axioms list"""
    names, examples = prop_theorems(pid)
    body = f"import Puan.Props.{pid}\n" + "\n".join(f"#print axioms {n}" for n in names) + "\n"
    tmp = os.path.join(LEAN, ".lake", f"audit_{pid}_{os.getpid()}.lean")
    with open(tmp, "w") as f:
        f.write(body)
    try:
        p = subprocess.run(["lake", "env", "lean", tmp], cwd=LEAN, capture_output=True, text=True, timeout=1200)
    finally:
        os.unlink(tmp)
    out = p.stdout + p.stderr
    res = {}
    for m in re.finditer(r"'(\S+)' depends on axioms: \[([^\]]*)\]", out, flags=re.S):
        res[m.group(1)] = [a.strip() for a in m.group(2).replace("\n", " ").split(",") if a.strip()]
    for m in re.finditer(r"'(\S+)' does not depend on any axioms", out):
        res[m.group(1)] = []
    missing = [n for n in names if n not in res]
    return res, missing, examples, out if (p.returncode != 0 or missing) else ""


def driver_cmd():
    exe = os.path.join(LEAN, ".lake", "build", "bin", "driver")
    if os.path.exists(exe):
        return [exe]
    return ["lake", "env", "lean", "--run", "Driver.lean"]


def run_driver(ops, timeout=1800):
    """send ops (list of dicts) to the Lean driver; returns list of parsed answers"""
    if not ops:
        return []
    data = "\n".join(json.dumps(o, separators=(",", ":")) for o in ops) + "\n"
    p = subprocess.run(driver_cmd(), cwd=LEAN, input=data, capture_output=True, text=True, timeout=timeout)
    if p.returncode != 0:
        raise LeanError(f"driver exited {p.returncode}: {p.stderr[:2000]}")
    lines = [l for l in p.stdout.split("\n") if l.strip()]
    if len(lines) != len(ops):
        raise LeanError(f"driver answered {len(lines)} lines for {len(ops)} ops; stderr: {p.stderr[:1000]}")
    return [json.loads(l) for l in lines]


# --------------------------------------------------------------------------- line coverage of the anchored code

class LineCov:
    """Which lines of /repo/puan ran during the correspondence (sys.monitoring, each line reported once).
    Informational: it tells the reader which lines of a property's anchored ranges the tie never exercised."""

    def __init__(self):
        self.hit = collections.defaultdict(set)
        self.on = False
        self.root = os.path.realpath(os.path.join(REPO, "puan")) + os.sep

    def start(self):
        mon = getattr(sys, "monitoring", None)
        if mon is None:
            return
        try:
            self.tool = mon.COVERAGE_ID
            mon.use_tool_id(self.tool, "verif-linecov")
            mon.register_callback(self.tool, mon.events.LINE, self._line)
            mon.set_events(self.tool, mon.events.LINE)
            self.on = True
        except Exception:
            self.on = False

    def _line(self, code, line):
        fn = code.co_filename
        if fn.startswith(self.root):
            self.hit[fn[len(self.root):]].add(line)
        return sys.monitoring.DISABLE

    def stop(self):
        if self.on:
            sys.monitoring.set_events(self.tool, 0)
            sys.monitoring.free_tool_id(self.tool)
            self.on = False

    @staticmethod
    def executable_lines(path):
        """line numbers that carry code inside function bodies (module-level and class-level statements run at import)"""
        out = set()
        try:
            top = compile(open(path).read(), path, "exec")
        except Exception:
            return out
        def walk(co, infunc):
            for c in co.co_consts:
                if hasattr(c, "co_lines"):
                    isfn = not (c.co_name.startswith("<") and c.co_name not in ("<lambda>", "<listcomp>", "<genexpr>", "<dictcomp>", "<setcomp>"))
                    # a class body is a code object named after the class and run at import: detect via flags (no CO_OPTIMIZED)
                    optimized = bool(c.co_flags & 0x1)
                    if optimized:
                        first = c.co_firstlineno
                        for _, _, ln in c.co_lines():
                            if ln is not None and ln != first:
                                out.add(ln)
                    walk(c, optimized)
        walk(top, False)
        return out

    _maps = {}

    @classmethod
    def line_map(cls, rel):
        """old line (pinned tree the anchors were written for) -> line of the current working tree"""
        if rel in cls._maps:
            return cls._maps[rel]
        mp = None
        try:
            import difflib
            pin = open(os.path.join(VERIF, "tools", "pinned_commit")).read().strip()
            old = subprocess.run(["git", "-C", REPO, "show", f"{pin}:{rel}"], capture_output=True, text=True, timeout=60)
            if old.returncode == 0:
                a = old.stdout.split("\n")
                b = open(os.path.join(REPO, rel)).read().split("\n")
                mp = {}
                for tag, i1, i2, j1, j2 in difflib.SequenceMatcher(None, a, b, autojunk=False).get_opcodes():
                    if tag == "equal":
                        for k in range(i2 - i1):
                            mp[i1 + k + 1] = j1 + k + 1
        except Exception:
            mp = None
        cls._maps[rel] = mp
        return mp

    @classmethod
    def map_range(cls, rel, a, b):
        mp = cls.line_map(rel)
        if not mp:
            return a, b
        na = next((mp[x] for x in range(a, b + 1) if x in mp), None)
        nb = next((mp[x] for x in range(b, a - 1, -1) if x in mp), None)
        if na is None or nb is None:
            return a, b
        return na, nb

    def report(self, pid):
        """per anchored range of the property: executable lines, lines hit, lines missed"""
        if not self.on and not self.hit:
            return {"available": False}
        anchors = []
        try:
            for l in open(os.path.join(VERIF, "properties.jsonl")):
                pr = json.loads(l)
                if pr.get("id") == pid:
                    for mech in pr.get("anchors", {}).get("mechanism", []):
                        anchors.append(mech.get("where", ""))
        except Exception:
            pass
        res, tot_e, tot_h = [], 0, 0
        for where in anchors:
            for part in where.split(";"):
                part = part.strip()
                m = re.match(r"(\S+?):([\d,\-\s]+)$", part)
                if not m:
                    continue
                rel, ranges = m.group(1), m.group(2)
                full = os.path.join(REPO, rel)
                ex = self.executable_lines(full)
                key = rel[len("puan/"):] if rel.startswith("puan/") else rel
                hit = self.hit.get(key, set())
                for r in ranges.split(","):
                    r = r.strip()
                    if not r:
                        continue
                    a, _, b = r.partition("-")
                    a, b = int(a), int(b or a)
                    a, b = self.map_range(rel, a, b)
                    e = sorted(x for x in ex if a <= x <= b)
                    h = [x for x in e if x in hit]
                    tot_e += len(e); tot_h += len(h)
                    res.append({"where": f"{rel}:{r}", "now": f"{a}-{b}", "executable": len(e), "hit": len(h), "missed": [x for x in e if x not in hit]})
        return {"available": True, "anchored_executable_lines": tot_e, "anchored_lines_hit": tot_h, "ranges": res,
                "note": "`where` is the anchor as given (pinned tree); `now` is the same range mapped onto the working tree through a diff against the pinned commit; `missed` are working-tree line numbers"}


# --------------------------------------------------------------------------- bookkeeping

def canon(x):
    return json.dumps(x, sort_keys=True, separators=(",", ":"), default=str)


class Ctx:
    """what a property module sees"""

    def __init__(self, pid, tier, seed, search=False):
        self.pid, self.tier, self.seed, self.search = pid, tier, seed, search
        self.rng = random.Random(f"{pid}-{seed}-{'s' if search else 'm'}")
        self.quick = tier == "quick"
        self.evaluations = 0
        self.distinct = set()
        self.samples = []
        self.tags = collections.Counter()
        self.ops = []            # (op dict, expected answer, case input, label, normaliser of the model's answer)
        self.failures = []       # property failures on the real code
        self.known_hits = collections.OrderedDict()
        self.skipped = collections.Counter()
        self.cur = None
        self.exhaustive = False
        self.notes = []

    # a case = one generated input; nontrivial by the module's own rule
    def case(self, inp, nontrivial=True, tags=()):
        self.cur = inp
        self.evaluations += 1
        if nontrivial:
            self.distinct.add(hashlib.sha1(canon(inp).encode()).hexdigest())
        for t in tags:
            self.tags[t] += 1
        if isinstance(inp, dict) and isinstance(inp.get("ast"), dict) and inp["ast"].get("$twin"):
            self.tags["hash-colliding-twin-of-previous-model"] += 1
        if len(self.samples) < 3 and nontrivial and size_of(inp) < 6000:
            self.samples.append(inp)

    def op(self, op, expected, label=None, norm=None):
        """queue a correspondence op: the model must answer `expected` (the implementation's canonical output);
        `norm` canonicalises the model's answer first (e.g. row order)"""
        self.ops.append((op, expected, self.cur, label or op.get("op"), norm))

    def fail(self, kind, detail, known=None):
        """a property failure observed on the real code; `known` = id of a finding listed in
        known_findings.json whose class the module has matched — an id that is not listed there
        (status `finding`, same property) suppresses nothing"""
        listed = {e["id"]: e for e in load_known(self.pid)}
        if known is not None and known in listed:
            self.known_hits.setdefault(known, {"kind": kind, "input": self.cur, "detail": detail, "line": listed[known]["line"]})
        else:
            self.failures.append({"kind": kind, "input": self.cur, "detail": detail})

    def skip(self, why):
        self.skipped[why] += 1


class CallTimeout(Exception):
    pass


class time_limit:
    """`with time_limit(s):` — raises CallTimeout in the main thread when the body (a call into the code under check)
    does not return within s seconds; a call that never returns is reported with its input instead of hanging the check"""

    def __init__(self, seconds):
        self.seconds = seconds

    def __enter__(self):
        import signal
        def handler(signum, frame):
            raise CallTimeout(f"no result within {self.seconds} s")
        self.old = signal.signal(signal.SIGALRM, handler)
        signal.setitimer(signal.ITIMER_REAL, self.seconds, 0.5)     # repeats: a raise inside a frame called from C may be swallowed
        return self

    def __exit__(self, *exc):
        import signal
        signal.setitimer(signal.ITIMER_REAL, 0)
        signal.signal(signal.SIGALRM, self.old)
        return False


def load_known(pid):
    path = os.path.join(VERIF, "known_findings.json")
    if not os.path.exists(path):
        return []
    return [e for e in json.load(open(path)).get("findings", []) if e.get("property") == pid and e.get("status") == "finding"]


def size_of(x):
    return len(canon(x))


def run_check(pid, module, argv):
    """entry point used by ./check"""
    import argparse
    ap = argparse.ArgumentParser()
    ap.add_argument("--tier", default=os.environ.get("VERIF_TIER", "quick"), choices=["quick", "thorough"])
    ap.add_argument("--replay", default=None)
    ap.add_argument("--seed", type=int, default=int(os.environ.get("VERIF_SEED", "0")))
    ap.add_argument("--no-lean-build", action="store_true")
    a = ap.parse_args(argv)
    t0 = time.time()
    os.makedirs(os.path.join(VERIF, "evidence"), exist_ok=True)
    os.makedirs(os.path.join(VERIF, "replays"), exist_ok=True)
    ev_path = os.path.join(VERIF, "evidence", f"{pid}.json")

    # 1. proofs: build + audit
    proof_problems = []
    ok, out = lean_build([f"Puan.Props.{pid}", "driver"])
    if not ok:
        proof_problems.append({"kind": "proof", "what": f"lake build Puan.Props.{pid} driver failed", "lean": out[-3000:]})
    theorems, n_examples, axioms = [], 0, {}
    leanchecker = "not run (quick tier)"
    if ok:
        axioms, missing, n_examples, aout = lean_audit(pid)
        theorems = list(axioms.keys())
        for n in missing:
            proof_problems.append({"kind": "proof", "what": f"theorem {n} did not check", "lean": aout[-2000:]})
        for n, ax in axioms.items():
            bad = [x for x in ax if x not in ALLOWED_AXIOMS]
            if bad:
                proof_problems.append({"kind": "proof", "what": f"theorem {n} depends on axioms {bad}"})
        for h in lean_grep_forbidden():
            proof_problems.append({"kind": "proof", "what": f"forbidden token: {h}"})
        if a.tier == "thorough":
            # independent re-check of the compiled module (and everything it imports) by the toolchain's leanchecker
            lk = _lock()
            try:
                lc = subprocess.run(["lake", "env", "leanchecker", f"Puan.Props.{pid}"], cwd=LEAN, capture_output=True, text=True, timeout=1800)
            finally:
                lk.close()
            leanchecker = "ok" if lc.returncode == 0 else "rejected"
            if lc.returncode != 0:
                proof_problems.append({"kind": "proof", "what": f"leanchecker rejected Puan.Props.{pid}", "lean": (lc.stdout + lc.stderr)[-2000:]})
    obligations = len(prop_theorems(pid)[0]) + prop_theorems(pid)[1]
    discharged = 0 if [p_ for p_ in proof_problems if p_.get("kind") == "proof"] else obligations

    # 2. correspondence + oracle
    import_puan()
    lcov = LineCov()
    if os.environ.get("VERIF_LINECOV", "1") != "0":
        lcov.start()
    ctx = Ctx(pid, a.tier, a.seed)
    disagreements = []
    exercise_crash = None
    try:
        if a.replay:
            rp = json.load(open(a.replay))
            tw = rp["input"].get("ast", {}).get("$twin_of") if isinstance(rp["input"], dict) and isinstance(rp["input"].get("ast"), dict) else None
            if tw is not None:
                # a hash-colliding twin fails only after its original was handled in the same process: warm up, unjudged
                try:
                    module.do_case(Ctx(pid, a.tier, a.seed), {**rp["input"], "ast": tw})
                except Exception:
                    pass
            if isinstance(rp["input"], dict) and isinstance(rp["input"].get("prev"), dict):
                try:
                    module.do_case(Ctx(pid, a.tier, a.seed), rp["input"]["prev"])
                except Exception:
                    pass
            module.do_case(ctx, rp["input"])
            if not ctx.failures and rp.get("kind") == "property-failure":
                # the input alone does not fail: the failure depended on inputs handled earlier in the same process
                # (memoised state) — replay the whole seeded run the file came from
                print(f"replay: the recorded input alone does not fail; re-running the seeded run (tier={rp.get('tier')}, seed={rp.get('seed')})")
                ctx = Ctx(pid, rp.get("tier", a.tier), int(rp.get("seed", a.seed)))
                cdir = os.path.join(VERIF, "corpus", pid)
                if os.path.isdir(cdir):
                    for fn in sorted(os.listdir(cdir)):
                        if fn.endswith(".json"):
                            module.do_case(ctx, json.load(open(os.path.join(cdir, fn)))["input"])
                module.run(ctx)
        else:
            # corpus first: minimised past disagreements and witnesses of repaired defects
            cdir = os.path.join(VERIF, "corpus", pid)
            if os.path.isdir(cdir):
                for fn in sorted(os.listdir(cdir)):
                    if fn.endswith(".json"):
                        module.do_case(ctx, json.load(open(os.path.join(cdir, fn)))["input"])
                        ctx.tags["corpus"] += 1
            try:
                module.run(ctx)
            except (LeanError, subprocess.TimeoutExpired, KeyboardInterrupt, SystemExit):
                raise
            except Exception as e:
                # the harness could not finish exercising the code: on the unchanged tree this never happens (the run is
                # deterministic per seed), so the code under check now raises or returns something of another shape
                # where the harness relies on its documented behaviour — the correspondence can no longer be established
                exercise_crash = {"kind": "correspondence", "what": "exercising the code raised " + type(e).__name__ + ": " + str(e)[:300],
                                  "input": ctx.cur, "traceback": traceback.format_exc()[-2500:]}
        if ok:
            answers = run_driver([x[0] for x in ctx.ops])
            for (o, exp, inp, label, norm), ans in zip(ctx.ops, answers):
                if "err" in ans:
                    # the model driver cannot read the operation: on the unchanged tree this never happens (runs are
                    # deterministic), so what the code returned (and the harness passed on as part of the operation) has
                    # another shape now — a broken correspondence, not a harness fault
                    disagreements.append({"op": label, "input": inp, "request": o, "impl_output": exp,
                                          "model_output": {"driver-rejected-the-operation": ans}})
                    continue
                if norm is not None:
                    ans = norm(ans)
                if canon(ans) != canon(exp):
                    disagreements.append({"op": label, "input": inp, "request": o, "impl_output": exp, "model_output": ans})
    except LeanError as e:
        print(f"HARNESS-ERROR {e}", file=sys.stderr)
        sys.exit(2)
    except subprocess.TimeoutExpired as e:
        print(f"HARNESS-TIMEOUT {e}", file=sys.stderr)
        sys.exit(2)

    lcov.stop()
    if exercise_crash is not None:
        proof_problems.append(exercise_crash)
        print("  " + exercise_crash["what"], file=sys.stderr)

    # 3. failing-input search when the tie or a proof broke and the oracle saw nothing yet
    search_evals = 0
    if (disagreements or proof_problems) and not ctx.failures and not a.replay:
        for k in range(2):
            sctx = Ctx(pid, a.tier, a.seed * 1000 + k + 1, search=True)
            # the search steps over inputs on which the code under check raises (it may raise on one input shape only,
            # and return wrong answers on others): a raising case is counted and skipped
            orig_do_case = module.do_case
            raised = [0]
            def tolerant(c, inp, *aa, _orig=orig_do_case, **kk):
                try:
                    return _orig(c, inp, *aa, **kk)
                except (KeyboardInterrupt, SystemExit):
                    raise
                except Exception:
                    raised[0] += 1
                    c.tags["search-case-raised"] += 1
                    if raised[0] > 2000:
                        raise
            module.do_case = tolerant
            try:
                module.run(sctx)
            except (KeyboardInterrupt, SystemExit):
                raise
            except Exception:
                pass        # the search keeps whatever failures it saw before the code under check raised
            finally:
                module.do_case = orig_do_case
            search_evals += sctx.evaluations
            ctx.failures.extend(sctx.failures)
            if sctx.failures:
                break

    # 4. verdict
    lines, code = [], 0
    for kid, hit in ctx.known_hits.items():
        lines.append(f"KNOWN-FINDING: property={pid} {kid}: {hit['line']}")
    violations = 0
    if ctx.failures:
        f = min(ctx.failures, key=lambda f: size_of(f["input"]))
        path = os.path.join(VERIF, "replays", f"{pid}-{a.seed}.json")
        json.dump({"property": pid, "seed": a.seed, "tier": a.tier, "kind": "property-failure", "failure": f["kind"],
                   "input": f["input"], "oracle": f["detail"], "n_failures": len(ctx.failures),
                   "note": "the real code violates the property on this input"}, open(path, "w"), indent=1, default=str)
        lines.append(f"VIOLATION property={pid} replay={path}")
        violations = len(ctx.failures)
        code = 1
    elif disagreements or proof_problems:
        path = os.path.join(VERIF, "replays", f"{pid}-{a.seed}.json")
        first = min(disagreements, key=lambda d: size_of(d["input"])) if disagreements else None
        json.dump({"property": pid, "seed": a.seed, "tier": a.tier,
                   "kind": "correspondence" if disagreements else "proof",
                   "op": first["op"] if first else None,
                   "input": first["input"] if first else (exercise_crash["input"] if exercise_crash else None),
                   "impl_output": first["impl_output"] if first else None,
                   "model_output": first["model_output"] if first else None,
                   "n_disagreements": len(disagreements), "proof_problems": proof_problems,
                   "search": {"extra_cases": search_evals, "found": False},
                   "note": "the model/code correspondence (or a proof obligation) no longer checks; the property is no longer shown to hold"},
                  open(path, "w"), indent=1, default=str)
        lines.append(f"VIOLATION property={pid} replay={path} no-failing-input-found")
        violations = len(disagreements) + len(proof_problems)
        code = 1

    # 5. evidence
    cov = {
        "obligations": obligations, "discharged": discharged,
        "checker_cmd": f"cd lean && lake build Puan.Props.{pid} && lake env lean <#print axioms of every theorem in Puan/Props/{pid}.lean>",
        "trusted_base": TRUSTED_BASE + getattr(module, "TRUSTED", []),
        "theorems": {n: axioms.get(n, []) for n in theorems},
        "leanchecker": leanchecker,
        "examples_nonvacuity": n_examples,
        "evaluations": ctx.evaluations, "distinct_nontrivial": len(ctx.distinct),
        "rule": getattr(module, "RULE", ""),
        "samples": ctx.samples if ctx.samples else [ctx.cur],
        "correspondence_ops": len(ctx.ops), "disagreements": len(disagreements),
        "ops_by_kind": dict(collections.Counter(x[3] for x in ctx.ops)),
        "tags": dict(ctx.tags), "skipped": dict(ctx.skipped),
        "known_findings_hit": list(ctx.known_hits.keys()),
        "failure_kinds": dict(collections.Counter(f["kind"] for f in ctx.failures)),
        "disagreement_ops": dict(collections.Counter(d["op"] for d in disagreements)),
        "search_extra_cases": search_evals, "exhaustive": bool(ctx.exhaustive),
        "notes": ctx.notes,
        "anchor_line_coverage": lcov.report(pid),
    }
    evidence = {"property_id": pid, "tier": a.tier, "seed": a.seed, "level": "proof", "coverage": cov,
                "assumptions": getattr(module, "ASSUMPTIONS", []), "wall_s": round(time.time() - t0, 2),
                "violations": violations}
    json.dump(evidence, open(ev_path, "w"), indent=1, default=str)
    for l in lines:
        print(l)
    if ctx.failures or disagreements:
        print(f"  failure kinds: {dict(collections.Counter(f['kind'] for f in ctx.failures))}; "
              f"disagreeing ops: {dict(collections.Counter(d['op'] for d in disagreements))}")
    print(f"{pid} tier={a.tier} seed={a.seed}: theorems={len(theorems)}/{obligations - n_examples} examples={n_examples} "
          f"cases={ctx.evaluations} distinct={len(ctx.distinct)} ops={len(ctx.ops)} disagreements={len(disagreements)} "
          f"property_failures={len(ctx.failures)} known={len(ctx.known_hits)} wall={time.time() - t0:.1f}s")
    sys.exit(code)
