"""C11 — polyhedron reduction preserves the integer solution set."""
from mats import *
from core import time_limit, CallTimeout

RULE = ("seeded random integer matrices as for C12 (incl. infeasible systems, all columns forced, no rows left) and, for a quarter of the cases, "
        "implication chains over boolean columns with shuffled rows (one loop round of reducable_rows_and_columns per link); "
        "reducable_rows, reducable_columns_approx, reducable_rows_and_columns and reduce(rows, cols) compared with the model "
        "(masks, reduced matrix, remaining bounds); reduce() also with caller-chosen row / column masks (rows only, columns only, both); oracle: full enumeration of the box (<= 20000 points quick): reported rows "
        "hold at every in-box point, forced columns hold in every solution, the reduced system's solution set equals the "
        "projection of the original one; variables / index of the result checked against its shape; non-trivial = something "
        "is reducible")
ASSUMPTIONS = ["at least one row and one column", "declared bounds within the default integer range (int16)",
               "'rows reported as reducible are satisfied by every in-bounds point' is judged on reducable_rows() (DESIGN §4 C11)"]


def do_case(ctx, inp):
    p = inp["p"]
    nc = len(p["bnds"])
    ids = inp.get("ids") or [f"x{j}" for j in range(nc)]
    g = real_poly(p, ids)
    if inp.get("queried_first"):
        # a polyhedron that has been asked something before it is reduced (point classification, a label-less re-wrap of the
        # matrix): queries are queries — the reduction is that of the polyhedron as declared
        try:
            for q in inp["queried_first"]:
                if q == "separable": g.separable(np.zeros(nc, dtype=np.int64))
                elif q == "rewrap": pnd.ge_polyhedron(g)
                elif q == "neglectable": g.neglectable_columns(np.zeros(nc + 1, dtype=np.int64))
        except Exception:
            ctx.tags["pre-query-raised"] += 1
        ctx.tags["queried-before-reduction"] += 1
    if ctx.tags["call-did-not-return"] >= 3:
        ctx.skip("not run: three earlier calls did not return"); return
    def first_calls(limit):
        with time_limit(limit):
            rr = [int(bool(v)) for v in np.asarray(g.reducable_rows()).tolist()]
            rc = nan_list(g.reducable_columns_approx())
            frows, fcols = g.reducable_rows_and_columns()
            frows_l = [int(v) for v in np.asarray(frows).tolist()]
            fcols_l = nan_list(fcols)
            R = g.reduce(frows, fcols)
        return rr, rc, frows, fcols, frows_l, fcols_l, R
    try:
        try:
            rr, rc, frows, fcols, frows_l, fcols_l, R = first_calls(5)
        except CallTimeout:
            # these calls take milliseconds; before calling it non-termination, rule out a stalled machine
            ctx.tags["call-slower-than-5s-retried"] += 1
            g = real_poly(p, ids)
            rr, rc, frows, fcols, frows_l, fcols_l, R = first_calls(60)
    except CallTimeout as e:
        # the fixpoint loop of reducable_rows_and_columns terminates on every input (theorem C11.loop_inv is stated for any
        # fuel; the model's loop needs at most rows+cols+1 rounds): not returning is a failure of the reduction
        ctx.case(inp, True, {"call-did-not-return"})
        ctx.fail("reduction-does-not-terminate", {"detail": str(e)}); return
    Rs = snap_poly(R)
    tg = set()
    if inp.get("chain"): tg.add("implication-chain")
    if any(rr): tg.add("reducible-row")
    if any(c is not None for c in rc): tg.add("forced-column")
    if all(c is not None for c in fcols_l): tg.add("all-columns-forced")
    if all(frows_l): tg.add("all-rows-removed")
    if frows_l != rr and any(frows_l): tg.add("row-redundant-only-after-substitution")
    ctx.case(inp, nontrivial=any(frows_l) or any(c is not None for c in fcols_l), tags=tg)
    ctx.op({"op": "red", "p": p}, {"rows": rr, "cols": rc})
    ctx.op({"op": "rrc", "p": p}, {"rows": frows_l, "cols": fcols_l, "reduced": Rs})
    # shape / labels of the result
    keep_ids = [i for i, c in zip(ids, fcols_l) if c is None]
    rv = [v.id for v in R.variables]
    first_id = g.variables[0].id
    if rv != [first_id] + keep_ids or len(rv) != R.shape[1]:
        ctx.fail("result-variables-do-not-describe-columns", {"variables": rv, "expected": [first_id] + keep_ids})
    want_index = [g.index[i].id for i, m in enumerate(frows_l) if not m]
    got_index = [v.id for v in R.index]
    if got_index != want_index or len(got_index) != R.shape[0]:
        ctx.fail("result-index-does-not-describe-rows", {"index": got_index, "expected": want_index})
    # reduce() with masks chosen by the caller (rows only / columns only / both), and the two helpers directly: whatever
    # is asked for is what is removed / substituted, labels follow
    rng = ctx.rng
    rmask = [int(rng.random() < 0.4) for _ in p["rows"]]
    cmask = [rng.randint(lo, hi) if rng.random() < 0.4 else None for lo, hi in p["bnds"]]
    cvec = np.array([np.nan if c is None else float(c) for c in cmask])
    variants = [("rows", rmask, None), ("cols", None, cmask), ("both", rmask, cmask)]
    for name, rm, cm in variants:
        if rm is not None and all(rm) or cm is not None and all(c is not None for c in cm):
            continue        # nothing left: numpy shapes of empty results are not part of the statement
        R2 = g.reduce(rows_vector=None if rm is None else pnd.boolean_ndarray(np.array(rm)), columns_vector=None if cm is None else cvec)
        op = {"op": "reduce_poly", "p": p}
        if rm is not None: op["rows"] = rm
        if cm is not None: op["cols"] = cm
        ctx.op(op, {"reduced": snap_poly(R2)}, label="reduce-with-caller-masks-" + name)
        keep2 = [i for i, c in zip(ids, cm or [None] * nc) if c is None]
        if [v.id for v in R2.variables] != [g.variables[0].id] + keep2:
            ctx.fail("result-variables-do-not-describe-columns", {"variables": [v.id for v in R2.variables], "expected": [g.variables[0].id] + keep2, "call": name})
        want_idx = [g.index[i].id for i, m in enumerate(rm or [0] * len(p["rows"])) if not m]
        if [v.id for v in R2.index] != want_idx:
            ctx.fail("result-index-does-not-describe-rows", {"index": [v.id for v in R2.index], "expected": want_idx, "call": name})
    # the same polyhedron object reduced once more after the calls above: the statement holds for every call, so the
    # oracle below judges the later result whenever it differs from the first
    try:
        with time_limit(60):
            fr2, fc2 = g.reducable_rows_and_columns()
            RB = g.reduce(fr2, fc2)
    except CallTimeout as e:
        ctx.fail("reduction-does-not-terminate", {"detail": str(e), "call": "second reduction of the same object"}); return
    fr2_l, fc2_l, RsB = [int(v) for v in np.asarray(fr2).tolist()], nan_list(fc2), snap_poly(RB)
    if (fr2_l, fc2_l, RsB) != (frows_l, fcols_l, Rs):
        ctx.tags["second-reduction-of-the-same-object-differs"] += 1
        frows_l, fcols_l, Rs = fr2_l, fc2_l, RsB
    if box_size(p) > (20000 if ctx.quick else 200000):
        ctx.tags["box-not-enumerated"] += 1
        # boxes too large to enumerate: the same three clauses on probe points — every corner of the box (<= 10 columns), points
        # that meet a row with equality in one column, and random in-box points
        import itertools as _it
        cands = set()
        if nc <= 10:
            cands.update(_it.product(*[(lo, hi) for lo, hi in p["bnds"]]))
        for _ in range(200):
            cands.add(tuple(rng.choice([lo, hi, rng.randint(lo, hi), rng.randint(lo, hi)]) for lo, hi in p["bnds"]))
        for x in list(cands)[:400]:
            for b, cs in p["rows"]:
                for j, c in enumerate(cs):
                    if c != 0:
                        rest = dot(cs, x) - c * x[j]
                        for xv in {-((rest - b) // c), (b - rest) // c, (b - rest + abs(c) - 1) // c}:
                            if p["bnds"][j][0] <= xv <= p["bnds"][j][1]:
                                cands.add(x[:j] + (int(xv),) + x[j + 1:])
        cands = sorted(cands)
        sols = [x for x in cands if all(dot(cs, x) >= b for b, cs in p["rows"])]
        ctx.tags["probe-solutions-found" if sols else "no-probe-solution"] += 1
        for i, m in enumerate(rr):
            if m:
                b, cs = p["rows"][i]
                bad = [x for x in cands if dot(cs, x) < b]
                if bad:
                    ctx.fail("reported-reducible-row-violated-by-in-box-point", {"row": i, "point": list(bad[0])}); return
        for mask, name in ((rc, "reducable_columns_approx"), (fcols_l, "reducable_rows_and_columns")):
            for j, c in enumerate(mask):
                if c is not None:
                    bad = [x for x in sols if x[j] != c]
                    if bad:
                        ctx.fail("forced-column-not-forced", {"by": name, "column": j, "value": c, "solution": list(bad[0])}); return
        keep = [j for j, c in enumerate(fcols_l) if c is None]
        for x in sols:
            y = tuple(x[j] for j in keep)
            if Rs["bnds"] and not (all(lo <= v <= hi for v, (lo, hi) in zip(y, Rs["bnds"])) and all(dot(cs, y) >= b for b, cs in Rs["rows"])):
                ctx.fail("reduced-solution-set-is-not-the-projection", {"lost": [list(y)], "solution": list(x), "rows": frows_l, "cols": fcols_l,
                                                                         "reduced": Rs}); return
        return
    pts = list(box(p))
    sols = [x for x in pts if all(dot(cs, x) >= b for b, cs in p["rows"])]
    tg.add("feasible" if sols else "infeasible"); ctx.tags["feasible" if sols else "infeasible"] += 1
    for i, m in enumerate(rr):
        if m:
            b, cs = p["rows"][i]
            bad = [x for x in pts if dot(cs, x) < b]
            if bad:
                ctx.fail("reported-reducible-row-violated-by-in-box-point", {"row": i, "point": list(bad[0])}); return
    for mask, name in ((rc, "reducable_columns_approx"), (fcols_l, "reducable_rows_and_columns")):
        for j, c in enumerate(mask):
            if c is not None:
                bad = [x for x in sols if x[j] != c]
                if bad:
                    ctx.fail("forced-column-not-forced", {"by": name, "column": j, "value": c, "solution": list(bad[0])}); return
    keep = [j for j, c in enumerate(fcols_l) if c is None]
    proj = {tuple(x[j] for j in keep) for x in sols}
    rsols = set(solutions(Rs)) if Rs["bnds"] else ({()} if all(0 >= b for b, _ in Rs["rows"]) else set())
    if proj != rsols:
        lost = sorted(proj - rsols)[:1]; gained = sorted(rsols - proj)[:1]
        ctx.fail("reduced-solution-set-is-not-the-projection", {"lost": lost, "gained": gained, "rows": frows_l, "cols": fcols_l,
                                                                 "reduced": Rs}); return


def run(ctx):
    n = (1200 if ctx.quick else 8000) * (3 if ctx.search else 1)
    for _ in range(n):
        r0 = ctx.rng.random()
        if r0 < 0.08:
            case = {"p": gen_bigm(ctx.rng)}; ctx.tags["big-M-rows-over-integer-columns"] += 1
        elif r0 < 0.3:
            case = {"p": gen_chain(ctx.rng, ctx.quick), "chain": True}
        else:
            case = {"p": gen_poly(ctx.rng, ctx.quick, wide=ctx.rng.random() < 0.05)}
        if ctx.rng.random() < 0.4:
            # column ids in an order of the caller's own: descending, numbers past ten, mixed case — labels follow the columns,
            # whatever their order as strings
            nc_ = len(case["p"]["bnds"])
            pool = ctx.rng.choice([list("zyxwvutsr"), ["x8", "x9", "x10", "x11", "x12", "x100", "x2", "x1", "x0"],
                                   ["b", "B", "a", "A", "c", "C", "d", "D", "e"], ["k3", "k1", "k2", "k0", "j9", "j1", "m5", "m4", "m0"]])
            case["ids"] = pool[:nc_] if ctx.rng.random() < 0.5 else ctx.rng.sample(pool, nc_)
        if ctx.rng.random() < 0.15:
            case["queried_first"] = ctx.rng.sample(["separable", "rewrap", "neglectable"], ctx.rng.randint(1, 2))
        do_case(ctx, case)
