"""C07 — assuming values is equivalent to evaluating with them."""
import copy
from trees import *

RULE = ("seeded random validated models; assumption dictionaries over any subset of ids (leaves and sub-proposition ids, "
        "constants and ranges, all value forms); assume() output compared structurally with the model; then up to 40 (quick) "
        "further interpretations of the remaining leaves (constants and sub-ranges inside declared bounds): "
        "assume(A).evaluate(I) vs evaluate(A u I) on the real code (fresh dictionaries, and one running dictionary on one object), and every bound of the assumed model tested against "
        "completions; non-trivial = has a compound child or an integer leaf")
ASSUMPTIONS = ["validated, reference-free models", "assume/evaluate called on deep copies (finding F-C09a)",
               "further interpretation stays inside declared bounds (forced by the proof, DESIGN §4 C07)"]


def do_case(ctx, inp):
    a, A = inp["ast"], {k: tuple(v) for k, v in inp["A"].items()}
    o = build(a)
    t = snap(o)
    lv = leaves_of(t)
    # the leaves range over what the caller DECLARED for them (values are drawn from there; the built object must agree)
    decl = {k: v for k, v in declared_bounds(a).items() if k in lv}
    if any(tuple(lv[k]) != tuple(v) for k, v in decl.items()):
        ctx.tags["object-holds-other-leaf-bounds-than-declared"] += 1
        lv = {**lv, **decl}
    named_comp = [k for k in A if k not in lv]
    ctx.case(inp, nontrivial=depth(t) > 1 or any(b != (0, 1) for b in lv.values()),
             tags=tags_of(t) | ({"assume-names-compound"} if named_comp else set())
                  | ({"assume-compound-range"} if any(A[k][0] != A[k][1] for k in named_comp) else set())
                  | ({"assume-leaf-range"} if any(A[k][0] != A[k][1] for k in A if k in lv) else set()))
    assumed = copy.deepcopy(o).assume(render_interp(ctx.rng, A))
    ta = snap(assumed)
    ctx.op({"op": "assume", "t": t, "I": interp_json(A)}, {"t": ta})
    # a caller keeps the assumed model and asks the original again, with another constant for the same sub-proposition:
    # the model returned earlier is the caller's and stays what it was
    consts = [k for k in named_comp if A[k][0] == A[k][1] and A[k][0] in (0, 1)]
    if consts:
        m = copy.deepcopy(o)
        R1 = m.assume(render_interp(ctx.rng, A))
        A2 = dict(A); A2[consts[0]] = (1 - A[consts[0]][0],) * 2
        m.assume(render_interp(ctx.rng, A2))
        ctx.tags["assumed-model-kept-while-the-original-is-asked-again"] += 1
        if snap(R1) != ta:
            ctx.fail("assumed-model-changed-by-a-later-call-on-the-original",
                     {"A": interp_json(A), "then": interp_json(A2), "kept_result_before": ta, "kept_result_after": snap(R1)})
            return
    if ctx.rng.random() < 0.3:
        # models built from this one (its negation, an implication over it) are not touched by assuming about it
        if kin_probe(ctx, o, lambda m: m.assume(render_interp(ctx.rng, A)), "assumed", {"A": interp_json(A)}):
            return
    rest = {n: b for n, b in lv.items() if n not in A}
    byid = {}
    for n in subs(t):
        byid.setdefault(n["id"], n)
    over = {k: v for k, v in A.items() if k not in lv}
    for j in range(inp.get("n_interp", 16 if ctx.quick else 120)):
        I = {}
        for n, (lo, hi) in rest.items():
            r = ctx.rng.random()
            if r < 0.6:
                c = pick_in(ctx.rng, lo, hi); I[n] = (c, c)
            elif r < 0.8:
                x = ctx.rng.randint(lo, hi); I[n] = (x, ctx.rng.randint(x, hi))
        lhs = copy.deepcopy(assumed).evaluate(render_interp(ctx.rng, I))
        if j % 4 == 0:
            # the caller's style matters to anything memoised on the dictionary object: one model object, one running
            # dictionary that is first assumed and then extended and evaluated
            m = copy.deepcopy(o)
            d = dict(render_interp(ctx.rng, A))
            R = m.assume(d)
            d.update(render_interp(ctx.rng, I))
            run_u = m.evaluate(d)
            run_l = R.evaluate(render_interp(ctx.rng, I))
            ctx.tags["running-dictionary-style"] += 1
            if run_l.as_tuple() != run_u.as_tuple() or run_l.as_tuple() != lhs.as_tuple():
                ctx.fail("assume-then-evaluate-differs-from-evaluate-union",
                         {"A": interp_json(A), "I": interp_json(I), "style": "d=dict(A); R=m.assume(d); d.update(I); m.evaluate(d)",
                          "assume_then_evaluate": [int(run_l.lower), int(run_l.upper)], "evaluate_union": [int(run_u.lower), int(run_u.upper)]})
                return
        U = dict(A); U.update(I)
        rhs = copy.deepcopy(o).evaluate(render_interp(ctx.rng, U))
        if lhs.as_tuple() != rhs.as_tuple():
            ctx.fail("assume-then-evaluate-differs-from-evaluate-union",
                     {"A": interp_json(A), "I": interp_json(I), "assume_then_evaluate": [int(lhs.lower), int(lhs.upper)],
                      "evaluate_union": [int(rhs.lower), int(rhs.upper)]})
            return
    # bounds of the assumed model contain every value its variables can take
    box = {n: A.get(n, lv[n]) for n in lv}
    for sigma in assignments(ctx.rng, box, 60 if ctx.quick else 400):
        for n in subs(ta):
            val = ref_eval(byid[n["id"]], sigma, over)
            if not (n["lo"] <= val <= n["hi"]):
                ctx.fail("assumed-bounds-exclude-possible-value", {"id": n["id"], "bounds": [n["lo"], n["hi"]], "value": val,
                                                                   "sigma": sigma, "A": interp_json(A)})
                return


def negated_models_stream(ctx):
    """models that came out of negate() / Not / Imply (the negation pushed inwards gives the children new generated ids
    after construction), assumed about one of THOSE children by id, alone or next to leaves"""
    for _ in range((60 if ctx.quick else 400) * (3 if ctx.search else 1)):
        try:
            a, o, t = gen_derived(ctx.rng, ctx.quick, vias=["negate", "Not", "Imply", "ImplyCons"])
        except RuntimeError:
            return
        comps = [n for n in subs(t) if n["k"] == "node" and n is not t and n["kids"]]
        if not comps:
            continue
        A = {}
        for n_ in ctx.rng.sample(comps, min(len(comps), ctx.rng.randint(1, 2))):
            A[n_["id"]] = (ctx.rng.choice([0, 1]),) * 2
        for name, (lo, hi) in leaves_of(t).items():
            if ctx.rng.random() < 0.3:
                c = pick_in(ctx.rng, lo, hi); A[name] = (c, c)
        ctx.tags["negated-model-assumed-about-a-child-by-id"] += 1
        do_case(ctx, {"ast": a, "A": {k: list(v) for k, v in A.items()}})


def signed_nodes_over_compounds_stream(ctx):
    """a threshold whose sign cannot be inferred from its value (value <= 0 with sign +1, value > 0 with sign -1) over integer
    leaves around zero AND a sub-proposition: what assume() rebuilds must keep the sign it was given"""
    rng = ctx.rng
    for _ in range((60 if ctx.quick else 400) * (3 if ctx.search else 1)):
        lf = lambda n_: {"c": "str", "id": n_}
        lo = rng.randint(-3, 0); hi = rng.randint(0, 3)
        x = {"c": "var", "id": "x", "lo": lo, "hi": max(hi, lo)}
        comp = {"c": rng.choice(["Any", "All", "AtMost"]), "args": [lf("p"), lf("q")]}
        if comp["c"] == "AtMost": comp["v"] = 1
        if rng.random() < 0.4: comp["id"] = rng.choice(["B", "b1"])
        sign = rng.choice([1, -1])
        v = rng.randint(-3, 0) if sign == 1 else rng.randint(1, 3)
        if rng.random() < 0.25: v = rng.randint(-2, 2)
        kids = [x, comp] + ([lf("r")] if rng.random() < 0.4 else [])
        a = {"c": "AtLeast", "v": v, "sign": sign, "args": kids}
        if rng.random() < 0.5: a["id"] = "A"
        if rng.random() < 0.3: a = {"c": rng.choice(["All", "Any"]), "args": [a, lf("w")]}
        try:
            o = build(a); t = snap(o)
            if is_var(o) or not well_formed(t) or o.errors(): continue
        except Exception:
            continue
        A = {}
        for name, (l_, h_) in leaves_of(t).items():
            if rng.random() < 0.3:
                c = pick_in(rng, l_, h_); A[name] = (c, c)
        ctx.tags["sign-not-inferable-over-a-sub-proposition"] += 1
        do_case(ctx, {"ast": a, "A": {k: list(v_) for k, v_ in A.items()}})


def run(ctx):
    negated_models_stream(ctx)
    signed_nodes_over_compounds_stream(ctx)
    n_models = (150 if ctx.quick else 800) * (3 if ctx.search else 1)
    for _ in range(n_models):
        a, o, t = gen_valid(ctx.rng, ctx.quick, prefix_p=0.2, empty_p=0.04)
        if ctx.rng.random() < 0.15:
            # the model is the OUTPUT of another operation (assume / reduce / negate / Not / Imply / a JSON, base64, pickle or
            # deepcopy round trip, one or two of them) applied to a generated valid model
            a, o, t = gen_derived(ctx.rng, ctx.quick); ctx.tags["derived-model-stream"] += 1
        if ctx.rng.random() < 0.12:
            a, o, t = gen_valid_signed_sum(ctx.rng)     # explicit signs against thresholds of either sign, leaves around zero
        elif ctx.rng.random() < 0.12:
            a, o, t = gen_valid_huge(ctx.rng)           # a threshold over a quantity far beyond 16 bits
            ctx.tags["huge-threshold-stream"] += 1
        for _ in range(3):
            A = gen_interp(ctx.rng, t, total=False, in_bounds=ctx.rng.random() < 0.7)
            do_case(ctx, {"ast": a, "A": {k: list(v) for k, v in A.items()}})
        comps = [n for n in subs(t) if n["k"] == "node" and n is not t and n["kids"] and n["lo"] != n["hi"]]
        if comps and ctx.rng.random() < 0.5:
            # a sub-proposition named with the non-fixing range (0, 1) — or nothing said about it — together with
            # constants for some or all of the leaves below it (so that the assumption itself decides it, or leaves it
            # undecided until the further interpretation comes): the second stage must see the same model either way
            n_ = ctx.rng.choice(comps)
            below = leaves_of(n_)
            A = {}
            if ctx.rng.random() < 0.7: A[n_["id"]] = (0, 1)
            for name, (lo, hi) in below.items():
                if ctx.rng.random() < 0.75:
                    c = pick_in(ctx.rng, lo, hi); A[name] = (c, c)
            ctx.tags["assumption-about-one-subtree"] += 1
            do_case(ctx, {"ast": a, "A": {k: list(v) for k, v in A.items()}})
        if ctx.rng.random() < 0.3:
            # a leaf that is DECLARED constant, assumed to another value (an assumption may say anything)
            lv = leaves_of(t)
            if not lv:
                continue                    # a model of childless compounds only
            name = ctx.rng.choice(sorted(lv))
            c = ctx.rng.choice([0, 1, 1, 2, -1])
            a2 = with_leaf_bounds(a, name, c, c)
            try:
                o2 = build(a2)
                t2 = snap(o2)
                if is_var(o2) or not well_formed(t2, allow_empty=True) or o2.errors():
                    continue
            except Exception:
                continue
            A = gen_interp(ctx.rng, t2, total=False, in_bounds=True)
            A[name] = ctx.rng.choice([(c + 1, c + 1), (c - 1, c - 1), (c - 1, c + 1)])
            ctx.tags["constant-leaf-assumed-otherwise"] += 1
            do_case(ctx, {"ast": a2, "A": {k: list(v) for k, v in A.items()}})
