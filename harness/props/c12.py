"""C12 — bound tightening never cuts off a feasible point; row bounds are exact."""
from mats import *

RULE = ("seeded random integer matrices (1-3 x 1-4 quick, up to 5 x 6 thorough; coefficients from {0,+-1,+-2,+-3,5,-7} and "
        "big-M shaped rows; boolean / integer / negative / degenerate boxes; infeasible, forcing and redundant rows); "
        "tighten_column_bounds, row_bounds, A_min, A_max, column_bounds and n_row_combinations compared with the model; oracle: full enumeration of the "
        "box (<= 20000 points quick), corner probes for larger boxes (a quarter of the cases use the library's default integer range -32768..32767 or one-sided variants); non-trivial = some |coefficient| > 1 or a non-boolean column; distinct = distinct matrices")
ASSUMPTIONS = ["at least one row and one column (NumPy raises on an empty axis inside tighten_column_bounds)",
               "declared bounds within the library's default integer range (int16)",
               "float64 floor division is exact on the generated magnitudes (trusted base)"]


def do_case(ctx, inp):
    p = inp["p"]
    g = real_poly(p, ids=inp.get("ids"))
    nontriv = any(abs(c) > 1 for _, cs in p["rows"] for c in cs) or any(b != [0, 1] for b in p["bnds"])
    tg = set()
    if any(lo == hi for lo, hi in p["bnds"]): tg.add("degenerate-column")
    if any(lo < 0 for lo, hi in p["bnds"]): tg.add("negative-lower-bound")
    if any(abs(c) > 1 for _, cs in p["rows"] for c in cs): tg.add("non-unit-coefficient")
    tb = g.tighten_column_bounds()
    lbs, ubs = [int(v) for v in tb[0].tolist()], [int(v) for v in tb[1].tolist()]
    rb = g.row_bounds().tolist()
    ncomb = [int(v) for v in np.asarray(g.n_row_combinations).tolist()]
    amin = [[int(v) for v in r] for r in np.asarray(g.A_min).tolist()]
    amax = [[int(v) for v in r] for r in np.asarray(g.A_max).tolist()]
    cb = np.asarray(g.column_bounds()).tolist()
    if [[int(a), int(b)] for a, b in zip(cb[0], cb[1])] != [list(b) for b in p["bnds"]]:
        ctx.case(inp, nontriv, tg); ctx.fail("column-bounds-not-the-declared-bounds", {"reported": cb, "declared": p["bnds"]}); return
    small = box_size(p) <= (20000 if ctx.quick else 100000)
    if small:
        sols = solutions(p)
        tg.add("feasible" if sols else "infeasible")
        for j, (lo, hi) in enumerate(p["bnds"]):
            if lbs[j] < lo or ubs[j] > hi:
                ctx.case(inp, nontriv, tg); ctx.fail("tightening-widens-declared-bounds", {"column": j, "tightened": [lbs[j], ubs[j]], "declared": [lo, hi]}); return
            for x in sols:
                if not (lbs[j] <= x[j] <= ubs[j]):
                    ctx.case(inp, nontriv, tg); ctx.fail("feasible-point-cut-off", {"column": j, "tightened": [lbs[j], ubs[j]], "solution": list(x)}); return
        if any(l > u for l, u in zip(lbs, ubs)):
            tg.add("crossed-bounds")
        pts = list(box(p))
        for i, (b, cs) in enumerate(p["rows"]):
            vals = [dot(cs, x) - b for x in pts]
            for j, c in enumerate(cs):
                terms = [c * x[j] for x in pts]
                if pts and (amin[i][j], amax[i][j]) != (min(terms), max(terms)):
                    ctx.case(inp, nontriv, tg); ctx.fail("A_min/A_max-entry-not-the-extreme-term", {"row": i, "column": j, "reported": [amin[i][j], amax[i][j]], "exact": [min(terms), max(terms)]}); return
            if [min(vals), max(vals)] != [int(rb[i][0]), int(rb[i][1])]:
                ctx.case(inp, nontriv, tg); ctx.fail("row-bounds-not-exact", {"row": i, "reported": rb[i], "exact": [min(vals), max(vals)]}); return
            nz = [j for j, c in enumerate(cs) if c != 0]
            cnt = len({tuple(x[j] for j in nz) for x in pts})
            if cnt != ncomb[i]:
                ctx.case(inp, nontriv, tg); ctx.fail("row-combination-count-wrong", {"row": i, "reported": ncomb[i], "enumerated": cnt}); return
    else:
        tg.add("box-not-enumerated")
        # boxes too large to enumerate: row bounds and combination counts in closed form (exact integers) — the extremes
        # of a linear form over a box are attained at the column bounds, and the restrictions of the box to a row's
        # non-zero columns are the product of those columns' ranges
        for i, (b, cs) in enumerate(p["rows"]):
            lo_ = sum(min(c * l, c * h) for c, (l, h) in zip(cs, p["bnds"])) - b
            hi_ = sum(max(c * l, c * h) for c, (l, h) in zip(cs, p["bnds"])) - b
            if [lo_, hi_] != [int(rb[i][0]), int(rb[i][1])]:
                ctx.case(inp, nontriv, tg); ctx.fail("row-bounds-not-exact", {"row": i, "reported": rb[i], "exact": [lo_, hi_]}); return
            cnt = 1
            for c, (l, h) in zip(cs, p["bnds"]):
                if c != 0: cnt *= (h - l + 1)
            if cnt != ncomb[i]:
                ctx.case(inp, nontriv, tg); ctx.fail("row-combination-count-wrong", {"row": i, "reported": ncomb[i], "exact": cnt}); return
        # corner probes: every corner of the box (each column at its lower or upper bound) that satisfies all rows is an
        # in-bounds integer solution and must survive the tightening
        if len(p["bnds"]) <= 8:
            import itertools as _it
            for x in _it.product(*[(lo, hi) for lo, hi in p["bnds"]]):
                if all(dot(cs, x) >= b for b, cs in p["rows"]):
                    tg.add("feasible-corner-probed")
                    for j in range(len(x)):
                        if not (lbs[j] <= x[j] <= ubs[j]):
                            ctx.case(inp, nontriv, tg); ctx.fail("feasible-point-cut-off", {"column": j, "tightened": [lbs[j], ubs[j]], "solution": list(x)}); return
            for j, (lo, hi) in enumerate(p["bnds"]):
                if lbs[j] < lo or ubs[j] > hi:
                    ctx.case(inp, nontriv, tg); ctx.fail("tightening-widens-declared-bounds", {"column": j, "tightened": [lbs[j], ubs[j]], "declared": [lo, hi]}); return
    ctx.case(inp, nontriv, tg)
    ctx.op({"op": "tighten", "p": p}, {"bnds": [[l, u] for l, u in zip(lbs, ubs)]})
    ctx.op({"op": "row_bounds", "p": p}, {"bnds": [[int(a), int(b)] for a, b in rb], "ncomb": ncomb, "amin": amin, "amax": amax})


def run(ctx):
    for rows_n in ((1030, 2049) if ctx.quick else (1030, 2049, 4100)):
        # many rows over few columns (a rule per article): row bounds are per row, however many there are
        bnds = [[ctx.rng.randint(-2, 0), ctx.rng.randint(1, 3)] for _ in range(3)]
        rows = []
        for _ in range(rows_n):
            cs = [ctx.rng.choice([0, 1, -1, 2, -3]) for _ in range(3)]
            lo = sum(min(c * b[0], c * b[1]) for c, b in zip(cs, bnds))
            rows.append([lo - ctx.rng.randint(0, 2), cs])          # redundant rows: the box stays feasible
        ctx.tags["polyhedron-with-more-than-a-thousand-rows"] += 1
        do_case(ctx, {"p": {"bnds": bnds, "rows": rows}})
    n = (1200 if ctx.quick else 6000) * (3 if ctx.search else 1)
    for _ in range(n):
        r = ctx.rng.random()
        case = {"p": gen_poly(ctx.rng, ctx.quick, wide="all" if r < 0.04 else r < 0.27)}
        nc_ = len(case["p"]["bnds"])
        if nc_ >= 2 and ctx.rng.random() < 0.08:
            # columns are what they are by position: two columns may carry the same label (with bounds of their own)
            ids = [f"x{j}" for j in range(nc_)]
            j1, j2 = ctx.rng.sample(range(nc_), 2)
            ids[j2] = ids[j1]
            case["ids"] = ids
        elif ctx.rng.random() < 0.12:
            # integer labels, counted from 0 or 1, in the caller's order (the support column then carries a name of its own
            # or the library's default): a column is what its position says, whatever its label
            start = ctx.rng.choice([0, 0, 1])
            ids = list(range(start, start + nc_))
            if ctx.rng.random() < 0.5: ctx.rng.shuffle(ids)
            case["ids"] = ids
            if ctx.rng.random() < 0.6: case["p"]["first"] = "named"
            ctx.tags["integer-column-labels"] += 1
        do_case(ctx, case)
