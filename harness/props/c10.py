"""C10 — validation accepts exactly the well-defined models."""
import copy
from trees import *

RULE = ("two seeded streams. Valid stream: tree-shaped models with pairwise distinct ids and models that share identical "
        "sub-propositions (same object or structurally identical copy) — must be accepted. Adversarial stream: a valid model "
        "mutated by one operator: duplicated child, reused explicit id with different bounds / sign / value / children, equal "
        "ids with bounds of equal sum ((0,1) vs (-2,3); (0,3) vs (1,2)) or -1/-2 lower bounds (hash(-1) == hash(-2)), ids "
        "containing '-', two id-less compounds under different parents whose generated ids coincide (digest of concatenated child "
        "ids + value + sign) with different or equal definitions, a leaf named like a compound, self reference, reference cycle. errors() compared with the model; "
        "oracle: an independent validator implementing the statement directly on the structural snapshot; non-trivial = the "
        "model has a compound child; distinct = distinct models")
ASSUMPTIONS = ["graphlib decides acyclicity of the id graph built with dict(list) override semantics (modelled, not proved)",
               "when an ambivalence error is reported the presence of NON_UNIQUE_SUB_PROPOSITION_SET next to it is not compared "
               "(flatten() may merge or keep hash-/eq-related duplicates; the property is about accept/reject)"]


def well_defined(t):
    """the statement, directly: acyclic id graph, no child listed twice, single definition per id"""
    defs, bnds, graph = {}, {}, {}
    for n in subs(t):
        b = (n["lo"], n["hi"])
        if bnds.setdefault(n["id"], b) != b:
            return False, "same id, different bounds: " + n["id"]
        if n["k"] == "node":
            kid_ids = [k["id"] for k in n["kids"]]
            if len(set(kid_ids)) != len(kid_ids):
                return False, "child listed twice under " + n["id"]
            d = (n["s"], n["v"], tuple(sorted(kid_ids)))
            if defs.setdefault(n["id"], d) != d:
                return False, "same id, different sign/value/children: " + n["id"]
            graph[n["id"]] = kid_ids
    state = {}
    def dfs(u):
        state[u] = 1
        for v in graph.get(u, []):
            if state.get(v) == 1 or (state.get(v) is None and v in graph and dfs(v)):
                return True
        state[u] = 2
        return False
    for u in list(graph):
        if state.get(u) is None and dfs(u):
            return False, "cyclic id dependencies through " + u
    return True, ""


def canon_errs(errs):
    s = sorted(set(errs))
    if "AMBIVALENT_VARIABLE_DEFINITIONS" in s:
        s = [e for e in s if e != "NON_UNIQUE_SUB_PROPOSITION_SET"]
    return {"accepted": not errs, "kinds": s}


def do_case(ctx, inp):
    a = inp["ast"]
    try:
        o = build(a)
    except Exception as e:
        ctx.skip("constructor raised " + type(e).__name__); return
    if is_var(o):
        ctx.skip("variable"); return
    t = snap(o)
    errs = [str(e.value) for e in o.errors()]
    ok, why = well_defined(t)
    ids = [n["id"] for n in subs(t)]
    tree_shaped = len(ids) == len(set(ids))
    ctx.case(inp, nontrivial=depth(t) > 1, tags={"stream-" + inp.get("stream", "?"), "op-" + inp.get("mut", "none"),
                                                 "accepted" if not errs else "rejected", "well-defined" if ok else "ill-defined"})
    ctx.op({"op": "errors", "t": t}, canon_errs(errs), norm=lambda ans: canon_errs(ans["errs"]))
    if not errs and not ok:
        ctx.fail("ill-defined-model-accepted", {"why": why, "model": t})
    if errs and tree_shaped:
        ctx.fail("tree-with-distinct-ids-rejected", {"errors": errs, "model": t})
    if errs and inp.get("stream") == "valid" and ok:
        ctx.fail("model-sharing-identical-sub-propositions-rejected", {"errors": errs, "model": t})


# ---------------------------------------------------------------- adversarial mutations of a valid AST

def nodes_of(a, out=None):
    out = [] if out is None else out
    if a["c"] not in ("var", "str"):
        out.append(a)
        for k in ("args",):
            for x in a.get(k, []): nodes_of(x, out)
        for k in ("arg", "cond", "cons"):
            if k in a: nodes_of(a[k], out)
    return out


def mutate(rng, a):
    a = copy.deepcopy(a)
    def strip(x):
        if isinstance(x, dict):
            x.pop("$k", None)
            for v in x.values(): strip(v)
        elif isinstance(x, list):
            for v in x: strip(v)
    strip(a)
    ns = [n for n in nodes_of(a) if "args" in n and n["args"]]
    if not ns:
        return a, "none"
    n = rng.choice(ns)
    op = rng.choice(["dup-child", "bounds-equal-sum", "bounds-minus1-minus2", "reuse-id-children", "reuse-id-value", "reuse-id-sign",
                     "dash-ids", "leaf-named-like-compound", "self-reference", "cycle", "bounds-different",
                     "generated-id-coincidence", "generated-id-coincidence", "reuse-id-permuted-bounds",
                     "leaf-and-compound-of-one-id-under-one-parent", "dup-child-hidden-behind-a-leaf-of-the-same-id"])
    leaf = lambda i, lo, hi: {"c": "var", "id": i, "lo": lo, "hi": hi}
    if op == "dup-child":
        n["args"].append(copy.deepcopy(rng.choice(n["args"])))
    elif op in ("bounds-equal-sum", "bounds-minus1-minus2", "bounds-different"):
        pair = {"bounds-equal-sum": rng.choice([((0, 1), (-2, 3)), ((0, 3), (1, 2)), ((0, 1), (-1, 2))]),
                "bounds-minus1-minus2": ((-1, 3), (-2, 3)), "bounds-different": ((0, 1), (0, 2))}[op]
        n["args"] = [x for x in n["args"] if not (x["c"] in ("var", "str") and x["id"] == "q")] + [leaf("q", *pair[0])]
        other = rng.choice(ns)
        tgt = other if other is not n else a
        if "args" in tgt and tgt is not n:
            tgt["args"] = [x for x in tgt["args"] if not (x["c"] in ("var", "str") and x["id"] == "q")] + [leaf("q", *pair[1])]
        else:
            a = {"c": "All", "args": [a, {"c": "Any", "args": [leaf("q", *pair[1]), {"c": "str", "id": "zz"}]}]}
    elif op.startswith("reuse-id") and op != "reuse-id-permuted-bounds":
        twin = {"c": "AtLeast", "v": 1, "args": [{"c": "str", "id": "u"}, {"c": "str", "id": "w"}], "id": "DUP", "sign": 1}
        other = copy.deepcopy(twin)
        if op == "reuse-id-children": other["args"] = [{"c": "str", "id": "u"}, {"c": "str", "id": "ww"}]
        elif op == "reuse-id-value": other["v"] = 2
        else:
            other["sign"] = -1
            if rng.random() < 0.5:
                # … over children whose bounds are symmetric around zero, so that the two signed sums have the same range
                kids = rng.choice([[leaf("u", -2, 2)], [leaf("u", -1, 0), leaf("w", 0, 1)], [leaf("u", -3, 3), leaf("w", -1, 1)]])
                v = rng.choice([0, 1, -1, 2])
                twin["args"] = copy.deepcopy(kids); other["args"] = copy.deepcopy(kids); twin["v"] = other["v"] = v
        a = {"c": "All", "args": [a, {"c": "Any", "args": [twin, {"c": "str", "id": "zz"}]}, {"c": "Any", "args": [other, {"c": "str", "id": "zy"}]}]}
    elif op == "generated-id-coincidence":
        # two compounds WITHOUT explicit ids whose generated ids coincide (the digest is taken over the child ids
        # concatenated without separator, then str(value)+str(sign)) although their definitions differ — or do not
        S = lambda i: {"c": "str", "id": i}
        one, two = rng.choice([
            ({"c": "All", "args": [S("ab"), S("c")]}, {"c": "All", "args": [S("a"), S("bc")]}),
            ({"c": "Any", "args": [S("ab"), S("c")]}, {"c": "Any", "args": [S("a"), S("bc")]}),
            ({"c": "AtLeast", "v": 1, "args": [S("a1")]}, {"c": "AtLeast", "v": 11, "args": [S("a")]}),
            ({"c": "AtLeast", "v": 2, "args": [S("a"), S("b1")]}, {"c": "AtLeast", "v": 12, "args": [S("a"), S("b")]}),
            ({"c": "AtMost", "v": 1, "args": [S("p"), S("q-")]}, {"c": "AtLeast", "v": -1, "args": [S("p"), S("q")], "sign": -1}),
            ({"c": "All", "args": [S("x")]}, {"c": "Any", "args": [S("x")]}),                       # same definition, different class
            ({"c": "Any", "args": [S("x"), S("y")]}, {"c": "AtLeast", "v": 1, "args": [S("y"), S("x")]}),  # same definition
            ({"c": "Any", "args": [S("ab"), S("c")]}, {"c": "Any", "args": [S("ab"), S("c")]}),      # identical copies
        ])
        if rng.random() < 0.5:
            one, two = two, one
        a = {"c": "All", "args": [a, {"c": rng.choice(["Any", "All"]), "args": [one, S("zz")]},
                                  {"c": rng.choice(["Any", "All", "AtMost"]), "args": [two, S("zy")], **({"v": 1} if False else {})}]}
        if a["args"][2]["c"] == "AtMost":
            a["args"][2]["v"] = 1
    elif op == "reuse-id-permuted-bounds":
        # two sub-propositions with the same id, sign, value and child ids whose integer leaves swap bounds so that every
        # per-leaf hash (hash(lo)+hash(hi)) and the node's bound sums are the same: equal under __eq__ and __hash__
        b1, b2 = rng.choice([((0, 3), (1, 2)), ((-1, 2), (0, 1)), ((-2, 3), (-1, 2)), ((0, 5), (2, 3))])
        cls = rng.choice(["Any", "All", "AtMost"])
        mk = lambda p, q: {"c": cls, "args": [leaf("px", *p), leaf("py", *q)], "id": "DUP", **({"v": 1} if cls == "AtMost" else {})}
        a = {"c": "All", "args": [a, {"c": "Any", "args": [mk(b1, b2), {"c": "str", "id": "zz"}]},
                                  {"c": "Any", "args": [mk(b2, b1), {"c": "str", "id": "zy"}]}]}
    elif op == "leaf-and-compound-of-one-id-under-one-parent":
        # a node that lists a variable X and a sub-proposition with id X among its children, separated (in the order
        # errors() walks them: variables first, then sub-propositions) by other children
        inner = {"c": rng.choice(["All", "Any"]), "args": [{"c": "str", "id": "ux"}, {"c": "str", "id": "uy"}], "id": "BX"}
        extra = [{"c": "str", "id": rng.choice(["zz", "a0", "BY"])} for _ in range(rng.randint(0, 2))]
        extra_c = [{"c": "Any", "args": [{"c": "str", "id": "uw"}], "id": rng.choice(["AA", "CC"])}] if rng.random() < 0.5 else []
        kids = [leaf("BX", 0, 1)] + extra + [inner] + extra_c
        rng.shuffle(kids)
        a = {"c": "All", "args": [a, {"c": rng.choice(["All", "Any"]), "args": kids, "id": "PX"}]}
    elif op == "dup-child-hidden-behind-a-leaf-of-the-same-id":
        # a sub-proposition that lists a child twice, and elsewhere (in a sibling subtree that is walked earlier or later)
        # a plain variable carrying that sub-proposition's id
        bad = {"c": "AtLeast", "v": 1, "args": [{"c": "str", "id": "ux"}, {"c": "str", "id": "ux"}], "id": "BD"}
        holder = {"c": "Any", "args": [leaf("BD", 0, 1), {"c": "str", "id": "uz"}], "id": rng.choice(["AA", "ZZ"])}
        if rng.random() < 0.5:
            holder = {"c": "All", "args": [holder, {"c": "str", "id": "uq"}], "id": rng.choice(["A0", "Z0"])}
        kids = [holder, bad]
        rng.shuffle(kids)
        a = {"c": "All", "args": [a] + kids}
    elif op == "dash-ids":
        a = {"c": "All", "args": [a, {"c": "Any", "args": [{"c": "str", "id": "b-c"}], "id": "A"}, {"c": "Any", "args": [{"c": "str", "id": "c"}], "id": "A-b"}]}
    elif op == "leaf-named-like-compound":
        named = [x for x in nodes_of(a) if "id" in x]
        if named:
            a = {"c": "All", "args": [a, {"c": "Any", "args": [{"c": "str", "id": rng.choice(named)["id"]}, {"c": "str", "id": "zz"}]}]}
    elif op == "self-reference":
        n["id"] = n.get("id", "SELF")
        if rng.random() < 0.4:
            # … through a leaf that is fixed to the constant the sub-proposition itself is fixed to
            c = rng.choice([1, 1, 0])
            n["$fix"] = c
            n["args"].append({"c": "var", "id": n["id"], "lo": c, "hi": c})
        else:
            n["args"].append({"c": "str", "id": n["id"]})
    elif op == "cycle":
        if rng.random() < 0.4:
            c1, c2 = rng.choice([(1, 1), (0, 0), (1, 0)])
            a = {"c": "All", "args": [a, {"c": "All", "args": [{"c": "var", "id": "CB", "lo": c2, "hi": c2}, {"c": "str", "id": "u"}], "id": "CA", "$fix": c1},
                                      {"c": "All", "args": [{"c": "var", "id": "CA", "lo": c1, "hi": c1}, {"c": "str", "id": "u"}], "id": "CB", "$fix": c2}]}
        else:
            a = {"c": "All", "args": [a, {"c": "All", "args": [{"c": "str", "id": "CB"}, {"c": "str", "id": "u"}], "id": "CA"},
                                      {"c": "All", "args": [{"c": "str", "id": "CA"}, {"c": "str", "id": "u"}], "id": "CB"}]}
    return a, op


def respelled_sharing(rng):
    """one sub-proposition written out twice under two parents, identical in every respect, with its leaves spelled
    independently each time (id string / variable object / subclass instance) and listed in any order"""
    names = rng.sample(["a", "b", "c", "k1", "k10", "B", "z"], rng.randint(2, 4))
    cls = rng.choice(["Any", "All", "AtMost", "AtLeast", "Xor"])
    def occurrence():
        kids = []
        for n in rng.sample(names, len(names)):
            r = rng.random()
            kids.append({"c": "str", "id": n} if r < 0.5 else {"c": "var", "id": n, "lo": 0, "hi": 1, **({"$sub": True} if r > 0.85 else {})})
        x = {"c": cls, "args": kids, "id": "X"}
        if cls in ("AtMost", "AtLeast"): x["v"] = 1
        return x
    S = lambda i: {"c": "str", "id": i}
    o1, o2 = occurrence(), occurrence()
    if rng.random() < 0.4:
        # the first occurrence is left to generate its id; the second one carries that very id explicitly (a model put
        # together from a freshly built rule and one read back from to_short() / a database)
        del o1["id"]
        try:
            o2["id"] = build(o1).id
        except Exception:
            o1["id"] = "X"
    p1 = {"c": rng.choice(["Any", "All"]), "args": [S("p"), o1], "id": "L"}
    p2 = {"c": rng.choice(["Any", "All", "Imply"]), "args": [S("q"), o2], "id": "R"}
    if p2["c"] == "Imply": p2 = {"c": "Imply", "cond": o2, "cons": S("q"), "id": "R"}
    return {"c": rng.choice(["All", "Any"]), "args": [p1, p2], "id": "T"}


def run(ctx):
    rng = ctx.rng
    for _ in range((60 if ctx.quick else 400) * (3 if ctx.search else 1)):
        do_case(ctx, {"ast": respelled_sharing(rng), "stream": "valid", "mut": "respelled-sharing"})
    for _ in range((30 if ctx.quick else 200) * (3 if ctx.search else 1)):
        # one explicit id on two compounds whose child lists read alike once written out: ['x', 'y'] and ['x,y'] (any text is
        # an id: commas, blanks, brackets) — two definitions, same class, sign and value
        sep = rng.choice([",", ", ", ",", "+", ")("])
        x, y = rng.sample("abcdxy", 2)
        cls = rng.choice(["Any", "All", "AtMost", "AtLeast"])
        def mk(kids):
            d = {"c": cls, "args": [{"c": "str", "id": k} for k in kids], "id": "B"}
            if cls in ("AtMost", "AtLeast"): d["v"] = 1
            return d
        b1, b2 = mk([x, y]), mk([x + sep + y])
        w = {"c": rng.choice(["All", "Any"]), "args": [{"c": "Any", "args": [b1, {"c": "str", "id": "p"}]}, {"c": "Imply", "cond": {"c": "str", "id": "q"}, "cons": b2}]}
        do_case(ctx, {"ast": w, "stream": "adversarial", "mut": "child-lists-that-read-alike"})
    for _ in range((50 if ctx.quick else 300) * (3 if ctx.search else 1)):
        # the negation of "at least one of: a group of atoms, a named rule, the same atoms on their own": pushed inwards it
        # holds the negated group twice (once as the negated child, once as the grouped atoms), the named rule's negation
        # BETWEEN the two in the child list (children after negate() are in the order of the ids before it)
        lf = lambda n_: {"c": "str", "id": n_}
        nm = rng.sample("abcdpqxy", 4)
        atoms = nm[:rng.randint(1, 2)]
        dup = {"c": "Any", "args": [lf(x) for x in atoms]}
        named = {"c": rng.choice(["Any", "All"]), "args": [lf(nm[2]), lf(nm[3])], "id": rng.choice(["Z", "Zz", "W1", "B", "a0"])}
        kids = [dup, named] + [lf(x) for x in atoms]
        rng.shuffle(kids)
        top = {"c": "Any", "args": kids}
        if rng.random() < 0.7: top["id"] = "A"
        via = rng.choice(["negate", "Not", "Imply", "ImplyCons"])
        do_case(ctx, {"ast": {"c": "$derive", "via": via, "arg": top, "other": "zq"}, "stream": "derived", "mut": "negation-lists-a-child-twice"})
    for _ in range((80 if ctx.quick else 500) * (3 if ctx.search else 1)):
        # models that are outputs of other operations, taken as they come (validated or not)
        try:
            a, o, t = gen_derived(rng, ctx.quick, validate=False, empty_p=0.04)
        except RuntimeError:
            break
        do_case(ctx, {"ast": a, "stream": "derived", "mut": "via-" + a["via"]})
    n = (450 if ctx.quick else 3000) * (3 if ctx.search else 1)
    for _ in range(n):
        a, o, t = gen_valid(rng, ctx.quick, empty_p=0.04)
        do_case(ctx, {"ast": a, "stream": "valid"})
        m, op = mutate(rng, a)
        do_case(ctx, {"ast": m, "stream": "adversarial", "mut": op})
        if rng.random() < 0.15:
            # one more occurrence of one of the model's variables, this one DECLARED with a dtype (or the only one declared
            # without): the same id with the same bounds — a model that merely shares a variable
            lv = declared_bounds(a)
            if lv:
                name = rng.choice(sorted(lv, key=str)); lo, hi = lv[name]
                twin = {"c": "var", "id": name, "lo": lo, "hi": hi, "$dtype": rng.choice(["bool", "int"]) if (lo, hi) == (0, 1) else "int"}
                w = {"c": rng.choice(["Any", "All"]), "args": [a, twin]}
                try:
                    ow = build(w)
                    ok = not is_var(ow) and well_formed(snap(ow))
                except Exception:
                    ok = False
                if ok:
                    do_case(ctx, {"ast": w, "stream": "valid", "mut": "variable-declared-with-and-without-dtype"})
