"""C06 — partial evaluation and tautology/contradiction flags are sound."""
import copy, itertools
from trees import *

RULE = ("seeded random validated models; partial / interval-valued interpretations (ints, tuples, Bounds, sub-ranges, values "
        "outside declared bounds, sub-proposition ids with constants or (0,1)); evaluate_propositions compared with the "
        "model, and every returned interval tested against up to 200 (quick) completions with an independent evaluator; "
        "equation_bounds / is_tautology / is_contradiction of every node compared with the model and with an enumeration "
        "of the children's boxes (<= 5000 points), on a fresh object and again after an in-place evaluate that names sub-proposition ids; non-trivial = has a compound child or an integer leaf")
ASSUMPTIONS = ["validated, reference-free models", "evaluate is called on deep copies (finding F-C09a)"]


def node_objs(o):
    if is_var(o):
        return
    yield o
    for c in o.propositions:
        yield from node_objs(c)


def do_case(ctx, inp):
    a, I = inp["ast"], {k: tuple(v) for k, v in inp["I"].items()}
    o = build(a)
    t = snap(o)
    lv = leaves_of(t)
    ctx.case(inp, nontrivial=depth(t) > 1 or any(b != (0, 1) for b in lv.values()),
             tags=tags_of(t) | ({"interp-names-compound"} if any(k not in lv for k in I) else set())
                  | ({"interp-range"} if any(lo != hi for lo, hi in I.values()) else set())
                  | ({"interp-outside-declared"} if any(k in lv and (I[k][0] < lv[k][0] or I[k][1] > lv[k][1]) for k in I) else set()))
    if inp.get("copy_asked_first"):
        # the model has handed out a partially assumed copy of itself before, and that copy has been asked about one of ITS
        # sub-propositions: what happens to the copy is the copy's affair — the bounds the model reports afterwards are still
        # those of the model
        leaf_part = {k: v for k, v in I.items() if k in lv and v[0] == v[1]}
        r_ = o.assume(render_interp(ctx.rng, leaf_part))
        if not is_var(r_):
            cids = [x for x in compound_ids(snap(r_)) if x != t["id"]]
            if cids:
                try:
                    r_.evaluate({ctx.rng.choice(cids): ctx.rng.choice([0, 1])})
                except Exception:
                    pass
                ctx.tags["assumed-copy-asked-about-its-own-sub-proposition-first"] += 1
        res = copy.deepcopy(o).evaluate_propositions(render_interp(ctx.rng, I))
    else:
        res = copy.deepcopy(o).evaluate_propositions(render_interp(ctx.rng, I))
    got = sorted((k, int(b.lower), int(b.upper)) for k, b in res.items())
    ctx.op({"op": "evalprops", "t": t, "I": interp_json(I)}, {"res": [list(x) for x in got]})
    if ctx.rng.random() < 0.3:
        # models built from this one (its negation, an implication over it) are not touched by evaluating it
        if kin_probe(ctx, o, lambda m: m.evaluate_propositions(render_interp(ctx.rng, I)), "evaluated", {"interpretation": interp_json(I)}):
            return
    # oracle 1: every completion lies within the returned bounds
    over = {k: v for k, v in I.items() if k not in lv}
    box = {n: I.get(n, lv[n]) for n in lv}
    byid = {}
    for n in subs(t):
        byid.setdefault(n["id"], n)
    for sigma in assignments(ctx.rng, box, 200 if ctx.quick else 2000):
        for k, lo, hi in got:
            val = ref_eval(byid[k], sigma, over)
            if not (lo <= val <= hi):
                ctx.fail("completion-outside-returned-bounds", {"id": k, "returned": [lo, hi], "value": val, "sigma": sigma,
                                                               "interpretation": interp_json(I)})
                return
    # flags of every compound node (pre-order, as the model walks)
    nf = len(ctx.failures)
    ctx.op({"op": "flags", "t": t}, {"flags": read_flags(ctx, o)})
    if len(ctx.failures) > nf:
        return
    # the same on a long-lived object: flags were read, then the object is evaluated in place (which, by known finding
    # F-C09a, rewrites the variables of the sub-propositions the dictionary names), then the flags are read again —
    # they must describe the object as it is now, not as it was when first asked
    if I and all(k in lv for k in I):
        # leaf-only interpretation, evaluated in place on a long-lived object: the object is as before, and a second,
        # less specific evaluation on it is still sound for every completion inside the DECLARED bounds
        o.evaluate_propositions(render_interp(ctx.rng, I))
        t2 = snap(o)
        ctx.tags["second-evaluation-on-the-same-object"] += 1
        if t2 != t:
            ctx.fail("in-place-evaluate-changed-the-model", {"interpretation": interp_json(I),
                     "leaves_before": sorted(lv.items()), "leaves_after": sorted(leaves_of(t2).items())}); return
        res2 = o.evaluate_propositions({})
        got2 = sorted((k, int(b.lower), int(b.upper)) for k, b in res2.items())
        for sigma in assignments(ctx.rng, lv, 100 if ctx.quick else 500):
            for k, lo, hi in got2:
                val = ref_eval(byid[k], sigma, {})
                if not (lo <= val <= hi):
                    ctx.fail("completion-outside-returned-bounds", {"id": k, "returned": [lo, hi], "value": val, "sigma": sigma,
                             "history": "evaluate_propositions(I) then evaluate_propositions({}) on the same object", "interpretation": interp_json(I)}); return
    if any(k not in lv for k in I):
        o.evaluate_propositions(render_interp(ctx.rng, I))
        t2 = snap(o)
        ctx.tags["flags-reread-after-in-place-evaluate"] += 1
        if t2 != t:
            ctx.tags["flags-reread-object-changed"] += 1
        ctx.op({"op": "flags", "t": t2}, {"flags": read_flags(ctx, o, "after an in-place evaluate naming sub-proposition ids")}, label="flags-reread")


def read_flags(ctx, o, when="on a fresh object"):
    fl = []
    for n in node_objs(o):
        eb = n.equation_bounds
        fl.append([n.id, int(eb[0]), int(eb[1]), bool(n.is_tautology), bool(n.is_contradiction)])
        kb = [(int(c.bounds.lower), int(c.bounds.upper)) for c in n.propositions]
        total = 1
        for lo, hi in kb:
            total *= hi - lo + 1
        if total <= 5000:
            vals = [int(n.sign) * sum(p) - int(n.value) for p in itertools.product(*[range(lo, hi + 1) for lo, hi in kb])]
            if (min(vals), max(vals)) != (int(eb[0]), int(eb[1])):
                ctx.fail("equation-bounds-not-exact", {"id": n.id, "reported": [int(eb[0]), int(eb[1])], "exact": [min(vals), max(vals)], "when": when})
            if bool(n.is_tautology) != all(v >= 0 for v in vals) or bool(n.is_contradiction) != all(v < 0 for v in vals):
                ctx.fail("flag-wrong", {"id": n.id, "taut": bool(n.is_tautology), "contra": bool(n.is_contradiction),
                                        "range": [min(vals), max(vals)], "when": when})
    return fl


def run(ctx):
    n_models = (200 if ctx.quick else 1500) * (3 if ctx.search else 1)
    for _ in range(n_models):
        a, o, t = gen_valid(ctx.rng, ctx.quick, prefix_p=0.2, empty_p=0.04)
        if ctx.rng.random() < 0.15:
            # the model is the OUTPUT of another operation (assume / reduce / negate / Not / Imply / a JSON, base64, pickle or
            # deepcopy round trip, one or two of them) applied to a generated valid model
            a, o, t = gen_derived(ctx.rng, ctx.quick); ctx.tags["derived-model-stream"] += 1
        if ctx.rng.random() < 0.12:
            a, o, t = gen_valid_signed_sum(ctx.rng)     # explicit signs against thresholds of either sign, leaves around zero
        elif ctx.rng.random() < 0.06:
            a, o, t = gen_valid_huge(ctx.rng)           # a threshold over a quantity far beyond 16 bits
            ctx.tags["huge-threshold-stream"] += 1
        for _ in range(3):
            I = gen_interp(ctx.rng, t, total=False, in_bounds=ctx.rng.random() < 0.8)
            extra_ = {"copy_asked_first": True} if ctx.rng.random() < 0.15 else {}
            do_case(ctx, {"ast": a, "I": {k: list(v) for k, v in I.items()}, **extra_})
        if ctx.rng.random() < 0.3:
            # a leaf DECLARED constant and interpreted otherwise
            v = constant_leaf_variant(ctx.rng, a, t)
            if v is not None:
                a2, t2, name, entry = v
                I = gen_interp(ctx.rng, t2, total=False, in_bounds=True)
                I[name] = entry
                ctx.tags["constant-leaf-interpreted-otherwise"] += 1
                do_case(ctx, {"ast": a2, "I": {k: list(v_) for k, v_ in I.items()}})
