"""C15 — solver bridge: objectives, solutions and ids stay aligned."""
import itertools
from configs import *
import puan.ndarray as pnd

RULE = ("seeded random validated models and configurators x objective / priority dictionaries (leaf ids, sub-proposition ids, "
        "unknown ids) x solver callables: a recorder answering a vector with a distinct value per column (so any permutation "
        "shows), an exact brute-force argmax over the in-box integer points, one answering None, one raising; the polyhedron "
        "and objective vectors handed to the solver and the dictionaries handed back (solve with/without virtual variables, "
        "select with/without only_leafs, 1-3 requests per call, each request's objective compared with the one it gets when asked alone) compared with the model; oracle: the statement's clauses on the real code; "
        "non-trivial = the model has a generated-id sub-proposition or the dictionary names a sub-proposition / unknown id")
ASSUMPTIONS = ["the built-in beta solver is never called (it does not terminate on some integer models); every check supplies its own solver",
               "validated, reference-free models without pre-fixed compounds"]


def brute_solver(limit):
    def solve(poly, objs):
        rows, avars = poly_snap(poly)
        pts = box_points(avars, limit)
        if pts is None:
            return [(None, 0, 1) for _ in objs]
        feas = [x for x in pts if all(row_ok(r, x) for r in rows)]
        ids = [v[0] for v in avars]
        out = []
        for w in objs:
            if not feas:
                out.append((None, 0, 4)); continue
            best = max(feas, key=lambda x: sum(c * x[i] for c, i in zip(w, ids)))
            out.append((np.array([best[i] for i in ids]), int(sum(c * best[i] for c, i in zip(w, ids))), 5))
        return out
    return solve


def do_case(ctx, inp):
    a, objectives, mode = inp["ast"], inp["objectives"], inp["mode"]
    o = build(a)
    if inp.get("stored"):
        # an object that has been in use (its polyhedron asked for once) and was then copied or stored and loaded again: it is
        # the same model, and the bridge works on it as on any other
        import copy as _copy
        if hasattr(o, "ge_polyhedron") and inp.get("used_first", True):
            o.ge_polyhedron
        o = _copy.deepcopy(o) if inp["stored"] == "deepcopy" else pg.from_b64(o.to_b64())
        ctx.tags["used-then-" + inp["stored"]] += 1
    t = snap(o)
    is_cfg = t["cls"] == "Stingy"
    lv = leaves_of(t)
    comp = compound_ids(t)
    has_gen = any(n["k"] == "node" and n["gen"] and n["id"] != t["id"] for n in subs(t))
    names = {k for d in objectives for k in d}
    ctx.case(inp, nontrivial=has_gen or any(k not in lv for k in names),
             tags={"mode-" + mode, "configurator" if is_cfg else "proposition"} | ({"generated-column"} if has_gen else set())
                  | ({"objective-names-unknown-id"} if any(k not in lv and k not in comp for k in names) else set()))
    iv = inp.get("include_virtual", False)
    ol = inp.get("only_leafs", False)
    poly = o.to_ge_polyhedron(active=True)
    rows, avars = poly_snap(poly)
    ids = [v[0] for v in avars]
    n = len(ids)
    script = {"recorder": lambda p, objs: [(np.array([10 + j + 100 * k for j in range(n)]), k, 5) for k, _ in enumerate(objs)],
              "none": lambda p, objs: [(None, 0, 4) for _ in objs],
              "exact": brute_solver(4096),
              # whatever kind of exception the caller's solver ends with (a backend error, an adapter tripping over `None`, …)
              "raise": lambda p, objs: (_ for _ in ()).throw(
                  {"RuntimeError": RuntimeError, "TypeError": TypeError, "AttributeError": AttributeError, "NameError": NameError,
                   "ValueError": ValueError, "KeyError": KeyError, "ZeroDivisionError": ZeroDivisionError,
                   "IndexError": IndexError, "Exception": Exception}[inp.get("exc", "RuntimeError")]("solver failed"))}[mode]
    rec = Recorder(script)
    if not is_cfg or inp.get("via") == "solve":
        try:
            res = list(o.solve(objectives, solver=rec, include_virtual_variables=iv))
        except Exception as e_:
            if mode != "raise" or type(e_).__name__ != inp.get("exc", "RuntimeError"):
                raise
            ctx.tags["solve-propagates-solver-exception"] += 1
            return
        gpoly, gobjs = rec.calls[0]
        grows, gvars = poly_snap(gpoly)
        if rows_json(grows) != rows_json(rows) or gvars != avars:
            ctx.fail("solver-did-not-receive-the-asserted-polyhedron", {"got_vars": gvars, "want_vars": avars}); return
        for k, (d, w) in enumerate(zip(objectives, gobjs)):
            want = [int(d.get(i, 0)) for i in ids]
            if [int(x) for x in w] != want:
                ctx.fail("objective-entry-misaligned", {"objective": d, "ids": ids, "got": w, "want": want}); return
        gen = {n_["id"]: n_["gen"] for n_ in subs(t) if n_["k"] == "node"}
        for k, (sol, ov, sc) in enumerate(res):
            raw = script(gpoly, gobjs)[k][0]
            want = {} if raw is None else {i: int(v) for i, v in zip(ids, raw.tolist()) if i in lv or not gen.get(i, False) or iv}
            got = {i: int(v) for i, v in sol.items()}
            if got != want:
                ctx.fail("solution-dictionary-wrong", {"got": got, "want": want, "include_virtual": iv}); return
            if mode == "exact" and raw is not None and solver_safe(t):
                leafpart = {i: int(v) for i, v in zip(ids, raw.tolist()) if i in lv}
                if o.evaluate(leafpart).constant != 1:
                    ctx.fail("exact-solution-does-not-satisfy-solver-safe-model", {"solution": leafpart}); return
            ctx.op({"op": "bridge_solve", "t": t, "objectives": [[[i, int(v)] for i, v in d.items()] for d in objectives],
                    "sol": None if raw is None else [int(v) for v in raw.tolist()], "include_virtual": iv, "only_leafs": False},
                   {"objs": [[int(x) for x in w] for w in gobjs], "solve": sorted([i, v] for i, v in got.items())},
                   norm=lambda ans: {"objs": ans["objs"], "solve": sorted(ans["solve"])})
    else:
        try:
            res = list(o.select(*objectives, solver=rec, only_leafs=ol))
        except pnd.InfeasibleError:
            if mode != "raise":
                ctx.fail("select-raised-InfeasibleError-without-solver-failure", {}); return
            ctx.tags["select-maps-solver-exception-to-InfeasibleError"] += 1
            return
        except Exception as e:
            ctx.fail("solver-exception-not-surfaced-as-InfeasibleError", {"raised": type(e).__name__}); return
        if mode == "raise":
            ctx.fail("solver-exception-swallowed", {}); return
        gpoly, gobjs = rec.calls[0]
        grows, gvars = poly_snap(gpoly)
        if rows_json(grows) != rows_json(rows) or gvars != avars:
            ctx.fail("solver-did-not-receive-the-configurator-polyhedron", {"got_vars": gvars, "want_vars": avars}); return
        if len(gobjs) != len(objectives):
            ctx.fail("not-one-objective-vector-per-request", {"requests": len(objectives), "vectors": len(gobjs)}); return
        # the entry at each column is the (compressed) priority of what was given for THAT column's id — generated helper
        # ids are ids like any other: the vector is the shadow compression of [default priorities, the request read off by
        # column id] (the compression itself is C13's subject; here its input row must be the request, column by column)
        dp_ = o.default_prios
        for k, d in enumerate(objectives):
            rows_ = [[int(dp_.get(i, -1)) for i in ids], [int(d.get(i, 0)) for i in ids]]
            want_ = [int(x) for x in pnd.integer_ndarray(np.array(rows_)).ndint_compress(method="shadow", axis=0)]
            if [int(x) for x in gobjs[k]] != want_:
                ctx.fail("objective-entry-is-not-the-compressed-priority-given-for-that-column", {"request": d, "ids": ids, "got": [int(x) for x in gobjs[k]], "want": want_}); return
        if len(objectives) > 1:
            # one objective vector per request: request k of a multi-request call gets the vector it gets when asked alone
            for k, d in enumerate(objectives):
                rec1 = Recorder(script)
                list(build(a).select(d, solver=rec1, only_leafs=ol))
                alone = [int(x) for x in rec1.calls[0][1][0]]
                if [int(x) for x in gobjs[k]] != alone:
                    ctx.fail("objective-of-a-request-depends-on-the-other-requests",
                             {"requests": objectives, "k": k, "ids": ids, "in_multi_request_call": [int(x) for x in gobjs[k]], "asked_alone": alone}); return
            ctx.tags["multi-request-select"] += 1
        for k, item in enumerate(res):
            raw = script(gpoly, gobjs)[k][0]
            got = item if ol else item[0]
            got = {i: int(v) for i, v in got.items()}
            want = {} if raw is None else {i: int(v) for i, v in zip(ids, raw.tolist()) if (not ol) or i in lv}
            if got != want:
                ctx.fail("select-dictionary-wrong", {"got": got, "want": want, "only_leafs": ol}); return
            ctx.op({"op": "bridge_solve", "t": t, "objectives": [],
                    "sol": None if raw is None else [int(v) for v in raw.tolist()], "include_virtual": False, "only_leafs": ol},
                   {"select": sorted([i, v] for i, v in got.items()), "cols": [[i, i in lv, None] for i in ids]},
                   norm=lambda ans: {"select": sorted(ans["select"]), "cols": [[c[0], c[1], None] for c in ans["cols"]]})


def do_coincident(ctx, inp):
    """a defaulted choice whose generated non-default branch coincides (same id, equal definition) with a plain sub-rule of
    another rule.  Which of the two equal objects the library keeps is its own business (DESIGN §12) — but the default
    priorities it reports and the objective it hands to the solver must tell the same story: columns with equal default
    priority get equal weights, a column with a lower default priority a strictly lower weight (no user priorities)."""
    a = inp["ast"]
    o = build(a)
    if o.errors():
        ctx.skip("coincident-configurator-rejected-by-validation"); return
    ctx.case(inp, True, {"coincident-non-default-branch"})
    rec = Recorder(None)
    try:
        list(o.select({}, solver=rec, only_leafs=False))
    except Exception as e:
        ctx.fail("select-raised", {"exception": f"{type(e).__name__}: {str(e)[:160]}"}); return
    poly, objs = rec.calls[0][0], rec.calls[0][1]
    ids = [v.id for v in poly.A.variables]
    dp = o.default_prios
    w = [int(x) for x in objs[0]]
    for i, a_ in enumerate(ids):
        for j, b_ in enumerate(ids):
            if a_ in dp and b_ in dp and ((dp[a_] < dp[b_]) != (w[i] < w[j]) or (dp[a_] == dp[b_]) != (w[i] == w[j])):
                ctx.fail("objective-entry-misaligned", {"columns": [str(a_), str(b_)], "default_prios": [dp[a_], dp[b_]], "weights": [w[i], w[j]],
                                                        "note": "no user priorities: the weights must order the columns as default_prios does"})
                return


def run(ctx):
    rng = ctx.rng
    for _ in range((40 if ctx.quick else 300) * (3 if ctx.search else 1)):
        its = rng.sample("abcdefgh", 5)
        lf = lambda n: {"c": "str", "id": n}
        r1, r2 = rng.sample(["B", "P", "R", "K"], 2)
        choice = {"c": rng.choice(["ccAny", "ccXor"]), "id": r1, "args": [lf(its[0]), lf(its[1]), lf(its[2])], "default": [its[2]]}
        plain = {"c": "Any", "args": [lf(its[0]), lf(its[1])]}
        other = {"c": "Imply", "id": r2, "cond": lf(its[3]), "cons": plain} if rng.random() < 0.6 else {"c": "Any", "id": r2, "args": [plain, lf(its[4])]}
        rules = [choice, other]; rng.shuffle(rules)
        do_coincident(ctx, {"ast": {"c": "Stingy", "id": "M", "args": rules}})
    n = (450 if ctx.quick else 3000) * (3 if ctx.search else 1)
    for _ in range(n):
        if rng.random() < 0.5:
            # configurators, a third of them with items listed directly under the configurator (in no rule)
            a, o, t = valid_configurator(rng, ctx.quick, top_items=True, multi_default_p=0.15)
        else:
            a, o, t = gen_valid(rng, ctx.quick, wide_p=0.0)
            if not free01(t): continue
        names = sorted(leaves_of(t)) + compound_ids(t) + ["unknown-id"]
        objectives = [{x: rng.randint(-4, 4) for x in rng.sample(names, rng.randint(0, min(4, len(names))))} for _ in range(rng.randint(1, 3))]
        if rng.random() < 0.25:
            # an earlier full result fed back as priorities: (nearly) EVERY column named, generated helper ids included, the
            # selected ones with a weight
            objectives.append({x: rng.choice([1, 1, 1, 2, 0]) for x in names[:-1] if rng.random() < 0.85})
            ctx.tags["objective-naming-every-column-(a-result-fed-back)"] += 1
        do_case(ctx, {"ast": a, "objectives": objectives, "mode": rng.choice(["recorder", "recorder", "exact", "none", "raise"]),
                      "include_virtual": rng.random() < 0.5, "only_leafs": rng.random() < 0.5,
                      "via": rng.choice(["solve", "select"]),
                      "exc": rng.choice(["RuntimeError", "TypeError", "AttributeError", "NameError", "ValueError", "KeyError", "ZeroDivisionError", "IndexError", "Exception"]),
                      **({"stored": rng.choice(["deepcopy", "b64"]), "used_first": rng.random() < 0.8} if rng.random() < 0.2 else {})})
