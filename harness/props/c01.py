"""C01 — the logic-to-polyhedron encoding agrees with evaluation on every assignment."""
import copy
from trees import *
from polys import *

RULE = ("seeded random validated models (all constructor classes, shared sub-objects and identical copies, boolean / "
        "integer / negative / int16 leaves, explicit and generated ids, explicit signs), no compound pre-fixed; for each: "
        "both `active` settings compared with the model's row set and column list, and up to 256 (quick) in-bounds leaf "
        "assignments extended by the real evaluate_propositions and tested against the real matrix; non-trivial = has a "
        "compound child or an integer leaf; distinct = distinct models")
ASSUMPTIONS = ["validated, reference-free models with no compound pre-fixed to a constant (the property's own scope)",
               "rows compared as a set keyed by column id (row order / duplicate rows are not part of the property)"]


def do_case(ctx, inp):
    a = inp["ast"]
    o = build(a)
    t = snap(o)
    if not free01(t):
        ctx.skip("prefixed-compound")
        return
    ctx.case(inp, nontrivial=depth(t) > 1 or any(b != (0, 1) for b in leaves_of(t).values()), tags=tags_of(t))
    lv = leaves_of(t)
    polys = {}
    for active in (False, True):
        poly = copy.deepcopy(o).to_ge_polyhedron(active=active)
        rows, avars = poly_snap(poly)
        polys[active] = (rows, avars)
        ctx.op({"op": "encode", "t": t, "active": active},
               {"rows": rows_json(rows), "vars": avars, "safe": solver_safe(t)}, norm=norm_encode)
    n = inp.get("n_assign", 256 if ctx.quick else 2048)
    seen = []
    for sigma in assignments(ctx.rng, lv, n):
        # a third of the assignments are handed over as numpy integer scalars of the narrowest width that holds them
        r_ = ctx.rng.random()
        given = {k: np_scalar(ctx.rng, v) for k, v in sigma.items()} if r_ < 0.33 else sigma
        if given is not sigma: ctx.tags["assignment-as-numpy-scalars"] += 1
        elif r_ < 0.55:
            # … or in the other accepted value forms: numpy arrays [v, v], tuples of numpy integers, Bounds over numpy integers
            import numpy as _np
            form = ctx.rng.choice(["array", "nptuple", "npbounds", "mixed"])
            def one(v):
                f = form if form != "mixed" else ctx.rng.choice(["array", "nptuple", "npbounds", "int"])
                return _np.array([v, v]) if f == "array" else (_np.int64(v), _np.int64(v)) if f == "nptuple" else \
                    puan.Bounds(_np.int64(v), _np.int64(v)) if f == "npbounds" else v
            given = {k: one(v) for k, v in sigma.items()}
            ctx.tags["assignment-in-numpy-typed-value-forms"] += 1
        res = o.evaluate_propositions(given)
        x = {}
        for k, b in res.items():
            if b.constant is None:
                ctx.fail("evaluate-not-constant", {"id": k, "sigma": sigma})
                return
            x[k] = int(b.constant)
        if ctx.rng.random() < 0.12:
            # the interpretation is an EARLIER RESULT fed back and completed: what evaluate_propositions returned for nothing
            # (or for part of the assignment) — every sub-proposition still open, as Bounds(0, 1) — updated with the leaf values
            part = {k: v for k, v in sigma.items() if ctx.rng.random() < 0.3}
            r0 = copy.deepcopy(o).evaluate_propositions(part)
            fed = dict(r0); fed.update(sigma)
            res2 = copy.deepcopy(o).evaluate_propositions(fed)
            ctx.tags["earlier-result-fed-back-and-completed"] += 1
            x2 = {k: (None if b.constant is None else int(b.constant)) for k, b in res2.items()}
            # (a sub-proposition the fed-back result already decides is taken as given and its sub-tree is not reported again)
            if t["id"] not in x2 or any(x2[k] != x.get(k) for k in x2):
                bad_ = sorted(k for k in set(x2) | {t["id"]} if x.get(k) != x2.get(k))[:4]
                ctx.fail("earlier-result-fed-back-evaluates-differently", {"sigma": sigma, "part_evaluated_first": part,
                         "differs_at": {k: [x.get(k), x2.get(k)] for k in bad_}})
                return
        truth = x[t["id"]]
        if truth != ref_eval(t, sigma):
            ctx.fail("evaluate-disagrees-with-truth-function", {"sigma": sigma, "evaluate": truth})
        bad = [r for r in polys[False][0] if not row_ok(r, x)]
        if bad:
            ctx.fail("extension-infeasible-inactive", {"sigma": sigma, "x": x, "row": [bad[0][0], bad[0][1]]})
            return
        sat = all(row_ok(r, x) for r in polys[True][0])
        if sat != (truth == 1):
            ctx.fail("active-system-vs-evaluate", {"sigma": sigma, "x": x, "rows_satisfied": sat, "evaluate": truth})
            return
        if len(seen) < 64: seen.append((sigma, x, truth))
    # the same model object encoded once more, after it has been evaluated: the statement holds for that polyhedron too
    rows2, avars2 = poly_snap(o.to_ge_polyhedron(active=True))
    if (rows_json(rows2), avars2) != (rows_json(polys[True][0]), polys[True][1]):
        ctx.tags["encoding-after-evaluation-differs"] += 1
        for sigma, x, truth in seen:
            sat = all(row_ok(r, x) for r in rows2)
            if sat != (truth == 1):
                ctx.fail("active-system-vs-evaluate", {"sigma": sigma, "x": x, "rows_satisfied": sat, "evaluate": truth,
                                                       "history": "evaluate_propositions on several assignments, then to_ge_polyhedron(active=True) on the same object"})
                return


def small_scope_cases(ctx):
    """thorough tier: every formula with at most two connectives over the leaves a, b (props/c04.small_scope)"""
    if ctx.quick or ctx.search:
        return
    from props.c04 import small_scope
    for a in small_scope():
        try:
            o = build(a)
        except Exception:
            continue
        if is_var(o) or not well_formed(snap(o)) or o.errors():
            continue
        ctx.tags["small-scope"] += 1
        do_case(ctx, {"ast": a})
    ctx.notes.append("exhaustive small scope: every formula with at most two connectives over two boolean leaves")


def variant_sharing_cases(ctx):
    """one sub-proposition id written with two classes of the same definition under two parents (All(x,y) and
    AtLeast(2,[x,y]); Any / AtLeast(1); AtMost(k) / AtLeast(-k, sign=-1); Xor / ExactlyOne).  The unchanged errors() rejects
    such models, so they are skipped; if validation accepts them they are validated models and C01 must hold for them."""
    rng = ctx.rng
    g = TreeGen(rng, n_leaves=4, max_depth=2)
    for _ in range(40 if ctx.quick else 300):
        names = rng.sample("abcd", 3)
        S = lambda i: {"c": "str", "id": i}
        base = rng.choice([{"c": "All", "args": [S(names[0]), S(names[1])]}, {"c": "Any", "args": [S(names[0]), S(names[1])]},
                           {"c": "AtMost", "v": 1, "args": [S(names[0]), S(names[1])]}, {"c": "Xor", "args": [S(names[0]), S(names[1])]}])
        if rng.random() < 0.6: base["id"] = rng.choice(["B", "N1", "A0"])
        other = g.class_variant(base)
        p1 = {"c": rng.choice(["All", "Any"]), "args": [base, S(names[2])]}
        p2 = {"c": rng.choice(["All", "Any", "AtMost"]), "args": [other, S("e")]}
        if p2["c"] == "AtMost": p2["v"] = 1
        a = {"c": rng.choice(["Any", "All"]), "args": [p1, p2]}
        if rng.random() < 0.6: a["id"] = rng.choice(["R", "Z9", "N7"])
        try:
            o = build(a)
        except Exception:
            continue
        if is_var(o) or not well_formed(snap(o)) or o.errors():
            ctx.skip("class-variant sharing rejected by errors()")
            continue
        ctx.tags["class-variant-sharing-accepted-by-errors"] += 1
        do_case(ctx, {"ast": a})


def accepted_mutants(ctx):
    """models mutated the way C10's adversarial stream does (second definitions of an id, duplicated children, …): the
    unchanged errors() rejects every one that is not well-defined, so none of those reaches this check; if validation
    starts to accept some, they are validated models and the statement must hold for them too"""
    from props.c10 import mutate
    for _ in range(180 if ctx.quick else 900):
        a, o, t = gen_valid(ctx.rng, ctx.quick, twins=False)
        m, op = mutate(ctx.rng, a)
        try:
            om = build(m)
            if is_var(om) or om.errors():
                continue
            tm = snap(om)
        except Exception:
            continue
        leaf_ids = {n["id"] for n in subs(tm) if n["k"] == "leaf"}
        if leaf_ids & set(compound_ids(tm)) or not free01(tm):
            continue                        # reference models are outside C01-C08 (DESIGN §4)
        if well_formed(tm):
            continue                        # a well-defined model: the ordinary streams cover those
        ctx.tags["ill-defined-model-accepted-by-errors"] += 1
        do_case(ctx, {"ast": m})
    for _ in range(40 if ctx.quick else 200):
        m = lookalike_model(ctx.rng)
        try:
            om = build(m)
            if is_var(om) or om.errors():
                continue                    # rejected, as every one of them is by the unchanged validation
        except Exception:
            continue
        ctx.tags["look-alike-ill-defined-model-accepted-by-errors"] += 1
        do_case(ctx, {"ast": m})


def run(ctx):
    small_scope_cases(ctx)
    variant_sharing_cases(ctx)
    accepted_mutants(ctx)
    n_models = (400 if ctx.quick else 2000) * (3 if ctx.search else 1)
    for _ in range(n_models):
        a, o, t = gen_valid(ctx.rng, ctx.quick, empty_p=0.04)
        if ctx.rng.random() < 0.15:
            # the model is the OUTPUT of another operation (assume / reduce / negate / Not / Imply / a JSON, base64, pickle or
            # deepcopy round trip, one or two of them) applied to a generated valid model
            a, o, t = gen_derived(ctx.rng, ctx.quick); ctx.tags["derived-model-stream"] += 1
        do_case(ctx, {"ast": a})
