"""C04 — connectives have their documented truth functions."""
import copy, json
from trees import *

RULE = ("seeded random nested formulas over boolean leaves from All/Any/AtLeast(k, implicit and explicit sign)/AtMost/Xor/"
        "ExactlyOne/XNor/Imply/Not (depth<=3 quick / <=4 thorough; thorough adds every formula with <=2 connectives over "
        "2 leaves); each is built by the direct constructors, by the from_list constructors (All/Any/Xor/ExactlyOne/XNor), by plog.from_json from its JSON form, and (rule-shaped ones) by "
        "Imply.from_cicJE (default component mapping, cmp2prop returning id strings / variables, ids under another key via id_ident); "
        "AtLeast/AtMost receive their propositions as list / tuple / generator / iterator / map; built trees compared structurally with the model's `build`; oracle: full truth table (<=6 leaves) "
        "against an independent truth function; non-trivial = at least one nested connective")
ASSUMPTIONS = ["AtLeast(k) with k<=0 and no explicit sign means -(sum) >= k by the constructor's documented sign rule (DESIGN §4 C04)",
               "validated models with pairwise distinct arguments — plus one stream outside validation: an explicitly named sub-formula next to its own negation (one id, two different propositions), where the constructors count distinct propositions"]

PLOG = ["All", "Any", "AtLeast", "AtLeastS", "AtMost", "Xor", "ExactlyOne", "XNor", "Imply", "Not"]


def truth(a, s):
    c = a["c"]
    if c in ("var", "str"):
        return s[a["id"]]
    if c == "Not":
        return 1 - truth(a["arg"], s)
    if c == "Imply":
        return int(truth(a["cond"], s) == 0 or truth(a["cons"], s) == 1)
    n = sum(truth(x, s) for x in a["args"])
    if c == "AtLeast":
        sg = a.get("sign")
        if sg is None:
            sg = 1 if a["v"] > 0 else -1
        return int(sg * n >= a["v"])
    if c == "AtMost": return int(n <= a["v"])
    if c == "All": return int(n == len(a["args"]))
    if c == "Any": return int(n >= 1)
    if c in ("Xor", "ExactlyOne"): return int(n == 1)
    if c == "XNor": return int(n != 1)
    raise ValueError(c)


def to_json(a):
    """the JSON a user would write for this formula (an AtLeast with an explicit sign carries it as "sign")"""
    c = a["c"]
    if c in ("var", "str"):
        return {"id": a["id"]}
    d = {"type": c}
    if "id" in a: d["id"] = a["id"]
    if c == "Not":
        return {"type": "Not", "proposition": to_json(a["arg"])}
    if c == "Imply":
        d["condition"] = to_json(a["cond"]); d["consequence"] = to_json(a["cons"]); return d
    d["propositions"] = [to_json(x) for x in a["args"]]
    if c in ("AtLeast", "AtMost"): d["value"] = a["v"]
    if c == "AtLeast" and a.get("sign") is not None: d["sign"] = a["sign"]
    return d


def json_ast(a):
    """the constructor calls plog.from_json makes for to_json(a): variables instead of strings"""
    c = a["c"]
    if c in ("var", "str"):
        return {"c": "var", "id": a["id"], "lo": 0, "hi": 1}
    b = {k: v for k, v in a.items() if k not in ("$k",)}
    for k in ("arg", "cond", "cons"):
        if k in b: b[k] = json_ast(b[k])
    if "args" in b: b["args"] = [json_ast(x) for x in b["args"]]
    return b


def has_explicit_sign(a):
    if a["c"] == "AtLeast" and a.get("sign") is not None and a["sign"] != (1 if a["v"] > 0 else -1):
        return True
    return any(has_explicit_sign(x) for k in ("args",) for x in a.get(k, [])) or \
        any(has_explicit_sign(a[k]) for k in ("arg", "cond", "cons") if k in a)


def ast_leaves(a, out=None):
    out = set() if out is None else out
    if a["c"] in ("var", "str"):
        out.add(a["id"])
    for x in a.get("args", []): ast_leaves(x, out)
    for k in ("arg", "cond", "cons"):
        if k in a: ast_leaves(a[k], out)
    return out


def nested(a):
    kids = a.get("args", []) + [a[k] for k in ("arg", "cond", "cons") if k in a]
    return any(k["c"] not in ("var", "str") for k in kids)


def do_case(ctx, inp):
    if "cic" in inp:
        return do_cic(ctx, inp)
    if inp.get("derived"):
        return do_derived_case(ctx, inp)
    a = inp["ast"]
    o = build(a)
    t = snap(o)
    lv = leaves_of(t)
    ctx.case(inp, nontrivial=nested(a), tags=tags_of(t) | {"via-constructors"})
    ctx.op({"op": "build", "ast": a}, {"t": t})
    if set(lv) != ast_leaves(a):
        ctx.fail("built-model-lost-or-gained-leaves", {"expression_leaves": sorted(ast_leaves(a)), "model_leaves": sorted(lv), "model": t})
        return
    table = list(all_assignments(lv)) if len(lv) <= 6 else assignments(ctx.rng, lv, 64)
    for s in table:
        want = truth(a, s)
        try:
            got = o.evaluate(s).constant
        except Exception as e:
            # a formula over the connectives evaluates to a truth value on every 0/1 assignment; an exception is no value
            ctx.fail("evaluate-raised-on-a-total-assignment", {"sigma": s, "exception": f"{type(e).__name__}: {str(e)[:160]}", "truth_function": want})
            return
        if got != want:
            ctx.fail("truth-table-row-wrong", {"sigma": s, "evaluate": None if got is None else int(got), "truth_function": want})
            break
    if a["c"] in ("All", "Any", "Xor", "ExactlyOne", "XNor"):
        # the list constructors of the same classes
        o3 = getattr(pg, a["c"]).from_list([build(x) for x in a["args"]], variable=a.get("id"))
        ctx.tags["via-from_list"] += 1
        ctx.op({"op": "build", "ast": a}, {"t": snap(o3)}, label="build-from_list")
        for s in table:
            want = truth(a, s)
            got = o3.evaluate(s).constant
            if got != want:
                ctx.fail("from_list-truth-table-row-wrong", {"sigma": s, "evaluate": None if got is None else int(got), "truth_function": want})
                break
    if True:
        j = json.loads(json.dumps(to_json(a)))
        if ctx.rng.random() < 0.5:
            # a JSON object is an unordered collection of members: the same formula with its keys in another order
            def reorder(x):
                if isinstance(x, dict):
                    ks = list(x)
                    ks = ks[::-1] if ctx.rng.random() < 0.5 else ctx.rng.sample(ks, len(ks))
                    return {k: reorder(x[k]) for k in ks}
                if isinstance(x, list):
                    return [reorder(v) for v in x]
                return x
            j = reorder(j)
            ctx.tags["json-keys-in-another-order"] += 1
        oj = pg.from_json(j)
        ctx.tags["via-from_json"] += 1
        # the model's own from_json dispatch (PJ.toAst, theorem C04.fromJson_userJson) on the very JSON the code was given …
        ctx.op({"op": "from_json", "j": j, "cfg": False, "top": False}, {"t": snap(oj)}, label="build-from_json")
        # … and the constructor calls that dispatch is proved to make (Ast.viaJson)
        ctx.op({"op": "build", "ast": json_ast(a)}, {"t": snap(oj)}, label="build-viaJson")
        for s in table:
            want = truth(a, s)
            got = oj.evaluate(s).constant
            if got != want:
                ctx.fail("from_json-truth-table-row-wrong", {"json": j, "sigma": s, "evaluate": None if got is None else int(got),
                                                             "truth_function": want})
                break


# ---- rule dictionaries (Imply.from_cicJE)

RULES = ["REQUIRES_ALL", "REQUIRES_ANY", "ONE_OR_NONE", "FORBIDS_ALL", "REQUIRES_EXCLUSIVELY"]


def gen_cic(rng):
    names = list("abcdef")
    def comps(n):
        return [{"id": x} for x in rng.sample(names, n)]
    d = {"consequence": {"ruleType": rng.choice(RULES), "components": comps(rng.randint(1, 3))}}
    if rng.random() < 0.4: d["consequence"]["id"] = "CQ"
    if rng.random() < 0.5: d["id"] = "R"
    r = rng.random()
    if r < 0.8:
        cond = {"subConditions": []}
        if rng.random() < 0.7: cond["relation"] = rng.choice(["ALL", "ANY"])
        for k in range(rng.randint(0, 3)):
            sc = {"components": comps(rng.randint(1, 3))}
            if rng.random() < 0.7: sc["relation"] = rng.choice(["ALL", "ANY"])
            if rng.random() < 0.3: sc["id"] = f"S{k}"
            cond["subConditions"].append(sc)
        if rng.random() < 0.3: cond["id"] = "CD"
        d["condition"] = cond
    return d


def cic_ast(d, mode="default"):
    """the constructor calls from_cicJE makes (mode "str": cmp2prop returns the bare id string)"""
    def var(c): return {"c": "str", "id": c["id"]} if mode == "str" else {"c": "var", "id": c["id"], "lo": 0, "hi": 1}
    def wid(a, i):
        if i is not None: a["id"] = i
        return a
    cq = d["consequence"]
    xs = [var(c) for c in cq["components"]]
    rt = cq["ruleType"]
    cid = cq.get("id")
    if rt == "REQUIRES_ALL": cons = wid({"c": "All", "args": xs}, cid)
    elif rt == "REQUIRES_ANY": cons = wid({"c": "Any", "args": xs}, cid)
    elif rt == "ONE_OR_NONE": cons = wid({"c": "AtMost", "v": 1, "args": xs}, cid)
    elif rt == "FORBIDS_ALL": cons = {"c": "Not", "arg": wid({"c": "Any", "args": xs}, cid)}
    else: cons = wid({"c": "Xor", "args": xs}, cid)
    if "condition" not in d:
        return cons
    rel = lambda x: "All" if x.get("relation", "ALL") == "ALL" else "Any"
    inner = [wid({"c": rel(sc), "args": [var(c) for c in sc.get("components", [])]}, sc.get("id"))
             for sc in d["condition"].get("subConditions", [])]
    if not inner:
        return cons
    cond = wid({"c": rel(d["condition"]), "args": inner}, d["condition"].get("id")) if len(inner) > 1 else inner[0]
    return wid({"c": "Imply", "cond": cond, "cons": cons}, d.get("id"))


def cic_truth(d, s):
    cq = d["consequence"]
    n = sum(s[c["id"]] for c in cq["components"])
    m = len(cq["components"])
    cons = {"REQUIRES_ALL": n == m, "REQUIRES_ANY": n >= 1, "ONE_OR_NONE": n <= 1, "FORBIDS_ALL": n == 0,
            "REQUIRES_EXCLUSIVELY": n == 1}[cq["ruleType"]]
    subs_ = d.get("condition", {}).get("subConditions", []) if "condition" in d else []
    if not subs_:
        return int(cons)
    def rel(x, vals): return all(vals) if x.get("relation", "ALL") == "ALL" else any(vals)
    inner = [rel(sc, [s[c["id"]] == 1 for c in sc.get("components", [])]) for sc in subs_]
    cond = rel(d["condition"], inner) if len(inner) > 1 else inner[0]
    return int((not cond) or cons)


def do_cic(ctx, inp):
    d = inp["cic"]
    mode = inp.get("mode", "default")
    try:
        if mode == "str":
            o = pg.Imply.from_cicJE(copy.deepcopy(d), cmp2prop=lambda x: x["id"])
        elif mode == "ident":
            # ids under another key, read through id_ident
            def rekey(x):
                if isinstance(x, dict):
                    y = {k: rekey(v) for k, v in x.items()}
                    if set(y) == {"id"}:
                        # (half of the components also carry a record number of their own under "id": the caller asked for "code")
                        y = {"code": y["id"], "id": "cmp-%s" % y["id"]} if (sum(map(ord, y["id"])) + inp.get("salt", 0)) % 2 else {"code": y["id"]}
                    return y
                if isinstance(x, list): return [rekey(v) for v in x]
                return x
            o = pg.Imply.from_cicJE(rekey(copy.deepcopy(d)), id_ident="code")
        elif mode == "var":
            o = pg.Imply.from_cicJE(copy.deepcopy(d), cmp2prop=lambda x: puan.variable(x["id"]))
        else:
            o = pg.Imply.from_cicJE(copy.deepcopy(d))
    except Exception as e:
        ctx.skip(f"from_cicJE raised {type(e).__name__}")
        return
    t = snap(o)
    if not well_formed(t) or o.errors():
        ctx.skip("cic-rule-not-validated")
        return
    ctx.case(inp, nontrivial="condition" in d and bool(d["condition"].get("subConditions")), tags=tags_of(t) | {"via-from_cicJE", "cic-mode-" + mode, "cic-rule-" + d["consequence"]["ruleType"]})
    # the model's own rule-dictionary constructor (Cic.toAst, theorem C04.cic_semantics) on the very dictionary …
    ctx.op({"op": "cic_build", "d": d, "mode": "str" if mode == "str" else "var"}, {"t": t}, label="build-from_cicJE")
    # … and the harness-side rendering of the same mapping (kept as a cross-check of the two descriptions)
    ctx.op({"op": "build", "ast": cic_ast(d, mode)}, {"t": t}, label="build-cic_ast")
    lv = leaves_of(t)
    # the rule speaks about the components the dictionary names (under the key the caller pointed at): those are the leaves
    named = set()
    def comps(x):
        if isinstance(x, dict):
            if "components" in x:
                for c_ in x["components"]: named.add(c_["id"])
            for v_ in x.values(): comps(v_)
        elif isinstance(x, list):
            for v_ in x: comps(v_)
    comps(d)
    if set(lv) != named:
        ctx.fail("cicJE-leaves-are-not-the-named-components", {"model_leaves": sorted(lv), "components": sorted(named), "mode": mode}); return
    for s in all_assignments(lv):
        want = cic_truth(d, s)
        got = o.evaluate(s).constant
        if got != want:
            ctx.fail("cicJE-truth-table-row-wrong", {"sigma": s, "evaluate": None if got is None else int(got), "rule_semantics": want})
            break


def small_scope():
    """every formula with at most two connectives over leaves a, b"""
    leaves = [{"c": "str", "id": "a"}, {"c": "str", "id": "b"}]
    def level(args_pool):
        out = []
        for x in args_pool:
            out.append({"c": "Not", "arg": x})
        import itertools
        for x, y in itertools.permutations(args_pool, 2):
            out.append({"c": "Imply", "cond": x, "cons": y})
        for k in (1, 2):
            for combo in itertools.combinations(args_pool, k):
                ids = [json.dumps(c, sort_keys=True) for c in combo]
                if len(set(ids)) < len(ids): continue
                args = list(combo)
                for c in ("All", "Any", "Xor", "XNor"):
                    out.append({"c": c, "args": args})
                for v in (-1, 0, 1, 2, 3):
                    out.append({"c": "AtLeast", "v": v, "args": args})
                    out.append({"c": "AtMost", "v": v, "args": args})
                    for sg in (1, -1):
                        out.append({"c": "AtLeast", "v": v, "args": args, "sign": sg})
        return out
    l1 = level(leaves)
    yield from l1
    yield from level(leaves + l1[::7])


def do_derived_case(ctx, inp):
    """Not / negate / Imply whose argument is the OUTPUT of another operation (assume, reduce, a round trip): the connective
    has its documented truth function of the argument's truth value — the argument evaluated on its own (no Lean build op:
    the argument is not a constructor expression)"""
    a = inp["ast"]
    o = build(a)
    t = snap(o)
    lv = leaves_of(t)
    ctx.case(inp, nontrivial=True, tags={"connective-over-derived-argument", "via-" + a["via"], "arg-via-" + str(a["arg"].get("via"))})
    n = 0
    for sigma in assignments(ctx.rng, lv, 256 if ctx.quick else 2048):
        want = expected_by_argument(a, sigma)
        if want is None:
            continue
        n += 1
        try:
            got = o.evaluate(dict(sigma)).constant
        except Exception as e:
            ctx.fail("evaluate-raised-on-a-total-assignment", {"via": a["via"], "sigma": sigma, "exception": f"{type(e).__name__}: {str(e)[:160]}", "model": t})
            return
        if got is None or int(got) != want:
            ctx.fail("connective-over-derived-argument-has-another-truth-function",
                     {"via": a["via"], "sigma": sigma, "evaluate": None if got is None else int(got), "truth_function_of_the_argument": want, "model": t})
            return
    if not n: ctx.tags["derived-argument-never-constant"] += 1


def run(ctx):
    for _ in range((120 if ctx.quick else 800) * (3 if ctx.search else 1)):
        try:
            a, o, t = gen_derived(ctx.rng, ctx.quick, chain_p=0.6, vias=["assume", "assume+reduce", "reduce", "json", "deepcopy", "negate", "Not", "Imply", "ImplyCons"],
                                  classes=PLOG, bool_only=True)
        except RuntimeError:
            break
        if a["via"] not in ("negate", "Not", "Imply", "ImplyCons"):
            a = {"c": "$derive", "via": ctx.rng.choice(["Not", "negate", "Imply", "ImplyCons"]), "arg": a, "other": "zq"}
            try:
                o = build(a)
                if is_var(o) or not well_formed(snap(o)) or o.errors(): continue
            except Exception:
                continue
        do_derived_case(ctx, {"ast": a, "derived": True})
    n = (400 if ctx.quick else 2500) * (3 if ctx.search else 1)
    for _ in range(n):
        a, o, t = gen_valid(ctx.rng, ctx.quick, classes=PLOG, bool_only=True)
        do_case(ctx, {"ast": a})
    # negations (Not, Imply condition, double Not) of conjunctions / k-of-n over a mix of compounds and several atoms:
    # the inward push has to count every atom
    from props.c05 import gen_mixed
    made = 0
    for _ in range(n * 3):
        if made >= n // 3:
            break
        inner = gen_mixed(ctx.rng, 1)
        def boolify(x):
            if isinstance(x, dict):
                y = {k: boolify(v) for k, v in x.items() if k != "sign"}
                if y.get("c") == "var": y["lo"], y["hi"] = 0, 1
                return y
            if isinstance(x, list): return [boolify(v) for v in x]
            return x
        inner = boolify(inner)
        if inner.get("c") == "AtLeast" and inner["v"] < 1: inner["v"] = 1
        a = ctx.rng.choice([{"c": "Not", "arg": inner}, {"c": "Imply", "cond": inner, "cons": {"c": "str", "id": "w"}},
                            {"c": "Not", "arg": {"c": "Not", "arg": inner}}, {"c": "XNor", "args": [inner, {"c": "str", "id": "w"}]}])
        try:
            o = build(a)
        except Exception:
            continue
        if is_var(o) or not well_formed(snap(o)) or o.errors():
            continue
        made += 1
        ctx.tags["negated-mixed-stream"] += 1
        do_case(ctx, {"ast": a})
    # an explicitly named sub-formula next to its own negation (`Not` keeps the name, so one connective holds two different
    # propositions under one id): the statement is about formulas, not about validated models, and the constructors count
    # distinct PROPOSITIONS — All(P, Not(P)) is a contradiction, Any(P, Not(P)) a tautology, All(P→x, ¬P→x) is x
    for _ in range(n // 8):
        rng = ctx.rng
        P = {"c": rng.choice(["Any", "All", "Xor", "AtMost", "AtLeast"]), "args": [{"c": "str", "id": x} for x in rng.sample("abcd", rng.randint(1, 3))], "id": "P"}
        if P["c"] in ("AtMost", "AtLeast"): P["v"] = rng.randint(1, len(P["args"]))
        nP = {"c": "Not", "arg": P}
        shape = rng.random()
        if shape < 0.5:
            args = [P, nP] + ([{"c": "str", "id": "e"}] if rng.random() < 0.4 else [])
            rng.shuffle(args)
            a = {"c": rng.choice(["All", "All", "Any", "Xor", "XNor"]), "args": args}
        else:
            a = {"c": rng.choice(["All", "All", "Any"]), "args": [{"c": "Imply", "cond": P, "cons": {"c": "str", "id": "x"}},
                                                               {"c": "Imply", "cond": nP, "cons": {"c": "str", "id": "x"}}]}
        if rng.random() < 0.3: a = {"c": rng.choice(["Not", "Any"]), **({"arg": a} if False else {}), "args": [a, {"c": "str", "id": "w"}]}
        if a["c"] == "Not": a = {"c": "Not", "arg": a["args"][0]}
        ctx.tags["named-sub-formula-next-to-its-negation"] += 1
        do_case(ctx, {"ast": a})
    # an argument listed more than once: the connectives count their ARGUMENTS' truth values (Xor(a, a) has two arguments; both
    # are true or both false, never exactly one) — formulas, not validated models
    for _ in range(n // 10):
        rng = ctx.rng
        base = [{"c": "str", "id": x} for x in rng.sample("abc", rng.randint(1, 2))]
        if rng.random() < 0.4:
            base[0] = {"c": rng.choice(["Any", "All"]), "args": [{"c": "str", "id": "p"}, {"c": "str", "id": "q"}], "id": "G"}
        args = base + [rng.choice(base)]
        rng.shuffle(args)
        c = rng.choice(["XNor", "XNor", "Xor", "ExactlyOne", "Any", "AtLeast", "AtMost"])
        a = {"c": c, "args": args}
        if c in ("AtLeast", "AtMost"): a["v"] = rng.randint(1, len(args))
        if rng.random() < 0.3: a = {"c": rng.choice(["Not", "Any"]), **({"arg": a} if False else {}), "args": [a, {"c": "str", "id": "w"}]}
        if a["c"] == "Not": a = {"c": "Not", "arg": a["args"][0]}
        ctx.tags["argument-listed-more-than-once"] += 1
        do_case(ctx, {"ast": a})
    for _ in range(n // 2):
        do_case(ctx, {"cic": gen_cic(ctx.rng), "mode": ctx.rng.choice(["default", "default", "str", "ident", "ident", "var"]), "salt": ctx.rng.randint(0, 1)})
    if not ctx.quick and not ctx.search:
        for a in small_scope():
            try:
                o = build(a)
            except Exception:
                continue
            if is_var(o) or not well_formed(snap(o)) or o.errors():
                continue
            do_case(ctx, {"ast": a})
            ctx.tags["small-scope"] += 1
