"""C14 — configurator objectives realise choices over defaults over stinginess."""
import itertools
from configs import *

RULE = ("seeded random configurators over boolean items (defaulted and plain cc.Any/cc.Xor, AtMost, All, Any, Xor, Imply rules, "
        "nested) x 1-2 priority dictionaries per select (positive, negative, ties, up to three levels, item and rule ids); "
        "structure after the default restructuring, default_prios, and the objective vectors captured from select(..., "
        "solver=recorder) compared with the model; the decidable dominance certificate evaluated by the Lean driver on the "
        "real objective; oracle: up to 400 (quick) pairs of feasible 0/1 configurations (all, when <= 12 columns) ranked "
        "lexicographically by the statement's levels vs the objective values; non-trivial = a default or a priority is present")
ASSUMPTIONS = ["boolean items only (the statement's scope)", "levels: user priorities by magnitude, then default magnitude 2 (the "
               "non-default branch), then default magnitude 1 (every other column); columns with a user priority leave the default levels"]


def level_sums(x, ids, dpv, user):
    out = []
    for p in sorted({abs(u) for u in user if u != 0}, reverse=True):
        out.append(sum((1 if u > 0 else -1) * x[j] for j, u in enumerate(user) if abs(u) == p))
    for d in sorted({abs(v) for j, v in enumerate(dpv) if user[j] == 0 and v != 0}, reverse=True):
        out.append(sum((1 if dpv[j] > 0 else -1) * x[j] for j in range(len(ids)) if user[j] == 0 and abs(dpv[j]) == d))
    return tuple(out)


def do_case(ctx, inp):
    a, prios = inp["ast"], inp["prios"]
    o = build(a)
    if inp.get("via") == "deepcopy":
        # a configurator is a configurator however the caller came by it: a deep copy, or one unpacked from its base64 string
        import copy as _copy
        o = _copy.deepcopy(o)
    elif inp.get("via") == "b64":
        o = pg.from_b64(o.to_b64())
    t = snap(o)
    has_default = any(n["k"] == "node" and n.get("default") for n in subs(t))
    ctx.case(inp, nontrivial=has_default or any(prios), tags=tags_of(t) | ({"has-default"} if has_default else set())
             | {f"prio-levels-{len({abs(v) for p in prios for v in p.values()})}"}
             | ({"negative-prio"} if any(v < 0 for p in prios for v in p.values()) else set())
             | ({"prio-on-rule-id"} if any(k in compound_ids(t) for p in prios for k in p) else set()))
    ctx.op({"op": "build", "ast": a}, {"t": t}, label="cc_build")
    # "non-default branches": in a defaulted choice that lists its default among its alternatives, every other alternative
    # sits below the generated non-default branch (the node tagged -2) — read off the structure, independently of the ids
    for n_ in subs(t):
        if n_["k"] == "node" and n_["cls"] == "ccXor" and n_.get("default"):
            # the "at least one" half of a defaulted cc.Xor is a cc.Any over the same alternatives with the same defaults,
            # in the caller's order of preference
            inner = [k for k in n_["kids"] if k["k"] == "node" and k["cls"] == "ccAny"]
            if inner and [d[0] for d in inner[0].get("default") or []] != [d[0] for d in n_["default"]]:
                ctx.fail("defaults-of-a-choice-reordered-on-the-way-to-its-at-least-one-half",
                         {"choice": n_["id"], "default": [d[0] for d in n_["default"]], "handed_on": [d[0] for d in inner[0].get("default") or []]}); return
        if n_["k"] == "node" and n_["cls"] == "ccAny" and n_.get("default"):
            # THE default is the first entry of the default list; if it is one of the alternatives, it alone stays directly
            # below the choice and every other alternative sits below the generated non-default branch (the node tagged -2)
            first = n_["default"][0][0]
            helper = [k for k in n_["kids"] if k["k"] == "node" and k.get("prio") == -2]
            direct = [k for k in n_["kids"] if not (k["k"] == "node" and k.get("prio") == -2)]
            alts = {k["id"] for k in direct} | {k["id"] for h in helper for k in h["kids"]}
            if first in alts and len(alts) >= 2:
                stray = [k["id"] for k in direct if not (k["k"] == "leaf" and k["id"] == first)]
                if stray or not any(k["k"] == "leaf" and k["id"] == first for k in direct):
                    ctx.fail("non-default-alternative-outside-the-non-default-branch",
                             {"choice": n_["id"], "default": first, "directly_below_the_choice": [k["id"] for k in direct]}); return
    dp = sorted([k, int(v)] for k, v in o.default_prios.items())
    ctx.op({"op": "default_prios", "t": t}, {"prios": dp})
    rec = Recorder()
    list(o.select(*prios, solver=rec))
    poly, objs = rec.calls[0]
    # what is reported back (all columns / leaf items only) is no part of the question put to the solver
    rec_l = Recorder()
    list(o.select(*prios, solver=rec_l, only_leafs=True))
    if [list(map(int, w)) for w in rec_l.calls[0][1]] != [list(map(int, w)) for w in objs]:
        ctx.fail("objective-depends-on-only_leafs", {"priorities": prios, "objectives": [list(map(int, w)) for w in objs],
                                                     "with_only_leafs": [list(map(int, w)) for w in rec_l.calls[0][1]]}); return
    if ctx.rng.random() < 0.3:
        # a numpy COPY of the configurator's polyhedron (deepcopy, .copy(), a view, astype, a slice of everything): if it
        # answers select() at all — it may refuse, lacking the default priorities — it hands the solver the objective the
        # configurator itself hands over
        import copy as _copy2
        how = ctx.rng.choice(["deepcopy", "copy", "view", "slice", "astype"])
        ph = o.ge_polyhedron
        ph2 = {"deepcopy": lambda: _copy2.deepcopy(ph), "copy": lambda: ph.copy(), "view": lambda: ph.view(), "slice": lambda: ph[:],
               "astype": lambda: ph.astype(np.int64)}[how]()
        rec_c = Recorder()
        try:
            list(ph2.select(*prios, solver=rec_c))
            answered = bool(rec_c.calls)
        except Exception:
            answered = False
        ctx.tags["copy-of-the-configurator-polyhedron-" + ("answers" if answered else "refuses") + "-select"] += 1
        if answered and [list(map(int, w)) for w in rec_c.calls[0][1]] != [list(map(int, w)) for w in objs]:
            ctx.fail("a-copy-of-the-configurator-polyhedron-hands-over-another-objective",
                     {"copy": how, "priorities": prios, "objectives": [list(map(int, w)) for w in objs],
                      "from_the_copy": [list(map(int, w)) for w in rec_c.calls[0][1]]}); return
    rows, avars = poly_snap(poly)
    ids = [v[0] for v in avars]
    dpv = [int(v) for v in np.asarray(poly.default_prio_vector).tolist()]
    dpd = dict(map(tuple, dp))
    missing = [i for i in ids if i not in dpd]
    if missing:
        # every column of the polyhedron has a default priority (-1: prefer not selecting it; -2: non-default branch)
        ctx.fail("default-priorities-miss-a-column", {"columns_without_default_priority": missing, "default_prios": dp}); return
    if dpv != [dpd[i] for i in ids]:
        ctx.fail("default-prio-vector-misaligned", {"dpv": dpv, "ids": ids, "default_prios": dp}); return
    if len(objs) != len(prios):
        ctx.fail("number-of-objectives", {"got": len(objs), "want": len(prios)}); return
    # the statement's default levels, independently of the tags the code set: a column is a "non-default branch" only if
    # it is used as such wherever it occurs: every parent of the node carries a default (the helper node a defaulted
    # Any/Xor generates around its non-default alternatives is used nowhere else); everything else is a plain column
    parents_ok = {}
    for n_ in subs(t):
        if n_["k"] == "node":
            for k in n_["kids"]:
                if k["k"] == "node":
                    parents_ok[k["id"]] = parents_ok.get(k["id"], True) and bool(n_.get("default"))
    dpv_stmt = [-2 if (dpv[j] == -2 and parents_ok.get(i, False)) else -1 for j, i in enumerate(ids)]
    if dpv_stmt != dpv:
        ctx.tags["default-level-tag-on-a-column-that-is-no-helper-node"] += 1
    feas = None
    tagsets = {}
    for n_ in subs(t):
        if n_["k"] == "node": tagsets.setdefault(n_["id"], set()).add(n_.get("prio"))
    coincident = any(len(v) > 1 for v in tagsets.values())
    if coincident:
        # a generated non-default branch that coincides with a plain sub-rule elsewhere: the column is both, and which level
        # it belongs to is not fixed by the statement (DESIGN §12) — the ranking oracle is not applied; what the code does is
        # still tied to the model (default_prios, objective, certificate)
        ctx.tags["coincident-non-default-branch-ranking-oracle-not-applied"] += 1
    if len(ids) <= (12 if ctx.quick else 15) and not coincident:
        feas = [x for x in itertools.product((0, 1), repeat=len(ids)) if all(row_ok(r, dict(zip(ids, x))) for r in rows)]
    for prio, w in zip(prios, objs):
        w = [int(v) for v in w]
        user = [int(prio.get(i, 0)) for i in ids]
        ctx.op({"op": "objective", "dpv": dpv, "user": user}, {"w": w, "spec": w})
        # certificate on the real objective: levels are the dense ranks of the keys (row, magnitude)
        keys = [(1, abs(u)) if u != 0 else (0, abs(d)) if d != 0 else None for u, d in zip(user, dpv)]
        ds = sorted({k for k in keys if k is not None})
        nzj = [j for j, k in enumerate(keys) if k is not None]
        if any(w[j] != 0 for j, k in enumerate(keys) if k is None) or any((w[j] > 0) != ((user[j] or dpv[j]) > 0) for j in nzj):
            ctx.fail("zero-or-sign-of-weight-wrong", {"w": w, "user": user, "dpv": dpv}); return
        ctx.op({"op": "cert_dominates", "levels": [1 + ds.index(keys[j]) for j in nzj], "w": [w[j] for j in nzj]}, {"ok": True},
               label="cert_dominates")
        if feas is not None and len(feas) >= 2:
            pairs = list(itertools.combinations(feas, 2))
            if len(pairs) > (400 if ctx.quick else 4000):
                pairs = ctx.rng.sample(pairs, 400 if ctx.quick else 4000)
            for x, y in pairs:
                lx, ly = level_sums(x, ids, dpv_stmt, user), level_sums(y, ids, dpv_stmt, user)
                vx, vy = sum(a_ * b for a_, b in zip(w, x)), sum(a_ * b for a_, b in zip(w, y))
                if (lx > ly) != (vx > vy) or (lx == ly) != (vx == vy):
                    ctx.fail("objective-does-not-rank-lexicographically",
                             {"priorities": prio, "ids": ids, "w": w, "default_prio_vector": dpv, "x": list(x), "y": list(y),
                              "level_sums_x": list(lx), "level_sums_y": list(ly), "objective_x": vx, "objective_y": vy}); return
            ctx.tags["pairs-compared"] += len(pairs)


def run(ctx):
    rng = ctx.rng
    n = (300 if ctx.quick else 1500) * (3 if ctx.search else 1)
    for _ in range(n):
        a, o, t = valid_configurator(rng, ctx.quick, multi_default_p=0.25)
        names = sorted(leaves_of(t)) + [c for c in compound_ids(t) if not c.startswith("VAR")]
        prios = []
        for _ in range(rng.randint(1, 2)):
            k = rng.randint(0, min(4, len(names)))
            if rng.random() < 0.1:
                # priorities of large magnitude that differ by one (timestamps, sequence numbers): still different levels
                B = rng.choice([2**53, 2**56, 2**60])
                prios.append({x: rng.choice([B, B + 1, -(B + 1), B + 2, 3]) for x in rng.sample(names, k)})
            else:
                prios.append({x: rng.choice([1, 1, -1, 2, -2, 3]) for x in rng.sample(names, k)})
        case = {"ast": a, "prios": prios}
        if rng.random() < 0.25:
            case["via"] = rng.choice(["deepcopy", "b64"]); ctx.tags["configurator-obtained-via-" + case["via"]] += 1
        do_case(ctx, case)
