"""C20 — id/position bridges are faithful."""
from mats import *

RULE = ("seeded random variable lists with arbitrary duplicate-free ids (ascii / unicode strings, ints, tuples; any bounds) x "
        "dictionaries with known and unknown ids x every dtype/default combination (int64 -> lower bound, float -> NaN, "
        "callables); list/context conversions incl. nested lists; to_list; boolean/integer index sets; A/b split of a "
        "polyhedron; all compared with the model and checked directly against the statement; non-trivial = a non-string id "
        "or a non-boolean bound or an unknown id occurs")
ASSUMPTIONS = ["ids are duplicate-free; ids are carried to the model as a canonical text (type tag + repr)"]

POOL = ["a", "b", "x1", "ö", "名前", "a b", 1, 2, 17, -3, ("t", 1), ("t", 2), (1, 2), "1", "('t', 1)"]


def key(i):
    return ("s:" + i) if isinstance(i, str) else ("i:" + str(i)) if isinstance(i, int) else ("t:" + repr(i))


def do_case(ctx, inp):
    if inp.get("model_context"):
        return do_model_context(ctx, inp)
    ids = [tuple(i) if isinstance(i, list) else i for i in inp["ids"]]
    bnds = inp["bnds"]
    fix = lambda i: tuple(i) if isinstance(i, list) else i
    d = {fix(k): v for k, v in inp["dict"]}
    lst = [fix(i) for i in inp["lst"]]
    vec = inp["vec"]
    dfl = inp["dflt"]
    def mkvar(i, b, dt):
        # a variable may be DECLARED with a dtype as well; what it is (a boolean or an integer column) is what its bounds say
        if dt is None or (dt == "bool" and tuple(b) != (0, 1)): return puan.variable(i, tuple(b))
        if dt == "bool-with-Bounds": return puan.variable(i, puan.Bounds(b[0], b[1]), dtype="bool")
        if dt == "enum-int": return puan.variable(i, tuple(b), dtype=puan.Dtype.INT)
        return puan.variable(i, tuple(b), dtype=dt)
    dts = inp.get("dtypes") or [None] * len(ids)
    vs = [mkvar(i, b, dt) for i, b, dt in zip(ids, bnds, dts)]
    n = len(vs)
    va = pnd.variable_ndarray(np.zeros(n, dtype=np.int64), variables=vs)
    unknown = any(k not in ids for k in d)
    ctx.case(inp, nontrivial=unknown or any(not isinstance(i, str) for i in ids) or any(b != [0, 1] for b in bnds),
             tags=({"list-repeats-an-id"} if len(set(map(repr, lst))) < len(lst) else set()) | {"dflt-" + (dfl if isinstance(dfl, str) else "callable-const")} | ({"unknown-id"} if unknown else set())
                  | ({"hash-colliding-twin-of-previous-array"} if inp.get("twin") else set())
                  | ({"explicit-zero-for-known-id"} if any(v == 0 and k in ids for k, v in d.items()) else set()))
    d0 = dict(d)            # what the caller wrote; `d` itself is handed to construct() twice
    if dfl == "lower":
        got = va.construct(d)
    elif dfl == "nan":
        got = va.construct(d, dtype=float)
    elif dfl == "upper":
        got = va.construct(d, default_value=lambda v: v.bounds.upper)
    else:
        got = va.construct(d, default_value=lambda v: dfl["const"])
    cons = nan_list(got)
    # the caller's dictionary used once more, for a vector of another kind (another default): the values it did not give
    # are filled with THAT call's default
    if dfl == "nan":
        again, want2 = nan_list(va.construct(d, default_value=lambda v: v.bounds.upper)), (lambda lo, hi: hi)
    else:
        again, want2 = nan_list(va.construct(d, dtype=float)), (lambda lo, hi: None)
    d = d0
    for j, (i, (lo, hi)) in enumerate(zip(ids, bnds)):
        w2 = d[i] if i in d else want2(lo, hi)
        if again[j] != w2 and not (again[j] is not None and w2 is not None and float(again[j]) == float(w2)):
            ctx.fail("construct-entry-wrong", {"column": j, "id": repr(i), "got": again[j], "want": w2,
                                               "history": "second construct() call with the same dictionary object and another default"})
            break
    flb = [int(x) for x in pnd.boolean_ndarray.from_list(lst, ids).tolist()] if lst else None
    fli = [int(x) for x in pnd.integer_ndarray.from_list(lst, ids).tolist()] if lst else None
    tl = [v.id for v in pnd.boolean_ndarray(np.array(vec, dtype=np.int64), variables=vs).to_list()]
    bi = [int(x) for x in va.boolean_variable_indices.tolist()]
    ii = [int(x) for x in va.integer_variable_indices.tolist()]
    # the same index sets asked for by name: the documented spellings are the strings "bool" / "int" and the enum members
    for spell_b, spell_i in (("bool", "int"), (puan.Dtype.BOOL, puan.Dtype.INT), (puan.Dtype("bool"), puan.Dtype("int"))):
        b2 = [int(x) for x in va.variable_indices(spell_b).tolist()]
        i2 = [int(x) for x in va.variable_indices(spell_i).tolist()]
        if b2 != bi or i2 != ii:
            ctx.case(inp, True, {"variable_indices-by-name"})
            ctx.fail("variable_indices-by-name-differs", {"spelling": [repr(spell_b), repr(spell_i)], "bool": b2, "int": i2,
                                                         "boolean_variable_indices": bi, "integer_variable_indices": ii}); return
    row = inp["row"]
    g = pnd.ge_polyhedron(np.array([row], dtype=np.int64), variables=[puan.variable.support_vector_variable()] + vs)
    A, b = g.to_linalg()
    exp = {"construct": cons, "flb": flb if flb is not None else [0] * n, "fli": fli if fli is not None else [0] * n,
           "tolist": [key(i) for i in tl], "boolidx": bi, "intidx": ii, "b": int(b[0]), "a": [int(x) for x in A[0].tolist()]}
    ctx.op({"op": "bridge", "vars": [[key(i), lo, hi] for i, (lo, hi) in zip(ids, bnds)],
            "dict": [[key(k), v] for k, v in d.items()], "dflt": dfl, "lst": [key(i) for i in lst],
            "ctx": [key(i) for i in ids], "vec": vec, "row": row}, exp)
    # oracle: the statement itself
    for j, (i, (lo, hi)) in enumerate(zip(ids, bnds)):
        want = d[i] if i in d else (lo if dfl == "lower" else None if dfl == "nan" else hi if dfl == "upper" else dfl["const"])
        if cons[j] != want:
            ctx.fail("construct-entry-wrong", {"column": j, "id": repr(i), "got": cons[j], "want": want})
    # the declared default in the other combinations of the two arguments: a callable decides whatever the dtype is; without
    # one, integer dtypes of any width take the lower bound and float dtypes of any width NaN
    combos = [("callable+float", dict(default_value=lambda v: v.bounds.upper, dtype=float), lambda lo, hi: hi),
              ("callable+float32", dict(default_value=lambda v: 7, dtype=np.float32), lambda lo, hi: 7),
              ("callable+float64", dict(default_value=lambda v: v.bounds.lower - 1, dtype=np.float64), lambda lo, hi: lo - 1),
              ("callable+int32", dict(default_value=lambda v: v.bounds.upper, dtype=np.int32), lambda lo, hi: hi),
              ("int32", dict(dtype=np.int32), lambda lo, hi: lo), ("int16", dict(dtype=np.int16), lambda lo, hi: lo),
              ("float32", dict(dtype=np.float32), lambda lo, hi: None), ("float64", dict(dtype=np.float64), lambda lo, hi: None)]
    name_, kw_, wf_ = combos[ctx.rng.randrange(len(combos))]
    ctx.tags["construct-default-combination-" + name_] += 1
    try:
        got3 = nan_list(va.construct(dict(d), **kw_))
    except Exception as e:
        ctx.fail("construct-raised", {"arguments": name_, "exception": f"{type(e).__name__}: {str(e)[:160]}"}); return
    for j, (i, (lo, hi)) in enumerate(zip(ids, bnds)):
        w3 = d[i] if i in d else wf_(lo, hi)
        if not (got3[j] == w3 or (got3[j] is not None and w3 is not None and float(got3[j]) == float(w3))):
            ctx.fail("construct-entry-wrong", {"column": j, "id": repr(i), "got": got3[j], "want": w3, "arguments": name_}); return
    if lst:
        if flb != [int(i in lst) for i in ids]:
            ctx.fail("boolean-from_list-wrong", {"got": flb})
        if fli != [(1 + lst.index(i)) if i in lst else 0 for i in ids]:
            ctx.fail("integer-from_list-wrong", {"got": fli})
        nb = pnd.boolean_ndarray.from_list([lst, lst[:1]], ids).tolist()
        if [[int(x) for x in r] for r in nb] != [[int(i in l) for i in ids] for l in (lst, lst[:1])]:
            ctx.fail("nested-from_list-wrong", {"got": nb})
    if lst:
        # the same conversions with VARIABLE OBJECTS on both sides (what `to_list()` returns and `.variables` holds): a listed
        # variable is the context's variable of that id — its own object, a fresh one with default bounds, or one narrowed
        # elsewhere (variables are equal when their ids are)
        byid = {key(v.id): v for v in vs}
        forms = [[byid.get(key(i)) or puan.variable(i) for i in lst], [puan.variable(i) for i in lst],
                 [puan.variable(i, (1, 1)) for i in lst]]
        lv = forms[ctx.rng.randrange(3)]
        ctx.tags["from_list-over-variable-objects"] += 1
        fb = [int(x) for x in pnd.boolean_ndarray.from_list(lv, vs).tolist()]
        fi = [int(x) for x in pnd.integer_ndarray.from_list(lv, vs).tolist()]
        if fb != [int(i in lst) for i in ids] or fi != [(1 + lst.index(i)) if i in lst else 0 for i in ids]:
            ctx.fail("from_list-over-variable-objects-wrong", {"listed": [[key(v.id), int(v.bounds.lower), int(v.bounds.upper)] for v in lv],
                                                               "context": [[key(v.id), int(v.bounds.lower), int(v.bounds.upper)] for v in vs],
                                                               "boolean": fb, "integer": fi})
    # nested / empty forms of the list conversions, and to_list on a matrix
    if lst:
        ni = pnd.integer_ndarray.from_list([lst, lst[:1]], ids).tolist()
        if [[int(x) for x in r] for r in ni] != [[(1 + l.index(i)) if i in l else 0 for i in ids] for l in (lst, lst[:1])]:
            ctx.fail("nested-integer-from_list-wrong", {"got": ni})
    for cls_ in (pnd.boolean_ndarray, pnd.integer_ndarray):
        if len(np.asarray(cls_.from_list([], ids)).tolist()) not in (0, len(ids)) or any(np.asarray(cls_.from_list([], ids)).flatten().tolist()):
            ctx.fail("empty-from_list-wrong", {"class": cls_.__name__})
    vec2 = [vec, [1 - min(v, 1) for v in vec]]
    tl2 = pnd.boolean_ndarray(np.array(vec2, dtype=np.int64), variables=vs).to_list()
    want2 = [[i for i, v in zip(ids, row) if v == 1] for row in vec2]
    if [[v.id for v in row] for row in tl2] != want2:
        ctx.fail("to_list-of-a-matrix-wrong", {"got": [[repr(v.id) for v in row] for row in tl2]})
    vec3 = [vec2, vec2[::-1]]
    tl3 = pnd.boolean_ndarray(np.array(vec3, dtype=np.int64), variables=vs).to_list()
    want3 = [[[i for i, v in zip(ids, row) if v == 1] for row in m2] for m2 in vec3]
    got3 = [[[v.id for v in row] for row in m2] for m2 in tl3] if all(isinstance(m2, list) and all(isinstance(r_, list) for r_ in m2) for m2 in tl3) else repr(tl3)[:200]
    if got3 != want3:
        ctx.fail("to_list-of-a-stack-of-matrices-wrong", {"got": got3 if isinstance(got3, str) else [[[repr(x) for x in r_] for r_ in m2] for m2 in got3]})
    if tl != [i for i, v in zip(ids, vec) if v == 1]:
        ctx.fail("to_list-wrong", {"got": [repr(i) for i in tl]})
    wb = [j for j, b_ in enumerate(bnds) if b_ == [0, 1]]
    if bi != wb or ii != [j for j in range(n) if j not in wb]:
        ctx.fail("variable-indices-wrong", {"bool": bi, "int": ii})
    if int(b[0]) != row[0] or [int(x) for x in A[0].tolist()] != row[1:] or [v.id for v in A.variables] != ids:
        ctx.fail("A-b-split-wrong", {"A": A.tolist(), "b": b.tolist()})


def do_no_columns(ctx, inp):
    """a polyhedron with no variable columns (only the support column): A is the m x 0 matrix over no variables, b the column"""
    bs = inp["b"]
    ctx.case(inp, True, {"polyhedron-without-variable-columns"})
    first = puan.variable.support_vector_variable() if not inp.get("named") else puan.variable("b", (1, 1))
    g = pnd.ge_polyhedron(np.array([[v] for v in bs], dtype=np.int64), variables=[first]) if inp.get("labelled") else \
        pnd.ge_polyhedron(np.array([[v] for v in bs], dtype=np.int64))
    try:
        A, b = g.A, g.b
        A2, b2 = g.to_linalg()
        got = {"A_shape": list(np.asarray(A).shape), "A_vars": [key(v.id) for v in A.variables], "b": [int(x) for x in np.asarray(b).tolist()],
               "linalg_A_shape": list(np.asarray(A2).shape), "linalg_b": [int(x) for x in np.asarray(b2).tolist()]}
    except Exception as e:
        ctx.fail("A-or-b-raised-on-a-polyhedron-without-variable-columns", {"b": bs, "exception": f"{type(e).__name__}: {str(e)[:120]}"}); return
    want = {"A_shape": [len(bs), 0], "A_vars": [], "b": bs, "linalg_A_shape": [len(bs), 0], "linalg_b": bs}
    if got != want:
        ctx.fail("A-b-split-wrong-without-variable-columns", {"got": got, "want": want})


def do_model_context(ctx, inp):
    """list conversions against the columns of a MODEL's polyhedron: those columns are labelled with the proposition objects
    themselves (compound columns are AtLeast / All / … objects); the caller lists plain variables or ids, compound ids
    among them (from `from_strings`, from JSON, from what assume() leaves of a fixed compound)"""
    from trees import build, snap, is_var
    o = build(inp["ast"])
    poly = o.to_ge_polyhedron(active=inp["active"])
    if inp.get("reduced"):
        nA = poly.A.shape[1]
        poly = poly.reduce_columns(np.array([np.nan] * nA))
    vs = list(poly.A.variables)
    ids = [v.id for v in vs]
    lst = [i for i in inp["lst"] if i in ids]
    ctx.case(inp, nontrivial=any(not is_var(v) or hasattr(v, "propositions") for v in vs), tags={"context-is-a-model-polyhedron", "listed-as-" + inp["form"]})
    if not lst: return
    lv = [puan.variable(i) for i in lst] if inp["form"] == "variables" else list(lst)
    fb = [int(x) for x in pnd.boolean_ndarray.from_list(lv, vs).tolist()]
    fi = [int(x) for x in pnd.integer_ndarray.from_list(lv, vs).tolist()]
    wb, wi = [int(i in lst) for i in ids], [(1 + lst.index(i)) if i in lst else 0 for i in ids]
    if fb != wb:
        ctx.fail("boolean-from_list-wrong", {"context": "columns of the model's polyhedron", "ids": ids, "listed": lst, "got": fb, "want": wb}); return
    if fi != wi:
        ctx.fail("integer-from_list-wrong", {"context": "columns of the model's polyhedron", "ids": ids, "listed": lst, "got": fi, "want": wi}); return
    back = [v.id for v in pnd.boolean_ndarray(np.array(wb), variables=vs).to_list()]
    if back != [i for i in ids if i in lst]:
        ctx.fail("to_list-wrong", {"context": "columns of the model's polyhedron", "got": back})


def run(ctx):
    rng = ctx.rng
    from trees import gen_valid, subs, free01
    for _ in range((60 if ctx.quick else 400) * (3 if ctx.search else 1)):
        a, o, t = gen_valid(rng, ctx.quick, wide_p=0.0, twins=False)
        if not free01(t): continue
        allids = sorted({n["id"] for n in subs(t)})
        lst = rng.sample(allids, rng.randint(1, min(4, len(allids))))
        do_model_context(ctx, {"ast": a, "active": rng.random() < 0.5, "lst": lst, "form": "variables",
                               "reduced": rng.random() < 0.2, "model_context": True})
    for _ in range(12 if ctx.quick else 60):
        do_no_columns(ctx, {"b": [rng.randint(-3, 4) for _ in range(rng.randint(1, 3))], "labelled": rng.random() < 0.5, "named": rng.random() < 0.3})
    n = (300 if ctx.quick else 5000) * (3 if ctx.search else 1)
    for _ in range(n):
        k = rng.randint(1, 6)
        ids = rng.sample(POOL, k)
        bnds = [[0, 1] if rng.random() < 0.5 else sorted([rng.randint(-5, 5), rng.randint(-5, 5)]) for _ in ids]
        dk = rng.sample(POOL, rng.randint(0, 4))
        dct = [[i, rng.choice([0, 0, rng.randint(-9, 9)])] for i in dk]        # explicit zeros are frequent: 0 is a value, not "absent"
        # boolean_ndarray.from_list treats a tuple in first position as a nested group (documented input form),
        # so tuple ids are not used inside `lst`
        lst = rng.sample([i for i in POOL if not isinstance(i, tuple)], rng.randint(0, 4))
        if lst and rng.random() < 0.35:
            # an id listed more than once: the integer form marks its FIRST position
            for _ in range(rng.randint(1, 2)):
                lst.insert(rng.randint(0, len(lst)), rng.choice(lst))
        vec = [rng.choice([0, 1, 1, 2]) for _ in ids]
        dfl = rng.choice(["lower", "nan", "upper", {"const": rng.randint(-3, 3)}])
        row = [rng.randint(-5, 5) for _ in range(k + 1)]
        case = {"ids": ids, "bnds": bnds, "dict": dct, "lst": lst, "vec": vec, "dflt": dfl, "row": row}
        if rng.random() < 0.25:
            case["dtypes"] = [(rng.choice(["int", "enum-int", "bool"]) if tuple(b) == (0, 1) else rng.choice(["int", "bool-with-Bounds", "enum-int"]))
                              if rng.random() < 0.5 else None for b in bnds]
            ctx.tags["variables-declared-with-a-dtype"] += 1
        do_case(ctx, case)
        if rng.random() < 0.35:
            # a twin handled right after, in the same process: same ids in the same order, bounds replaced by bounds that
            # collide under puan's hashes (hash(lo)+hash(hi); hash(-1) == hash(-2)), flipping columns between (0,1) and not
            def collide(b):
                lo, hi = b
                opts = [[lo - 1, hi + 1]] + ([[lo + 1, hi - 1]] if lo + 1 <= hi - 1 else []) + ([[-2, hi + 1 - 1]] if lo == -1 else []) \
                       + ([[-1, 3]] if b == [0, 1] else []) + ([[0, 1]] if b in ([-1, 3], [-1, 2], [-2, 3]) else [])
                return rng.choice(opts)
            tw = dict(case); tw["bnds"] = [collide(b) if rng.random() < 0.7 else b for b in bnds]; tw["twin"] = True; tw["prev"] = case
            do_case(ctx, tw)
