"""C08 — reduce() preserves meaning and removes every fixed variable."""
import copy
from trees import *

RULE = ("seeded random validated models, some leaves declared constant, then a random constant/range assumption applied "
        "with the real assume() (so leaves and sub-propositions are fixed by bounds or by assume); reduce() output compared "
        "structurally with the model; oracle: up to 60 (quick) interpretations of the still-free leaves (constants and "
        "sub-ranges) evaluated on reduced and unreduced model, and a scan of the reduced model for constant bounds; "
        "non-trivial = something was fixed and the model has a compound child or integer leaf")
ASSUMPTIONS = ["validated, reference-free models", "interpretations name only free leaves, inside declared bounds"]


def do_case(ctx, inp):
    a, A = inp["ast"], {k: tuple(v) for k, v in inp["A"].items()}
    o = build(a)
    if A:
        o = copy.deepcopy(o).assume(render_interp(ctx.rng, A))
    if is_var(o):
        ctx.skip("assumption-decided-whole-model")
        return
    t = snap(o)
    lv = leaves_of(t)
    fixed = [n["id"] for n in subs(t) if n["lo"] == n["hi"]]
    ctx.case(inp, nontrivial=bool(fixed) and (depth(t) > 1 or any(b != (0, 1) for b in lv.values())),
             tags=tags_of(t) | ({"has-fixed"} if fixed else set()))
    r = copy.deepcopy(o).reduce()
    tr = snap(r)
    ctx.op({"op": "reduce", "t": t}, {"t": tr})
    if ctx.rng.random() < 0.4:
        # reduce() leaves the receiver and every model built from it — before or afterwards — alone
        if kin_probe(ctx, o, lambda m: m.reduce(), "reduced", after_too=True):
            return
    free = {n: b for n, b in lv.items() if b[0] != b[1]}
    for j in range(inp.get("n_interp", 60 if ctx.quick else 300)):
        I = {}
        for n, (lo, hi) in free.items():
            x = ctx.rng.random()
            if j < 4:
                # the first few interpretations are complete: every free leaf a constant
                c = pick_in(ctx.rng, lo, hi); I[n] = (c, c)
            elif x < 0.7:
                c = pick_in(ctx.rng, lo, hi); I[n] = (c, c)
            elif x < 0.85:
                y = ctx.rng.randint(lo, hi); I[n] = (y, ctx.rng.randint(y, hi))
        rI = render_interp(ctx.rng, I)
        e0 = copy.deepcopy(o).evaluate(rI)
        e1 = copy.deepcopy(r).evaluate(rI)
        if e0.as_tuple() != e1.as_tuple():
            ctx.fail("reduced-model-evaluates-differently", {"I": interp_json(I), "unreduced": [int(e0.lower), int(e0.upper)],
                                                            "reduced": [int(e1.lower), int(e1.upper)], "reduced_model": tr})
            return
    if tr["k"] == "node":
        const = [n["id"] for n in subs(tr) if n["lo"] == n["hi"]]
        if const:
            ctx.fail("constant-survives-reduce", {"ids": const, "reduced_model": tr})
    elif tr["lo"] != tr["hi"]:
        ctx.fail("reduce-returned-non-constant-variable", {"reduced_model": tr})


def run(ctx):
    n_models = (200 if ctx.quick else 900) * (3 if ctx.search else 1)
    for _ in range(n_models):
        a, o, t = gen_valid(ctx.rng, ctx.quick, prefix_p=0.2, empty_p=0.04)
        if ctx.rng.random() < 0.15:
            # the model is the OUTPUT of another operation (assume / reduce / negate / Not / Imply / a JSON, base64, pickle or
            # deepcopy round trip, one or two of them) applied to a generated valid model
            a, o, t = gen_derived(ctx.rng, ctx.quick); ctx.tags["derived-model-stream"] += 1
        if ctx.rng.random() < 0.12:
            a, o, t = gen_valid_signed_sum(ctx.rng)     # explicit signs against thresholds of either sign, leaves around zero
        elif ctx.rng.random() < 0.06:
            a, o, t = gen_valid_huge(ctx.rng)           # a threshold over a quantity far beyond 16 bits
            ctx.tags["huge-threshold-stream"] += 1
        if ctx.rng.random() < 0.15:
            # atoms and compounds side by side under one node, their ids interleaving in sorted order (a named group between
            # two items, an item between two named groups; negated and plain), integer atoms included
            from props.c05 import gen_mixed
            for _ in range(10):
                b = gen_mixed(ctx.rng, 1)
                try:
                    ob = build(b)
                    if is_var(ob) or not well_formed(snap(ob)) or ob.errors(): continue
                except Exception:
                    continue
                a, o, t = b, ob, snap(ob); ctx.tags["mixed-atoms-and-compounds-stream"] += 1
                break
        # reduce() straight on the model as built (sub-propositions pre-fixed by construction reach reduce() as nodes; an
        # assume() before it would already have replaced them by their variable) …
        do_case(ctx, {"ast": a, "A": {}})
        # … and after assumptions
        for _ in range(2):
            A = gen_interp(ctx.rng, t, total=False, in_bounds=True, ranges=ctx.rng.random() < 0.3)
            do_case(ctx, {"ast": a, "A": {k: list(v) for k, v in A.items()}})
