"""C18 — extending a configurator equals building it with the extra rule."""
import copy
from configs import *
import puan.ndarray as pnd

RULE = ("seeded random configurators x sequences of 1-3 added rules (plain Any/All/AtMost, defaulted cc.Any/cc.Xor, Imply "
        "rules; fresh ids and ids that already name a top-level rule or item); after every add: the result compared "
        "structurally with the model's add and with StingyConfigurator(*old rules, new rule, id=...) built directly "
        "(structure, default prios, polyhedron with default priority vector, objectives and solutions through a recorder and "
        "an exact brute-force solver), the original snapshotted, refusal checked; non-trivial = at least one accepted addition")
ASSUMPTIONS = ["refusal concerns top-level rule/item ids (DESIGN §4 C18)", "validated configurators; items as id strings, variable objects (boolean, fixed, integer) or instances of a variable subclass"]


def brute(poly, objs):
    rows, avars = poly_snap(poly)
    ids = [v[0] for v in avars]
    pts = box_points(avars, 4096)
    out = []
    feas = None if pts is None else [x for x in pts if all(row_ok(r, x) for r in rows)]
    for w in objs:
        if not feas:
            out.append((None, 0, 4)); continue
        best = max(feas, key=lambda x: (sum(c * x[i] for c, i in zip(w, ids)), tuple(-x[i] for i in ids)))
        out.append((np.array([best[i] for i in ids]), 0, 5))
    return out


def observe(o, prio):
    """everything a user can tell two configurators apart by"""
    out = {"snap": snap(o), "default_prios": sorted([k, int(v)] for k, v in o.default_prios.items()),
           "poly": config_poly_snap(o.ge_polyhedron)}
    rec = Recorder(brute)
    sols = list(o.select(prio, solver=rec))
    out["objectives"] = rec.calls[0][1]
    out["solutions"] = [sorted((k, int(v)) for k, v in s[0].items()) for s in sols]
    return out


def do_case(ctx, inp):
    a, rules, prio = inp["ast"], inp["rules"], inp["prio"]
    o = build(a)
    t0 = snap(o)
    cur, cur_ast = o, a
    accepted = 0
    tg = set()
    rule_trees = []
    for r in rules:
        ro = build(r)
        top_ids = [c.id for c in cur.propositions]
        before = snap(cur)
        try:
            new = cur.add(ro)
            refused = False
        except Exception:
            refused = True
        if snap(cur) != before or snap(o) != t0:
            ctx.case(inp, True, tg); ctx.fail("add-changed-the-configurator-it-was-called-on", {"rule": r}); return
        if refused != (ro.id in top_ids):
            ctx.case(inp, True, tg); ctx.fail("refusal-wrong", {"rule_id": ro.id, "top_level_ids": top_ids, "refused": refused}); return
        if refused:
            tg.add("refused-duplicate-id")
            ctx.op({"op": "add_seq", "cfg": before, "rules": [snap(ro)]}, {"t": None})
            continue
        accepted += 1
        tg.add("rule-" + r["c"])
        ctx.op({"op": "add_seq", "cfg": before, "rules": [snap(ro)]}, {"t": snap(new)})
        if new.id != cur.id:
            ctx.case(inp, True, tg); ctx.fail("id-not-kept", {"old": cur.id, "new": new.id}); return
        # "a new configurator": what add() returns is the caller's — editing its own variable in place (fixing it, as
        # assume() does for a receiver) must not reach the configurator it was made from, nor an earlier result
        probe = cur.add(build(r))
        try:
            probe.variable.bounds = puan.Bounds(1, 1)
        except Exception:
            pass
        if snap(cur) != before or snap(o) != t0:
            ctx.case(inp, True, tg); ctx.fail("editing-the-returned-configurator-changed-the-one-it-was-made-from",
                                              {"rule": r, "edit": "result.variable.bounds = Bounds(1, 1)", "before": before["lo"], "after": snap(cur)["lo"]}); return
        prev_ast = cur_ast
        cur_ast = {"c": "Stingy", "args": cur_ast["args"] + [r], "id": cur.id}
        direct = build(cur_ast)
        if snap(new) != snap(direct):
            ctx.case(inp, True, tg)
            ctx.fail("add-differs-from-direct-construction", {"what": "structure", "added_rule": r, "via_add": snap(new), "direct": snap(direct)}); return
        if r.get("$nested_id"):
            # the rule's id also names something below the top level: add() accepts it (the refusal concerns top-level ids),
            # the result is the directly constructed configurator — which validation may well reject; nothing more to observe
            tg.add("rule-id-occurs-below-top-level")
            cur = new
            continue
        oa, ob = observe(new, prio), observe(direct, prio)
        for k in oa:
            if oa[k] != ob[k]:
                ctx.case(inp, True, tg)
                ctx.fail("add-differs-from-direct-construction", {"what": k, "added_rule": r, "via_add": oa[k], "direct": ob[k]}); return
        # "leaves the original configurator unchanged" also after the extended one has been used (the two share rule objects)
        if snap(cur) != before or snap(o) != t0:
            ctx.case(inp, True, tg)
            ctx.fail("using-the-extended-configurator-changed-the-original", {"rule": r, "before": before, "after": snap(cur)}); return
        fresh_prev = build(prev_ast)
        if sorted([k, int(v)] for k, v in cur.default_prios.items()) != sorted([k, int(v)] for k, v in fresh_prev.default_prios.items()):
            ctx.case(inp, True, tg)
            ctx.fail("using-the-extended-configurator-changed-the-original", {"rule": r, "what": "default_prios of the original differ from a freshly built one"}); return
        cur = new
    ctx.case(inp, nontrivial=accepted > 0, tags=tg | {f"accepted-{accepted}"})


def gen_rule(rng, t, k):
    names = sorted(leaves_of(t))
    kind = rng.choice(["Any", "All", "AtMost", "ccAny", "ccXor", "Imply", "Slack", "Bundle"])
    lvs = leaves_of(t)
    bools = [x for x in names if lvs[x] == (0, 1)] or names
    grp = lambda n: [{"c": "str", "id": x} for x in rng.sample(bools, min(n, len(bools)))]
    r = {}
    x = rng.random()
    nested = sorted({n["id"] for c in t["kids"] if c["k"] == "node" for n in subs(c) if n is not c and not (n["k"] == "node" and n["gen"])})
    if x < 0.2:
        r["id"] = rng.choice([c["id"] for c in t["kids"]])      # an existing top-level rule or item id
    elif x < 0.3 and nested:
        r["id"] = rng.choice(nested)                           # an id that occurs BELOW the top level (a nested rule or an item)
        r["$nested_id"] = True
    elif x < 0.85:
        r["id"] = f"NEW{k}"
    anon = [n for n in subs(t) if n["k"] == "node" and n["gen"] and n["cls"] == "Any" and n["kids"] and all(k["k"] == "leaf" and (k["lo"], k["hi"]) == (0, 1) for k in n["kids"])]
    if anon and rng.random() < 0.3:
        # a defaulted choice whose non-default alternatives are exactly an anonymous "any of" group the configurator
        # already contains: the generated helper node coincides (id and definition) with that existing sub-rule
        grp_ids = [k["id"] for k in rng.choice(anon)["kids"]]
        others = [x for x in bools if x not in grp_ids] or ["zz"]
        d = rng.choice(others)
        r.update(c=rng.choice(["ccAny", "ccXor"]), args=[{"c": "str", "id": x} for x in grp_ids] + [{"c": "str", "id": d}], default=[d])
        return r
    if kind in ("Any", "All"): r.update(c=kind, args=grp(rng.randint(1, 3)))
    elif kind == "AtMost": r.update(c="AtMost", v=1, args=grp(rng.randint(2, 3)))
    elif kind == "Bundle":
        # several named rules handed over as one unnamed conjunction: the configurator gains ONE rule (the conjunction), whose
        # members sit below it — exactly what the constructor builds from the same argument
        members = []
        for m_ in range(rng.randint(2, 3)):
            g = grp(rng.randint(1, 2))
            mm = {"c": rng.choice(["Any", "All", "AtMost"]), "args": g, "id": f"M{k}_{m_}"}
            if mm["c"] == "AtMost": mm["v"] = 1
            members.append(mm)
        r.pop("id", None)
        r.update(c="All", args=members)
    elif kind == "Slack":
        # a rule that cannot fail (a limit nobody can exceed, a threshold of nothing, a choice with an alternative that is
        # always there): it restricts nothing, and is a rule of the configurator like any other (its id, its items)
        g = grp(rng.randint(1, 3))
        z = rng.random()
        if z < 0.4: r.update(c="AtMost", v=len(g) + rng.randint(0, 1), args=g)
        elif z < 0.7: r.update(c="AtLeast", v=0, sign=1, args=g)
        else: r.update(c=rng.choice(["Any", "ccAny"]), args=g + [{"c": "var", "id": f"always{k}", "lo": 1, "hi": 1}])
    elif kind in ("ccAny", "ccXor"):
        args = grp(rng.randint(2, 3)); r.update(c=kind, args=args)
        if rng.random() < 0.7: r["default"] = [rng.choice(args)["id"]]
    else:
        r.update(c="Imply", cond={"c": "All", "args": grp(rng.randint(1, 2))}, cons={"c": "Any", "args": grp(rng.randint(1, 2))})
    return r


def run(ctx):
    rng = ctx.rng
    n = (300 if ctx.quick else 1500) * (3 if ctx.search else 1)
    for _ in range(n):
        a, o, t = valid_configurator(rng, ctx.quick, top_items=True, multi_default_p=0.15, dup_top_p=0.12)
        numeric = rng.random() < 0.15
        pool = ["9", "10", "100", "1001", "950", "1001-B", "2a", "02", "7", "12b", "0950", "99"]
        rng.shuffle(pool)
        if numeric:
            # rule ids that are numbers or start like numbers (article numbers): ids are texts, ordered as texts
            seen_ids = {}
            for x in a["args"]:
                if isinstance(x, dict) and x.get("c") not in ("str", "var") and "id" in x and pool:
                    x["id"] = seen_ids.setdefault(x["id"], pool.pop())
            try:
                o = build(a); t = snap(o)
                if not well_formed(t) or o.errors(): continue
            except Exception:
                continue
            ctx.tags["number-like-rule-ids"] += 1
        rules = []
        # (rules are validated against the configurator without its repeated top-level entries, if it has any)
        base_args, seen_ = [], []
        for x in a["args"]:
            if not any(x == y for y in seen_):
                base_args.append(x); seen_.append(x)
        for k in range(rng.randint(1, 3)):
            for _ in range(20):
                r = gen_rule(rng, t, k)
                try:
                    ro = build(r)
                    trial = build({"c": "Stingy", "args": base_args + rules + [r], "id": "x"})
                    tt = snap(trial)
                    ok = "id" in r and any(c["id"] == r["id"] for c in t["kids"]) or r.get("$nested_id") or (well_formed(tt) and not trial.errors() and free01(tt))
                except Exception:
                    ok = False
                if ok and numeric and pool and str(r.get("id", "")).startswith("NEW"):
                    r = dict(r); r["id"] = pool.pop()
                    try:
                        trial = build({"c": "Stingy", "args": base_args + rules + [r], "id": "x"})
                        ok = well_formed(snap(trial)) and not trial.errors() and free01(snap(trial))
                    except Exception:
                        ok = False
                if ok:
                    rules.append(r); break
        names = sorted(leaves_of(t))
        prio = {x: rng.choice([1, -1, 2]) for x in rng.sample(names, min(rng.randint(0, 2), len(names)))}
        do_case(ctx, {"ast": a, "rules": rules, "prio": prio})
