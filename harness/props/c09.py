"""C09 — queries are pure and results are independent of call history."""
import copy, json
from trees import *
from polys import *
from configs import *

RULE = ("seeded random call histories (3-12 calls) over 1-3 live objects in one process: proposition models and "
        "configurators, including hash-/eq-equal twin configurators (same ids, integer leaf bounds of equal sum); calls: "
        "evaluate / evaluate_propositions / assume (dictionaries naming sub-proposition ids in ~30%), reduce, negate, errors, "
        "to_json, to_b64, to_ge_polyhedron, flatten, solve, and for configurators ge_polyhedron, default_prios, leafs, select, "
        "add (a later select / solve / evaluate on the same object reuses the ids of an earlier one with other values in >= 30%); after every call: result vs the model's pure function of the receiver's current snapshot, result vs the same "
        "call on a freshly built identical object, and structural snapshots of every live object vs before the call; "
        "non-trivial = the history has a call naming a compound id, or a twin, or >= 2 objects")
ASSUMPTIONS = ["models are validated and reference-free", "the object returned by add() is deep-copied before it joins the live set",
               "known finding F-C09a (assume/evaluate write the variables of visited nodes named in the dictionary) is matched against "
               "the model's stepLeaky and reported as KNOWN-FINDING"]
TRUSTED = ["for calls the Lean model does not cover (errors, to_json, to_b64, solve, select, leafs) purity is judged against a freshly built identical object and the snapshots only"]

F_C09A = "F-C09a"


import os as _os
_DEVNULL = _os.open(_os.devnull, _os.O_WRONLY)


def safe(f):
    """run f; an exception becomes a value.  puan-rspy panics (a pre-fixed sub-proposition makes to_ge_polyhedron index out
    of bounds) print a Rust backtrace banner on fd 2 before they surface as a Python exception — silenced here"""
    saved = _os.dup(2)
    _os.dup2(_DEVNULL, 2)
    try:
        return f()
    except (KeyboardInterrupt, SystemExit):
        raise
    except BaseException as e:      # pyo3 panics derive from BaseException
        return {"exception": type(e).__name__}
    finally:
        _os.dup2(saved, 2)
        _os.close(saved)


def jsonable(x):
    return json.loads(json.dumps(x, default=lambda o: o.to_json() if hasattr(o, "to_json") else str(o)))


def has_shared_objects(o):
    seen, dup = set(), [False]
    def walk(x):
        if is_var(x): return
        if id(x) in seen: dup[0] = True; return
        seen.add(id(x))
        for c in x.propositions: walk(c)
    walk(o)
    return dup[0]


def perform(o, call, keep=None):
    """run one call on a real object; returns canonical result (`keep`: list that receives the proposition objects the
    call returned — a caller holds on to them)"""
    k = call["k"]
    if k in ("evaluate", "evalprops", "assume"):
        I = {a: tuple(b) for a, b in call["I"].items()}
        rI = {a: (lo if lo == hi and call.get("form", 0) == 0 else (lo, hi) if call.get("form", 0) < 2 else puan.Bounds(lo, hi)) for a, (lo, hi) in I.items()}
        if k == "evaluate":
            b = o.evaluate(rI); return [int(b.lower), int(b.upper)]
        if k == "evalprops":
            return sorted([a, int(b.lower), int(b.upper)] for a, b in o.evaluate_propositions(rI).items())
        r = o.assume(rI)
        if keep is not None and not is_var(r): keep.append(r)
        return snap(r)
    if k == "reduce":
        r = o.reduce()
        if keep is not None and not is_var(r): keep.append(r)
        return snap(r)
    if k == "negate":
        r = o.negate()
        if keep is not None and not is_var(r): keep.append(r)
        return snap(r)
    if k == "errors": return sorted(str(e.value) for e in o.errors())
    if k == "to_json": return safe(lambda: jsonable(o.to_json()))
    if k == "json_roundtrip":
        # reading a document back is a query on the document: what it gives must not depend on what was read (or asked) before
        j = jsonable(o.to_json())
        call["_j"] = j
        is_cfg_ = isinstance(o, cc.StingyConfigurator)
        r = cc.StingyConfigurator.from_json(copy.deepcopy(j)) if is_cfg_ else pg.from_json(copy.deepcopy(j))
        return snap(r)
    if k == "to_b64": return safe(lambda: o.to_b64())
    if k == "encode":
        rows, avars = poly_snap(o.to_ge_polyhedron(active=call["active"]))
        return {"rows": rows_json(rows), "vars": avars}
    if k == "flatten": return [[p.id, int(p.bounds.lower), int(p.bounds.upper)] for p in o.flatten()]
    if k == "solve":
        rec = Recorder()
        res = list(o.solve([call["objective"]], solver=rec))
        return {"objectives": rec.calls[0][1], "poly": poly_snap(rec.calls[0][0])[1], "res": jsonable(res)}
    if k == "ge_polyhedron": return config_poly_snap(o.ge_polyhedron)
    if k == "poly_query":
        # a query on the polyhedron the configurator hands out (and keeps): column / row analyses and point classification
        g = o.ge_polyhedron
        ncols = g.shape[1] - 1
        q = call["q"]
        if q == "neglectable":
            pat = np.zeros((1, ncols), dtype=np.int64); pat[0, :max(1, ncols // 2)] = 1
            return safe(lambda: np.asarray(g.neglectable_columns(pat)).tolist())
        if q == "separable": return safe(lambda: np.asarray(g.separable(np.zeros(ncols, dtype=np.int64))).tolist())
        if q == "tighten": return safe(lambda: np.asarray(g.tighten_column_bounds()).tolist())
        if q == "row_bounds": return safe(lambda: np.asarray(g.row_bounds()).tolist())
        if q == "reducable":
            return safe(lambda: [np.asarray(x).tolist() for x in g.reducable_rows_and_columns()] and "ok")
        return safe(lambda: np.asarray(g.ineqs_satisfied(np.ones(ncols, dtype=np.int64))).tolist())
    if k == "default_prios": return sorted([a, int(b)] for a, b in o.default_prios.items())
    if k == "leafs": return [v.id for v in o.leafs()]
    if k == "leafs_edit":
        # what a query returns is the caller's: the list of leafs is taken and then edited in place (sorted otherwise, emptied)
        ls = o.leafs()
        out = [v.id for v in ls]
        try:
            ls.reverse()
            if ls: ls.pop()
        except Exception:
            pass
        return out
    if k == "select":
        rec = Recorder()
        res = safe(lambda: jsonable(list(o.select(call["prio"], solver=rec, only_leafs=call.get("only_leafs", False)))))
        return {"objectives": rec.calls[0][1] if rec.calls else None, "res": res}
    raise ValueError(k)


def model_op(t, call):
    """the Lean op computing the same result from the current snapshot (None if not modelled)"""
    k = call["k"]
    I = [[a, lo, hi] for a, (lo, hi) in sorted(call.get("I", {}).items())]
    if k == "evaluate": return {"op": "evaluate", "t": t, "I": I}, lambda r: {"b": r}, None
    if k == "evalprops": return {"op": "evalprops", "t": t, "I": I}, lambda r: {"res": r}, None
    if k == "assume": return {"op": "assume", "t": t, "I": I}, lambda r: {"t": r}, None
    if k == "reduce": return {"op": "reduce", "t": t}, lambda r: {"t": r}, None
    if k == "negate": return {"op": "negate", "t": t}, lambda r: {"t": r}, None
    if k == "encode":
        return {"op": "encode", "t": t, "active": call["active"]}, lambda r: {"rows": r["rows"], "vars": r["vars"], "safe": solver_safe(t)}, norm_encode
    if k == "flatten":
        return {"op": "flatten", "t": t}, lambda r: {"res": r}, None
    if k == "json_roundtrip" and "_j" in call:
        cfg_ = t["cls"] == "Stingy"
        return {"op": "from_json", "j": call["_j"], "cfg": cfg_, "top": cfg_}, lambda r: {"t": r}, None
    if k == "ge_polyhedron":
        return {"op": "encode", "t": t, "active": True}, lambda r: {"rows": r["rows"], "vars": r["vars"], "safe": solver_safe(t)}, norm_encode
    return None


def gen_call(rng, o, t, is_cfg, prev=None):
    lv = leaves_of(t)
    kinds = ["evaluate", "evalprops", "assume", "reduce", "negate", "negate", "errors", "to_json", "to_b64", "encode", "flatten", "solve", "json_roundtrip"]
    if is_cfg:
        kinds += ["ge_polyhedron", "ge_polyhedron", "default_prios", "leafs", "leafs_edit", "select", "select", "add", "poly_query", "poly_query"]
    k = rng.choice(kinds)
    c = {"k": k}
    if k in ("evaluate", "evalprops", "assume"):
        I = gen_interp(rng, t, total=rng.random() < 0.4, allow_compound=True, in_bounds=True)
        c["I"] = {a: list(b) for a, b in I.items()}
        c["form"] = rng.randint(0, 2)
    elif k == "poly_query":
        c["q"] = rng.choice(["neglectable", "neglectable", "separable", "tighten", "row_bounds", "reducable", "satisfied"])
    elif k == "encode":
        c["active"] = rng.random() < 0.5
    elif k == "solve":
        c["objective"] = {a: rng.randint(-3, 3) for a in rng.sample(sorted(lv), min(2, len(lv)))}
        old = [p for p in (prev or []) if p["k"] == "solve" and p["objective"]]
        if old and rng.random() < 0.5:
            c["objective"] = {a: w + rng.choice([-2, -1, 1, 2]) for a, w in rng.choice(old)["objective"].items()}
    elif k == "select":
        c["prio"] = {a: rng.choice([1, -1, 2, 3]) for a in rng.sample(sorted(lv), min(rng.randint(0, 3), len(lv)))}
        c["only_leafs"] = rng.random() < 0.3
        old = [p for p in (prev or []) if p["k"] == "select" and p["prio"]]
        if old and rng.random() < 0.6:
            # the same ids as an earlier select on this object, other weights (a result memoised on the ids alone would show)
            base = rng.choice(old)["prio"]
            c["prio"] = {a: rng.choice([x for x in [1, -1, 2, 3, -2] if x != w]) if rng.random() < 0.7 else w for a, w in base.items()}
    if k in ("evaluate", "evalprops", "assume"):
        old = [p for p in (prev or []) if p["k"] in ("evaluate", "evalprops", "assume") and p["I"]]
        if old and rng.random() < 0.3:
            # same ids as an earlier interpretation, other values
            base = rng.choice(old)["I"]
            cids = set(compound_ids(t))
            I2 = {}
            for a, b in base.items():
                if a in cids:
                    I2[a] = rng.choice([[0, 0], [1, 1], [0, 1]])
                elif a in lv:
                    x = rng.randint(*lv[a]); I2[a] = [x, x]
            c["I"] = I2
    if k == "add":
        names = sorted(lv)
        c["rule"] = {"c": rng.choice(["Any", "All", "AtMost"]), "args": [{"c": "str", "id": x} for x in rng.sample(names, min(2, len(names)))],
                     "id": f"ADD{rng.randint(1, 99)}"}
        if c["rule"]["c"] == "AtMost": c["rule"]["v"] = 1
        c["prio_after"] = {a: rng.choice([1, -1, 2]) for a in rng.sample(names, min(rng.randint(0, 2), len(names)))}
    return c


def node_objects(x):
    """the compound node objects of a proposition (each once)"""
    out, seen = [], set()
    def walk(n):
        if isinstance(n, pg.AtLeast) and id(n) not in seen:
            seen.add(id(n)); out.append(n)
            for p_ in n.propositions:
                walk(p_)
    walk(x)
    return out


def key_of(i):
    return i if isinstance(i, str) else "#" + repr(i)


def do_case(ctx, inp):
    objs, calls = inp["objs"], inp["calls"]
    live = [build(a) for a in objs]
    asts = list(objs)
    if any(is_var(o) for o in live):
        ctx.skip("variable-object"); return
    created = [snap(o) for o in live]
    leaked = [False] * len(live)
    kept = []
    named_cid = [False] * len(live)  # the receiver has had an assume/evaluate call naming one of its sub-proposition ids
    names_compound = False
    for c in calls:
        if c["k"] in ("evaluate", "evalprops", "assume"):
            t0 = created[c["obj"]] if c["obj"] < len(created) else None
            if t0 and any(a in compound_ids(t0) for a in c["I"]): names_compound = True
    ctx.case(inp, nontrivial=names_compound or len(objs) > 1 or inp.get("twin", False),
             tags={f"objects-{len(objs)}", f"calls-{len(calls)}"} | ({"names-compound-id"} if names_compound else set())
                  | ({"twin-configurators"} if inp.get("twin") else set()))
    for step, c in enumerate(calls):
        i = c["obj"]
        if i >= len(live):
            continue
        o = live[i]
        before = [snap(x) for x in live]
        t = before[i]
        is_cfg = t["cls"] == "Stingy"
        ctx.tags["call-" + c["k"]] += 1
        if c["k"] == "add":
            if not is_cfg: continue
            r = safe(lambda: o.add(build(c["rule"])))
            after = [snap(x) for x in live]
            if after != before:
                ctx.fail("add-changed-an-existing-object", {"step": step, "call": c}); return
            if not isinstance(r, dict):
                new_ast = {"c": "Stingy", "args": asts[i]["args"] + [c["rule"]], **({"id": t["id"]})}
                if not leaked[i]:
                    # the returned object itself (not a copy: a copy drops whatever add() may have carried over from the
                    # receiver) must answer like a freshly built configurator with the extra rule
                    fresh = build(new_ast)
                    for q in ({"k": "ge_polyhedron"}, {"k": "default_prios"}, {"k": "leafs"},
                              {"k": "select", "prio": c.get("prio_after", {}), "only_leafs": False}):
                        a1, a2 = safe(lambda: perform(r, q)), safe(lambda: perform(fresh, q))
                        if a1 != a2:
                            ctx.fail("result-depends-on-history", {"step": step, "call": c, "then": q, "on_object_returned_by_add": a1,
                                                                    "fresh_object": a2}); return
                    ctx.tags["add-result-queried-directly"] += 1
                live.append(copy.deepcopy(r)); created.append(snap(r)); leaked.append(leaked[i]); named_cid.append(named_cid[i])
                asts.append(new_ast)
            continue
        got = []
        res = safe(lambda: perform(o, c, keep=got))
        after = [snap(x) for x in live]
        # propositions returned by EARLIER calls are still in the caller's hands: this call must not have changed them
        for kp in kept:
            now = safe(lambda: snap(kp["obj"]))
            if now != kp["snap"]:
                named = set(c.get("I", {}))
                ch = [(x["id"], [y["lo"], y["hi"]]) for x, y in zip(subs(kp["snap"]), subs(now)) if x["id"] == y["id"] and (x["lo"], x["hi"]) != (y["lo"], y["hi"])] if isinstance(now, dict) and "k" in now else []
                comp_ids = set(compound_ids(kp["snap"]))
                shaped = c["k"] in ("evaluate", "evalprops", "assume") and ch and all(cid in named and cid in comp_ids and c["I"][cid] == nb for cid, nb in ch)
                if shaped:
                    # … which is the known finding only if the changed nodes of the earlier result ARE nodes of the receiver (the
                    # leak re-binds the variable of the receiver's own node objects); an earlier result that merely has nodes
                    # with those ids (a negation, a rebuilt copy) cannot be reached by it
                    recv_nodes = {id(n) for n in node_objects(o)}
                    moved = [n for n, b0 in kp["nodes"] if (int(n.bounds.lower), int(n.bounds.upper)) != b0]
                    shaped = all(id(n) in recv_nodes for n in moved)
                    if not shaped:
                        ctx.tags["earlier-result-changed-through-a-node-the-receiver-does-not-hold"] += 1
                if shaped:
                    # the known leak writes into sub-proposition objects that the receiver shares with an earlier result
                    ctx.fail("earlier-result-changed-by-query", {"step": step, "call": c, "changed": ch}, known=F_C09A)
                    kp["snap"] = now
                    kp["nodes"] = [(n, (int(n.bounds.lower), int(n.bounds.upper))) for n in node_objects(kp["obj"])]
                else:
                    ctx.fail("earlier-result-changed-by-query", {"step": step, "call": c, "result_of_step": kp["step"], "changed": ch,
                                                                 "before": kp["snap"], "after": now}); return
        for r_ in got:
            kept.append({"obj": r_, "snap": snap(r_), "step": step,
                         "nodes": [(n, (int(n.bounds.lower), int(n.bounds.upper))) for n in node_objects(r_)]})
        if c["k"] == "assume" and got and ctx.rng.random() < 0.35:
            # the model an assumption returned is asked something itself — about one of its own sub-propositions: whatever that
            # does to the returned model (the known leak F-C09a concerns the object a call is made on), the model it came from
            # and every other live object stay what they were
            r_ = got[0]
            tr = snap(r_)
            cids = [x for x in compound_ids(tr) if x != tr["id"]]
            if cids:
                cid = ctx.rng.choice(cids)
                safe(lambda: r_.evaluate({cid: ctx.rng.choice([0, 1])}))
                ctx.tags["returned-model-queried-about-its-own-sub-proposition"] += 1
                now = [snap(x) for x in live]
                if now != after:
                    j_ = next(j for j, (x, y) in enumerate(zip(after, now)) if x != y)
                    ctx.fail("query-on-a-returned-model-changed-the-model-it-came-from",
                             {"step": step, "call": c, "then": f"result.evaluate({{{cid!r}: ...}})", "object": j_}); return
                kept[-1]["snap"] = snap(r_)
                kept[-1]["nodes"] = [(n, (int(n.bounds.lower), int(n.bounds.upper))) for n in node_objects(r_)]
        if len(kept) > 6: del kept[0]
        if c["k"] in ("evaluate", "evalprops", "assume") and any(a in compound_ids(t) for a in c.get("I", {})):
            named_cid[i] = True
        # (1) the result is the model's pure function of the receiver's current state
        mo = model_op(t, c)
        if c["k"] == "ge_polyhedron" and leaked[i]:
            mo = None       # a receiver already changed by the known leak: its cached polyhedron may predate the change
            ctx.tags["ge_polyhedron-on-leaked-receiver-not-compared"] += 1
        if mo is not None and leaked[i] and c["k"] in ("flatten", "encode", "json_roundtrip"):
            # … and where the leak has hit ONE of two equal objects held under one id (a coincident non-default branch), the
            # receiver now holds two different nodes of that id — no longer a model the statement is about
            bb = {}
            for n_ in subs(t): bb.setdefault(n_["id"], set()).add((n_["lo"], n_["hi"]))
            if any(len(v) > 1 for v in bb.values()):
                mo = None
                ctx.tags["leaked-receiver-with-two-nodes-of-one-id-not-compared"] += 1
        if mo is not None and not (isinstance(res, dict) and "exception" in res):
            op, wrap, norm = mo
            if c["k"] == "flatten":
                ctx.op(op, wrap(sorted(res)), label="hist-flatten")
            else:
                ctx.op(op, wrap(res), label="hist-" + c["k"], norm=norm)
            if c["k"] == "ge_polyhedron":
                own = safe(lambda: poly_snap(o.to_ge_polyhedron(True)))     # this configurator's own definition, uncached
                rows_d, vars_d = own if isinstance(own, tuple) else ([], None)
                if isinstance(own, tuple) and (rows_json(rows_d) != res["rows"] or vars_d != res["vars"]):
                    ctx.fail("configurator-polyhedron-is-not-from-its-own-definition",
                             {"step": step, "ge_polyhedron": {"vars": res["vars"], "rows": res["rows"]},
                              "own_definition": {"vars": vars_d, "rows": rows_json(rows_d)}}); return
                dp = default_prios_of(t)
                want = [dp[v[0]] for v in res["vars"]]
                if res["dpv"] != want:
                    ctx.fail("default-prio-vector-not-from-own-definition", {"step": step, "dpv": res["dpv"], "want": want}); return
        # (2) nobody changed
        for j, (b, a) in enumerate(zip(before, after)):
            if a != b:
                leak_call = c["k"] in ("evaluate", "evalprops", "assume")
                named = set(c.get("I", {}))
                changed = [(x["id"], [y["lo"], y["hi"]]) for x, y in zip(subs(b), subs(a)) if core(x) != core(y) and x["id"] == y["id"] and (x["lo"], x["hi"]) != (y["lo"], y["hi"])]
                comp_ids = set(compound_ids(b))
                # the known leak rewrites *sub-propositions* named in the dictionary; a changed leaf is something else
                shaped = leak_call and j == i and changed and all(cid in named and cid in comp_ids and c["I"][cid] == nb for cid, nb in changed)
                if shaped:
                    ctx.fail("receiver-mutated-by-query", {"step": step, "call": c, "changed": changed}, known=F_C09A)
                    leaked[i] = True
                    if not has_shared_objects(o):
                        ctx.op({"op": "leak", "t": b, "I": [[x, lo, hi] for x, (lo, hi) in sorted(c["I"].items())]}, {"t": a}, label="hist-leak")
                else:
                    ctx.fail("object-changed-by-query", {"step": step, "call": c, "object": j, "receiver": i, "changed": changed}); return
        # (3) the same call on a freshly built identical object
        fresh = build(asts[i])
        res2 = safe(lambda: perform(fresh, c))
        if res2 != res:
            if c["k"] == "to_b64" and named_cid[i] and not leaked[i] and isinstance(res, str) and isinstance(res2, str) \
                    and snap(pg.from_b64(res)) == snap(pg.from_b64(res2)):
                # the known leak also replaces a node's variable by a new object with the *same* bounds: the snapshot does
                # not move, the pickle (object sharing / integer types) does.  Same class of F-C09a: a call naming a
                # sub-proposition id of the receiver, later result on that receiver differs from a fresh object's.
                ctx.fail("result-depends-on-history", {"step": step, "call": c, "detail": "to_b64 text differs, decoded structure equal"}, known=F_C09A)
            elif leaked[i]:
                ctx.fail("result-depends-on-history", {"step": step, "call": c}, known=F_C09A)
            else:
                ctx.fail("result-depends-on-history", {"step": step, "call": c, "after_history": res, "fresh_object": res2}); return


def run(ctx):
    rng = ctx.rng
    n = (400 if ctx.quick else 3000) * (3 if ctx.search else 1)
    for _ in range(n):
        objs, twin = [], False
        r = rng.random()
        if r < 0.3:
            a, o, t = valid_configurator(rng, ctx.quick, int_leaf=True)
            objs = [a, twin_of(a)]; twin = True
            if rng.random() < 0.5: objs.reverse()
        else:
            for _ in range(rng.randint(1, 3)):
                r2 = rng.random()
                if r2 < 0.4:
                    a, o, t = valid_configurator(rng, ctx.quick, int_leaf=rng.random() < 0.3)
                elif r2 < 0.6:
                    # nodes over a mix of sub-propositions and atoms, every value / sign / atom-bounds combination
                    # (the shapes on which negate / assume / reduce take their special branches)
                    from props.c05 import gen_mixed
                    a = None
                    for _ in range(30):
                        cand = gen_mixed(rng)
                        try:
                            oc = build(cand)
                        except Exception:
                            continue
                        if not is_var(oc) and well_formed(snap(oc)) and not oc.errors():
                            a = cand; break
                    if a is None:
                        a, o, t = gen_valid(rng, ctx.quick, share=False, empty_p=0.04)
                else:
                    a, o, t = gen_valid(rng, ctx.quick, share=False, empty_p=0.04)
                if rng.random() < 0.2:
                    # one leaf DECLARED constant (an item that is always part of the order, a quantity that is fixed): the
                    # shapes on which reduce / assume have something to fold away without any dictionary
                    try:
                        lvs = sorted(declared_bounds(a), key=str)
                        if lvs:
                            name = rng.choice(lvs); c_ = rng.choice([0, 1, 1, 1, 2, 3])
                            a2 = with_leaf_bounds(a, name, c_, c_)
                            o2 = build(a2)
                            if not is_var(o2) and well_formed(snap(o2), allow_empty=True) and not o2.errors():
                                a = a2; ctx.tags["model-with-a-leaf-declared-constant"] += 1
                    except Exception:
                        pass
                objs.append(a)
        live = [build(a) for a in objs]
        snaps = [snap(o) for o in live]
        calls = []
        for _ in range(rng.randint(3, 12)):
            i = rng.randrange(len(objs))
            c = gen_call(rng, live[i], snaps[i], snaps[i]["cls"] == "Stingy", prev=[p for p in calls if p["obj"] == i])
            c["obj"] = i
            calls.append(c)
        if twin:   # make sure both twins' polyhedra are read
            calls += [{"k": "ge_polyhedron", "obj": 0}, {"k": "ge_polyhedron", "obj": 1}]
        do_case(ctx, {"objs": objs, "calls": calls, "twin": twin})
