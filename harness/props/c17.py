"""C17 — base64 round trip reproduces propositions and configured polyhedra exactly."""
import base64, gzip, pickle, copy
from configs import *
import puan.ndarray as pnd

RULE = ("seeded random validated models (all classes, integer bounds, explicit/generated ids, defaults, priority tags) and "
        "configurators with their polyhedra; to_b64 payload decoded with pickle in the harness and compared field by field, "
        "in order, with the model's pack; real round trip compared through full structural snapshots (text form, classes, "
        "ids, bounds, generated-id flags, defaults, priorities; matrix, variables, row index, default priority vector, "
        "dtype) and through queries (evaluate on assignments; select with a recorder and an exact brute-force solver); "
        "a second unpacking of the same string after the first unpacked object was edited in place must still equal the packed object; "
        "non-trivial = nested model or configurator polyhedron")
ASSUMPTIONS = ["pickle / gzip / base64 round-trip (assumed, not proved)"]


def key(i):
    return i if isinstance(i, str) else "#" + repr(i)


def brute(poly, objs):
    rows, avars = poly_snap(poly)
    ids = [v[0] for v in avars]
    pts = box_points(avars, 4096)
    feas = None if pts is None else [x for x in pts if all(row_ok(r, x) for r in rows)]
    out = []
    for w in objs:
        if not feas:
            out.append((None, 0, 4)); continue
        best = max(feas, key=lambda x: (sum(c * x[i] for c, i in zip(w, ids)), tuple(-x[i] for i in ids)))
        out.append((np.array([best[i] for i in ids]), 0, 5))
    return out


def full_poly_snap(g):
    return {"mat": [[int(x) for x in r] for r in np.asarray(g).tolist()],
            "dpv": [int(x) for x in np.asarray(g.default_prio_vector).tolist()],
            "vars": [[key(v.id), int(v.bounds.lower), int(v.bounds.upper)] for v in g.variables],
            "index": [key(v.id) for v in g.index], "dtype": str(np.asarray(g).dtype)}


def json_of(o):
    import json as _json
    return _json.loads(_json.dumps(o.to_json(), default=lambda x: x.to_json() if hasattr(x, "to_json") else str(x)))


def var_sig(v):
    """what a variable object IS: its class and every instance attribute (applications subclass puan.variable and hang data
    on their items; the configurator itself tags propositions with `prio`)"""
    return [key(v.id), type(v).__module__ + "." + type(v).__qualname__, sorted((k, repr(x)) for k, x in vars(v).items())]


def var_sigs(o):
    out = []
    def walk(x):
        if isinstance(x, pg.AtLeast):
            out.append(["own"] + var_sig(x.variable))
            for p in x.propositions:
                walk(p)
        else:
            out.append(["leaf"] + var_sig(x))
    walk(o)
    return out


def do_case(ctx, inp):
    a = inp["ast"]
    o = build(a)
    if inp.get("leaf_prio") and not is_var(o):
        # an item that carries a priority tag of its own (the attribute the configurator's default priorities read)
        def tag(x):
            if isinstance(x, pg.AtLeast):
                for p in x.propositions: tag(p)
            elif key(x.id) in inp["leaf_prio"]:
                x.prio = inp["leaf_prio"][key(x.id)]
        tag(o)
    if inp.get("fix_self") is not None and not is_var(o):
        # an object whose own variable was fixed AFTER construction (assume() naming the receiver's own id writes the bounds
        # into the receiver — known finding F-C09a — and is a common way to end up with such an object): whatever state the
        # object is in, packing and unpacking must reproduce it
        o.assume({o.id: inp["fix_self"]})
    t = snap(o)
    is_cfg = t["cls"] == "Stingy"
    ctx.case(inp, nontrivial=depth(t) > 1 or is_cfg, tags=tags_of(t) | ({"configurator"} if is_cfg else {"proposition"})
             | ({"own-variable-fixed-after-construction"} if inp.get("fix_self") is not None else set()))
    # propositions: pickled whole
    s = o.to_b64()
    try:
        o2 = pg.from_b64(s)
    except Exception as e:
        ctx.fail("from_b64-raised-on-own-to_b64-output", {"exception": f"{type(e).__name__}: {str(e)[:200]}", "model": t}); return
    try:
        same = type(o2) is type(o) and snap(o2) == t and o2.to_text() == o.to_text()
    except Exception as e:
        ctx.fail("unpacked-object-cannot-be-read", {"exception": f"{type(e).__name__}: {str(e)[:200]}", "model": t}); return
    if not same:
        ctx.fail("proposition-round-trip-differs", {"before": t, "after": snap(o2)}); return
    if var_sigs(o2) != var_sigs(o):
        d = [(x, y) for x, y in zip(var_sigs(o), var_sigs(o2)) if x != y][:3]
        ctx.fail("variable-objects-differ-after-round-trip", {"first_differences_before_after": d}); return
    # packing the unpacked object again: the text need not be byte-identical (pickle's memo of equal strings depends on how the
    # object came to be), what it unpacks to must be
    try:
        o3 = pg.from_b64(o2.to_b64())
    except Exception as e:
        ctx.fail("from_b64-raised-on-own-to_b64-output", {"exception": f"{type(e).__name__}: {str(e)[:200]}", "model": t, "round": 2}); return
    if snap(o3) != t or var_sigs(o3) != var_sigs(o):
        ctx.fail("second-round-trip-differs", {"before": t, "after": snap(o3)}); return
    lv = leaves_of(t)
    for sg in assignments(ctx.rng, lv, 32):
        if o.evaluate(sg).as_tuple() != o2.evaluate(sg).as_tuple():
            ctx.fail("reloaded-proposition-evaluates-differently", {"sigma": sg}); return
    if not is_cfg:
        return
    g = o.ge_polyhedron
    fs = full_poly_snap(g)
    payload = pickle.loads(gzip.decompress(base64.b64decode(g.to_b64().encode())))
    if not isinstance(payload, list) or len(payload) != 5:
        ctx.fail("payload-is-not-five-fields", {"got": str(type(payload))}); return
    try:
        got = [{"mat": [[int(x) for x in r] for r in np.asarray(payload[0]).tolist()]},
               {"ints": [int(x) for x in np.asarray(payload[1]).tolist()]},
               {"vars": [[key(v.id), int(v.bounds.lower), int(v.bounds.upper)] for v in payload[2]]},
               {"idx": [key(v.id) for v in payload[3]]},
               {"dtype": str(np.dtype(payload[4]))}]
    except Exception as e:
        ctx.fail("payload-fields-in-wrong-order-or-shape", {"exception": f"{type(e).__name__}: {e}"}); return
    ctx.op({"op": "pack", **fs}, {"payload": got})
    try:
        g2 = pnd.ge_polyhedron_config.from_b64(g.to_b64())
    except Exception as e:
        ctx.fail("from_b64-raised-on-own-to_b64-output", {"exception": f"{type(e).__name__}: {str(e)[:200]}", "polyhedron": full_poly_snap(g)}); return
    if type(g2) is not type(g) or full_poly_snap(g2) != fs:
        ctx.fail("polyhedron-round-trip-differs", {"before": fs, "after": full_poly_snap(g2)}); return
    # the same polyhedron with a row index of the caller's own (plain integers 0..m-1; row variables numbered 0..m-1 that carry
    # bounds; names): the index is part of what is packed
    m_rows = np.asarray(g).shape[0]
    for kind_, idx_ in (("ints", list(range(m_rows))), ("numbered-row-variables", [puan.variable(i_, (0, 3)) for i_ in range(m_rows)]),
                        ("named-rows", [puan.variable("row%d" % i_) for i_ in range(m_rows)])):
        try:
            gi = pnd.ge_polyhedron_config(np.asarray(g).copy(), default_prio_vector=np.asarray(g.default_prio_vector).copy(),
                                          variables=list(g.variables), index=idx_)
            gi2 = pnd.ge_polyhedron_config.from_b64(gi.to_b64())
        except Exception as e:
            ctx.fail("polyhedron-with-own-row-index-does-not-round-trip", {"index": kind_, "exception": f"{type(e).__name__}: {str(e)[:160]}"}); return
        def idx_sig(q):
            ix = q.index
            return [type(ix).__name__, str(getattr(ix, "dtype", None)), [var_sig(x) if isinstance(x, puan.variable) else ["plain", repr(x), type(x).__name__] for x in list(ix)]]
        if idx_sig(gi2) != idx_sig(gi):
            ctx.fail("row-index-differs-after-round-trip", {"index": kind_, "before": idx_sig(gi)[:2] + [idx_sig(gi)[2][:2]], "after": idx_sig(gi2)[:2] + [idx_sig(gi2)[2][:2]]}); return
    ctx.tags["polyhedra-with-own-row-index"] += 1
    vs1 = [[var_sig(v) for v in g.variables], [var_sig(v) for v in g.index]]
    vs2 = [[var_sig(v) for v in g2.variables], [var_sig(v) for v in g2.index]]
    if vs1 != vs2:
        d = [(x, y) for a_, b_ in zip(vs1, vs2) for x, y in zip(a_, b_) if x != y][:3]
        ctx.fail("polyhedron-variable-objects-differ-after-round-trip", {"first_differences_before_after": d}); return
    # every unpacking is a fresh object: editing one in place must not show in the next unpacking of the same string
    s64 = g.to_b64()
    q1 = pnd.ge_polyhedron_config.from_b64(s64)
    def edit_matrix(): np.asarray(q1)[0, 0] += 7
    def edit_dpv(): q1.default_prio_vector[:] = [0] * len(q1.default_prio_vector)
    def edit_bounds():
        for v in list(q1.variables)[1:2]:
            v.bounds.lower = int(v.bounds.lower) - 5
    for nm, f in (("matrix", edit_matrix), ("default-prio-vector", edit_dpv), ("variable-bounds", edit_bounds)):
        try:
            f(); ctx.tags["edited-in-place-" + nm] += 1
        except Exception as e:
            ctx.tags[f"in-place-edit-of-{nm}-not-possible-{type(e).__name__}"] += 1
    q2 = pnd.ge_polyhedron_config.from_b64(s64)
    ctx.tags["unpack-edit-unpack"] += 1
    if full_poly_snap(q2) != fs:
        ctx.fail("second-unpacking-of-the-same-string-differs", {"packed": fs, "second_unpacking": full_poly_snap(q2),
                                                                 "history": "from_b64(s); edit that object in place; from_b64(s)"}); return
    if full_poly_snap(g) != fs:
        ctx.fail("packing-object-changed-by-editing-an-unpacked-copy", {}); return
    p1 = pg.from_b64(s)
    try:
        p1.value = p1.value + 1
        for c in p1.propositions[:1]:
            if is_var(c): c.bounds = puan.Bounds(-9, 9)
            else: c.sign = -c.sign
    except Exception:
        ctx.tags["in-place-edit-not-possible"] += 1
    if snap(pg.from_b64(s)) != t:
        ctx.fail("second-unpacking-of-the-same-string-differs", {"packed": t, "history": "from_b64(s); edit that object in place; from_b64(s)"}); return
    prio = inp.get("prio", {})
    for solver in (None, brute):
        r1, r2 = Recorder(solver), Recorder(solver)
        s1 = [sorted((k, int(v)) for k, v in x[0].items()) for x in g.select(prio, solver=r1)]
        s2 = [sorted((k, int(v)) for k, v in x[0].items()) for x in g2.select(prio, solver=r2)]
        if r1.calls[0][1] != r2.calls[0][1] or s1 != s2:
            ctx.fail("reloaded-polyhedron-answers-select-differently", {"prio": prio, "objectives": [r1.calls[0][1], r2.calls[0][1]],
                                                                       "solutions": [s1, s2]}); return


def big_model(rng, kind):
    lf = lambda n: {"c": "str", "id": n}
    if kind == "many-anys":
        return {"c": "All", "args": [{"c": "Any", "args": [lf("i%d" % (2 * k)), lf("i%d" % (2 * k + 1))]} for k in range(420)]}
    rules = []
    for k in range(rng.randint(60, 90)):
        its = ["a%d_%d" % (k, j) for j in range(3)]
        r = rng.random()
        if r < 0.5: rules.append({"c": "ccXor", "id": "X%d" % k, "args": [lf(x) for x in its], "default": [its[0]]})
        else: rules.append({"c": "Imply", "id": "I%d" % k, "cond": {"c": "All", "args": [lf(its[0]), lf("a%d_0" % max(k - 1, 0))]},
                            "cons": {"c": "Any", "args": [lf(its[1]), lf(its[2])]}})
    return {"c": "Stingy", "id": "cfg", "args": rules}


def run(ctx):
    rng = ctx.rng
    for kind in ("many-rules", "many-anys"):
        # models whose packed form runs to tens of kilobytes (a real product catalogue): packing is not a matter of size
        ctx.tags["large-model-" + kind] += 1
        do_case(ctx, {"ast": big_model(rng, kind), "prio": {}})
    n = (300 if ctx.quick else 2500) * (3 if ctx.search else 1)
    for _ in range(n):
        if rng.random() < 0.5:
            a, o, t = valid_configurator(rng, ctx.quick, int_leaf=rng.random() < 0.3, fix_root_p=0.15, multi_default_p=0.2)
            names = sorted(leaves_of(t))
            prio = {x: rng.choice([1, -1, 2]) for x in rng.sample(names, min(rng.randint(0, 2), len(names)))}
            case = {"ast": a, "prio": prio}
            if rng.random() < 0.15: case["fix_self"] = rng.choice([1, 1, 0])
            if names and rng.random() < 0.2:
                case["leaf_prio"] = {x: rng.choice([-2, -3, -1, 1]) for x in rng.sample(names, min(rng.randint(1, 2), len(names)))}
                ctx.tags["item-with-a-priority-tag-of-its-own"] += 1
            do_case(ctx, case)
        else:
            a, o, t = gen_valid(rng, ctx.quick, prefix_p=0.15, empty_p=0.04)
            if rng.random() < 0.15:
                # the model is the OUTPUT of another operation (assume / reduce / negate / Not / Imply / a JSON, base64, pickle or
                # deepcopy round trip, one or two of them) applied to a generated valid model
                a, o, t = gen_derived(rng, ctx.quick); ctx.tags["derived-model-stream"] += 1
            if rng.random() < 0.3:
                # negations pushed inwards over several anonymous compounds (Not / Imply / XNor nests): the children of
                # such nodes are held in the order of their ids BEFORE the negation
                from props.c02 import gen_negnest
                for _ in range(20):
                    b = gen_negnest(rng, rng.randint(2, 4), list("abcde")[:rng.randint(2, 5)])
                    if b["c"] == "str": continue
                    try:
                        ob = build(b)
                        if is_var(ob) or not well_formed(snap(ob)) or ob.errors(): continue
                    except Exception:
                        continue
                    a = b; ctx.tags["negation-nest-stream"] += 1
                    break
            do_case(ctx, {"ast": a})
