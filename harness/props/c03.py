"""C03 — evaluation computes the arithmetic truth function of every node."""
import copy
from trees import *

RULE = ("bare variables with interpretations that name / do not name them (int, numpy integer, tuple, Bounds); (40% of the interpretations give some leaf a value outside its declared bounds) seeded random validated models over all constructor classes (depth<=3 quick / <=4 thorough, boolean/integer/"
        "int16 leaves, shared sub-objects), each with total leaf interpretations rendered as int / tuple / Bounds and "
        "optional constant overrides of sub-proposition ids; non-trivial = the model has a compound child or an integer "
        "leaf; distinct = distinct (model, interpretation) pairs")
ASSUMPTIONS = ["models are validated, reference-free (no leaf shares an id with a compound) — DESIGN §4 preamble",
               "evaluate is called on a deep copy (finding F-C09a: the call mutates named compound ids)"]


def do_var_case(ctx, inp):
    """a bare variable: `variable.evaluate` takes the interpreted value in every accepted form, else its own bounds"""
    i, lo, hi = inp["var"]
    I = {k: tuple(v) for k, v in inp["I"].items()}
    ctx.case(inp, nontrivial=(lo, hi) != (0, 1) or i in I, tags={"bare-variable", "named" if i in I else "not-named"})
    v = puan.variable(i, (lo, hi))
    got = v.evaluate(render_interp(ctx.rng, I, basic=True))
    got = [int(got.lower), int(got.upper)]
    ctx.op({"op": "evaluate", "t": {"k": "leaf", "id": i, "lo": lo, "hi": hi}, "I": interp_json(I)}, {"b": got})
    want = list(I[i]) if i in I else [lo, hi]
    if got != want:
        ctx.fail("variable-evaluate-wrong", {"variable": [i, lo, hi], "interpretation": interp_json(I), "got": got, "want": want})
    if (v.bounds.lower, v.bounds.upper) != (lo, hi):
        ctx.fail("variable-evaluate-mutated-the-variable", {"variable": [i, lo, hi], "now": [int(v.bounds.lower), int(v.bounds.upper)]})


def do_case(ctx, inp):
    if "var" in inp:
        return do_var_case(ctx, inp)
    a, I = inp["ast"], {k: tuple(v) for k, v in inp["I"].items()}
    o = build(a)
    t = snap(o)
    lv0 = leaves_of(t)
    oob = any(k in lv0 and not (lv0[k][0] <= v[0] <= lv0[k][1]) for k, v in I.items())
    ctx.case(inp, nontrivial=depth(t) > 1 or any(b != (0, 1) for b in lv0.values()), tags=tags_of(t) | ({'value-outside-declared-bounds'} if oob else set()))
    rI = render_interp(ctx.rng, I)
    res = copy.deepcopy(o).evaluate_propositions(rI)
    top = copy.deepcopy(o).evaluate(rI)
    got = sorted((k, int(b.lower), int(b.upper)) for k, b in res.items())
    ctx.op({"op": "evalprops", "t": t, "I": interp_json(I)}, {"res": [list(x) for x in got]})
    ctx.op({"op": "evaluate", "t": t, "I": interp_json(I)}, {"b": [int(top.lower), int(top.upper)]})
    # oracle: the property itself, on the real code
    sigma = {k: v[0] for k, v in I.items() if k in leaves_of(t)}
    over = {k: v for k, v in I.items() if k not in leaves_of(t)}
    want = ref_eval_all(t, sigma, over)
    for k, lo, hi in got:
        if (lo, hi) != (want[k], want[k]):
            ctx.fail("wrong-constant", {"id": k, "got": [lo, hi], "want": want[k], "interpretation": interp_json(I)})
    if (int(top.lower), int(top.upper)) != (want[t["id"]],) * 2 or t["id"] not in res or res[t["id"]] != top:
        ctx.fail("evaluate-vs-top-entry", {"evaluate": [int(top.lower), int(top.upper)], "want": want[t["id"]]})
    if inp.get("kin", True) and ctx.rng.random() < 0.35:
        # models built from this one (its negation, an implication over it) are not touched by evaluating it
        if kin_probe(ctx, o, lambda m: m.evaluate_propositions(render_interp(ctx.rng, I)), "evaluated", {"interpretation": interp_json(I)}):
            return
    if inp.get("edit_results"):
        # what an evaluation returns is the caller's: the Bounds of an earlier result are edited in place (a caller widening
        # them for a report) — the next evaluation computes its own
        for b_ in list(res.values()) + [top]:
            try:
                b_.lower, b_.upper = 0, 1
            except Exception:
                pass
        ctx.tags["earlier-result-edited-in-place"] += 1
        res2 = copy.deepcopy(o).evaluate_propositions(render_interp(ctx.rng, I))
        got2 = sorted((k, int(b.lower), int(b.upper)) for k, b in res2.items())
        if got2 != got:
            d = [(x, y) for x, y in zip(got, got2) if x != y][:3]
            ctx.fail("evaluation-after-an-earlier-result-was-edited-differs", {"first_differences_before_after": d, "interpretation": interp_json(I)})


def run(ctx):
    for _ in range(40 if ctx.quick else 400):
        lo = ctx.rng.randint(-4, 3); hi = lo + ctx.rng.randint(0, 4)
        if ctx.rng.random() < 0.4: lo, hi = 0, 1
        I = {}
        for k in ctx.rng.sample(["a", "b", "x"], ctx.rng.randint(0, 3)):
            c = ctx.rng.randint(lo - 2, hi + 2)
            I[k] = [c, c] if ctx.rng.random() < 0.6 else [c, c + ctx.rng.randint(0, 3)]
        do_case(ctx, {"var": ["a", lo, hi], "I": I})
    # thresholds at and below zero under either sign, over integer leaves whose sums go negative
    for _ in range(80 if ctx.quick else 600):
        rng = ctx.rng
        leaves = [{"c": "var", "id": n, "lo": rng.randint(-4, 0), "hi": rng.randint(0, 3)} for n in rng.sample("pqrs", rng.randint(1, 3))]
        node = {"c": "AtLeast", "v": rng.randint(-4, 1), "args": leaves, "sign": rng.choice([1, 1, -1])}
        if rng.random() < 0.5: node["id"] = "Z"
        a = node if rng.random() < 0.5 else {"c": rng.choice(["Any", "All", "Not"]), **({"arg": node} if False else {}), "args": [node, {"c": "str", "id": "w"}]}
        if a.get("c") == "Not": a = {"c": "Not", "arg": node}
        try:
            o = build(a)
            if is_var(o) or o.errors(): continue
        except Exception:
            continue
        t = snap(o)
        I = {k: [v, v] for k, v in ((n, rng.choice([lo, lo, hi, rng.randint(lo, hi)])) for n, (lo, hi) in leaves_of(t).items())}
        do_case(ctx, {"ast": a, "I": I})
    n_models = (250 if ctx.quick else 1500) * (3 if ctx.search else 1)
    for _ in range(n_models):
        a, o, t = gen_valid(ctx.rng, ctx.quick, prefix_p=0.2, empty_p=0.04)
        if ctx.rng.random() < 0.15:
            # the model is the OUTPUT of another operation (assume / reduce / negate / Not / Imply / a JSON, base64, pickle or
            # deepcopy round trip, one or two of them) applied to a generated valid model
            a, o, t = gen_derived(ctx.rng, ctx.quick); ctx.tags["derived-model-stream"] += 1
        if ctx.rng.random() < 0.12:
            a, o, t = gen_valid_signed_sum(ctx.rng)     # explicit signs against thresholds of either sign, leaves around zero
        elif ctx.rng.random() < 0.06:
            a, o, t = gen_valid_huge(ctx.rng)           # a threshold over a quantity far beyond 16 bits
            ctx.tags["huge-threshold-stream"] += 1
        for _ in range(4):
            # values may lie outside a leaf's declared bounds: the interpretation wins (variable.evaluate's documented behaviour)
            # (a sub-proposition id may be named with the non-fixing range (0, 1): it is then computed from its children)
            I = gen_interp(ctx.rng, t, total=True, ranges=False, in_bounds=ctx.rng.random() < 0.6, compound_ranges=ctx.rng.random() < 0.5)
            do_case(ctx, {"ast": a, "I": {k: list(v) for k, v in I.items()}, **({"edit_results": True} if ctx.rng.random() < 0.12 else {})})
        if t["lo"] == t["hi"] and t["k"] == "node":
            # the model's OWN variable is declared constant and the interpretation says otherwise about it (or the same):
            # an interpretation entry replaces declared bounds, for the top node as for any other
            I = gen_interp(ctx.rng, t, total=True, ranges=False, in_bounds=True)
            I[t["id"]] = (1 - t["lo"],) * 2 if ctx.rng.random() < 0.8 else (t["lo"],) * 2
            ctx.tags["top-declared-constant-and-interpreted"] += 1
            do_case(ctx, {"ast": a, "I": {k: list(v) for k, v in I.items()}})
        if ctx.rng.random() < 0.3:
            # a leaf DECLARED constant and interpreted otherwise
            v = constant_leaf_variant(ctx.rng, a, t)
            if v is not None:
                a2, t2, name, entry = v
                I = gen_interp(ctx.rng, t2, total=True, ranges=False, in_bounds=True)
                I[name] = (entry[0], entry[0])
                ctx.tags["constant-leaf-interpreted-otherwise"] += 1
                do_case(ctx, {"ast": a2, "I": {k: list(v_) for k, v_ in I.items()}})
