"""C13 — priority compression yields strictly dominating weights."""
import numpy as np
from core import import_puan
puan = import_puan()
import puan.ndarray as pnd
import puan_rspy as pr

RULE = ("seeded random integer priority arrays (1-D; 2-D 1-4 x 1-6 on both axes; 3-D batches on axis 0 and 1; entries from "
        "{0,0,+-1,+-2,+-3,+-5} so that ties, zeros, all-zero rows/columns and sign mixes are frequent) x the methods shadow, "
        "prio, rank, first, last, min, max; ndint_compress compared with the model; py_optimized_bit_allocation_64 compared "
        "with the model's oba on random run-structured sequences; oracle: the five clauses of the statement checked directly "
        "on the real output per 2-D slice; non-trivial = at least two distinct non-zero priorities")
ASSUMPTIONS = ["results fit in 64 bits on the generated sizes", "3-D arrays are batches of 2-D arrays exactly as the code composes them (axis 0 or 1)"]

VALS = [0, 0, 1, -1, 2, -2, 3, -3, 5, -5]
METHODS = ["shadow", "prio", "rank", "first", "last", "min", "max"]


def keys(M):
    """per column: (last non-zero row, |value|, sign) or None"""
    out = []
    for j in range(len(M[0])):
        k = None
        for i, r in enumerate(M):
            if r[j] != 0:
                k = (i, abs(r[j]), 1 if r[j] > 0 else -1)
        out.append(k)
    return out


def check2d(ctx, method, M, res, where):
    n = len(M[0])
    ks = keys(M)
    def fail(kind, **kw):
        ctx.fail(kind, dict(method=method, matrix=M, result=res, where=where, **kw))
    if len(res) != n:
        return fail("wrong-length")
    kk = [None if k is None else k[:2] for k in ks]
    if method == "shadow":
        for j in range(n):
            if (res[j] == 0) != (ks[j] is None): return fail("zero-not-kept", column=j)
            if ks[j] is not None and (res[j] > 0) != (ks[j][2] > 0): return fail("sign-not-kept", column=j)
        for j in range(n):
            if kk[j] is None: continue
            lower = 0
            for k in range(n):
                if kk[k] is None: continue
                if kk[k] == kk[j] and abs(res[k]) != abs(res[j]): return fail("equal-priorities-unequal-weights", columns=[j, k])
                if kk[k] < kk[j]:
                    lower += abs(res[k])
                    if not abs(res[k]) < abs(res[j]): return fail("order-not-preserved", columns=[j, k])
            if not abs(res[j]) > lower: return fail("weight-does-not-dominate-lower-priorities", column=j, lower_sum=lower)
    elif method == "prio":
        ds = sorted({k for k in kk if k is not None})
        for j in range(n):
            want = 0 if kk[j] is None else (1 + ds.index(kk[j])) * ks[j][2]
            if res[j] != want: return fail("prio-not-dense-rank", column=j, want=want)
    elif method == "rank":
        ds = sorted({k for k in kk if k is not None})
        pr_ = [0 if kk[j] is None else (1 + ds.index(kk[j])) * ks[j][2] for j in range(n)]
        dv = sorted(set(pr_)); base = 1 if dv[0] > 0 else 0
        want = [base + dv.index(x) for x in pr_]
        if res != want: return fail("rank-not-dense-rank", want=want)
    else:
        for j in range(n):
            c = [r[j] for r in M]
            nz = [v for v in c if v != 0]
            want = {"first": nz[0] if nz else 0, "last": nz[-1] if nz else 0, "min": min(nz) if nz else 0, "max": max(c)}[method]
            if res[j] != want: return fail("selection-wrong", column=j, want=want)


def do_case(ctx, inp):
    if "xs" in inp:
        xs = inp["xs"]
        ws = [int(v) for v in pr.py_optimized_bit_allocation_64(list(xs))]
        ctx.case(inp, nontrivial=len(set(xs)) > 1, tags={"oba"})
        ctx.op({"op": "oba", "xs": xs}, {"ws": ws})
        tot, i = 0, 0
        while i < len(xs):
            j = i
            while j < len(xs) and xs[j] == xs[i]: j += 1
            if any(w != tot + 1 for w in ws[i:j]):
                ctx.fail("bit-allocation-not-1-plus-earlier-sum", {"xs": xs, "ws": ws, "run": [i, j]}); return
            tot += sum(ws[i:j]); i = j
        return
    dim, method, axis, m = inp["dim"], inp["method"], inp.get("axis"), inp["m"]
    arr = pnd.integer_ndarray(np.array(m, dtype=np.int64))
    if inp.get("layout") == "T" and dim == 2:
        # the same logical array held in another memory layout (the transpose of a row-major array; what `.T`, a column
        # slice of a larger table or numpy.asfortranarray hand over): nothing documented depends on strides
        arr = pnd.integer_ndarray(np.array(m, dtype=np.int64).T.copy()).T
    elif inp.get("layout") == "S" and dim == 2:
        big = np.zeros((len(m) * 2, len(m[0]) * 2), dtype=np.int64)
        big[::2, ::2] = np.array(m, dtype=np.int64)
        arr = pnd.integer_ndarray(big)[::2, ::2]
    elif inp.get("layout") == "C" and dim == 2:
        # a column selection of a wider labelled table (every second column by fancy indexing): the object still carries
        # the wider table's labels
        big = np.zeros((len(m), len(m[0]) * 2), dtype=np.int64)
        big[:, ::2] = np.array(m, dtype=np.int64)
        arr = pnd.integer_ndarray(big)[:, list(range(0, len(m[0]) * 2, 2))]
    elif inp.get("layout") == "P":
        import pickle as _pickle
        arr = _pickle.loads(_pickle.dumps(arr))                  # an array that went through a queue / a cache
    # earlier compressions of the very same array object (a caller computing several weightings of one priority array):
    # the judged call below must still answer for the array as the caller wrote it
    try:
        for pm, pa in inp.get("pre", []):
            arr.ndint_compress(method=pm, axis=pa) if dim > 1 else arr.ndint_compress(method=pm)
        if dim == 1 and inp.get("axis1d") is not None:
            res = arr.ndint_compress(method=method, axis=inp["axis1d"])          # a vector with the axis spelled out
        elif dim == 2 and inp.get("flat"):
            res = arr.ndint_compress(method=method)                               # axis=None: "the data array is first flattened"
        else:
            res = arr.ndint_compress(method=method, axis=axis) if dim > 1 else arr.ndint_compress(method=method)
    except Exception as e:
        # every integer array has a compression: raising on an array of legal shape — however the caller came by it — is a
        # wrong answer
        ctx.case(inp, True, {"compress-raised"})
        ctx.fail("compress-raised", {"exception": f"{type(e).__name__}: {str(e)[:200]}", "layout": inp.get("layout"), "method": method, "axis": axis}); return
    res = np.asarray(res).tolist()
    flat = m if dim == 1 else [x for r in m for x in r] if dim == 2 else [x for s in m for r in s for x in r]
    if dim == 2 and inp.get("flat"):
        dim, m, axis = 1, flat, None
    nz = {abs(x) for x in flat if x != 0}
    ctx.case(inp, nontrivial=len({x for x in flat if x != 0}) > 1, tags={f"dim-{dim}", f"method-{method}", f"axis-{axis}"}
             | ({"same-array-object-compressed-before"} if inp.get("pre") else set()))
    op = {"op": "compress", "dim": dim, "method": method, "m": m}
    if axis is not None: op["axis"] = axis
    # "r": the model that mirrors the code's plumbing; "spec": the key specification the C13 theorems are about
    ctx.op(op, {"r": res, "spec": res})
    if dim == 1:
        check2d(ctx, method, [m], res, "1-D")
    elif dim == 2:
        M = m if axis == 0 else [list(c) for c in zip(*m)]
        check2d(ctx, method, M, res, f"2-D axis {axis}")
    else:
        if axis == 0:
            for i, s in enumerate(m):
                check2d(ctx, method, s, res[i], f"3-D axis 0 slice {i}")
        else:
            n1 = len(m[0])
            rt = [list(c) for c in zip(*res)]
            for i in range(n1):
                check2d(ctx, method, [s[i] for s in m], rt[i], f"3-D axis 1 slice {i}")


def sparse_matrix(rng):
    """2-D arrays with up to 6 rows over a small alphabet, with all-zero rows and rows that are completely overridden by
    later rows placed between used rows, so that level boundaries with equal magnitudes on both sides occur"""
    nr, nc = rng.randint(2, 6), rng.randint(2, 6)
    vals = rng.choice([[0, 0, 1, -1, 2, -2], [0, 1, 2], [0, 0, 0, 1, -1, 2, 3], [0, 2, -2, 2]])
    m = [[rng.choice(vals) for _ in range(nc)] for _ in range(nr)]
    for i in range(nr):
        r = rng.random()
        if r < 0.3:
            m[i] = [0] * nc                                  # all-zero row
        elif r < 0.45 and i + 1 < nr:
            for j in range(nc):                              # row i completely overridden by row i+1
                if m[i][j] != 0 and m[i + 1][j] == 0:
                    m[i + 1][j] = rng.choice([v for v in vals if v != 0])
    return m


def run(ctx):
    rng = ctx.rng
    if not ctx.quick and not ctx.search:
        # exhaustive small scope: every 3x3 array over {-1,0,1,2} (shadow, axis 0) and every 2x3 array over {-2..2} x all methods
        import itertools
        for cells in itertools.product([-1, 0, 1, 2], repeat=9):
            do_case(ctx, {"dim": 2, "method": "shadow", "axis": 0, "m": [list(cells[0:3]), list(cells[3:6]), list(cells[6:9])]})
        for cells in itertools.product([-2, -1, 0, 1, 2], repeat=6):
            for method in METHODS:
                do_case(ctx, {"dim": 2, "method": method, "axis": 0, "m": [list(cells[0:3]), list(cells[3:6])]})
        ctx.notes.append("exhaustive: all 3x3 arrays over {-1,0,1,2} (shadow, axis 0); all 2x3 arrays over {-2..2} x 7 methods")
    for _ in range(30 if ctx.quick else 200):
        # arrays without a single non-zero entry (nothing is prioritised), every shape and axis: the answer has the shape the
        # axis leaves, all zeros
        nr, nc = rng.choice([(1, 3), (2, 3), (3, 1), (3, 2), (1, 1), (2, 4), (4, 2)])
        case = {"dim": 2, "method": rng.choice(["prio", "rank", "shadow", "first", "last", "prio", "rank"]), "axis": rng.choice([0, 1]),
                "m": [[0] * nc for _ in range(nr)]}
        if rng.random() < 0.3: case["layout"] = rng.choice(["T", "S", "C", "P"])
        ctx.tags["all-zero-array"] += 1
        do_case(ctx, case)
    n = (2000 if ctx.quick else 20000) * (3 if ctx.search else 1)
    for _ in range(n):
        r = rng.random()
        method = rng.choice(METHODS)
        if r < 0.06:
            # entries at the int64 boundary (the selection methods must not treat any value as a sentinel)
            BIG = [2**63 - 1, -(2**63), 2**63 - 2, 0, 0, 5, -5]
            nr, nc = rng.randint(1, 3), rng.randint(1, 4)
            do_case(ctx, {"dim": 2, "method": rng.choice(["first", "last", "min", "max"]), "axis": rng.choice([0, 1]),
                          "m": [[rng.choice(BIG) for _ in range(nc)] for _ in range(nr)]})
        elif r < 0.09:
            # magnitudes above 2**53 that differ by one or two (timestamps, ids used as priorities): distinct priorities must
            # stay distinct — the weights depend on how many distinct priorities there are, not on how large they are
            B = rng.choice([2**53, 2**56, 2**60])
            vals = [B, B + 1, B + 2, -(B + 1), -B, 0, 0, 5, -7]
            nr, nc = rng.randint(1, 3), rng.randint(2, 5)
            do_case(ctx, {"dim": 2, "method": rng.choice(["shadow", "shadow", "prio", "rank"]), "axis": rng.choice([0, 0, 1]),
                          "m": [[rng.choice(vals) for _ in range(nc)] for _ in range(nr)]})
        elif r < 0.12:
            runs = []
            for _ in range(rng.randint(1, 8)):
                v = rng.choice([1, -1, 2, -2, 3, -3, 7, -9])
                if runs and runs[-1] == v: continue
                runs += [v] * rng.randint(1, 3)
            do_case(ctx, {"xs": runs})
        elif r < 0.4:
            m = sparse_matrix(rng)
            axis = rng.choice([0, 0, 1])
            if axis == 1:
                m = [list(c) for c in zip(*m)]
            do_case(ctx, {"dim": 2, "method": rng.choice(["shadow", "shadow", "prio", "rank", method]), "axis": axis, "m": m})
        elif r < 0.5:
            case = {"dim": 1, "method": method, "m": [rng.choice(VALS) for _ in range(rng.randint(1, 6))]}
            # the vector with axis=0 spelled out (min / max then reduce the vector to one number: not compared here)
            if method not in ("min", "max") and rng.random() < 0.5: case["axis1d"] = 0
            do_case(ctx, case)
        elif r < 0.8:
            nr, nc = rng.randint(1, 4), rng.randint(1, 6)
            case = {"dim": 2, "method": method, "axis": rng.choice([0, 1]),
                    "m": [[rng.choice(VALS) for _ in range(nc)] for _ in range(nr)]}
            if rng.random() < 0.35:
                case["pre"] = [[rng.choice(METHODS), rng.choice([0, 1])] for _ in range(rng.randint(1, 2))]
            elif rng.random() < 0.15:
                case["flat"] = True; case.pop("axis")
            if rng.random() < 0.2:
                case["layout"] = rng.choice(["T", "T", "S", "C", "P"]); ctx.tags["other-memory-layout"] += 1
                if rng.random() < 0.5 and "axis" in case and not case.get("pre"):
                    case["flat"] = True; case.pop("axis")
            do_case(ctx, case)
        else:
            if method in ("min", "max"): method = "shadow"
            n0, n1, n2 = rng.randint(1, 3), rng.randint(1, 3), rng.randint(1, 4)
            case = {"dim": 3, "method": method, "axis": rng.choice([0, 1]),
                    "m": [[[rng.choice(VALS) for _ in range(n2)] for _ in range(n1)] for _ in range(n0)]}
            if rng.random() < 0.35:
                case["pre"] = [[rng.choice(["shadow", "prio", "rank", "first", "last"]), rng.choice([0, 1])] for _ in range(rng.randint(1, 2))]
            do_case(ctx, case)
