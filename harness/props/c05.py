"""C05 — negation is the exact complement and stays in solver-safe form."""
import copy
from trees import *

RULE = ("Not(x) of bare variables (every kind of bounds) and small compounds against the model it negates; two seeded streams: (1) random validated models (all value/sign combinations, mixed atom/compound children, integer leaves incl. "
        "negative bounds, explicit/generated ids), (2) a targeted stream of positively signed nodes over compound and atom children with every value / atom-bounds combination (boolean, non-negative integer, negative, degenerate), alone, nested, and under Any / Imply; negate() output compared structurally (ids, bounds, sign, value, "
        "children order, generated flag) with the model; all (<=512 quick, <=1024 thorough, else that many sampled incl. corners) in-bounds leaf assignments evaluated on the "
        "original and on the negation by the real evaluate; non-trivial = has a compound child or an integer leaf")
ASSUMPTIONS = ["validated, reference-free models", "assignments within declared leaf bounds"]


def do_case(ctx, inp):
    if "not_of" in inp:
        return do_not_case(ctx, inp)
    a = inp["ast"]
    o = build(a)
    t = snap(o)
    if inp.get("evaluated_first"):
        # a model that has been asked something before it is negated: evaluation is a pure query (C09), so the negation of
        # the object is the negation of the model — the negation is taken from the very object that was queried
        for sg in inp["evaluated_first"]:
            o.evaluate(dict(sg))
        ctx.tags["negated-after-evaluations-on-the-same-object"] += 1
        if snap(o) != t:
            ctx.fail("model-changed-by-evaluate-before-negation", {"interpretations": inp["evaluated_first"], "now": snap(o)}); return
        n = o.negate()
    else:
        n = copy.deepcopy(o).negate()
    tn = snap(n)
    tg = tags_of(t)
    top_kids = t["kids"]
    nl = sum(k["k"] == "leaf" for k in top_kids)
    if t["s"] == 1 and 0 < nl < len(top_kids):
        tg.add("mixed-push")
        if t["v"] != 1: tg.add("mixed-push-value-not-1")
        if any(k["k"] == "leaf" and k["lo"] < 0 for k in top_kids): tg.add("mixed-push-negative-atom")
    ctx.case(inp, nontrivial=depth(t) > 1 or any(b != (0, 1) for b in leaves_of(t).values()), tags=tg)
    ctx.op({"op": "negate", "t": t}, {"t": tn})
    lv = leaves_of(t)
    for sigma in assignments(ctx.rng, lv, 512 if ctx.quick else 1024):
        v0 = o.evaluate(sigma).constant
        v1 = n.evaluate(sigma).constant
        if v0 is None or v1 is None or v1 != 1 - v0 or v0 != ref_eval(t, sigma):
            ctx.fail("negation-not-complement", {"sigma": sigma, "original": v0, "negated": v1,
                                                 "negated_model": tn})
            break
    bool_leaves = all(b == (0, 1) for b in lv.values())
    if solver_safe(t) and bool_leaves and not solver_safe(tn):
        ctx.fail("negation-leaves-solver-safe-form", {"negated_model": tn})
    if not t["gen"] and tn["id"] != t["id"]:
        ctx.fail("explicit-id-lost", {"id": t["id"], "negated_id": tn["id"]})
    # … and the negation is a proposition like any other: negated once more it is the model again — same explicit id, same value
    # on every assignment (the statement holds for the RESULT of a negation too)
    try:
        n2 = copy.deepcopy(n).negate()
        t2n = snap(n2)
    except Exception as e:
        ctx.fail("negating-a-negation-raised", {"exception": f"{type(e).__name__}: {str(e)[:160]}"}); return
    if not t["gen"] and (t2n["id"] != t["id"] or t2n["gen"]):
        ctx.fail("explicit-id-lost-by-the-second-negation", {"id": t["id"], "after_two_negations": t2n["id"], "counts_as_generated": t2n["gen"]}); return
    for sigma in assignments(ctx.rng, lv, 24):
        if n2.evaluate(sigma).constant != o.evaluate(sigma).constant:
            ctx.fail("double-negation-is-not-the-model", {"sigma": sigma}); return


def do_not_case(ctx, inp):
    """`Not(x)`: for a sub-proposition x the complement of x, for a bare variable x the complement of All(x) ("x >= 1")"""
    x = inp["not_of"]
    xo = build(x)
    base = pg.All(xo) if (isinstance(xo, str) or is_var(xo)) else xo
    n = pg.Not(build(x))
    tb, tn = snap(base), snap(n)
    lv = leaves_of(tb)
    ctx.case(inp, nontrivial=True, tags={"Not-of-atom" if tb is not None and x["c"] in ("var", "str") else "Not-of-compound"})
    ctx.op({"op": "build", "ast": {"c": "Not", "arg": x}}, {"t": tn}, label="build-Not")
    for sigma in assignments(ctx.rng, lv, 256):
        v0 = base.evaluate(sigma).constant
        v1 = n.evaluate(sigma).constant
        if v0 is None or v1 is None or v1 != 1 - v0 or v0 != ref_eval(tb, sigma):
            ctx.fail("negation-not-complement", {"Not_of": x, "sigma": sigma, "original": v0, "negated": v1, "negated_model": tn}); return


ATOM_BOUNDS = [(0, 1), (0, 1), (0, 2), (0, 3), (1, 3), (-1, 1), (-2, 0), (2, 2), (0, 5)]


def gen_mixed(rng, depth=1):
    """a positively signed node over compound *and* atom children, with every value / atom-bounds combination:
    the branch of negate() where the inward push has to decide between grouping, wrapping and not pushing"""
    names = list("abcdefgh")
    rng.shuffle(names)
    atoms = []
    for _ in range(rng.randint(1, 3)):
        lo, hi = rng.choice(ATOM_BOUNDS)
        atoms.append({"c": "var", "id": names.pop(), "lo": lo, "hi": hi})
    comps = []
    for _ in range(rng.randint(1, 2)):
        if depth > 0 and rng.random() < 0.3:
            comps.append(gen_mixed(rng, depth - 1))
        else:
            k = rng.choice(["Any", "All", "AtMost"])
            args = [{"c": "str", "id": x} for x in rng.sample("pqrs", rng.randint(1, 2))]
            c = {"c": k, "args": args}
            if k == "AtMost": c["v"] = rng.randint(0, 2)
            if rng.random() < 0.4:
                # an explicit id that sorts in between the atoms' names: atoms and compounds interleave in id order
                c["id"] = rng.choice("abcdefgh") + str(rng.randint(1, 99))
            elif rng.random() < 0.5:
                # a compound over the parent's own (boolean) atoms: Any(x) next to x, Any(x, y) next to x and y — its negation
                # coincides with the negated group of those atoms
                ba = [x for x in atoms if (x["lo"], x["hi"]) == (0, 1)]
                if ba:
                    c = {"c": rng.choice(["Any", "Any", "All"]), "args": [{"c": "str", "id": x["id"]} for x in (ba if rng.random() < 0.5 else ba[:1])]}
            comps.append(c)
    if rng.random() < 0.35:
        # conjunction-shaped: value = number of children, boolean atoms (also as All(...))
        atoms = [{"c": "var", "id": a["id"], "lo": 0, "hi": 1} if rng.random() < 0.8 else a for a in atoms]
        if rng.random() < 0.5:
            node = {"c": "All", "args": comps + atoms}
            if rng.random() < 0.5: node["id"] = f"M{rng.randint(1, 999)}"
            r = rng.random()
            if depth > 0 and r < 0.2: return {"c": "Any", "args": [node, {"c": "str", "id": "z"}]}
            if depth > 0 and r < 0.4: return {"c": "Imply", "cond": node, "cons": {"c": "str", "id": "z"}}
            return node
        node = {"c": "AtLeast", "v": len(comps) + len(atoms) - rng.choice([0, 0, 0, 1]), "args": comps + atoms}
    else:
        node = {"c": "AtLeast", "v": rng.randint(-1, 4), "args": comps + atoms}
    if rng.random() < 0.6: node["sign"] = 1
    if rng.random() < 0.5: node["id"] = f"M{rng.randint(1, 999)}"
    r = rng.random()
    if depth > 0 and r < 0.2: return {"c": "Any", "args": [node, {"c": "str", "id": "z"}]}
    if depth > 0 and r < 0.3: return {"c": "Imply", "cond": node, "cons": {"c": "str", "id": "z"}}
    return node


def small_scope_cases(ctx):
    """thorough tier: every formula with at most two connectives over the leaves a, b (props/c04.small_scope)"""
    if ctx.quick or ctx.search:
        return
    from props.c04 import small_scope
    for a in small_scope():
        try:
            o = build(a)
        except Exception:
            continue
        if is_var(o) or not well_formed(snap(o)) or o.errors():
            continue
        ctx.tags["small-scope"] += 1
        do_case(ctx, {"ast": a})
    ctx.notes.append("exhaustive small scope: every formula with at most two connectives over two boolean leaves")


def with_history(ctx, case, t):
    """in a third of the cases the object is evaluated (total in-bounds assignments, ends of the ranges included) before it is
    negated"""
    if ctx.rng.random() < 0.33:
        lv = leaves_of(t)
        if lv:
            case["evaluated_first"] = [{k: ctx.rng.choice([lo, hi, ctx.rng.randint(lo, hi)]) for k, (lo, hi) in lv.items()}
                                       for _ in range(ctx.rng.randint(1, 2))]
    return case


def run(ctx):
    small_scope_cases(ctx)
    n_models = (150 if ctx.quick else 1200) * (3 if ctx.search else 1)
    for _ in range(n_models // 3):
        # Not(...) of bare variables with every kind of bounds, and of small compounds
        lo, hi = ctx.rng.choice(ATOM_BOUNDS + [(-3, 0), (1, 4), (1, 1), (-2, 2), (-1, 0)])
        x = {"c": "var", "id": "t", "lo": lo, "hi": hi}
        r = ctx.rng.random()
        if r < 0.15: x = {"c": "str", "id": "t"}
        elif r < 0.4:
            x = {"c": ctx.rng.choice(["Any", "All", "AtMost"]), "args": [x, {"c": "str", "id": "u"}]}
            if x["c"] == "AtMost": x["v"] = ctx.rng.randint(0, 2)
        do_case(ctx, {"not_of": x})
    for _ in range(n_models):
        a, o, t = gen_valid(ctx.rng, ctx.quick, wide_p=0.02, empty_p=0.04)
        if ctx.rng.random() < 0.15:
            # the model is the OUTPUT of another operation (assume / reduce / negate / Not / Imply / a JSON, base64, pickle or
            # deepcopy round trip, one or two of them) applied to a generated valid model
            a, o, t = gen_derived(ctx.rng, ctx.quick); ctx.tags["derived-model-stream"] += 1
        do_case(ctx, with_history(ctx, {"ast": a}, t))
    for _ in range(n_models):
        for _ in range(20):
            a = gen_mixed(ctx.rng)
            try:
                o = build(a)
            except Exception:
                continue
            if not is_var(o) and well_formed(snap(o)) and not o.errors():
                do_case(ctx, with_history(ctx, {"ast": a}, snap(o)))
                ctx.tags["targeted-mixed-stream"] += 1
                break
