"""C05 — negation is the exact complement and stays in solver-safe form."""
import copy
from trees import *

RULE = ("seeded random validated models (all value/sign combinations, mixed atom/compound children, integer leaves incl. "
        "negative bounds, explicit/generated ids); negate() output compared structurally (ids, bounds, sign, value, "
        "children order, generated flag) with the model; all (<=512 quick) in-bounds leaf assignments evaluated on the "
        "original and on the negation by the real evaluate; non-trivial = has a compound child or an integer leaf")
ASSUMPTIONS = ["validated, reference-free models", "assignments within declared leaf bounds"]


def do_case(ctx, inp):
    a = inp["ast"]
    o = build(a)
    t = snap(o)
    n = copy.deepcopy(o).negate()
    tn = snap(n)
    tg = tags_of(t)
    top_kids = t["kids"]
    nl = sum(k["k"] == "leaf" for k in top_kids)
    if t["s"] == 1 and 0 < nl < len(top_kids):
        tg.add("mixed-push")
        if t["v"] != 1: tg.add("mixed-push-value-not-1")
        if any(k["k"] == "leaf" and k["lo"] < 0 for k in top_kids): tg.add("mixed-push-negative-atom")
    ctx.case(inp, nontrivial=depth(t) > 1 or any(b != (0, 1) for b in leaves_of(t).values()), tags=tg)
    ctx.op({"op": "negate", "t": t}, {"t": tn})
    lv = leaves_of(t)
    for sigma in assignments(ctx.rng, lv, 512 if ctx.quick else 4096):
        v0 = o.evaluate(sigma).constant
        v1 = n.evaluate(sigma).constant
        if v0 is None or v1 is None or v1 != 1 - v0 or v0 != ref_eval(t, sigma):
            ctx.fail("negation-not-complement", {"sigma": sigma, "original": v0, "negated": v1,
                                                 "negated_model": tn})
            break
    bool_leaves = all(b == (0, 1) for b in lv.values())
    if solver_safe(t) and bool_leaves and not solver_safe(tn):
        ctx.fail("negation-leaves-solver-safe-form", {"negated_model": tn})
    if not t["gen"] and tn["id"] != t["id"]:
        ctx.fail("explicit-id-lost", {"id": t["id"], "negated_id": tn["id"]})


def run(ctx):
    n_models = (150 if ctx.quick else 3000) * (3 if ctx.search else 1)
    for _ in range(n_models):
        a, o, t = gen_valid(ctx.rng, ctx.quick, wide_p=0.02)
        do_case(ctx, {"ast": a})
