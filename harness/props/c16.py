"""C16 — JSON round trip preserves meaning, explicit ids and defaults."""
import copy, json
from configs import *

RULE = ("seeded random validated models built from every class of the JSON class map (AtLeast with explicit signs, AtMost, All, "
        "Any, Xor, ExactlyOne, XNor, Imply, Not, variables with integer bounds), nested, with explicit and generated ids, and "
        "configurators (defaulted and plain cc.Any / cc.Xor, ExactlyOne rules); to_json (through json.dumps/loads) compared "
        "with the model's toJson, from_json compared with the model's toAst + build; oracle: leaves and bounds equal, "
        "evaluation equal on all (<= 256, else sampled) assignments, every explicitly given id kept, no id emitted for a "
        "generated one, defaults / default priorities on named ids kept; non-trivial = nested or integer-bounded or configurator")
ASSUMPTIONS = ["'explicit ids' are the ids the generator itself passed (DESIGN §4 C16), not generated_id == False",
               "JSON proposition lists are compared as multisets (the constructors sort children by id)"]


def canon_json(j):
    if isinstance(j, dict):
        d = {k: canon_json(v) for k, v in j.items() if not (k == "default" and v == [])}
        if "propositions" in d:
            d["propositions"] = sorted(d["propositions"], key=lambda x: json.dumps(x, sort_keys=True))
        return d
    if isinstance(j, list):
        return [canon_json(x) for x in j]
    return j


def explicit_ids(a, out=None):
    out = set() if out is None else out
    if isinstance(a, dict):
        if a.get("c") not in ("var", "str") and "id" in a:
            out.add(a["id"])
        for v in a.values(): explicit_ids(v, out)
    elif isinstance(a, list):
        for v in a: explicit_ids(v, out)
    return out


def json_compound_ids(j, out=None):
    out = set() if out is None else out
    if isinstance(j, dict):
        if ("type" in j and j["type"] not in ("Proposition", "Variable")) or "propositions" in j:
            if "id" in j: out.add(j["id"])
        for k, v in j.items():
            if k != "default": json_compound_ids(v, out)
    elif isinstance(j, list):
        for v in j: json_compound_ids(v, out)
    return out


F16F = "F16f"
F16G = "F16g"


def siblings_equal_as_json(o):
    """class predicate of known finding F16f: some node has two children with different ids whose JSON forms are equal
    (they differ only in the `sign` argument as passed — explicit default sign vs none — which enters the generated id
    but is not written to JSON because it can be inferred)"""
    if is_var(o):
        return False
    seen = {}
    for c in o.propositions:
        if is_var(c):
            continue
        try:
            key = json.dumps(canon_json(copy.deepcopy(c).to_json()), sort_keys=True)
        except Exception:
            continue
        if key in seen and seen[key] != c.id:
            return True
        seen.setdefault(key, c.id)
    return any(siblings_equal_as_json(c) for c in o.propositions)


def do_case(ctx, inp):
    a = inp["ast"]
    o = build(a)
    t = snap(o)
    is_cfg = t["cls"] == "Stingy"
    lv = leaves_of(t)
    ctx.case(inp, nontrivial=depth(t) > 1 or is_cfg or any(b != (0, 1) for b in lv.values()),
             tags=tags_of(t) | ({"configurator"} if is_cfg else {"proposition"}))
    try:
        j = json.loads(json.dumps(copy.deepcopy(o).to_json()))
    except Exception as e:
        ctx.fail("to_json-raised", {"exception": f"{type(e).__name__}: {e}"}); return
    ctx.op({"op": "to_json", "t": t}, {"j": canon_json(j)}, norm=lambda ans: {"j": canon_json(ans["j"])})
    try:
        o2 = cc.StingyConfigurator.from_json(copy.deepcopy(j)) if is_cfg else pg.from_json(copy.deepcopy(j))
    except Exception as e:
        ctx.fail("from_json-raised-on-own-output", {"exception": f"{type(e).__name__}: {e}", "json": j}); return
    t2 = snap(o2)
    ctx.op({"op": "from_json", "j": j, "cfg": is_cfg, "top": is_cfg}, {"t": t2})
    if t2 == t: ctx.tags["round-trip-structurally-identical"] += 1
    # the statement
    if leaves_of(t2) != lv:
        ctx.fail("leaf-variables-or-bounds-changed", {"before": lv, "after": leaves_of(t2), "json": j}); return
    for s in assignments(ctx.rng, lv, 256 if ctx.quick else 2048):
        v1, v2 = o.evaluate(s).as_tuple(), o2.evaluate(s).as_tuple()
        if v1 != v2:
            ctx.fail("round-trip-changes-evaluation", {"sigma": s, "before": list(map(int, v1)), "after": list(map(int, v2)), "json": j},
                     known=F16F if siblings_equal_as_json(o) else None); return
    ex = explicit_ids(a)
    if has_derive(a):
        # a model that is the output of assume() / reduce() / negate() / a round trip: which ids count as given is what the
        # object itself says (assume and reduce keep a node's id by naming it — it can no longer be derived from the changed
        # content —, so it is an explicit id from then on); for freshly built models the caller's own ids stay the yardstick
        ex = {n["id"] for n in subs(t) if n["k"] == "node" and not n["gen"]}
    kept = {n["id"] for n in subs(t2) if n["k"] == "node"}
    present = {n["id"] for n in subs(t) if n["k"] == "node"}
    lost = sorted((ex & present) - kept)
    if lost:
        ctx.fail("explicit-id-lost", {"lost": lost, "json": j}); return
    emitted = json_compound_ids(j)
    extra = sorted(emitted - ex)
    if extra:
        # known finding F16g: a defaulted cc.Xor rebuilds its "at least one" half as a cc.Any around the old node's variable
        # OBJECT, so that half's generated id counts as explicit from then on; wherever the half is written on its own (the
        # re-negated condition of an Imply, a Not) its id is emitted although the caller never gave it
        half_ids = set()
        def halves(x):
            if isinstance(x, dict):
                if x.get("c") == "ccXor" and x.get("default"):
                    try:
                        for k_ in build(x).propositions:
                            if isinstance(k_, cc.Any): half_ids.add(k_.id)
                    except Exception:
                        pass
                for v_ in x.values(): halves(v_)
            elif isinstance(x, list):
                for v_ in x: halves(v_)
        halves(a)
        ctx.fail("id-emitted-for-generated-id", {"ids": extra, "json": j}, known=F16G if set(extra) <= half_ids else None); return
    if is_cfg:
        d1 = {n["id"]: [tuple(x) for x in n["default"]] for n in subs(t) if n["k"] == "node" and n["default"] and n["id"] in ex}
        d2 = {n["id"]: [tuple(x) for x in n["default"]] for n in subs(t2) if n["k"] == "node" and n["default"] and n["id"] in ex}
        if d1 != d2:
            ctx.fail("defaults-not-kept", {"before": d1, "after": d2}); return
        # … and for choices without an explicit id: matched by class and the set of leaves below them; THE default is the
        # first entry of the list (the model is restructured around it), so the order of the list matters
        def by_shape(tt):
            out, seen = {}, set()
            for n in subs(tt):
                if n["k"] == "node" and n["default"]:
                    key = (n["cls"], tuple(sorted(leaves_of(n))))
                    if key in seen: out.pop(key, None)
                    else: seen.add(key); out[key] = [x[0] for x in n["default"]]
            return out
        s1, s2 = by_shape(t), by_shape(t2)
        for key in s1:
            if key in s2 and s1[key] != s2[key]:
                ctx.fail("defaults-not-kept", {"choice_over": list(key[1]), "class": key[0], "before": s1[key], "after": s2[key]}); return
        named = ex | set(lv)
        p1 = {k: int(v) for k, v in o.default_prios.items() if k in named}
        p2 = {k: int(v) for k, v in o2.default_prios.items() if k in named}
        n1 = sum(1 for v in o.default_prios.values() if v == -2)
        n2 = sum(1 for v in o2.default_prios.values() if v == -2)
        if p1 != p2 or n1 != n2:
            ctx.fail("default-priorities-changed", {"before": p1, "after": p2, "non_default_branches": [n1, n2]}); return
        # "... and polyhedron": generated helper ids may be renamed by the round trip, the shape of the system and the
        # multiset of default priorities may not change
        try:
            g1, g2 = o.ge_polyhedron, o2.ge_polyhedron
            sh1, sh2 = list(np.asarray(g1).shape), list(np.asarray(g2).shape)
            m1 = sorted(int(x) for x in np.asarray(g1.default_prio_vector).tolist())
            m2 = sorted(int(x) for x in np.asarray(g2.default_prio_vector).tolist())
        except BaseException:
            sh1 = sh2 = m1 = m2 = None
        if sh1 != sh2 or m1 != m2:
            ctx.fail("polyhedron-changed", {"shape_before": sh1, "shape_after": sh2, "default_prio_values_before": m1, "default_prio_values_after": m2}); return


def gen_threshold(rng):
    """compounds over ONE integer variable with a threshold that is not 1 (t >= k, -t >= -k, at most k), as the condition or
    consequence of an Imply, under Not / XNor / Any / All — the shapes whose JSON is easily mistaken for the bare variable"""
    def thr(name):
        lo = rng.randint(-2, 1); hi = lo + rng.randint(2, 6)
        var = {"c": "var", "id": name, "lo": lo, "hi": hi}
        k = rng.randint(lo, hi + 1)
        r = rng.random()
        if r < 0.5:
            n = {"c": "AtLeast", "v": k, "args": [var]}
            if rng.random() < 0.4: n["sign"] = 1
        elif r < 0.7:
            n = {"c": "AtLeast", "v": -k, "args": [var], "sign": -1}
        elif r < 0.85:
            n = {"c": "AtMost", "v": k, "args": [var]}
        else:
            n = {"c": rng.choice(["All", "Any"]), "args": [var]}
        if rng.random() < 0.25: n["id"] = "T" + name
        return n
    S = lambda i: {"c": "str", "id": i}
    r = rng.random()
    if r < 0.45:
        a = {"c": "Imply", "cond": thr("t"), "cons": S("y") if rng.random() < 0.6 else thr("u")}
    elif r < 0.6:
        a = {"c": "Imply", "cond": S("y"), "cons": thr("t")}
    elif r < 0.75:
        a = {"c": "Not", "arg": thr("t")}
    elif r < 0.85:
        a = {"c": "XNor", "args": [thr("t"), S("y")]}
    else:
        a = {"c": rng.choice(["Any", "All"]), "args": [thr("t"), S("y"), {"c": "Imply", "cond": thr("u"), "cons": S("z")}]}
    if a["c"] != "Not" and rng.random() < 0.4: a["id"] = "R0"
    return a


def run(ctx):
    rng = ctx.rng
    n = (450 if ctx.quick else 3000) * (3 if ctx.search else 1)
    for _ in range(n // 8):
        a = gen_threshold(rng)
        try:
            o = build(a)
        except Exception:
            continue
        if is_var(o) or not well_formed(snap(o)) or o.errors():
            continue
        ctx.tags["single-variable-threshold-stream"] += 1
        do_case(ctx, {"ast": a})
    for _ in range(max(20, n // 12)):
        # a defaulted choice as a member of each of the plain connectives in turn (XNor, Xor, ExactlyOne, All, Any, AtLeast,
        # AtMost, both sides of an Imply, below a Not): the configurator's class map reaches every position
        its = rng.sample(list("abcdefgh"), 6)
        lf = lambda x: {"c": "str", "id": x}
        ch = {"c": rng.choice(["ccAny", "ccXor"]), "args": [lf(its[0]), lf(its[1]), lf(its[2])], "default": [its[rng.randrange(3)]]}
        if rng.random() < 0.6: ch["id"] = "G"
        pos = rng.choice(["XNor", "XNor", "Xor", "ExactlyOne", "All", "Any", "AtLeast", "AtMost", "ImplyCond", "ImplyCons", "Not"])
        if pos in ("XNor", "Xor", "ExactlyOne", "All", "Any"): r = {"c": pos, "args": [ch, lf(its[3])]}
        elif pos == "AtLeast": r = {"c": "AtLeast", "v": rng.randint(1, 2), "args": [ch, lf(its[3])]}
        elif pos == "AtMost": r = {"c": "AtMost", "v": 1, "args": [ch, lf(its[3])]}
        elif pos == "ImplyCond": r = {"c": "Imply", "cond": ch, "cons": lf(its[3])}
        elif pos == "ImplyCons": r = {"c": "Imply", "cond": lf(its[3]), "cons": ch}
        else: r = {"c": "Any", "args": [{"c": "Not", "arg": ch}, lf(its[3])]}
        if rng.random() < 0.6: r["id"] = "R"
        a = {"c": "Stingy", "id": "cfg", "args": [r, {"c": "Any", "args": [lf(its[4]), lf(its[5])], "id": "S"}]}
        try:
            o = build(a)
            if not well_formed(snap(o)) or o.errors(): continue
        except Exception:
            continue
        ctx.tags["defaulted-choice-below-" + pos] += 1
        do_case(ctx, {"ast": a})
    for _ in range(n):
        if rng.random() < 0.35:
            # configurators; a third of them rich in choices nested below choices (defaults below defaults)
            a, o, t = valid_configurator(rng, ctx.quick, nest_p=0.3 if rng.random() < 0.65 else 0.9, odd_items_p=0.25, multi_default_p=0.5)
        else:
            a, o, t = gen_valid(rng, ctx.quick, classes=[c for c in CLASSES if not c.startswith("cc")], wide_p=0.02, empty_p=0.04)
            if rng.random() < 0.15:
                # the model is the OUTPUT of another operation (assume / reduce / negate / Not / Imply / a JSON, base64, pickle or
                # deepcopy round trip, one or two of them) applied to a generated valid model
                a, o, t = gen_derived(rng, ctx.quick, classes=[c for c in CLASSES if not c.startswith("cc")]); ctx.tags["derived-model-stream"] += 1
        do_case(ctx, {"ast": a})
