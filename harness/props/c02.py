"""C02 — integer solutions of the polyhedron are exactly the satisfying configurations."""
import copy
from trees import *
from polys import *

RULE = ("seeded random validated models as for C01 (no compound pre-fixed); model row set / columns / solver-safe flag "
        "compared with the real to_ge_polyhedron(active=True); every in-box integer point of the real matrix is enumerated "
        "when the box has <= 20000 (quick) points: completeness for all models, soundness for solver-safe ones; "
        "a second stream over boolean leaves rich in nested Not / Imply / XNor; expressions of the safe grammar (Lean: Ast.SafeExpr) "
        "must be sound even if the built object were not in solver-safe form; non-trivial = has a compound child; distinct = distinct models")
ASSUMPTIONS = ["validated, reference-free models with no compound pre-fixed", "auxiliary columns free within their bounds"]


def do_case(ctx, inp):
    a = inp["ast"]
    o = build(a)
    t = snap(o)
    if not free01(t):
        ctx.skip("prefixed-compound")
        return
    safe = solver_safe(t)
    grammar = ast_safe(a)
    ctx.case(inp, nontrivial=depth(t) > 1, tags=tags_of(t) | {"solver-safe" if safe else "unsafe"} | ({"safe-grammar"} if grammar else set()))
    # "negation pushes inwards to re-establish this form": an expression of the safe grammar (theorem C02.expr_safe)
    # must come out solver-safe; if it does not, the enumeration below looks for the spurious point
    expect_sound = safe or grammar
    lv = leaves_of(t)
    poly = copy.deepcopy(o).to_ge_polyhedron(active=True)
    rows, avars = poly_snap(poly)
    ctx.op({"op": "encode", "t": t, "active": True},
           {"rows": rows_json(rows), "vars": avars, "safe": safe}, norm=norm_encode)
    if grammar and not safe:
        ctx.notes.append("an expression of the safe grammar built a model that is not solver-safe: " + canon_short(a))
    pts = box_points(avars, 20000 if ctx.quick else 300000)
    if pts is None:
        if grammar and not safe:
            ctx.fail("safe-grammar-expression-not-in-solver-safe-form", {"model": t})
        # too many points to enumerate: the first clause on sampled assignments (corners included) — a leaf assignment that
        # makes the model true, completed by the evaluated truth values, is an in-bounds integer point of the polyhedron
        # (within the bounds the polyhedron's own columns declare)
        colb = {v[0]: (v[1], v[2]) for v in avars}
        for sigma in assignments(ctx.rng, lv, 48):
            if ref_eval(t, sigma) != 1:
                continue
            x = {k: int(b.constant) for k, b in o.evaluate_propositions(sigma).items() if b.constant is not None}
            x.update(sigma)
            out = [k for k, (lo_, hi_) in colb.items() if k in x and not (lo_ <= x[k] <= hi_)]
            if out or not all(row_ok(r, x) for r in rows):
                ctx.fail("valid-configuration-lost", {"sigma": sigma, "columns_outside_the_polyhedron_s_bounds": out,
                                                      "column_bounds": {k: list(colb[k]) for k in out}})
                return
        ctx.tags["box-too-large-sampled"] += 1
        ctx.skip("box-too-large-for-enumeration")
        return
    ctx.tags["enumerated"] += 1
    feas_leaf = set()
    names = sorted(lv)
    for x in pts:
        if all(row_ok(r, x) for r in rows):
            sigma = {n: x[n] for n in names}
            key = tuple(sigma[n] for n in names)
            if key in feas_leaf:
                continue
            feas_leaf.add(key)
            if expect_sound and ref_eval(t, sigma) != 1:
                ctx.fail("spurious-point-in-solver-safe-model" if safe else "spurious-point-in-model-built-from-safe-grammar",
                         {"x": x, "sigma": sigma, "model": t})
                return
            # "negation pushes inwards to re-establish this form": when the model IS the negation (Not / negate / Imply) of
            # the output of another operation, the leaf part of a point must make that negation true — judged by the
            # argument's own evaluation, not by the pushed-in form
            want = expected_by_argument(a, sigma) if safe else None
            if want is not None and want != 1:
                ctx.fail("point-of-the-negation-s-polyhedron-does-not-falsify-the-negated-model",
                         {"x": x, "sigma": sigma, "model": t, "via": a["via"]})
                return
    for sigma in all_assignments(lv):
        if ref_eval(t, sigma) == 1:
            real = o.evaluate(as_mapping(ctx.rng, dict(sigma)))
            if real.constant != 1:
                ctx.fail("evaluate-disagrees-with-truth-function", {"sigma": sigma})
                return
            if tuple(sigma[n] for n in names) not in feas_leaf:
                ctx.fail("valid-configuration-lost", {"sigma": sigma})
                return


def canon_short(a):
    import json
    return json.dumps(a, sort_keys=True)[:400]


def gen_negnest(rng, depth, names):
    """a random expression of the safe grammar dominated by nested negations: Not / Imply / XNor over compounds"""
    S = lambda: {"c": "str", "id": rng.choice(names)}
    if depth <= 0 or rng.random() < 0.15:
        return S()
    def sub():
        return gen_negnest(rng, depth - 1, names)
    def distinct(args):
        out, seen = [], set()
        for x in args:
            k = canon_short(x)
            if k not in seen:
                seen.add(k); out.append(x)
        return out
    r = rng.random()
    if r < 0.3:
        x = sub()
        return {"c": "Not", "arg": x}
    if r < 0.5:
        return {"c": "Imply", "cond": sub(), "cons": sub() if rng.random() < 0.5 else S()}
    if r < 0.75:
        return {"c": "XNor", "args": distinct([sub() for _ in range(rng.randint(2, 3))])}
    if r < 0.9:
        return {"c": rng.choice(["All", "Any"]), "args": distinct([sub() for _ in range(rng.randint(1, 3))])}
    k = rng.choice(["AtMost", "Xor", "AtLeast"])
    args = distinct([S() for _ in range(rng.randint(1, 3))])
    a = {"c": k, "args": args}
    if k == "AtMost": a["v"] = rng.randint(0, 2)
    if k == "AtLeast": a["v"] = rng.randint(1, len(args))
    return a


SAFE_CLASSES = ["All", "Any", "AtLeast", "XNor", "Imply", "Not", "XNor", "Not", "Imply", "AtMost", "Xor"]


def small_scope_cases(ctx):
    """thorough tier: every formula with at most two connectives over the leaves a, b (props/c04.small_scope)"""
    if ctx.quick or ctx.search:
        return
    from props.c04 import small_scope
    for a in small_scope():
        try:
            o = build(a)
        except Exception:
            continue
        if is_var(o) or not well_formed(snap(o)) or o.errors():
            continue
        ctx.tags["small-scope"] += 1
        do_case(ctx, {"ast": a})
    ctx.notes.append("exhaustive small scope: every formula with at most two connectives over two boolean leaves")


def accepted_mutants(ctx):
    """C10's adversarial mutations (second definitions of an id, coinciding generated ids, …) that errors() lets through are
    validated models: the statement must hold for them too.  The unchanged errors() rejects every ill-defined one."""
    from props.c10 import mutate
    for _ in range(150 if ctx.quick else 900):
        a, o, t = gen_valid(ctx.rng, ctx.quick, twins=False, wide_p=0.0)
        m, op = mutate(ctx.rng, a)
        try:
            om = build(m)
            if is_var(om) or om.errors():
                continue
            tm = snap(om)
        except Exception:
            continue
        leaf_ids = {n["id"] for n in subs(tm) if n["k"] == "leaf"}
        if leaf_ids & set(compound_ids(tm)) or not free01(tm) or well_formed(tm):
            continue
        ctx.tags["ill-defined-model-accepted-by-errors"] += 1
        do_case(ctx, {"ast": m})
    for _ in range(40 if ctx.quick else 200):
        m = lookalike_model(ctx.rng)
        try:
            om = build(m)
            if is_var(om) or om.errors():
                continue                    # rejected, as every one of them is by the unchanged validation
        except Exception:
            continue
        ctx.tags["look-alike-ill-defined-model-accepted-by-errors"] += 1
        do_case(ctx, {"ast": m})


def run(ctx):
    small_scope_cases(ctx)
    accepted_mutants(ctx)
    n_models = (250 if ctx.quick else 1200) * (3 if ctx.search else 1)
    for _ in range(n_models):
        a, o, t = gen_valid(ctx.rng, ctx.quick, wide_p=0.05, empty_p=0.08)
        if ctx.rng.random() < 0.2:
            # the model is the OUTPUT of another operation (assume / reduce / negate / Not / Imply / a JSON, base64, pickle or
            # deepcopy round trip, one or two of them) applied to a generated valid model
            a, o, t = gen_derived(ctx.rng, ctx.quick, wide_p=0.0); ctx.tags["derived-model-stream"] += 1
        do_case(ctx, {"ast": a})
    # something was assumed about a model, then the result was negated (Not / negate / Imply over the output of assume())
    for _ in range((80 if ctx.quick else 500) * (3 if ctx.search else 1)):
        try:
            a, o, t = gen_derived(ctx.rng, ctx.quick, chain_p=1.0, wide_p=0.0, int_p=0.0, bool_only=True)
        except RuntimeError:
            break
        ctx.tags["negation-of-an-assumed-model-stream"] += 1
        do_case(ctx, {"ast": a})
    # a stream rich in nested negations over boolean leaves (Not / Imply / XNor of compounds, several levels)
    for _ in range(n_models):
        a, o, t = gen_valid(ctx.rng, ctx.quick, wide_p=0.0, int_p=0.0, bool_only=True, classes=SAFE_CLASSES, max_arity=3, empty_p=0.06)
        do_case(ctx, {"ast": a})
    # nodes over compound *and* integer-atom children (conjunction shapes among them): sums where an integer leaf can
    # compensate for a false sub-proposition
    from props.c05 import gen_mixed
    for _ in range(n_models):
        a = gen_mixed(ctx.rng)
        try:
            o = build(a)
        except Exception:
            continue
        if is_var(o) or not well_formed(snap(o)) or o.errors():
            continue
        ctx.tags["mixed-compound-and-integer-atoms-stream"] += 1
        do_case(ctx, {"ast": a})
    made = 0
    for _ in range(n_models * 6):
        if made >= n_models:
            break
        a = gen_negnest(ctx.rng, ctx.rng.randint(2, 4), list("abcde")[:ctx.rng.randint(2, 5)])
        if a["c"] == "str":
            continue
        try:
            o = build(a)
        except Exception:
            continue
        if is_var(o) or not well_formed(snap(o)) or o.errors():
            continue
        made += 1
        ctx.tags["negation-nest-stream"] += 1
        do_case(ctx, {"ast": a})
