"""C02 — integer solutions of the polyhedron are exactly the satisfying configurations."""
import copy
from trees import *
from polys import *

RULE = ("seeded random validated models as for C01 (no compound pre-fixed); model row set / columns / solver-safe flag "
        "compared with the real to_ge_polyhedron(active=True); every in-box integer point of the real matrix is enumerated "
        "when the box has <= 20000 (quick) points: completeness for all models, soundness for solver-safe ones; "
        "non-trivial = has a compound child; distinct = distinct models")
ASSUMPTIONS = ["validated, reference-free models with no compound pre-fixed", "auxiliary columns free within their bounds"]


def do_case(ctx, inp):
    a = inp["ast"]
    o = build(a)
    t = snap(o)
    if not free01(t):
        ctx.skip("prefixed-compound")
        return
    safe = solver_safe(t)
    ctx.case(inp, nontrivial=depth(t) > 1, tags=tags_of(t) | {"solver-safe" if safe else "unsafe"})
    lv = leaves_of(t)
    poly = copy.deepcopy(o).to_ge_polyhedron(active=True)
    rows, avars = poly_snap(poly)
    ctx.op({"op": "encode", "t": t, "active": True},
           {"rows": rows_json(rows), "vars": avars, "safe": safe}, norm=norm_encode)
    pts = box_points(avars, 20000 if ctx.quick else 300000)
    if pts is None:
        ctx.skip("box-too-large-for-enumeration")
        return
    ctx.tags["enumerated"] += 1
    feas_leaf = set()
    names = sorted(lv)
    for x in pts:
        if all(row_ok(r, x) for r in rows):
            sigma = {n: x[n] for n in names}
            key = tuple(sigma[n] for n in names)
            if key in feas_leaf:
                continue
            feas_leaf.add(key)
            if safe and ref_eval(t, sigma) != 1:
                ctx.fail("spurious-point-in-solver-safe-model", {"x": x, "sigma": sigma})
                return
    for sigma in all_assignments(lv):
        if ref_eval(t, sigma) == 1:
            real = o.evaluate(sigma)
            if real.constant != 1:
                ctx.fail("evaluate-disagrees-with-truth-function", {"sigma": sigma})
                return
            if tuple(sigma[n] for n in names) not in feas_leaf:
                ctx.fail("valid-configuration-lost", {"sigma": sigma})
                return


def run(ctx):
    n_models = (80 if ctx.quick else 1200) * (3 if ctx.search else 1)
    for _ in range(n_models):
        a, o, t = gen_valid(ctx.rng, ctx.quick, wide_p=0.0)
        do_case(ctx, {"ast": a})
