"""C19 — point classification agrees with A x >= b in every input shape."""
from mats import *

RULE = ("seeded random integer matrices x integer points arrays of dimension 1, 2 and 3 (points inside, on facets of, and "
        "outside the polyhedron; groups of 1-4 points; stacks of 1-3 groups; a few matrices with 4097-12290 points; 30% of the point arrays in Fortran order / as strided or transposed views; 35% with narrow integer dtypes (int8/int16/int32/uint8) for the polyhedron and / or the points, coefficients scaled so that entries fit but row sums may not); ineqs_satisfied / separable / "
        "ineq_separate_points compared with the model including nesting shape and scalar-vs-array; oracle: direct A x >= b "
        "with Python ints; non-trivial = at least one point violates some but not all rows or lies on a facet")
ASSUMPTIONS = ["at least one row and one column"]


def tolist(v):
    a = np.asarray(v)
    if a.ndim == 0:
        return bool(a)
    return [bool(x) if not isinstance(x, list) else [bool(y) for y in x] for x in a.tolist()]


def do_case(ctx, inp):
    p, d, pts = inp["p"], inp["d"], inp["pts"]
    g = real_poly(p, ids=inp.get("ids"), dtype=inp.get("pdtype"))
    arr = np.array(pts, dtype=np.dtype(inp.get("xdtype", "int64")))
    lay = inp.get("layout")
    if lay == "fortran":
        arr = np.asfortranarray(arr)
    elif lay == "strided" and arr.ndim >= 1:
        # a non-contiguous view with the same values: every second element of a twice-as-long last-but-one axis
        big = np.repeat(arr, 2, axis=0) if arr.ndim > 1 else np.repeat(arr, 2)
        arr = big[::2]
    elif lay == "transposed" and arr.ndim == 3:
        arr = np.ascontiguousarray(arr.transpose(2, 1, 0)).transpose(2, 1, 0)      # same values, column-major strides
    if inp.get("ptype") == "integer_ndarray":
        arr = pnd.integer_ndarray(arr)            # the library's own array classes as points (default labels)
    elif inp.get("ptype") == "boolean_ndarray" and arr.size and arr.min() >= 0 and arr.max() <= 1:
        arr = pnd.boolean_ndarray(arr)
    try:
        sat = tolist(g.ineqs_satisfied(arr))
        sep = tolist(g.separable(arr))
        rowsep = tolist(g.ineq_separate_points(arr))
    except Exception as e:
        # every point has a classification: raising on a polyhedron / points pair of legal shape is a wrong answer
        ctx.case(inp, True, {"classification-raised"})
        ctx.fail("classification-raised", {"exception": f"{type(e).__name__}: {str(e)[:200]}"}); return
    flat = [pts] if d == 1 else pts if d == 2 else [x for grp in pts for x in grp]
    def viol(x): return [dot(cs, x) < b for b, cs in p["rows"]]
    vs = [viol(x) for x in flat]
    facet = any(dot(cs, x) == b for x in flat for b, cs in p["rows"])
    ctx.case(inp, nontrivial=facet or any(any(v) and not all(v) for v in vs), tags=({"thousands-of-points"} if inp.get("big") else set()) | ({"magnitudes-above-2^53"} if inp.get("huge") else set()) | ({"polyhedron-without-rows"} if inp.get("norows") else set()) | ({"points-as-" + inp["ptype"]} if inp.get("ptype") else set()) | ({"layout-" + inp["layout"]} if inp.get("layout") else set()) | {f"ndim-{d}", "poly-dtype-" + str(inp.get("pdtype", "int64")), "points-dtype-" + str(inp.get("xdtype", "int64"))}
             | ({"facet-point"} if facet else set())
             | ({"row-sum-exceeds-narrow-dtype"} if inp.get("pdtype") in ("int8", "int16") and any(abs(dot(cs, x)) > (127 if inp["pdtype"] == "int8" else 32767) for x in flat for _, cs in p["rows"]) else set()))
    ctx.op({"op": "classify", "p": p, "d": d, "pts": pts}, {"sat": sat, "sep": sep, "rowsep": rowsep})
    # oracle
    def sat_of(x): return not any(viol(x))
    if d == 1:
        want = (sat_of(pts), not sat_of(pts), viol(pts))
    elif d == 2:
        want = ([sat_of(x) for x in pts], [not sat_of(x) for x in pts], [any(viol(x)[i] for x in pts) for i in range(len(p["rows"]))])
    else:
        want = ([[sat_of(x) for x in grp] for grp in pts], [[not sat_of(x) for x in grp] for grp in pts],
                [[any(viol(x)[i] for x in grp) for i in range(len(p["rows"]))] for grp in pts])
    for name, got, w in (("ineqs_satisfied", sat, want[0]), ("separable", sep, want[1]), ("ineq_separate_points", rowsep, want[2])):
        if got != w:
            ctx.fail("classification-wrong", {"function": name, "got": got, "want": w})
    if inp.get("sliced") and p["rows"] and not inp.get("pdtype"):
        # the polyhedron is a numpy SELECTION of a larger one (a row or column dropped by slicing, fancy indexing or
        # numpy.delete): such an object still carries the larger one's labels; `separable`, which reads the matrix only,
        # answers for the rows and columns that are there (the label-reading functions refuse such an object; not asked)
        kind = inp["sliced"]; nr = len(p["rows"]); nc = len(p["bnds"])
        junk = [1, [1] * nc]
        if kind in ("tail", "head", "fancy", "delete"):
            pos = {"tail": nr, "head": 0}.get(kind, nr // 2)
            big = real_poly(dict(p, rows=p["rows"][:pos] + [junk] + p["rows"][pos:], prov=None), ids=inp.get("ids"))
            g2 = {"tail": lambda: big[:-1], "head": lambda: big[1:], "fancy": lambda: big[[i for i in range(nr + 1) if i != pos]],
                  "delete": lambda: np.delete(big, pos, 0)}[kind]()
        else:
            big = real_poly(dict(p, bnds=p["bnds"] + [[0, 1]], rows=[[r[0], list(r[1]) + [1]] for r in p["rows"]], prov=None),
                            ids=(inp.get("ids") or [f"x{j}" for j in range(nc)]) + ["junk-col"])
            g2 = big[:, :-1]
        ctx.tags["separable-on-a-numpy-selection-of-a-larger-polyhedron-" + kind] += 1
        try:
            sep2 = tolist(g2.separable(arr))
        except Exception as e:
            ctx.fail("classification-raised", {"function": "separable", "polyhedron": "numpy selection (" + kind + ") of a larger polyhedron",
                                               "exception": f"{type(e).__name__}: {str(e)[:200]}"}); return
        if sep2 != want[1]:
            ctx.fail("classification-wrong", {"function": "separable", "polyhedron": "numpy selection (" + kind + ") of a larger polyhedron", "got": sep2, "want": want[1]})


def gen_point(rng, p):
    x = []
    for lo, hi in p["bnds"]:
        lo, hi = max(lo, -50), min(hi, 50)
        x.append(rng.choice([lo, hi, rng.randint(lo, hi), rng.randint(lo - 2, hi + 2)]))
    return x


def huge_case(rng):
    """int64 magnitudes above 2**53 with a slack of -1, 0 or +1: every value fits into 64 bits, so the classification
    is exact in integer arithmetic — and wrong as soon as anything is computed in double precision"""
    nc = rng.randint(1, 3)
    def point():
        x = [rng.randint(-3, 3) for _ in range(nc)]
        j = rng.randrange(nc)
        x[j] = rng.choice([1, -1]) * (2 ** rng.choice([53, 54, 56, 60]) + rng.randint(0, 9))
        return x
    d = rng.choice([1, 2, 3, 3])
    pts = point() if d == 1 else [point() for _ in range(rng.randint(1, 3))] if d == 2 else \
        [[point() for _ in range(rng.randint(1, 2) if False else 2)] for _ in range(rng.randint(1, 3))]
    flat = [pts] if d == 1 else pts if d == 2 else [x for grp in pts for x in grp]
    rows = []
    for _ in range(rng.randint(1, 2)):
        cs = [rng.choice([1, 1, 2, -1, 3, -2]) for _ in range(nc)]
        x = rng.choice(flat)
        rows.append([dot(cs, x) + rng.choice([-1, 0, 1, 0]), cs])
    return {"p": {"bnds": [[-2 ** 62, 2 ** 62]] * nc, "rows": rows}, "d": d, "pts": pts, "huge": True}


def big_case(rng):
    """a points matrix (or a stack) with thousands of points: anything that evaluates points in blocks must also
    get the last block right"""
    p = gen_poly(rng, True, max_rows=2, max_cols=2)
    npts = rng.choice([4097, 8193, 12289, 12290, 8192 + rng.randint(1, 40)])
    pts = [gen_point(rng, p) for _ in range(npts)]
    # make the tail decisive: alternate inside / outside points at the very end
    for k in range(1, 4):
        pts[-k] = [b[0] - 1 if k % 2 else b[0] for b in p["bnds"]] if rng.random() < 0.5 else gen_point(rng, p)
    if rng.random() < 0.3:
        return {"p": p, "d": 3, "pts": [pts, pts[::-1]], "big": True}
    return {"p": p, "d": 2, "pts": pts, "big": True}


def run(ctx):
    for _ in range(8 if ctx.quick else 20):
        do_case(ctx, big_case(ctx.rng))
    for _ in range((60 if ctx.quick else 600) * (3 if ctx.search else 1)):
        do_case(ctx, huge_case(ctx.rng))
    for _ in range((40 if ctx.quick else 300) * (3 if ctx.search else 1)):
        # a polyhedron without rows (nothing to violate: every point satisfies it)
        p = gen_poly(ctx.rng, ctx.quick)
        p = {"bnds": p["bnds"], "rows": []}
        d = ctx.rng.choice([1, 2, 3])
        pts = gen_point(ctx.rng, p) if d == 1 else [gen_point(ctx.rng, p) for _ in range(ctx.rng.randint(1, 3))] if d == 2 else \
            [[gen_point(ctx.rng, p) for _ in range(2)] for _ in range(ctx.rng.randint(1, 2))]
        do_case(ctx, {"p": p, "d": d, "pts": pts, "norows": True})
    n = (1200 if ctx.quick else 12000) * (3 if ctx.search else 1)
    for _ in range(n):
        p = gen_poly(ctx.rng, ctx.quick)
        d = ctx.rng.choice([1, 2, 3])
        if d == 1: pts = gen_point(ctx.rng, p)
        elif d == 2: pts = [gen_point(ctx.rng, p) for _ in range(ctx.rng.randint(1, 4))]
        else:
            k = ctx.rng.randint(1, 4)
            pts = [[gen_point(ctx.rng, p) for _ in range(k)] for _ in range(ctx.rng.randint(1, 3))]
        inp = {"p": p, "d": d, "pts": pts}
        if ctx.rng.random() < 0.12:
            # integer column labels in the caller's order, the support column named by the caller: labels are labels
            nc_ = len(p["bnds"]); start = ctx.rng.choice([0, 0, 1])
            ids = list(range(start, start + nc_))
            if ctx.rng.random() < 0.5: ctx.rng.shuffle(ids)
            inp["ids"] = ids
            if ctx.rng.random() < 0.7: p["first"] = "named"
            ctx.tags["integer-column-labels"] += 1
        r = ctx.rng.random()
        if r < 0.35:
            # narrow integer dtypes for the polyhedron and / or the points: every entry fits, row sums need not
            pd_, xd = ctx.rng.choice([("int8", "int8"), ("int8", "int64"), ("int16", "int16"), ("int32", "int8"), ("int64", "int8"), ("int8", "uint8"), ("int16", "int32")])
            lim = {"int8": 127, "int16": 32767, "int32": 2**31 - 1, "int64": 2**62, "uint8": 255}
            big = ctx.rng.random() < 0.75
            def clampc(v): return max(-lim[pd_], min(lim[pd_], v))
            rows = []
            for b, cs in p["rows"]:
                if big:
                    cs = [c * ctx.rng.choice([1, 20, 40, 60]) for c in cs]
                    b = b * ctx.rng.choice([1, 10, 30])
                rows.append([clampc(b), [clampc(c) for c in cs]])
            p2 = {"bnds": p["bnds"], "rows": rows}
            lo_x = 0 if xd == "uint8" else -lim[xd]
            fixx = lambda x: [max(lo_x, min(lim[xd], v)) for v in x]
            pts2 = fixx(pts) if d == 1 else [fixx(x) for x in pts] if d == 2 else [[fixx(x) for x in grp] for grp in pts]
            inp = {"p": p2, "d": d, "pts": pts2, "pdtype": pd_, "xdtype": xd}
        if ctx.rng.random() < 0.3:
            inp["layout"] = ctx.rng.choice(["fortran", "strided", "transposed"])
        elif ctx.rng.random() < 0.3:
            inp["ptype"] = ctx.rng.choice(["integer_ndarray", "integer_ndarray", "boolean_ndarray"])
        if "pdtype" not in inp and ctx.rng.random() < 0.2:
            inp["sliced"] = ctx.rng.choice(["tail", "head", "fancy", "delete", "column"])
        do_case(ctx, inp)
