"""
Proposition trees: constructor ASTs, building real puan objects from them, structural
snapshots (the tree JSON of the line protocol), seeded generators, and the
independent reference semantics used by the oracles.
"""
import copy, itertools
from core import import_puan

puan = import_puan()
import puan.logic.plog as pg
import puan.modules.configurator as cc

# --------------------------------------------------------------------------- AST -> real object
# AST: {"c": "var", "id", "lo", "hi"} | {"c": "str", "id"} |
#      {"c": "AtLeast", "v", "args", "id"?, "sign"?} | {"c": "AtMost", "v", "args", "id"?} |
#      {"c": "All"|"Any"|"Xor"|"ExactlyOne"|"XNor", "args", "id"?} |
#      {"c": "Imply", "cond", "cons", "id"?} | {"c": "Not", "arg"} |
#      {"c": "ccAny"|"ccXor", "args", "default": [id...], "id"?} | {"c": "Stingy", "args", "id"?}
# "$k": sharing key — two AST nodes with the same $k are the same Python object.

class SubVar(puan.variable):
    """an application-defined variable class (the repository's tests build models over such subclasses)"""
    pass


class ItemVar(puan.variable):
    """… and one with a constructor signature of its own (like `Fruit(size)` in the repository's tests): code that
    re-creates a leaf through `self.__class__(id, bounds)` cannot do so for this class"""
    def __init__(self, name, lo=0, hi=1):
        super().__init__(id=name, bounds=(lo, hi))


def build(ast, memo=None):
    memo = {} if memo is None else memo
    k = ast.get("$k")
    if k is not None and k in memo:
        return memo[k]
    o = _build(ast, memo)
    if k is not None:
        memo[k] = o
    return o


def _build(a, memo):
    c = a["c"]
    if c == "var":
        if a.get("$sub") == "ctor":
            return ItemVar(a["id"], a["lo"], a["hi"])
        if a.get("$sub"):
            return SubVar(a["id"], (a["lo"], a["hi"]))
        if a.get("$dtype"):
            return puan.variable(a["id"], (a["lo"], a["hi"]), dtype=a["$dtype"])
        return puan.variable(a["id"], (a["lo"], a["hi"]))
    if c == "str":
        return a["id"]
    var = a.get("id")
    if var is not None and a.get("$fix") is not None:
        # a sub-proposition whose own variable is pre-fixed to a constant by construction
        var = puan.variable(var, (a["$fix"], a["$fix"]))
    if c == "$derive":
        return apply_via(build(a["arg"], memo), a)
    if c == "Not":
        return pg.Not(build(a["arg"], memo))
    if c == "Imply":
        return pg.Imply(build(a["cond"], memo), build(a["cons"], memo), variable=var)
    args = [build(x, memo) for x in a["args"]]
    form = a.get("$form")
    if form and c in ("AtLeast", "AtMost"):
        # the container the caller hands over: the constructor must accept any iterable, also a one-shot one
        lst = args
        args = {"tuple": lambda: tuple(lst), "gen": lambda: (x for x in lst), "iter": lambda: iter(lst),
                "map": lambda: map(lambda x: x, lst)}.get(form, lambda: lst)()
    if c == "AtLeast":
        return pg.AtLeast(a["v"], args, variable=var, sign=a.get("sign"))
    if c == "AtMost":
        return pg.AtMost(a["v"], args, variable=var)
    if c in ("All", "Any", "Xor", "ExactlyOne", "XNor"):
        return getattr(pg, c)(*args, variable=var)
    if c == "ccAny":
        return cc.Any(*args, default=a.get("default"), variable=var)
    if c == "ccXor":
        return cc.Xor(*args, default=a.get("default"), variable=var)
    if c == "Stingy":
        return cc.StingyConfigurator(*args, id=var)
    raise ValueError(c)


# --------------------------------------------------------------------------- models that are OUTPUTS of other operations

def apply_via(o, a):
    """the `$derive` node of the AST: the model built from `arg`, put through another public operation of the library —
    the models a caller actually holds are as often results of assume / reduce / negate / a round trip as they are fresh"""
    import json as _json, pickle as _pickle
    via = a["via"]
    if isinstance(o, str) or is_var(o):
        return o
    if via == "negate": return o.negate()
    if via == "Not": return pg.Not(o)
    if via == "Imply": return pg.Imply(o, a.get("other", "zq"))
    if via == "ImplyCons": return pg.Imply(a.get("other", "zq"), o)
    if via in ("assume", "assume+reduce"):
        A = {k: (int(v[0]) if v[0] == v[1] else (int(v[0]), int(v[1]))) for k, v in a.get("A", {}).items()}
        r = o.assume(A)
        return r.reduce() if via == "assume+reduce" and not is_var(r) else r
    if via == "reduce": return o.reduce()
    if via == "json":
        j = _json.loads(_json.dumps(o.to_json()))
        if isinstance(o, cc.StingyConfigurator): return cc.StingyConfigurator.from_json(j)
        return pg.from_json(j)
    if via == "b64": return pg.from_b64(o.to_b64())
    if via == "deepcopy": return copy.deepcopy(o)
    if via == "pickle": return _pickle.loads(_pickle.dumps(o))
    raise ValueError(via)


def has_derive(a):
    if isinstance(a, dict):
        return a.get("c") == "$derive" or any(has_derive(v) for v in a.values())
    if isinstance(a, list):
        return any(has_derive(v) for v in a)
    return False


def gen_derived(rng, quick=True, vias=None, validate=True, chain_p=0.33, **kw):
    """(ast, object, snapshot) of a validated model that is the output of one or two other operations applied to a
    generated valid model; the AST carries the operations (`$derive`) so that a replay rebuilds the same object"""
    vias = vias or ["negate", "Not", "Imply", "ImplyCons", "assume", "assume", "assume+reduce", "reduce", "json", "b64", "deepcopy", "pickle"]
    for _ in range(200):
        a, o, t = gen_valid(rng, quick, twins=False, **kw)
        if rng.random() < 0.15:
            try:
                a = gen_mixed_for_derive(rng); o = build(a); t = snap(o)
                if is_var(o) or not well_formed(t) or o.errors(): continue
            except Exception:
                continue
        d = None
        # a third of the chains: something was assumed, then the result was negated (the everyday "rule out what is left")
        chain = None
        if "assume" in vias and any(v in vias for v in ("negate", "Not", "Imply")) and rng.random() < chain_p:
            chain = ["assume", rng.choice([v for v in ("negate", "Not", "Imply") if v in vias])]
            if rng.random() < 0.6:
                try:
                    a = gen_mixed_for_derive(rng); o = build(a); t = snap(o)
                    if is_var(o) or not well_formed(t) or o.errors(): continue
                except Exception:
                    continue
        for depth_ in range(len(chain) if chain else (2 if rng.random() < 0.4 else 1)):
            via = chain[depth_] if chain else rng.choice(vias)
            d = {"c": "$derive", "via": via, "arg": d or a}
            if via.startswith("assume"):
                try:
                    cur = build(d["arg"])
                    if is_var(cur): break
                    tc = snap(cur)
                except Exception:
                    break
                A = gen_interp(rng, tc, total=False, in_bounds=True, ranges=rng.random() < 0.2,
                               allow_compound=rng.random() < 0.3)
                if chain:
                    # one or two leaves fixed to their upper bound, nothing else: the rest of the model stays open
                    lvc = leaves_of(tc)
                    A = {k: (lvc[k][1], lvc[k][1]) if rng.random() < 0.75 else (lvc[k][0], lvc[k][0])
                         for k in rng.sample(sorted(lvc), min(len(lvc), rng.randint(1, 2)))}
                d["A"] = {k: [int(v[0]), int(v[1])] for k, v in A.items()}
            if via in ("Imply", "ImplyCons"):
                d["other"] = rng.choice(["zq", "a", "b"])
        try:
            o2 = build(d)
            if is_var(o2) or isinstance(o2, str): continue
            t2 = snap(o2)
            if validate and (not well_formed(t2, allow_empty=bool(kw.get("empty_p"))) or o2.errors()): continue
        except Exception:
            continue
        return d, o2, t2
    raise RuntimeError("no derived model generated")


def gen_mixed_for_derive(rng):
    """atoms next to compounds with and without ids of their own, thresholds other than 1, either sign — the shapes on
    which negate / assume / reduce take their less common branches"""
    names = rng.sample("abcdpqxy", 6)
    lf = lambda n: {"c": "str", "id": n}
    def comp(ns, named):
        c = rng.choice(["Any", "All", "AtMost", "AtLeast"])
        d = {"c": c, "args": [lf(n) for n in ns]}
        if c in ("AtMost", "AtLeast"): d["v"] = rng.randint(1, len(ns))
        if named: d["id"] = rng.choice(["B", "C", "Z", "b"]) + str(rng.randint(0, 3))
        return d
    kids = [lf(names[0]), lf(names[1]), comp(names[2:4], rng.random() < 0.5)]
    if rng.random() < 0.5: kids.append(comp(names[4:6], rng.random() < 0.5))
    if rng.random() < 0.3: kids.append(comp(names[0:2], False))       # a compound over the very atoms that stand beside it
    rng.shuffle(kids)
    c = rng.choice(["All", "Any", "AtLeast", "AtLeast", "AtMost"])
    top = {"c": c, "args": kids}
    if c in ("AtLeast", "AtMost"): top["v"] = rng.randint(1, len(kids))
    if rng.random() < 0.6: top["id"] = "A"
    return top


def expected_by_argument(a, sigma):
    """for a model that is Not / negate / Imply applied to the OUTPUT of another operation: the truth value the connective's
    documented truth function gives, computed from the real evaluation of the argument object (built afresh) — None if the
    AST is not of that form or the argument does not evaluate to a constant on `sigma`"""
    if not isinstance(a, dict) or a.get("c") != "$derive" or a.get("via") not in ("negate", "Not", "Imply", "ImplyCons"):
        return None
    try:
        arg = build(a["arg"])
        if isinstance(arg, str) or is_var(arg): return None
        v = arg.evaluate(dict(sigma)).constant
    except Exception:
        return None
    if v is None: return None
    v = int(v)
    if a["via"] in ("negate", "Not"): return 1 - v
    other = a.get("other", "zq")
    if other not in sigma: return None
    w = 1 if sigma[other] >= 1 else 0
    return max(1 - v, w) if a["via"] == "Imply" else max(1 - w, v)


# --------------------------------------------------------------------------- relatives: models built FROM a model

KIN = ["negate", "negate", "Not", "Imply", "ImplyCons", "AllNeg"]


def make_kin(kind, o):
    """a model built from `o` that shares with it what the constructors share: negate() hands the variable objects of named
    nodes and the child objects on, Not / Imply / All hold `o` or its negation as a child"""
    if kind == "negate": return o.negate()
    if kind == "Not": return pg.Not(o)
    if kind == "Imply": return pg.Imply(o, "zq")
    if kind == "ImplyCons": return pg.Imply("zq", o)
    if kind == "AllNeg": return pg.All(o.negate(), "zq")
    raise ValueError(kind)


def _compound_objects(o, out=None):
    out = {} if out is None else out
    if not is_var(o) and id(o) not in out:
        out[id(o)] = o
        for c in o.propositions: _compound_objects(c, out)
    return out


def kin_probe(ctx, o, call, what, detail=None, after_too=False):
    """the property's operation on a model must leave the models built from it alone — a relative made BEFORE the call
    answers afterwards like its own untouched copy — and (after_too) a relative made AFTER the call from the receiver is the
    one made from an untouched copy of the receiver.  Relatives that hold one of the receiver's compound node OBJECTS are
    left out: on those the known finding F-C09a (a dictionary naming a sub-proposition re-binds that node's variable) shows."""
    kind = ctx.rng.choice(KIN)
    m = copy.deepcopy(o)
    try:
        n = make_kin(kind, m)
    except Exception:
        return
    if is_var(n): return
    shared = set(_compound_objects(m)) & set(_compound_objects(n))
    if shared and not after_too:
        ctx.tags["relative-shares-node-objects-with-the-receiver"] += 1
        return
    n_ref = copy.deepcopy(n)
    m_ref = copy.deepcopy(m)
    call(m)
    ctx.tags["relative-probe-" + kind] += 1
    if not shared:
        before, after = snap(n_ref), snap(n)
        if before != after:
            ctx.fail("a-model-built-from-the-receiver-changed-when-the-receiver-was-" + what,
                     {"relative": kind, "relative_before": before, "relative_after": after, **(detail or {})})
            return True
        for sigma in assignments(ctx.rng, leaves_of(before), 6):
            v1, v0 = n.evaluate(dict(sigma)).as_tuple(), n_ref.evaluate(dict(sigma)).as_tuple()
            if v1 != v0:
                ctx.fail("a-model-built-from-the-receiver-evaluates-differently-after-the-receiver-was-" + what,
                         {"relative": kind, "sigma": sigma, "now": list(map(int, v1)), "untouched_copy": list(map(int, v0)), **(detail or {})})
                return True
    if after_too:
        try:
            k1, k0 = make_kin(kind, m), make_kin(kind, m_ref)
        except Exception:
            return
        s1, s0 = snap(k1), snap(k0)
        if s1 != s0:
            ctx.fail("a-model-built-from-the-receiver-after-it-was-" + what + "-differs-from-one-built-from-an-untouched-copy",
                     {"relative": kind, "from_receiver": s1, "from_untouched_copy": s0, **(detail or {})})
            return True
    return False


# --------------------------------------------------------------------------- snapshots

def cls_name(o):
    t = type(o)
    if t is cc.Any: return "ccAny"
    if t is cc.Xor: return "ccXor"
    if t is cc.StingyConfigurator: return "Stingy"
    return t.__name__


def is_var(o):
    return isinstance(o, puan.variable)


def snap(o):
    """structural snapshot of a real proposition = tree JSON of the line protocol"""
    if is_var(o):
        return {"k": "leaf", "id": o.id, "lo": int(o.bounds.lower), "hi": int(o.bounds.upper)}
    cond = 0
    if isinstance(o, pg.Imply) and hasattr(o, "condition"):
        for i, c in enumerate(o.propositions):
            if c is o.condition:
                cond = i
    if isinstance(o, pg.XNor) and hasattr(o, "xnor_propositions"):
        # the half that still holds the propositions as given is AtMost(1, props).negate() = "+(props) >= 2"
        want = sorted(id(x) for x in o.xnor_propositions)
        match = [i for i, c in enumerate(o.propositions) if not is_var(c) and sorted(id(x) for x in c.propositions) == want]
        best = [i for i in match if int(o.propositions[i].sign) == 1 and int(o.propositions[i].value) == 2]
        cond = (best or match or [0])[0]
    dfl = getattr(o, "default", None) or []
    prio = getattr(o, "prio", None)
    return {"k": "node", "id": o.id, "gen": bool(o.generated_id),
            "lo": int(o.bounds.lower), "hi": int(o.bounds.upper),
            "s": int(o.sign), "v": int(o.value), "kids": [snap(c) for c in o.propositions],
            "cls": cls_name(o), "prio": None if prio is None else int(prio),
            "default": [[d.id, int(d.bounds.lower), int(d.bounds.upper)] for d in dfl],
            "cond": cond}


def subs(t):
    yield t
    if t["k"] == "node":
        for k in t["kids"]:
            yield from subs(k)


def leaves_of(t):
    out = {}
    for n in subs(t):
        if n["k"] == "leaf":
            out.setdefault(n["id"], (n["lo"], n["hi"]))
    return out


def compound_ids(t):
    return sorted({n["id"] for n in subs(t) if n["k"] == "node"})


def depth(t):
    return 0 if t["k"] == "leaf" else 1 + max([depth(k) for k in t["kids"]] or [0])


def core(n):
    """the semantic core of a snapshot node (meta stripped)"""
    if n["k"] == "leaf":
        return ("leaf", n["id"], n["lo"], n["hi"])
    return ("node", n["id"], n["lo"], n["hi"], n["s"], n["v"], tuple(core(k) for k in n["kids"]))


def well_formed(t, allow_empty=False):
    """independent validity check used to keep the valid stream valid:
    single definition per id (structurally), no duplicate child id, no leaf sharing an id
    with a compound (reference-free), acyclic by construction of a finite tree with single defs"""
    defs = {}
    for n in subs(t):
        c = core(n)
        if n["id"] in defs and defs[n["id"]] != c:
            return False
        defs[n["id"]] = c
        if n["k"] == "node":
            ids = [k["id"] for k in n["kids"]]
            if len(ids) != len(set(ids)) or n["id"] in ids or (not ids and not allow_empty):
                return False
    return True


def free01(t):
    return all(n["k"] == "leaf" or (n["lo"], n["hi"]) == (0, 1) for n in subs(t))


def solver_safe(t):
    return all(n["k"] == "leaf" or n["s"] == 1 or all(k["k"] == "leaf" for k in n["kids"]) for n in subs(t))


def ast_safe(a):
    """the safe grammar of Lean's `Ast.SafeExpr` (Lemmas/SafeBuild.lean): expressions that must build a solver-safe model"""
    c = a["c"]
    if c == "var": return (a["lo"], a["hi"]) == (0, 1)
    if c == "str": return True
    atom = lambda x: x["c"] in ("var", "str")
    if c == "$derive": return False
    if c == "Not": return ast_safe(a["arg"])
    if c == "Imply": return ast_safe(a["cond"]) and ast_safe(a["cons"])
    if c in ("ccAny", "ccXor"): return False
    args = a["args"]
    if not all(ast_safe(x) for x in args): return False
    if c in ("All", "Any", "XNor", "Stingy"): return True
    if c in ("AtMost", "Xor", "ExactlyOne"): return all(atom(x) for x in args)
    if c == "AtLeast":
        s = a.get("sign")
        if s is None: s = 1 if a["v"] > 0 else -1
        return s == 1 or all(atom(x) for x in args)
    return False


def tags_of(t):
    tg = set()
    for n in subs(t):
        if n["k"] == "leaf":
            if (n["lo"], n["hi"]) != (0, 1): tg.add("int-leaf")
            if n["lo"] < 0: tg.add("neg-bound-leaf")
            if n["hi"] - n["lo"] > 1000: tg.add("int16-leaf")
            continue
        ks = n["kids"]
        if not ks: tg.add("childless-compound")
        nl = sum(k["k"] == "leaf" for k in ks)
        if 0 < nl < len(ks): tg.add("mixed-node")
        if n["s"] == -1 and nl < len(ks): tg.add("neg-parent-over-compound")
        if n["gen"]: tg.add("generated-id")
        else: tg.add("explicit-id")
        if (n["lo"], n["hi"]) != (0, 1): tg.add("prefixed-compound")
        if n["lo"] == n["hi"] and n["kids"]: tg.add("prefixed-compound-with-children")
        tg.add("cls-" + n["cls"])
    ids = [n["id"] for n in subs(t) if n["k"] == "node"]
    if len(ids) != len(set(ids)): tg.add("shared-node")
    tg.add(f"depth-{depth(t)}")
    return tg


# --------------------------------------------------------------------------- reference semantics (oracle side)

def ref_eval(n, sigma, over=None, memo=None):
    """arithmetic truth function with the two override rules of C03"""
    over = over or {}
    if n["k"] == "leaf":
        return sigma[n["id"]]
    if n["id"] in over:
        lo, hi = over[n["id"]]
        if lo == hi:
            return lo
    elif n["lo"] == n["hi"]:
        return n["lo"]
    s = sum(ref_eval(k, sigma, over) for k in n["kids"])
    return 1 if n["s"] * s >= n["v"] else 0


def ref_eval_all(t, sigma, over=None):
    return {n["id"]: ref_eval(n, sigma, over) for n in subs(t)}


def all_assignments(leaves, limit=None):
    names = sorted(leaves)
    ranges = [range(leaves[n][0], leaves[n][1] + 1) for n in names]
    total = 1
    for r in ranges:
        total *= len(r)
    if limit is not None and total > limit:
        return None
    return (dict(zip(names, vals)) for vals in itertools.product(*ranges))


def assignments(rng, leaves, limit):
    """all in-bounds assignments if at most `limit`, else `limit` random ones (corners included)"""
    it = all_assignments(leaves, limit)
    if it is not None:
        return list(it)
    names = sorted(leaves)
    out = [{n: leaves[n][0] for n in names}, {n: leaves[n][1] for n in names}]
    while len(out) < limit:
        out.append({n: rng.choice([leaves[n][0], leaves[n][1], rng.randint(*leaves[n])]) for n in names})
    return out


# --------------------------------------------------------------------------- generator

CLASSES = ["All", "Any", "AtLeast", "AtLeastS", "AtMost", "Xor", "ExactlyOne", "XNor", "Imply", "Not", "ccAny", "ccXor"]


class TreeGen:
    def __init__(self, rng, n_leaves=4, max_depth=3, int_p=0.3, wide_p=0.08, classes=None, explicit_p=0.5,
                 bool_only=False, max_arity=4, prefix_p=0.0, str_p=0.3, share=True, empty_p=0.0):
        self.rng = rng
        self.max_depth = max_depth
        self.classes = classes or CLASSES
        self.explicit_p = explicit_p
        self.max_arity = max_arity
        self.prefix_p = prefix_p
        self.empty_p = empty_p
        self.str_p = str_p
        self.share = share
        self.k = 0
        self.memo = {}
        self.pool = []
        self.leaves = {}
        for n in "abcdefgh"[:n_leaves]:
            r = rng.random()
            if bool_only or r > int_p + wide_p:
                self.leaves[n] = (0, 1)
            elif r < wide_p:
                self.leaves[n] = rng.choice([(-32768, 32767), (0, 32767), (-1000, 1000), (-128, 127), (-128, 3), (-32768, 2),
                                             (0, 100000), (-70000, 70000)])     # the last two: wider than the default integer range
            else:
                lo = rng.randint(-3, 2)
                self.leaves[n] = (lo, lo + rng.choice([0, 1, 1, 2, 2, 3, 3]))       # width 0: a leaf declared constant

    def key(self):
        self.k += 1
        return self.k

    def leaf(self):
        n = self.rng.choice(sorted(self.leaves))
        lo, hi = self.leaves[n]
        if (lo, hi) == (0, 1) and self.rng.random() < self.str_p:
            return {"c": "str", "id": n}
        if self.rng.random() < 0.1:
            # declared with a dtype as well (one occurrence may, another of the same variable need not: same id, same bounds)
            return {"c": "var", "id": n, "lo": lo, "hi": hi, "$dtype": self.rng.choice(["bool", "int"]) if (lo, hi) == (0, 1) else "int"}
        if self.rng.random() < 0.15:
            # an instance of a variable subclass (every other name: one with its own constructor signature)
            return {"c": "var", "id": n, "lo": lo, "hi": hi, "$sub": "ctor" if ord(n[-1]) % 2 else True}
        return {"c": "var", "id": n, "lo": lo, "hi": hi}

    def obj_id(self, ast):
        o = build(ast, self.memo)
        return o if isinstance(o, str) else o.id

    def node(self, depth):
        rng = self.rng
        # reuse an earlier sub-tree: same object, or a structurally identical copy
        if self.pool and rng.random() < 0.2:
            a = rng.choice(self.pool)
            if rng.random() < 0.45 or not self.share:
                a = self.recopy(a)
                if rng.random() < 0.45:
                    a = self.class_variant(a)
                elif rng.random() < 0.5:
                    a = self.respell(a)
                elif "id" not in a and a.get("c") not in ("Not", "var", "str"):
                    # the copy carries, as an explicit id, the id that was generated for the original
                    try:
                        gid = self.obj_id(a)
                        a = dict(a); a["id"] = gid; a["$k"] = self.key()     # (its own object, not the cached unnamed one)
                    except Exception:
                        pass
            return a
        kind = rng.choice(self.classes)
        n_args = 1 if kind == "Not" else 2 if kind == "Imply" else rng.randint(1, self.max_arity)
        if self.empty_p and kind in ("All", "Any", "AtLeast", "AtLeastS", "AtMost") and rng.random() < self.empty_p:
            n_args = 0          # a compound without sub-propositions: the empty sum against its threshold
        args, seen = [], set()
        for _ in range(n_args):
            a = self.node(depth - 1) if depth > 1 and rng.random() < 0.55 else self.leaf()
            i = self.obj_id(a)
            if i in seen:
                continue
            seen.add(i)
            args.append(a)
        var = None
        if rng.random() < self.explicit_p and kind != "Not":
            # explicit ids come in several shapes; some look like generated ones ("VAR…"), some sort before / after leaf names
            # (… and some sort in between the leaf names a..h, so that atoms and compounds interleave in id order)
            var = rng.choice(["N{}", "N{}", "N{}", "VAR{}", "VARIANT_{}", "n {}", "Ω{}", "A-{}", "b{}", "e{}", "c_{}"]).format(self.key())
            if self.prefix_p and rng.random() < self.prefix_p:
                self._fix_next = rng.choice([0, 1])     # this node's own variable is pre-fixed to a constant
        ast = {"$k": self.key()}
        if kind in ("AtLeast", "AtLeastS", "AtMost") and rng.random() < 0.3:
            ast["$form"] = rng.choice(["tuple", "gen", "iter", "map"])
        if kind == "Not":
            ast.update(c="Not", arg=args[0])
        elif kind == "Imply":
            if len(args) < 2:
                ast.update(c="Any", args=args)
            else:
                ast.update(c="Imply", cond=args[0], cons=args[1])
        elif kind == "AtLeast":
            ast.update(c="AtLeast", v=rng.randint(-1, len(args) + 1), args=args)
        elif kind == "AtLeastS":
            ast.update(c="AtLeast", v=rng.randint(-3, len(args) + 1), args=args, sign=rng.choice([-1, 1]))
        elif kind == "AtMost":
            ast.update(c="AtMost", v=rng.randint(-1, len(args) + 1), args=args)
        elif kind in ("ccAny", "ccXor"):
            ast.update(c=kind, args=args)
            if rng.random() < 0.7:
                ast["default"] = [self.obj_id(rng.choice(args))]
        else:
            ast.update(c=kind, args=args)
        if var is not None:
            ast["id"] = var
            if getattr(self, "_fix_next", None) is not None and ast["c"] not in ("ccAny", "ccXor", "Not"):
                ast["$fix"] = self._fix_next
        self._fix_next = None
        self.pool.append(ast)
        return ast

    def class_variant(self, a):
        """the same definition (id, sign, value, children) written with another class: All(x..) as AtLeast(n, x..),
        Any as AtLeast(1, ..), AtMost(k) as AtLeast(-k, sign=-1), Xor as ExactlyOne.  The unchanged errors() rejects a model
        that holds both spellings of one id, so such models only enter the valid stream if validation starts to accept them."""
        b = dict(a)
        c = a.get("c")
        if c == "All" and a.get("args"): b.update(c="AtLeast", v=len(a["args"]))
        elif c == "Any": b.update(c="AtLeast", v=1)
        elif c == "AtMost": b.update(c="AtLeast", v=-a["v"], sign=-1)
        elif c == "Xor": b.update(c="ExactlyOne")
        elif c == "ExactlyOne": b.update(c="Xor")
        return b

    def respell(self, a):
        """the same definition with its boolean leaves spelled the other way: id strings as variable objects and back"""
        def go(x):
            if isinstance(x, dict):
                if x.get("c") == "str" and self.rng.random() < 0.6:
                    return {"c": "var", "id": x["id"], "lo": 0, "hi": 1}
                if x.get("c") == "var" and (x.get("lo"), x.get("hi")) == (0, 1) and not x.get("$sub") and self.rng.random() < 0.6:
                    return {"c": "str", "id": x["id"]}
                return {k: go(v) for k, v in x.items()}
            if isinstance(x, list):
                return [go(v) for v in x]
            return x
        return go(a)

    def recopy(self, a):
        """structurally identical copy with fresh sharing keys (distinct Python objects, same ids)"""
        b = {}
        for k, v in a.items():
            if k == "$k":
                b[k] = self.key()
            elif isinstance(v, dict):
                b[k] = self.recopy(v)
            elif isinstance(v, list):
                b[k] = [self.recopy(x) if isinstance(x, dict) else x for x in v]
            else:
                b[k] = v
        return b

    def tree(self):
        """a compound model (AST, real object)"""
        for _ in range(50):
            a = self.node(self.rng.randint(1, self.max_depth))
            o = build(a, self.memo)
            if not isinstance(o, str) and not is_var(o):
                return a, o
        raise RuntimeError("generator produced no compound model")


def gen_signed_sum(rng):
    """an AtLeast with an EXPLICIT sign (either one) and a threshold of either sign over integer leaves whose bounds
    straddle zero (so that the signed sum can fall short of, reach or exceed a non-positive threshold), below an
    All / Any / Imply parent — value <= 0 with sign +1 and value > 0 with sign -1 are legal only with the sign spelled out"""
    names = list("abcd"); rng.shuffle(names)
    leaves = []
    for _ in range(rng.randint(1, 3)):
        lo = rng.randint(-3, 0); hi = rng.randint(max(lo, 0), 3)
        if rng.random() < 0.25: lo, hi = 0, 1
        leaves.append({"c": "var", "id": names.pop(), "lo": lo, "hi": hi})
    sign = rng.choice([1, 1, -1])
    inner = {"c": "AtLeast", "v": rng.randint(-4, 1) if sign == 1 else rng.randint(-2, 3), "args": leaves, "sign": sign}
    if rng.random() < 0.6: inner["id"] = "P"
    r = rng.random()
    z = {"c": "str", "id": "z"}
    if r < 0.35: a = {"c": "All", "args": [inner, z]}
    elif r < 0.6: a = {"c": "Any", "args": [inner, z]}
    elif r < 0.75: a = {"c": "Imply", "cond": inner, "cons": z}
    elif r < 0.85: a = {"c": "AtMost", "v": 1, "args": [inner, z]}
    else: a = inner
    if a is not inner and rng.random() < 0.6: a["id"] = "A"
    return a


def lookalike_model(rng):
    """ill-defined models whose two definitions of one id LOOK alike one level down (same class, sign, value and child ids):
    (1) a named "at least k of 2k-1 named rules" next to its own negation (`Not` keeps the names, and the pushed negation
    of k-of-(2k-1) is k-of-(2k-1) over the negated rules); (2) two rules under one id whose same-named sub-rules differ.
    The unchanged errors() rejects all of them."""
    lf = lambda n: {"c": "str", "id": n}
    names = rng.sample("abcdefgh", 8)
    if rng.random() < 0.5:
        k = rng.choice([1, 2, 2])
        Ps = [{"c": rng.choice(["Any", "All"]), "args": [lf(names[2 * i]), lf(names[2 * i + 1])], "id": "P%d" % i} for i in range(2 * k - 1)]
        X = {"c": "AtLeast", "v": k, "args": Ps, "id": "X"}
        r1 = {"c": "Imply", "cond": X, "cons": lf("z")} if rng.random() < 0.6 else {"c": "Any", "args": [{"c": "Not", "arg": X}, lf("z")]}
        r2 = {"c": rng.choice(["Any", "All"]), "args": [X, lf("w")]}
        return {"c": rng.choice(["All", "All", "Any"]), "args": [r1, r2]}
    sub1 = {"c": "Any", "args": [lf(names[0]), lf(names[1])], "id": "P"}
    sub2 = {"c": "Any", "args": [lf(names[2]), lf(names[3])], "id": "P"}
    cls = rng.choice(["All", "Any"])
    B1 = {"c": cls, "args": [sub1, lf("q")], "id": "B"}
    B2 = {"c": cls, "args": [sub2, lf("q")], "id": "B"}
    r2 = {"c": "Imply", "cond": lf("x"), "cons": B2} if rng.random() < 0.5 else {"c": "Any", "args": [B2, lf("y")]}
    return {"c": rng.choice(["All", "Any"]), "args": [{"c": "Any", "args": [B1, lf("w")]}, r2]}


def declared_bounds(a):
    """leaf id -> (lo, hi) as the constructor expression DECLARES them (a bare string is a boolean variable)"""
    out = {}
    def walk(x):
        if isinstance(x, dict):
            if x.get("c") == "$derive": return
            if x.get("c") == "var": out.setdefault(x["id"], (x["lo"], x["hi"]))
            elif x.get("c") == "str": out.setdefault(x["id"], (0, 1))
            else:
                for k in ("args",):
                    for y in x.get(k, []): walk(y)
                for k in ("arg", "cond", "cons"):
                    if k in x: walk(x[k])
    walk(a)
    return out


def gen_huge(rng):
    """a threshold over a quantity far beyond 16 bits (stock levels, prices in cents, timestamps): an integer leaf declared with
    explicit bounds — with or without `dtype="int"` — and a threshold somewhere in its range, below an All / Any / Imply"""
    lo, hi = rng.choice([(0, 50000), (0, 100000), (-40000, 60000), (0, 2**40), (-70000, -1)])
    leaf = {"c": "var", "id": "stock", "lo": lo, "hi": hi}
    if rng.random() < 0.5: leaf["$dtype"] = "int"
    others = [{"c": "str", "id": x} for x in rng.sample("yz", rng.randint(0, 1))]
    sign = rng.choice([1, 1, -1, None])
    v = rng.choice([rng.randint(lo, hi), rng.randint(max(lo, 32768), hi) if hi > 32768 else lo, hi, lo + 1, 40000, 32768])
    if sign == -1: v = -v
    if sign is None and v <= 0: sign = 1
    inner = {"c": "AtLeast", "v": v, "args": [leaf] + others}
    if sign is not None: inner["sign"] = sign
    if rng.random() < 0.6: inner["id"] = "bulk"
    r = rng.random()
    w = {"c": "str", "id": "w"}
    if r < 0.35: a = {"c": "All", "args": [inner, w]}
    elif r < 0.6: a = {"c": "Any", "args": [inner, w]}
    elif r < 0.8: a = {"c": "Imply", "cond": inner, "cons": w}
    else: a = inner
    if a is not inner and rng.random() < 0.6: a["id"] = "A"
    return a


def gen_valid_huge(rng):
    for _ in range(50):
        a = gen_huge(rng)
        try:
            o = build(a)
        except Exception:
            continue
        if is_var(o) or o.errors():
            continue
        t = snap(o)
        if well_formed(t):
            return a, o, t
    raise RuntimeError("no huge-threshold model generated")


def gen_valid_signed_sum(rng):
    for _ in range(50):
        a = gen_signed_sum(rng)
        try:
            o = build(a)
        except Exception:
            continue
        if is_var(o) or o.errors():
            continue
        t = snap(o)
        if well_formed(t):
            return a, o, t
    raise RuntimeError("no signed-sum model generated")


def constant_leaf_variant(rng, a, t):
    """the model with one of its leaves DECLARED constant, and an interpretation entry that says otherwise for it (an
    interpretation may say anything about a leaf; it replaces the declared bounds): (ast, snapshot, leaf id, entry) or None"""
    lv = leaves_of(t)
    if not lv:
        return None
    name = rng.choice(sorted(lv))
    c = rng.choice([0, 1, 1, 2, -1])
    a2 = with_leaf_bounds(a, name, c, c)
    try:
        o2 = build(a2)
        t2 = snap(o2)
        if is_var(o2) or not well_formed(t2, allow_empty=True) or o2.errors():
            return None
    except Exception:
        return None
    return a2, t2, name, rng.choice([(c + 1, c + 1), (c - 1, c - 1), (c - 1, c + 1), (c + 1, c + 1)])


def with_leaf_bounds(a, leaf_id, lo, hi):
    """the same expression with every occurrence of one leaf declared with other bounds"""
    def rebuild(x):
        if isinstance(x, dict):
            if x.get("c") in ("var", "str") and x.get("id") == leaf_id:
                return {"c": "var", "id": leaf_id, "lo": lo, "hi": hi}
            return {k: rebuild(v) for k, v in x.items() if k not in ("$twin_of",)}
        if isinstance(x, list):
            return [rebuild(v) for v in x]
        return x
    return rebuild(a)


def twin_ast(rng, a):
    """the same expression with the bounds of its non-boolean `var` leaves replaced by bounds that collide under
    puan's hashes (Bounds.__hash__ = hash(lo)+hash(hi), hash(-1) == hash(-2)) and often keep a node's bound sums:
    (lo-1,hi+1), (lo+1,hi-1), -1 <-> -2.  Ids, structure, signs and values are unchanged, so anything memoised on
    __hash__/__eq__ or on ids alone confuses the twin with the original.  None if nothing can be changed."""
    leaves = {}
    def collect(x):
        if isinstance(x, dict):
            if x.get("c") == "var":
                leaves.setdefault(x["id"], (x["lo"], x["hi"]))
            for v in x.values(): collect(v)
        elif isinstance(x, list):
            for v in x: collect(v)
    collect(a)
    new, flip = {}, 1
    for i, (lo, hi) in sorted(leaves.items()):
        if hi - lo > 1000:
            continue
        opts = []
        if (lo, hi) != (0, 1) or rng.random() < 0.3:
            opts.append((lo - 1, hi + 1))
            if lo + 1 <= hi - 1: opts.append((lo + 1, hi - 1))
            if lo == -1: opts.append((-2, hi))
            if lo == -2: opts.append((-1, hi))
            if hi == -1 and lo <= -2: opts.append((lo, -2))
            if hi == -2: opts.append((lo, -1))
        if opts and rng.random() < 0.8:
            # alternate widening / narrowing so that sums over a node's children tend to be kept
            pref = [o for o in opts if (o[0] - lo) == flip] or opts
            new[i] = rng.choice(pref); flip = -flip
    if not new:
        return None
    def rebuild(x):
        if isinstance(x, dict):
            y = {k: rebuild(v) for k, v in x.items()}
            if y.get("c") == "var" and y["id"] in new:
                y["lo"], y["hi"] = new[y["id"]]
            return y
        if isinstance(x, list):
            return [rebuild(v) for v in x]
        return x
    b = rebuild(a)
    b["$twin"] = True
    b["$twin_of"] = a       # kept for the replay: the original has to be handled first, in the same process
    return b


_LAST_AST = [None]


def gen_cross_depth(rng, classes=None):
    """a sub-proposition shared by nodes at DIFFERENT depths: B directly below the top and again one or two levels further
    down (below a sibling rule, or below a rule below a sibling rule) — an ordinary rule list that mentions one named
    group in a condition and on its own"""
    ok = (lambda c: classes is None or c in classes)
    names = rng.sample("abcdefg", 6)
    lf = lambda n: {"c": "str", "id": n}
    B = {"c": rng.choice([c for c in ["Any", "All", "Xor", "AtMost", "AtLeast"] if ok(c)] or ["Any"]),
         "args": [lf(x) for x in names[:rng.randint(1, 3)]], "$k": "B"}
    if B["c"] in ("AtMost", "AtLeast"): B["v"] = rng.randint(1, len(B["args"]))
    if rng.random() < 0.6: B["id"] = rng.choice(["B", "N1", "b1", "Ω"])
    def wrap(x, k):
        c = rng.choice([c for c in ["Imply", "Imply", "Any", "All", "Not", "AtLeast", "Xor"] if ok(c)] or ["Any"])
        other = lf(rng.choice(names[3:]))
        node = {"$k": "W%d" % k}
        if c == "Not": node.update(c="Not", arg=x)
        elif c == "Imply":
            node.update(c="Imply", cond=other, cons=x) if rng.random() < 0.5 else node.update(c="Imply", cond=x, cons=other)
        elif c == "AtLeast": node.update(c="AtLeast", v=rng.randint(1, 2), args=[x, other])
        else: node.update(c=c, args=[x, other])
        if c != "Not" and rng.random() < 0.5: node["id"] = "W%d" % k
        return node
    deep = wrap(B, 1)
    if rng.random() < 0.5: deep = wrap(deep, 2)
    args = [B, deep] + ([lf(names[5])] if rng.random() < 0.4 else [])
    rng.shuffle(args)
    top = {"c": rng.choice([c for c in ["All", "All", "Any", "AtLeast"] if ok(c)] or ["All"]), "args": args, "$k": "T"}
    if top["c"] == "AtLeast": top["v"] = rng.randint(1, len(args))
    if rng.random() < 0.5: top["id"] = "A"
    return top


def gen_valid(rng, quick=True, twins=True, **kw):
    """a validated, reference-free, single-definition model: (ast, fresh real object, snapshot).
    With probability 0.3 the model is a hash-colliding twin (`twin_ast`) of the model generated just before it, so
    that both are handled in the same process one after the other."""
    if twins and not kw.get("bool_only") and _LAST_AST[0] is not None and rng.random() < 0.3:
        prev, _LAST_AST[0] = _LAST_AST[0], None
        for _ in range(5):
            b = twin_ast(rng, prev)
            if b is None:
                break
            try:
                o = build(b)
                t = snap(o)
                if not is_var(o) and well_formed(t) and not o.errors():
                    return b, o, t
            except Exception:
                pass
    if rng.random() < 0.08:
        for _ in range(5):
            a = gen_cross_depth(rng, kw.get("classes"))
            try:
                o = build(a)
                t = snap(o)
                if not is_var(o) and well_formed(t) and not o.errors():
                    return a, o, t
            except Exception:
                pass
    for _ in range(200):
        g = TreeGen(rng, n_leaves=rng.randint(2, 4 if quick else 6), max_depth=rng.randint(1, 3 if quick else 4), **kw)
        try:
            a, o = g.tree()
            o = build(a)        # what the checks will build from the AST (never the generator's own, possibly cached, objects)
        except Exception:
            continue
        t = snap(o)
        if not well_formed(t, allow_empty=bool(kw.get("empty_p"))):
            continue
        if o.errors():
            continue
        _LAST_AST[0] = a
        return a, o, t
    raise RuntimeError("no valid model generated")


# --------------------------------------------------------------------------- interpretations

def np_scalar(rng, v):
    """the value as a numpy integer scalar of a width that can hold it — a caller who keeps assignments in an int8 /
    int16 / int32 array passes exactly such scalars, and a value may sit at the very minimum of its type"""
    import numpy
    fits = [d for d, m in ((numpy.int8, 2**7), (numpy.int16, 2**15), (numpy.int32, 2**31), (numpy.int64, 2**63)) if -m <= v < m]
    return (fits[0] if rng.random() < 0.6 else rng.choice(fits))(v)


def render_value(rng, lo, hi, basic=False):
    """one of the value forms the API accepts: int / numpy integer scalar (constants), (lo, hi) tuple, [lo, hi] list,
    numpy array [lo, hi], puan.Bounds"""
    import numpy
    r = rng.random()
    if lo == hi and r < 0.15:
        return np_scalar(rng, lo)
    if lo == hi and r < 0.55:
        return lo
    if r < 0.72 or (basic and r < 0.85):
        return (lo, hi)
    if r < 0.8:
        return [lo, hi]
    if r < 0.85:
        return numpy.array([lo, hi])
    return puan.Bounds(lo, hi)


def as_mapping(rng, d):
    """the dictionary as some callers hold it: a plain dict, or (now and then) a dict SUBCLASS with a default factory —
    `collections.defaultdict(int)`, `collections.Counter` (counts of selected items are a natural source of 0/1 values):
    such mappings answer `d[k]` for every key, `k in d` only for the keys they hold"""
    import collections
    r = rng.random()
    if r < 0.05:
        return collections.defaultdict(int, d)
    if r < 0.08 and all(isinstance(v, int) and not isinstance(v, bool) for v in d.values()):
        c = collections.Counter(); c.update({k: 0 for k in d}); 
        for k, v in d.items(): c[k] = v
        return c
    return d


def render_interp(rng, I, basic=False):
    """the interpretation as a user hands it over: in 45% of the cases in ONE form throughout (plain ints wherever the value
    is a constant — what most callers write —, tuples only, Bounds only), otherwise each value in a form of its own"""
    return as_mapping(rng, _render_interp(rng, I, basic))


def _render_interp(rng, I, basic=False):
    r = rng.random()
    if r < 0.25:
        return {k: (lo if lo == hi else (lo, hi)) for k, (lo, hi) in I.items()}
    if r < 0.32:
        return {k: (lo, hi) for k, (lo, hi) in I.items()}
    if r < 0.35 and not basic:
        return {k: [lo, hi] for k, (lo, hi) in I.items()}
    if r < 0.45:
        return {k: puan.Bounds(lo, hi) for k, (lo, hi) in I.items()}
    return {k: render_value(rng, lo, hi, basic) for k, (lo, hi) in I.items()}


def interp_json(I):
    return [[k, lo, hi] for k, (lo, hi) in sorted(I.items())]


def pick_in(rng, lo, hi):
    """a value of [lo, hi]; for wide ranges the two ends (and their neighbours) are over-represented"""
    if hi - lo > 3 and rng.random() < 0.3:
        return rng.choice([lo, hi, lo, hi, lo + 1, hi - 1])
    return rng.randint(lo, hi)


def gen_interp(rng, t, total=False, allow_compound=True, in_bounds=True, ranges=True, compound_ranges=None):
    """id -> (lo, hi).  total: every leaf a constant."""
    lv = leaves_of(t)
    I = {}
    dens = 1.0 if total else rng.choice([0.0, 0.3, 0.6, 1.0])
    for n, (lo, hi) in lv.items():
        if rng.random() < dens or total:
            if total or not ranges or rng.random() < 0.6:
                # outside the declared bounds in 20% of the cases that allow it — in 60% for a leaf declared constant
                c = pick_in(rng, lo, hi) if in_bounds or rng.random() < (0.4 if lo == hi else 0.8) else rng.choice([lo - 1, hi + 1])
                I[n] = (c, c)
            else:
                a = rng.randint(lo, hi)
                b = rng.randint(a, hi)
                I[n] = (a, b)
    if allow_compound and rng.random() < 0.3:
        cs = [c for c in compound_ids(t)]
        for c in rng.sample(cs, min(len(cs), rng.randint(1, 2))):
            I[c] = rng.choice([(0, 0), (1, 1), (0, 1)]) if (ranges if compound_ranges is None else compound_ranges) else rng.choice([(0, 0), (1, 1)])
    return I
