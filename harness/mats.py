"""Integer polyhedra: seeded generators, snapshots, enumeration helpers."""
import itertools
import numpy as np
from core import import_puan
puan = import_puan()
import puan.ndarray as pnd

COEFS = [0, 0, 1, -1, 1, -1, 2, -2, 3, -3, 5, -7]


def gen_poly(rng, quick=True, max_rows=None, max_cols=None, wide=False):
    """{"bnds": [[lo,hi]...], "rows": [[b,[c...]]...]}"""
    nr = rng.randint(1, max_rows or (3 if quick else 5))
    nc = rng.randint(1, max_cols or (4 if quick else 6))
    kind = rng.random()
    bnds = []
    if wide == "all":
        # every column an integer variable of the library's default range (what `dtype="int"` without bounds declares)
        nc = rng.randint(3, 6)
        kind = 1.0
    for _ in range(nc):
        r = rng.random()
        if wide == "all":
            bnds.append(rng.choice([[-32768, 32767], [-32768, 32767], [-32768, 32767], [0, 32767]]))
        elif kind < 0.35 or r < 0.4:
            bnds.append([0, 1])
        elif r < 0.55:
            c = rng.randint(-2, 3); bnds.append([c, c])            # degenerate
        elif wide and r < 0.75:
            # the default integer range of the library (dtype="int" without bounds) and one-sided variants of it
            bnds.append(rng.choice([[-32768, 32767], [-32768, 32767], [0, 32767], [-32768, rng.randint(-3, 5)], [rng.randint(-5, 3), 32767], [-100, 100]]))
        else:
            lo = rng.randint(-3, 2); bnds.append([lo, lo + rng.randint(1, 3)])
    rows = []
    for _ in range(nr):
        style = rng.random()
        if style < 0.25:    # big-M shaped row, as the encoder emits
            cs = [rng.choice([0, 1, 1, -1]) for _ in range(nc)]
            j = rng.randrange(nc); cs[j] = rng.choice([-3, -2, 2, 3, -4])
        else:
            cs = [rng.choice(COEFS) for _ in range(nc)]
        if wide == "all":
            cs = [c if c != 0 or rng.random() < 0.2 else rng.choice([1, -1, 2]) for c in cs]    # dense rows
        lo = sum(min(c * b[0], c * b[1]) for c, b in zip(cs, bnds))
        hi = sum(max(c * b[0], c * b[1]) for c, b in zip(cs, bnds))
        t = rng.random()
        if t < 0.15: b = hi + rng.randint(1, 2)          # infeasible row
        elif t < 0.3: b = hi                              # forces columns
        elif t < 0.45: b = lo - rng.randint(0, 2)         # redundant row
        else: b = rng.randint(lo, hi) if lo <= hi else lo
        rows.append([b, cs])
    out = {"bnds": bnds, "rows": rows}
    r = rng.random()
    if r < 0.3:
        out["first"] = rng.choice(["bool0", "bool0", "int0", "named", "fixed3", "fixed0", "fixedneg", "open"])
    if rng.random() < 0.3:
        # the polyhedron a caller holds is as often the output of another operation as it is freshly declared
        out.update(prov=rng.choice(PROVS), prov_k=rng.randint(0, 11), prov_b=rng.randint(-2, 3))
    return out


def gen_bigm(rng):
    """rows as the encoder writes them for integer variables: a boolean switch with a coefficient of the size of the integer
    column's range next to that column (x - M*z >= b, M*z - x >= b, …), thresholds inside the cut-off part of the range —
    row extremes far beyond the 16-bit default range although every declared bound is inside it"""
    nb = rng.randint(1, 2); nw = rng.randint(1, 2)
    bnds = [[0, 1]] * nb + [rng.choice([[0, 32767], [-32768, 32767], [0, 30000], [-20000, 20000], [0, 100]]) for _ in range(nw)]
    order = list(range(nb + nw)); rng.shuffle(order)
    bnds = [list(bnds[j]) for j in order]
    nc = len(bnds)
    rows = []
    for _ in range(rng.randint(1, 3)):
        cs = [0] * nc
        for j, (lo, hi) in enumerate(bnds):
            if (lo, hi) == (0, 1):
                cs[j] = rng.choice([0, 1, -1, 20000, -20000, 40000, -40000, 32768, -65535, 1000, -67])
            else:
                cs[j] = rng.choice([0, 1, 1, -1, -1, 2, -3, 1000])
        lo_ = sum(min(c * b[0], c * b[1]) for c, b in zip(cs, bnds))
        hi_ = sum(max(c * b[0], c * b[1]) for c, b in zip(cs, bnds))
        t = rng.random()
        if t < 0.1: b = hi_ + 1
        elif t < 0.25: b = hi_
        elif t < 0.35: b = lo_
        else:
            b = rng.choice([rng.randint(lo_, hi_), -20000, 20000, 12767, -12767, 0, hi_ - rng.randint(1, 40000)])
        rows.append([b, cs])
    return {"bnds": bnds, "rows": rows}


def gen_chain(rng, quick=True):
    """an implication chain over boolean columns: one row forces a first column, every further row forces one more
    column once the previous one is known — reducable_rows_and_columns needs one round of its loop per link.  Rows and the
    column order are shuffled, so columns removed early sit left and right of columns still open."""
    nc = rng.randint(3, 5 if quick else 7)
    order = list(range(nc)); rng.shuffle(order)
    val = {}
    rows = []
    j0 = order[0]
    cs = [0] * nc
    if rng.random() < 0.5:
        cs[j0] = 1; rows.append([1, cs]); val[j0] = 1          # x >= 1
    else:
        cs[j0] = -1; rows.append([0, cs]); val[j0] = 0         # -x >= 0
    links = rng.randint(2, nc - 1)
    for k in range(1, links + 1):
        jp, j = order[k - 1], order[k]
        cs = [0] * nc
        want = rng.choice([0, 1])
        if val[jp] == 1 and want == 1: cs[jp], cs[j], b = -1, 1, 0      # x_j >= x_p
        elif val[jp] == 1 and want == 0: cs[jp], cs[j], b = -1, -1, -1  # x_j + x_p <= 1
        elif val[jp] == 0 and want == 1: cs[jp], cs[j], b = 1, 1, 1     # x_j + x_p >= 1
        else: cs[jp], cs[j], b = 1, -1, 0                               # x_j <= x_p
        rows.append([b, cs]); val[j] = want
    # a few unrelated rows over the remaining columns
    for _ in range(rng.randint(0, 2)):
        cs = [0] * nc
        for j in order[links + 1:]:
            cs[j] = rng.choice([0, 1, -1])
        rows.append([rng.randint(-1, 1), cs])
    rng.shuffle(rows)
    return {"bnds": [[0, 1] for _ in range(nc)], "rows": rows}


PROVS = ["rows_dropped", "rows_dropped_reduce", "cols_dropped", "copy", "deepcopy", "view", "astype", "config", "config_b64"]


def real_poly(p, ids=None, dtype=None):
    """the real polyhedron for the logical polyhedron `p`; with p["prov"] it is the OUTPUT of another operation applied to a
    larger or equal fresh polyhedron (a junk row dropped by reduce_rows / reduce — the row index is then no longer the row
    positions —, a fixed-to-0 column dropped by reduce_columns — Fortran order —, copies and views, the configurator's
    subclass, a base64 round trip of it): same rows, columns and labels as the fresh one"""
    prov = p.get("prov") if dtype is None else None
    if not prov:
        return _fresh_poly(p, ids, dtype)
    import copy as _copy
    nc = len(p["bnds"]); nr = len(p["rows"])
    ids = ids or [f"x{j}" for j in range(nc)]
    k = p.get("prov_k", 0)
    if prov in ("rows_dropped", "rows_dropped_reduce") and nr >= 1:
        pos = k % nr                                   # never the last position: the rows after it keep larger index ids
        junk = [p.get("prov_b", 1), [((k + j) % 3) - 1 for j in range(nc)]]
        big = dict(p, rows=p["rows"][:pos] + [junk] + p["rows"][pos:])
        g = _fresh_poly(big, ids, None)
        mask = np.array([1 if i == pos else 0 for i in range(nr + 1)])
        return g.reduce_rows(mask) if prov == "rows_dropped" else g.reduce(rows_vector=mask)
    if prov == "cols_dropped":
        pos = k % (nc + 1)
        big = dict(p, bnds=p["bnds"][:pos] + [[0, 1]] + p["bnds"][pos:],
                   rows=[[r[0], list(r[1][:pos]) + [((k + i) % 5) - 2] + list(r[1][pos:])] for i, r in enumerate(p["rows"])])
        g = _fresh_poly(big, ids[:pos] + ["junk-col"] + ids[pos:], None)
        cv = np.array([0.0 if j == pos else np.nan for j in range(nc + 1)])
        return g.reduce_columns(cv)
    g = _fresh_poly(p, ids, None)
    if prov == "copy": return g.copy()
    if prov == "deepcopy": return _copy.deepcopy(g)
    if prov == "view": return g.view()
    if prov == "astype": return g.astype(np.int64)
    if prov in ("config", "config_b64"):
        c = pnd.ge_polyhedron_config(g, default_prio_vector=np.array([-1] * nc), variables=g.variables, index=g.index)
        return pnd.ge_polyhedron_config.from_b64(c.to_b64()) if prov == "config_b64" else c
    return g


def with_prov(rng, p, prob=0.3):
    if rng.random() < prob:
        p = dict(p, prov=rng.choice(PROVS), prov_k=rng.randint(0, 11), prov_b=rng.randint(-2, 3))
    return p


def _fresh_poly(p, ids=None, dtype=None):
    nc = len(p["bnds"])
    ids = ids or [f"x{j}" for j in range(nc)]
    # how the caller declares the variable of the support (constant) column: it is not a decision variable, and its
    # declaration must not influence anything computed about the columns of A
    first = {"bool0": lambda: puan.variable("0"), "int0": lambda: puan.variable(0, dtype="int"),
             "named": lambda: puan.variable("b", (1, 1)), "fixed3": lambda: puan.variable("b", (3, 3)),
             "fixed0": lambda: puan.variable("b", (0, 0)), "fixedneg": lambda: puan.variable("b", (-1, -1)),
             "open": lambda: puan.variable("b", (0, 5))}.get(p.get("first"), puan.variable.support_vector_variable)()
    vs = [first] + [puan.variable(i, tuple(b)) for i, b in zip(ids, p["bnds"])]
    arr = np.array([[r[0]] + list(r[1]) for r in p["rows"]], dtype=np.int64).reshape(len(p["rows"]), nc + 1)
    if dtype is not None:
        return pnd.ge_polyhedron(arr, variables=vs, dtype=np.dtype(dtype).type)
    return pnd.ge_polyhedron(arr, variables=vs)


def snap_poly(g):
    """back from a real ge_polyhedron"""
    vs = list(g.variables)
    return {"bnds": [[int(v.bounds.lower), int(v.bounds.upper)] for v in vs[1:]],
            "rows": [[int(r[0]), [int(c) for c in r[1:]]] for r in g.tolist()]}


def box_size(p):
    n = 1
    for lo, hi in p["bnds"]:
        n *= max(0, hi - lo + 1)
    return n


def box(p):
    return itertools.product(*[range(lo, hi + 1) for lo, hi in p["bnds"]])


def dot(cs, x):
    return sum(c * v for c, v in zip(cs, x))


def solutions(p):
    return [x for x in box(p) if all(dot(cs, x) >= b for b, cs in p["rows"])]


def nan_list(a):
    return [None if np.isnan(v) else int(v) for v in np.asarray(a, dtype=float).tolist()]
