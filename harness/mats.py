"""Integer polyhedra: seeded generators, snapshots, enumeration helpers."""
import itertools
import numpy as np
from core import import_puan
puan = import_puan()
import puan.ndarray as pnd

COEFS = [0, 0, 1, -1, 1, -1, 2, -2, 3, -3, 5, -7]


def gen_poly(rng, quick=True, max_rows=None, max_cols=None, wide=False):
    """{"bnds": [[lo,hi]...], "rows": [[b,[c...]]...]}"""
    nr = rng.randint(1, max_rows or (3 if quick else 5))
    nc = rng.randint(1, max_cols or (4 if quick else 6))
    kind = rng.random()
    bnds = []
    if wide == "all":
        # every column an integer variable of the library's default range (what `dtype="int"` without bounds declares)
        nc = rng.randint(3, 6)
        kind = 1.0
    for _ in range(nc):
        r = rng.random()
        if wide == "all":
            bnds.append(rng.choice([[-32768, 32767], [-32768, 32767], [-32768, 32767], [0, 32767]]))
        elif kind < 0.35 or r < 0.4:
            bnds.append([0, 1])
        elif r < 0.55:
            c = rng.randint(-2, 3); bnds.append([c, c])            # degenerate
        elif wide and r < 0.75:
            # the default integer range of the library (dtype="int" without bounds) and one-sided variants of it
            bnds.append(rng.choice([[-32768, 32767], [-32768, 32767], [0, 32767], [-32768, rng.randint(-3, 5)], [rng.randint(-5, 3), 32767], [-100, 100]]))
        else:
            lo = rng.randint(-3, 2); bnds.append([lo, lo + rng.randint(1, 3)])
    rows = []
    for _ in range(nr):
        style = rng.random()
        if style < 0.25:    # big-M shaped row, as the encoder emits
            cs = [rng.choice([0, 1, 1, -1]) for _ in range(nc)]
            j = rng.randrange(nc); cs[j] = rng.choice([-3, -2, 2, 3, -4])
        else:
            cs = [rng.choice(COEFS) for _ in range(nc)]
        if wide == "all":
            cs = [c if c != 0 or rng.random() < 0.2 else rng.choice([1, -1, 2]) for c in cs]    # dense rows
        lo = sum(min(c * b[0], c * b[1]) for c, b in zip(cs, bnds))
        hi = sum(max(c * b[0], c * b[1]) for c, b in zip(cs, bnds))
        t = rng.random()
        if t < 0.15: b = hi + rng.randint(1, 2)          # infeasible row
        elif t < 0.3: b = hi                              # forces columns
        elif t < 0.45: b = lo - rng.randint(0, 2)         # redundant row
        else: b = rng.randint(lo, hi) if lo <= hi else lo
        rows.append([b, cs])
    out = {"bnds": bnds, "rows": rows}
    r = rng.random()
    if r < 0.3:
        out["first"] = rng.choice(["bool0", "bool0", "int0", "named", "fixed3", "fixed0", "fixedneg", "open"])
    return out


def gen_bigm(rng):
    """rows as the encoder writes them for integer variables: a boolean switch with a coefficient of the size of the integer
    column's range next to that column (x - M*z >= b, M*z - x >= b, …), thresholds inside the cut-off part of the range —
    row extremes far beyond the 16-bit default range although every declared bound is inside it"""
    nb = rng.randint(1, 2); nw = rng.randint(1, 2)
    bnds = [[0, 1]] * nb + [rng.choice([[0, 32767], [-32768, 32767], [0, 30000], [-20000, 20000], [0, 100]]) for _ in range(nw)]
    order = list(range(nb + nw)); rng.shuffle(order)
    bnds = [list(bnds[j]) for j in order]
    nc = len(bnds)
    rows = []
    for _ in range(rng.randint(1, 3)):
        cs = [0] * nc
        for j, (lo, hi) in enumerate(bnds):
            if (lo, hi) == (0, 1):
                cs[j] = rng.choice([0, 1, -1, 20000, -20000, 40000, -40000, 32768, -65535, 1000, -67])
            else:
                cs[j] = rng.choice([0, 1, 1, -1, -1, 2, -3, 1000])
        lo_ = sum(min(c * b[0], c * b[1]) for c, b in zip(cs, bnds))
        hi_ = sum(max(c * b[0], c * b[1]) for c, b in zip(cs, bnds))
        t = rng.random()
        if t < 0.1: b = hi_ + 1
        elif t < 0.25: b = hi_
        elif t < 0.35: b = lo_
        else:
            b = rng.choice([rng.randint(lo_, hi_), -20000, 20000, 12767, -12767, 0, hi_ - rng.randint(1, 40000)])
        rows.append([b, cs])
    return {"bnds": bnds, "rows": rows}


def gen_chain(rng, quick=True):
    """an implication chain over boolean columns: one row forces a first column, every further row forces one more
    column once the previous one is known — reducable_rows_and_columns needs one round of its loop per link.  Rows and the
    column order are shuffled, so columns removed early sit left and right of columns still open."""
    nc = rng.randint(3, 5 if quick else 7)
    order = list(range(nc)); rng.shuffle(order)
    val = {}
    rows = []
    j0 = order[0]
    cs = [0] * nc
    if rng.random() < 0.5:
        cs[j0] = 1; rows.append([1, cs]); val[j0] = 1          # x >= 1
    else:
        cs[j0] = -1; rows.append([0, cs]); val[j0] = 0         # -x >= 0
    links = rng.randint(2, nc - 1)
    for k in range(1, links + 1):
        jp, j = order[k - 1], order[k]
        cs = [0] * nc
        want = rng.choice([0, 1])
        if val[jp] == 1 and want == 1: cs[jp], cs[j], b = -1, 1, 0      # x_j >= x_p
        elif val[jp] == 1 and want == 0: cs[jp], cs[j], b = -1, -1, -1  # x_j + x_p <= 1
        elif val[jp] == 0 and want == 1: cs[jp], cs[j], b = 1, 1, 1     # x_j + x_p >= 1
        else: cs[jp], cs[j], b = 1, -1, 0                               # x_j <= x_p
        rows.append([b, cs]); val[j] = want
    # a few unrelated rows over the remaining columns
    for _ in range(rng.randint(0, 2)):
        cs = [0] * nc
        for j in order[links + 1:]:
            cs[j] = rng.choice([0, 1, -1])
        rows.append([rng.randint(-1, 1), cs])
    rng.shuffle(rows)
    return {"bnds": [[0, 1] for _ in range(nc)], "rows": rows}


def real_poly(p, ids=None, dtype=None):
    nc = len(p["bnds"])
    ids = ids or [f"x{j}" for j in range(nc)]
    # how the caller declares the variable of the support (constant) column: it is not a decision variable, and its
    # declaration must not influence anything computed about the columns of A
    first = {"bool0": lambda: puan.variable("0"), "int0": lambda: puan.variable(0, dtype="int"),
             "named": lambda: puan.variable("b", (1, 1)), "fixed3": lambda: puan.variable("b", (3, 3)),
             "fixed0": lambda: puan.variable("b", (0, 0)), "fixedneg": lambda: puan.variable("b", (-1, -1)),
             "open": lambda: puan.variable("b", (0, 5))}.get(p.get("first"), puan.variable.support_vector_variable)()
    vs = [first] + [puan.variable(i, tuple(b)) for i, b in zip(ids, p["bnds"])]
    arr = np.array([[r[0]] + list(r[1]) for r in p["rows"]], dtype=np.int64).reshape(len(p["rows"]), nc + 1)
    if dtype is not None:
        return pnd.ge_polyhedron(arr, variables=vs, dtype=np.dtype(dtype).type)
    return pnd.ge_polyhedron(arr, variables=vs)


def snap_poly(g):
    """back from a real ge_polyhedron"""
    vs = list(g.variables)
    return {"bnds": [[int(v.bounds.lower), int(v.bounds.upper)] for v in vs[1:]],
            "rows": [[int(r[0]), [int(c) for c in r[1:]]] for r in g.tolist()]}


def box_size(p):
    n = 1
    for lo, hi in p["bnds"]:
        n *= max(0, hi - lo + 1)
    return n


def box(p):
    return itertools.product(*[range(lo, hi + 1) for lo, hi in p["bnds"]])


def dot(cs, x):
    return sum(c * v for c, v in zip(cs, x))


def solutions(p):
    return [x for x in box(p) if all(dot(cs, x) >= b for b, cs in p["rows"])]


def nan_list(a):
    return [None if np.isnan(v) else int(v) for v in np.asarray(a, dtype=float).tolist()]
