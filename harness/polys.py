"""Snapshots / helpers for polyhedra produced from propositions."""
import itertools
from trees import *


def poly_snap(poly):
    """rows as (b, {column id: coef}) with python ints; variables of A as [id, lo, hi]"""
    vs = list(poly.variables)
    rows = []
    for r in poly.tolist():
        rows.append((int(r[0]), {vs[j].id: int(c) for j, c in enumerate(r) if j > 0 and c != 0}))
    avars = [[v.id, int(v.bounds.lower), int(v.bounds.upper)] for v in vs[1:]]
    return rows, avars


def rows_canon(rows):
    """row *set*: order and duplicates are not part of any property"""
    return sorted({(b, tuple(sorted(c.items()))) for b, c in rows})


def rows_json(rows):
    return [[b, [list(x) for x in c]] for b, c in rows_canon(rows)]


def norm_encode(ans):
    rows = []
    for r in ans["rows"]:
        c = {}
        for i, k in r["c"]:
            c[i] = c.get(i, 0) + k
        rows.append((r["b"], {i: k for i, k in c.items() if k != 0}))
    return {"rows": rows_json(rows), "vars": ans["vars"], "safe": ans["safe"]}


def row_ok(row, x):
    b, c = row
    return sum(k * x[i] for i, k in c.items()) >= b


def box_points(avars, limit):
    total = 1
    for _, lo, hi in avars:
        total *= (hi - lo + 1)
        if total > limit:
            return None
    ids = [v[0] for v in avars]
    return (dict(zip(ids, p)) for p in itertools.product(*[range(lo, hi + 1) for _, lo, hi in avars]))
