import sys, os, importlib
sys.path.insert(0, os.path.dirname(os.path.abspath(__file__)))
import core

def main():
    if len(sys.argv) < 2:
        print("usage: check <Cxx> [--tier quick|thorough] [--replay file]", file=sys.stderr)
        sys.exit(2)
    pid = sys.argv[1]
    try:
        mod = importlib.import_module(f"props.{pid.lower()}")
    except ImportError as e:
        print(f"no check for {pid}: {e}", file=sys.stderr)
        sys.exit(2)
    try:
        core.run_check(pid, mod, sys.argv[2:])
    except SystemExit:
        raise
    except BaseException:
        import traceback
        traceback.print_exc()
        sys.exit(2)

main()
