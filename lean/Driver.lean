/-
  Line-protocol driver: one JSON op per stdin line, one JSON answer per stdout line.
  Unknown or malformed ops answer {"err":"bad-op"} — the driver never defaults.
-/
import Lean.Data.Json
import Puan
open Lean Puan

abbrev M := Except String

def jInt (j : Json) : M Int := j.getInt?
def jStr (j : Json) : M String := j.getStr?
def jArr (j : Json) : M (Array Json) := j.getArr?
def fld (j : Json) (k : String) : M Json := j.getObjVal? k
def fldInt (j : Json) (k : String) : M Int := do jInt (← fld j k)
def fldStr (j : Json) (k : String) : M String := do jStr (← fld j k)
def fldBool (j : Json) (k : String) : M Bool := do (← fld j k).getBool?
def fldArr (j : Json) (k : String) : M (Array Json) := do jArr (← fld j k)
def fldOpt (j : Json) (k : String) : Option Json :=
  match j.getObjVal? k with
  | .ok .null => none
  | .ok v => some v
  | .error _ => none

def ofInt (n : Int) : Json := Json.num (JsonNumber.fromInt n)

def clsStr : Cls → String
  | .atLeast => "AtLeast" | .atMost => "AtMost" | .all => "All" | .any => "Any"
  | .imply => "Imply" | .xor => "Xor" | .exactlyOne => "ExactlyOne" | .xnor => "XNor"
  | .ccAny => "ccAny" | .ccXor => "ccXor" | .stingy => "Stingy"

def clsOf : String → M Cls
  | "AtLeast" => pure .atLeast | "AtMost" => pure .atMost | "All" => pure .all | "Any" => pure .any
  | "Imply" => pure .imply | "Xor" => pure .xor | "ExactlyOne" => pure .exactlyOne | "XNor" => pure .xnor
  | "ccAny" => pure .ccAny | "ccXor" => pure .ccXor | "Stingy" => pure .stingy
  | s => throw s!"bad class {s}"

def bndJ (b : Bnd) : Json := Json.arr #[ofInt b.lo, ofInt b.hi]

def idBndJ (x : String × Bnd) : Json := Json.arr #[Json.str x.1, ofInt x.2.lo, ofInt x.2.hi]

def parseIdBnd (j : Json) : M (String × Bnd) := do
  let a ← jArr j
  if a.size != 3 then throw "bad id-bounds triple"
  pure (← jStr a[0]!, ⟨← jInt a[1]!, ← jInt a[2]!⟩)

partial def treeJ : P → Json
  | .leaf i b => Json.mkObj [("k", "leaf"), ("id", i), ("lo", ofInt b.lo), ("hi", ofInt b.hi)]
  | .node i b s v ks m => Json.mkObj [
      ("k", "node"), ("id", i), ("gen", m.gen), ("lo", ofInt b.lo), ("hi", ofInt b.hi),
      ("s", ofInt s), ("v", ofInt v), ("kids", Json.arr (ks.map treeJ).toArray),
      ("cls", clsStr m.cls),
      ("prio", match m.prio with | some p => ofInt p | none => Json.null),
      ("default", Json.arr (m.dflt.map idBndJ).toArray),
      ("cond", ofInt m.cond)]

partial def parseTree (j : Json) : M P := do
  let k ← fldStr j "k"
  let i ← fldStr j "id"
  let b : Bnd := ⟨← fldInt j "lo", ← fldInt j "hi"⟩
  if k == "leaf" then pure (.leaf i b)
  else if k == "node" then do
    let ks ← (← fldArr j "kids").toList.mapM parseTree
    let cls ← match fldOpt j "cls" with | some c => do clsOf (← jStr c) | none => pure Cls.atLeast
    let gen ← match fldOpt j "gen" with | some g => g.getBool? | none => pure false
    let prio ← match fldOpt j "prio" with | some p => do pure (some (← jInt p)) | none => pure none
    let dflt ← match fldOpt j "default" with
      | some d => do (← jArr d).toList.mapM parseIdBnd
      | none => pure []
    let cond ← match fldOpt j "cond" with | some c => do pure (← jInt c).toNat | none => pure 0
    pure (.node i b (← fldInt j "s") (← fldInt j "v") ks { cls, gen, prio, dflt, cond })
  else throw "bad tree kind"

def parseInterp (j : Json) : M Interp := do
  let l ← (← jArr j).toList.mapM parseIdBnd
  pure (Interp.ofList l)

def optStr (j : Json) (k : String) : M (Option String) :=
  match fldOpt j k with
  | some v => do pure (some (← jStr v))
  | none => pure none

/-- default lists: ids (bare strings → boolean variables) or [id, lo, hi] triples -/
def parseDflt (j : Json) : M (List (String × Bnd)) :=
  match fldOpt j "default" with
  | none => pure []
  | some d => do
      (← jArr d).toList.mapM (fun x => match x with
        | .str s => pure (s, (⟨0, 1⟩ : Bnd))
        | _ => parseIdBnd x)

partial def parseAst (j : Json) : M Ast := do
  let c ← fldStr j "c"
  let args : M (List Ast) := do (← fldArr j "args").toList.mapM parseAst
  match c with
  | "var" => pure (.var (← fldStr j "id") ⟨← fldInt j "lo", ← fldInt j "hi"⟩)
  | "str" => pure (.str (← fldStr j "id"))
  | "AtLeast" =>
      let sgn ← match fldOpt j "sign" with | some s => do pure (some (← jInt s)) | none => pure none
      pure (.atLeast (← fldInt j "v") (← args) (← optStr j "id") sgn)
  | "AtMost" => pure (.atMost (← fldInt j "v") (← args) (← optStr j "id"))
  | "All" => pure (.all (← args) (← optStr j "id"))
  | "Any" => pure (.any (← args) (← optStr j "id"))
  | "Xor" => pure (.xor (← args) (← optStr j "id") false)
  | "ExactlyOne" => pure (.xor (← args) (← optStr j "id") true)
  | "XNor" => pure (.xnor (← args) (← optStr j "id"))
  | "Imply" => pure (.imply (← parseAst (← fld j "cond")) (← parseAst (← fld j "cons")) (← optStr j "id"))
  | "Not" => pure (.not (← parseAst (← fld j "arg")))
  | "ccAny" => pure (.ccAny (← args) (← parseDflt j) (← optStr j "id"))
  | "ccXor" => pure (.ccXor (← args) (← parseDflt j) (← optStr j "id"))
  | "Stingy" => pure (.stingy (← args) (← optStr j "id"))
  | _ => throw s!"bad ast class {c}"

def rowJ (r : Row) : Json :=
  Json.mkObj [("b", ofInt r.b), ("c", Json.arr (r.coefs.map (fun (i, c) => Json.arr #[Json.str i, ofInt c])).toArray)]

def flagsJ (f : P.Flags) : Json :=
  Json.arr #[Json.str f.id, ofInt f.eq.lo, ofInt f.eq.hi, f.taut, f.contra]

def optIntJ : Option Int → Json
  | some n => ofInt n
  | none => Json.null

def parseBnd (j : Json) : M Bnd := do
  let a ← jArr j
  if a.size != 2 then throw "bad bounds pair"
  pure ⟨← jInt a[0]!, ← jInt a[1]!⟩

def parseInts (j : Json) : M (List Int) := do (← jArr j).toList.mapM jInt

def parsePoly (j : Json) : M Poly := do
  let bnds ← (← fldArr j "bnds").toList.mapM parseBnd
  let rows ← (← fldArr j "rows").toList.mapM (fun r => do
    let a ← jArr r
    if a.size != 2 then throw "bad row"
    pure (⟨← jInt a[0]!, ← parseInts a[1]!⟩ : PRow))
  pure ⟨bnds, rows⟩

def polyJ (p : Poly) : Json :=
  Json.mkObj [("bnds", Json.arr (p.bnds.map bndJ).toArray),
              ("rows", Json.arr (p.rows.map (fun r => Json.arr #[ofInt r.b, Json.arr (r.cs.map ofInt).toArray])).toArray)]

def intsJ (l : List Int) : Json := Json.arr (l.map ofInt).toArray
def boolsJ (l : List Bool) : Json := Json.arr (l.map (fun b => ofInt (if b then 1 else 0))).toArray
def optsJ (l : List (Option Int)) : Json := Json.arr (l.map optIntJ).toArray

def parseOpts (j : Json) : M (List (Option Int)) := do
  (← jArr j).toList.mapM (fun x => match x with | .null => pure none | v => do pure (some (← jInt v)))
def parseMask (j : Json) : M (List Bool) := do
  (← jArr j).toList.mapM (fun x => do pure ((← jInt x) != 0))

partial def pjJ : PJ → Json
  | .var i b => Json.mkObj ([("id", Json.str i)] ++ (match b with
      | some b => [("bounds", Json.mkObj [("lower", ofInt b.lo), ("upper", ofInt b.hi)])]
      | none => []))
  | .node ty oid value sign hasProps props cond cons prop dflt =>
      Json.mkObj (
        (match ty with | some t => [("type", Json.str t)] | none => []) ++
        (match oid with | some i => [("id", Json.str i)] | none => []) ++
        (match value with | some v => [("value", ofInt v)] | none => []) ++
        (match sign with | some v => [("sign", ofInt v)] | none => []) ++
        (if hasProps then [("propositions", Json.arr (props.map pjJ).toArray)] else []) ++
        (match cond with | some c => [("condition", pjJ c)] | none => []) ++
        (match cons with | some c => [("consequence", pjJ c)] | none => []) ++
        (match prop with | some c => [("proposition", pjJ c)] | none => []) ++
        (if dflt.isEmpty then [] else [("default", Json.arr (dflt.map (fun x => pjJ (P.leafJ x.1 x.2))).toArray)]))

partial def parsePJ (j : Json) : M PJ := do
  let ty ← optStr j "type"
  let isVar := match ty with
    | some "Proposition" => true
    | some "Variable" => true
    | some _ => false
    | none => (fldOpt j "propositions").isNone
  if isVar then
    let b ← match fldOpt j "bounds" with
      | some b => do pure (some (⟨← fldInt b "lower", ← fldInt b "upper"⟩ : Bnd))
      | none => pure none
    pure (.var (← fldStr j "id") b)
  else
    let optI : String → M (Option Int) := fun k => match fldOpt j k with | some v => do pure (some (← jInt v)) | none => pure none
    let optP : String → M (Option PJ) := fun k => match fldOpt j k with | some v => do pure (some (← parsePJ v)) | none => pure none
    let props ← match fldOpt j "propositions" with
      | some l => do pure (some (← (← jArr l).toList.mapM parsePJ))
      | none => pure none
    let dflt ← match fldOpt j "default" with
      | some l => do (← jArr l).toList.mapM (fun x => do
          let b ← match fldOpt x "bounds" with
            | some b => do pure (⟨← fldInt b "lower", ← fldInt b "upper"⟩ : Bnd)
            | none => pure ⟨0, 1⟩
          pure (← fldStr x "id", b))
      | none => pure []
    pure (.node ty (← optStr j "id") (← optI "value") (← optI "sign") props.isSome (props.getD []) (← optP "condition")
      (← optP "consequence") (← optP "proposition") dflt)

def handle (j : Json) : M Json := do
  let op ← fldStr j "op"
  match op with
  | "genid" => do
      let ks ← (← fldArr j "kids").toList.mapM parseTree
      let s ← match fldOpt j "s" with | some s => do pure (some (← jInt s)) | none => pure none
      pure (Json.mkObj [("id", P.genId ks (← fldInt j "v") s)])
  | "build" => do
      let a ← parseAst (← fld j "ast")
      pure (Json.mkObj [("t", treeJ a.build)])
  | "evalprops" => do
      let t ← parseTree (← fld j "t"); let I ← parseInterp (← fld j "I")
      pure (Json.mkObj [("res", Json.arr ((P.evalProps I t).map idBndJ).toArray)])
  | "evaluate" => do
      let t ← parseTree (← fld j "t"); let I ← parseInterp (← fld j "I")
      pure (Json.mkObj [("b", bndJ (P.evalB I t))])
  | "assume" => do
      let t ← parseTree (← fld j "t"); let I ← parseInterp (← fld j "I")
      pure (Json.mkObj [("t", treeJ (P.assume I t))])
  | "negate" => do
      let t ← parseTree (← fld j "t")
      pure (Json.mkObj [("t", treeJ (P.negate t))])
  | "reduce" => do
      let t ← parseTree (← fld j "t")
      pure (Json.mkObj [("t", treeJ (P.reduce t))])
  | "flags" => do
      let t ← parseTree (← fld j "t")
      pure (Json.mkObj [("flags", Json.arr ((P.flags t).map flagsJ).toArray)])
  | "encode" => do
      let t ← parseTree (← fld j "t"); let a ← fldBool j "active"
      pure (Json.mkObj [("rows", Json.arr ((P.encode a t).map rowJ).toArray),
                        ("vars", Json.arr (((P.flatIB t).filter (fun e => !(a && e.1 == t.id))).map idBndJ).toArray),
                        ("safe", P.safeB t)])
  | "tighten" => do
      let p ← parsePoly (← fld j "p")
      pure (Json.mkObj [("bnds", Json.arr ((Poly.tighten p).map bndJ).toArray)])
  | "row_bounds" => do
      let p ← parsePoly (← fld j "p")
      pure (Json.mkObj [("bnds", Json.arr ((Poly.rowBounds p).map bndJ).toArray), ("ncomb", intsJ (Poly.nRowComb p)),
                        ("amin", Json.arr ((Poly.aMin p).map intsJ).toArray), ("amax", Json.arr ((Poly.aMax p).map intsJ).toArray)])
  | "red" => do
      let p ← parsePoly (← fld j "p")
      pure (Json.mkObj [("rows", boolsJ (Poly.redRows p)), ("cols", optsJ (Poly.redCols p))])
  | "rrc" => do
      let p ← parsePoly (← fld j "p")
      let (r, c) := Poly.rrc p
      pure (Json.mkObj [("rows", boolsJ r), ("cols", optsJ c), ("reduced", polyJ (Poly.reduce p r c))])
  | "reduce_poly" => do
      let p ← parsePoly (← fld j "p")
      let r ← match fldOpt j "rows" with | some r => parseMask r | none => pure (p.rows.map (fun _ => false))
      let c ← match fldOpt j "cols" with | some c => parseOpts c | none => pure (p.bnds.map (fun _ => none))
      pure (Json.mkObj [("reduced", polyJ (Poly.reduce p r c))])
  | "classify" => do
      let p ← parsePoly (← fld j "p")
      let d ← fldInt j "d"
      let pj ← fld j "pts"
      let pts : Poly.Points ← match d with
        | 1 => do pure (Poly.Points.d1 (← parseInts pj))
        | 2 => do pure (Poly.Points.d2 (← (← jArr pj).toList.mapM parseInts))
        | 3 => do pure (Poly.Points.d3 (← (← jArr pj).toList.mapM (fun m => do (← jArr m).toList.mapM parseInts)))
        | _ => throw "bad points dimension"
      let outJ : Poly.Out → Json := fun o => match o with
        | .b v => Json.bool v
        | .v l => Json.arr (l.map Json.bool).toArray
        | .m l => Json.arr (l.map (fun r => Json.arr (r.map Json.bool).toArray)).toArray
      pure (Json.mkObj [("sat", outJ (Poly.ineqsSatisfied p pts)), ("sep", outJ (Poly.separableP p pts)),
                        ("rowsep", outJ (Poly.ineqSeparatePoints p pts))])
  | "errors" => do
      let t ← parseTree (← fld j "t")
      let name : P.VErr → String := fun e => match e with
        | .circular => "CIRCULAR_DEPENDENCIES" | .ambivalent => "AMBIVALENT_VARIABLE_DEFINITIONS"
        | .nonUnique => "NON_UNIQUE_SUB_PROPOSITION_SET"
      pure (Json.mkObj [("errs", Json.arr ((P.errors t).map (fun e => Json.str (name e))).toArray)])
  | "to_json" => do
      let t ← parseTree (← fld j "t")
      pure (Json.mkObj [("j", pjJ (P.toJson t))])
  | "from_json" => do
      let pj ← parsePJ (← fld j "j")
      let cfg ← fldBool j "cfg"
      let top ← fldBool j "top"
      -- `StingyConfigurator.from_json` builds the configurator from the top-level dictionary itself
      let ast : Option Ast := if top then
          match pj with
          | .node _ oid _ _ _ props _ _ _ _ => (PJ.toAstL true props).map (fun a => Ast.stingy a oid)
          | .var .. => none
        else PJ.toAst cfg pj
      match ast with
      | some a => pure (Json.mkObj [("t", treeJ a.build)])
      | none => pure (Json.mkObj [("t", Json.null)])
  | "cic_build" => do
      -- a rule dictionary (Imply.from_cicJE); "mode" = "str" when cmp2prop returns the id strings
      let d ← fld j "d"
      let strMode := (← fldStr j "mode") == "str"
      let comps : Json → M (List String) := fun x => do
        match fldOpt x "components" with
        | some l => (← jArr l).toList.mapM (fun c => fldStr c "id")
        | none => pure []
      let relAll : Json → M Bool := fun x => do
        match ← optStr x "relation" with
        | some r => pure (r == "ALL")
        | none => pure true
      let cq ← fld d "consequence"
      let rt ← match ← fldStr cq "ruleType" with
        | "REQUIRES_ALL" => pure RuleType.requiresAll
        | "REQUIRES_ANY" => pure RuleType.requiresAny
        | "ONE_OR_NONE" => pure RuleType.oneOrNone
        | "FORBIDS_ALL" => pure RuleType.forbidsAll
        | "REQUIRES_EXCLUSIVELY" => pure RuleType.requiresExclusively
        | _ => throw "bad ruleType"
      let (hasCond, condAll, subs, condId) ← match fldOpt d "condition" with
        | none => pure (false, true, ([] : List SubCond), (none : Option String))
        | some c => do
            let ss ← match fldOpt c "subConditions" with
              | some l => (← jArr l).toList.mapM (fun sc => do
                  pure ({ all := ← relAll sc, comps := ← comps sc, id := ← optStr sc "id" } : SubCond))
              | none => pure []
            pure (true, ← relAll c, ss, ← optStr c "id")
      let cic : Cic := { id := ← optStr d "id", ruleType := rt, comps := ← comps cq, consId := ← optStr cq "id",
                         hasCond := hasCond, condAll := condAll, subs := subs, condId := condId }
      pure (Json.mkObj [("t", treeJ (cic.toAst strMode).build)])
  | "flatten" => do
      let t ← parseTree (← fld j "t")
      pure (Json.mkObj [("res", Json.arr ((P.flatIB t).map idBndJ).toArray)])
  | "leak" => do
      let t ← parseTree (← fld j "t"); let I ← parseInterp (← fld j "I")
      pure (Json.mkObj [("t", treeJ (Hist.leak I t))])
  | "default_prios" => do
      let t ← parseTree (← fld j "t")
      pure (Json.mkObj [("prios", Json.arr ((Lex.defaultPrios t).map (fun (i, p) => Json.arr #[Json.str i, ofInt p])).toArray)])
  | "objective" => do
      let d ← parseInts (← fld j "dpv"); let u ← parseInts (← fld j "user")
      -- "w": the model that mirrors the code's plumbing; "spec": the key form that theorem C14.configurator_objective_lex is about
      pure (Json.mkObj [("w", intsJ (Lex.objective d u)), ("spec", intsJ (Prio.shadowSpec [d, u]))])
  | "cert_dominates" => do
      let levs ← parseInts (← fld j "levels"); let ws ← parseInts (← fld j "w")
      if levs.length != ws.length then throw "levels/w length mismatch"
      let cs : List Lex.Col := (List.zip levs ws).map (fun (l, w) => ⟨l.toNat, if w < 0 then -w else w, 0⟩)
      pure (Json.mkObj [("ok", Lex.dominates cs)])
  | "bridge_solve" => do
      let t ← parseTree (← fld j "t")
      let objs ← (← fldArr j "objectives").toList.mapM (fun o => do
        (← jArr o).toList.mapM (fun x => do
          let a ← jArr x
          if a.size != 2 then throw "bad objective entry"
          pure (← jStr a[0]!, ← jInt a[1]!)))
      let sol ← match fldOpt j "sol" with | some s => do pure (some (← parseInts s)) | none => pure none
      let iv ← fldBool j "include_virtual"; let ol ← fldBool j "only_leafs"
      let cols := Solve.columns t
      let kvJ : List (String × Int) → Json := fun l => Json.arr (l.map (fun (i, v) => Json.arr #[Json.str i, ofInt v])).toArray
      pure (Json.mkObj [("cols", Json.arr (cols.map (fun c => Json.arr #[Json.str c.id, c.isLeaf, c.gen])).toArray),
                        ("objs", Json.arr ((Solve.objectives cols objs).map intsJ).toArray),
                        ("solve", kvJ (Solve.solveResult cols sol iv)), ("select", kvJ (Solve.selectResult cols sol ol))])
  | "add_seq" => do
      let c ← parseTree (← fld j "cfg")
      let rs ← (← fldArr j "rules").toList.mapM parseTree
      match Config.addAll c rs with
      | some c' => pure (Json.mkObj [("t", treeJ c')])
      | none => pure (Json.mkObj [("t", Json.null)])
  | "pack" => do
      let mat ← (← fldArr j "mat").toList.mapM parseInts
      let dpv ← parseInts (← fld j "dpv")
      let vars ← (← fldArr j "vars").toList.mapM parseIdBnd
      let idx ← (← fldArr j "index").toList.mapM jStr
      let dt ← fldStr j "dtype"
      let fieldJ : B64.Field → Json := fun f => match f with
        | .mat m => Json.mkObj [("mat", Json.arr (m.map intsJ).toArray)]
        | .ints l => Json.mkObj [("ints", intsJ l)]
        | .vars l => Json.mkObj [("vars", Json.arr (l.map idBndJ).toArray)]
        | .idx l => Json.mkObj [("idx", Json.arr (l.map Json.str).toArray)]
        | .dt s => Json.mkObj [("dtype", Json.str s)]
      pure (Json.mkObj [("payload", Json.arr ((B64.pack ⟨mat, dpv, vars, idx, dt⟩).map fieldJ).toArray)])
  | "oba" => do
      let xs ← parseInts (← fld j "xs")
      pure (Json.mkObj [("ws", intsJ (Prio.oba xs))])
  | "compress" => do
      let method ← fldStr j "method"
      let dim ← fldInt j "dim"
      let mj ← fld j "m"
      let parseMat : Json → M Prio.Mat := fun x => do (← jArr x).toList.mapM parseInts
      let matJ : Prio.Mat → Json := fun m => Json.arr (m.map intsJ).toArray
      match dim with
      | 1 => do
          let r ← parseInts mj
          match Prio.compress0 method [r], Prio.compress0Spec method [r] with
          | some v, some w => pure (Json.mkObj [("r", intsJ v), ("spec", intsJ w)])
          | _, _ => throw "bad method"
      | 2 => do
          let m ← parseMat mj
          match Prio.compress2 method (← fldInt j "axis").toNat m, Prio.compress2Spec method (← fldInt j "axis").toNat m with
          | some v, some w => pure (Json.mkObj [("r", intsJ v), ("spec", intsJ w)])
          | _, _ => throw "bad method"
      | 3 => do
          let a ← (← jArr mj).toList.mapM parseMat
          match Prio.compress3 method (← fldInt j "axis").toNat a, Prio.compress3Spec method (← fldInt j "axis").toNat a with
          | some v, some w => pure (Json.mkObj [("r", matJ v), ("spec", matJ w)])
          | _, _ => throw "bad method"
      | _ => throw "bad dim"
  | "bridge" => do
      let vars ← (← fldArr j "vars").toList.mapM parseIdBnd
      let dict ← (← fldArr j "dict").toList.mapM (fun x => do
        let a ← jArr x
        if a.size != 2 then throw "bad dict entry"
        pure (← jStr a[0]!, ← jInt a[1]!))
      let dj ← fld j "dflt"
      let d : Bridge.Dflt ← match dj with
        | .str "lower" => pure Bridge.Dflt.lower
        | .str "nan" => pure Bridge.Dflt.nan
        | .str "upper" => pure Bridge.Dflt.upper
        | o => do pure (Bridge.Dflt.const (← fldInt o "const"))
      let strs : String → M (List String) := fun k => do (← fldArr j k).toList.mapM jStr
      let lst ← strs "lst"; let ctx ← strs "ctx"
      let vec ← parseInts (← fld j "vec")
      let bnds := vars.map (·.2)
      let nats : List Nat → Json := fun l => Json.arr (l.map (fun (n : Nat) => ofInt (Int.ofNat n))).toArray
      let row ← parseInts (← fld j "row")
      let (b0, a0) := Bridge.splitRow row
      pure (Json.mkObj [("construct", optsJ (Bridge.construct vars dict d)),
                        ("flb", intsJ (Bridge.fromListBool lst ctx)), ("fli", intsJ (Bridge.fromListInt lst ctx)),
                        ("tolist", Json.arr ((Bridge.toList vec (vars.map (·.1))).map Json.str).toArray),
                        ("boolidx", nats (Bridge.boolIdx bnds)), ("intidx", nats (Bridge.intIdx bnds)),
                        ("b", ofInt b0), ("a", intsJ a0)])
  | _ => throw "bad-op"

partial def loop (h : IO.FS.Stream) (out : IO.FS.Stream) : IO Unit := do
  let line ← h.getLine
  if line.isEmpty then return ()
  let ans := match Json.parse line with
    | .ok j => match handle j with
        | .ok r => r
        | .error e => Json.mkObj [("err", if e == "bad-op" then "bad-op" else "bad-op"), ("why", e)]
    | .error e => Json.mkObj [("err", "bad-op"), ("why", e)]
  out.putStrLn ans.compress
  loop h out

def main : IO Unit := do
  let out ← IO.getStdout
  loop (← IO.getStdin) out
  out.flush
