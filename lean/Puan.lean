import Puan.Model.Sha256
import Puan.Model.Tree
import Puan.Model.Eval
import Puan.Model.Build
import Puan.Model.Encode
import Puan.Lemmas.Eval
import Puan.Props.C03
