/-
  C14 — configurator objectives realise choices over defaults over stinginess.
  The core is generic: an objective whose weights pass the (decidable) dominance certificate
  ranks any two 0/1 configurations lexicographically by level.  The check evaluates the
  certificate on the objective the real code hands to the solver.
-/
import Puan.Model.Lex
import Puan.Props.C13
import Puan.Props.C04
namespace Puan.C14
open Puan Lex

/-- objective(x) − objective(y) = Σ w·d -/
def tot (cs : List Col) : Int := (cs.map fun c => c.w * c.d).foldr (· + ·) 0
def totAt (l : Nat) (cs : List Col) : Int := tot (cs.filter fun c => c.lev = l)
def totBelow (l : Nat) (cs : List Col) : Int := tot (cs.filter fun c => c.lev < l)
def totAbove (l : Nat) (cs : List Col) : Int := tot (cs.filter fun c => l < c.lev)
/-- level sum difference S_l(x) − S_l(y) -/
def dAt (l : Nat) (cs : List Col) : Int := ((cs.filter fun c => c.lev = l).map (·.d)).foldr (· + ·) 0

@[simp] theorem tot_nil : tot [] = 0 := rfl
@[simp] theorem tot_cons (c : Col) (cs) : tot (c :: cs) = c.w * c.d + tot cs := rfl

theorem tot_split (l : Nat) : ∀ cs, tot cs = totAbove l cs + totAt l cs + totBelow l cs
  | [] => by simp [totAbove, totAt, totBelow]
  | c :: cs => by
      have ih := tot_split l cs
      simp only [totAbove, totAt, totBelow, tot_cons, List.filter_cons] at *
      rcases Nat.lt_trichotomy c.lev l with h | h | h
      · have h1 : ¬ l < c.lev := by omega
        have h2 : ¬ c.lev = l := by omega
        simp [h, h1, h2]; omega
      · have h1 : ¬ l < c.lev := by omega
        have h2 : ¬ c.lev < l := by omega
        simp [h]; omega
      · have h1 : ¬ c.lev = l := by omega
        have h2 : ¬ c.lev < l := by omega
        simp [h, h1, h2]; omega

theorem below_bound (l : Nat) : ∀ cs, (∀ c ∈ cs, 0 ≤ c.w ∧ -1 ≤ c.d ∧ c.d ≤ 1) →
    -wBelow l cs ≤ totBelow l cs ∧ totBelow l cs ≤ wBelow l cs
  | [], _ => by simp [wBelow, totBelow]
  | c :: cs, h => by
      have hc := h c (by simp)
      have ih := below_bound l cs (fun c' hc' => h c' (by simp [hc']))
      simp only [wBelow, totBelow, List.filter_cons] at *
      by_cases hl : c.lev < l
      · simp only [hl, decide_true, if_true, List.map_cons, List.foldr_cons, tot_cons]
        have : c.d = -1 ∨ c.d = 0 ∨ c.d = 1 := by omega
        rcases this with e | e | e <;> simp [e] <;> omega
      · simp only [hl, decide_false]; simpa using ih

theorem at_level (l : Nat) (W : Int) : ∀ cs, (∀ c ∈ cs, c.lev = l → c.w = W) → totAt l cs = W * dAt l cs
  | [], _ => by simp [totAt, dAt]
  | c :: cs, h => by
      have ih := at_level l W cs (fun c' hc' => h c' (by simp [hc']))
      simp only [totAt, dAt, List.filter_cons] at *
      by_cases hl : c.lev = l
      · have hw := h c (by simp) hl
        simp only [hl, decide_true, if_true, List.map_cons, List.foldr_cons, tot_cons, hw, ih]
        rw [Int.mul_add]
      · simp only [hl, decide_false]; simpa using ih

/-- the generic core -/
theorem lex_of_dominance (l : Nat) (W : Int) (cs : List Col)
    (hrange : ∀ c ∈ cs, 0 ≤ c.w ∧ -1 ≤ c.d ∧ c.d ≤ 1)
    (heq : ∀ c ∈ cs, c.lev = l → c.w = W)
    (habove : totAbove l cs = 0)
    (hdom : wBelow l cs < W) :
    (0 < dAt l cs → 0 < tot cs) ∧ (dAt l cs < 0 → tot cs < 0) := by
  have hs := tot_split l cs
  have hb := below_bound l cs hrange
  have ha := at_level l W cs heq
  rw [habove, ha] at hs
  constructor
  · intro hd
    have : W ≤ W * dAt l cs := by
      have := Int.mul_le_mul_of_nonneg_left (show (1:Int) ≤ dAt l cs by omega) (show (0:Int) ≤ W by
        have := hb.1; have := hb.2; omega)
      simpa using this
    omega
  · intro hd
    have : W * dAt l cs ≤ -W := by
      have := Int.mul_le_mul_of_nonneg_left (show dAt l cs ≤ (-1:Int) by omega) (show (0:Int) ≤ W by
        have := hb.1; have := hb.2; omega)
      simpa using this
    omega

/-- what the decidable certificate says -/
theorem dominates_spec (cs : List Col) (h : dominates cs = true) :
    ∀ c ∈ cs, 0 ≤ c.w ∧ wBelow c.lev cs < c.w ∧ ∀ c' ∈ cs, c'.lev = c.lev → c'.w = c.w := by
  intro c hc
  have := (List.all_eq_true.1 h) c hc
  simp only [Bool.and_eq_true, decide_eq_true_eq, List.all_eq_true, Bool.or_eq_true, bne_iff_ne, ne_eq,
    beq_iff_eq] at this
  refine ⟨this.1.1, this.1.2, ?_⟩
  intro c' hc' hl
  rcases this.2 c' hc' with h' | h'
  · exact absurd hl h'
  · exact h'

/-- An objective that passes the certificate ranks any two 0/1 configurations by the highest
    level at which their level sums differ: there the sign of the objective difference is the
    sign of the level-sum difference. -/
theorem lex_of_cert (cs : List Col) (hcert : dominates cs = true) (hd : ∀ c ∈ cs, -1 ≤ c.d ∧ c.d ≤ 1)
    (l : Nat) (hl : ∃ c ∈ cs, c.lev = l) (habove : totAbove l cs = 0) :
    (0 < dAt l cs → 0 < tot cs) ∧ (dAt l cs < 0 → tot cs < 0) := by
  obtain ⟨c0, hc0, hlev⟩ := hl
  have hs := dominates_spec cs hcert
  apply lex_of_dominance l c0.w cs
  · intro c hc; exact ⟨(hs c hc).1, hd c hc⟩
  · intro c hc hcl; exact (hs c0 hc0).2.2 c hc (by rw [hcl, hlev])
  · exact habove
  · rw [← hlev]; exact (hs c0 hc0).2.1

theorem tot_filter_all (L : Nat) : ∀ cs : List Col, (∀ c ∈ cs, c.lev < L) → tot cs = totBelow L cs
  | [], _ => by simp [totBelow]
  | c :: cs, h => by
      have ih := tot_filter_all L cs (fun c' hc' => h c' (by simp [hc']))
      have hc := h c (by simp)
      simp only [totBelow, List.filter_cons, hc, decide_true, if_true, tot_cons] at *
      omega

theorem totBelow_succ (l : Nat) : ∀ cs : List Col, totBelow (l + 1) cs = totBelow l cs + totAt l cs
  | [] => by simp [totBelow, totAt]
  | c :: cs => by
      have ih := totBelow_succ l cs
      simp only [totBelow, totAt, List.filter_cons] at *
      rcases Nat.lt_trichotomy c.lev l with h | h | h
      · have h1 : c.lev < l + 1 := by omega
        have h2 : ¬ c.lev = l := by omega
        simp [h, h1, h2]; omega
      · have h1 : c.lev < l + 1 := by omega
        have h2 : ¬ c.lev < l := by omega
        simp [h]; omega
      · have h1 : ¬ c.lev < l + 1 := by omega
        have h2 : ¬ c.lev = l := by omega
        have h3 : ¬ c.lev < l := by omega
        simp [h1, h2, h3]; omega

/-- If no level sum differs, the two configurations have the same objective value. -/
theorem equal_of_no_difference (cs : List Col) (hcert : dominates cs = true)
    (hall : ∀ l, dAt l cs = 0) : tot cs = 0 := by
  have hs := dominates_spec cs hcert
  have hzero : ∀ l, totAt l cs = 0 := by
    intro l
    by_cases hex : ∃ c ∈ cs, c.lev = l
    · obtain ⟨c0, hc0, hlev⟩ := hex
      rw [at_level l c0.w cs (fun c hc hcl => (hs c0 hc0).2.2 c hc (by rw [hcl, hlev])), hall l]; simp
    · have : cs.filter (fun c => c.lev = l) = [] := by
        apply List.filter_eq_nil_iff.2
        intro c hc; simp; intro hcl; exact hex ⟨c, hc, hcl⟩
      simp [totAt, this]
  have hbelow : ∀ L, totBelow L cs = 0 := by
    intro L
    induction L with
    | zero =>
        have : cs.filter (fun c => decide (c.lev < 0)) = [] := by
          apply List.filter_eq_nil_iff.2; intro c _; simp
        simp only [totBelow, this, tot_nil]
    | succ n ih => rw [totBelow_succ, ih, hzero n]; rfl
  -- all levels are below some bound
  have hbound : ∃ L, ∀ c ∈ cs, c.lev < L := by
    clear hcert hall hs hzero hbelow
    induction cs with
    | nil => exact ⟨0, by simp⟩
    | cons c cs ih =>
        obtain ⟨L, hL⟩ := ih
        refine ⟨max L (c.lev + 1), ?_⟩
        intro c' hc'
        rcases List.mem_cons.1 hc' with rfl | h
        · omega
        · have := hL c' h; omega
  obtain ⟨L, hL⟩ := hbound
  rw [tot_filter_all L cs hL, hbelow L]

/-! ### the ranking in terms of level sums only, and what an optimal configuration therefore looks like -/

/-- as `equal_of_no_difference`, from what it really needs: equal weights inside a level -/
theorem tot_zero_of_levels (cs : List Col) (hs : ∀ c ∈ cs, ∀ c' ∈ cs, c'.lev = c.lev → c'.w = c.w)
    (hall : ∀ l, dAt l cs = 0) : tot cs = 0 := by
  have hzero : ∀ l, totAt l cs = 0 := by
    intro l
    by_cases hex : ∃ c ∈ cs, c.lev = l
    · obtain ⟨c0, hc0, hlev⟩ := hex
      rw [at_level l c0.w cs (fun c hc hcl => hs c0 hc0 c hc (by rw [hcl, hlev])), hall l]; simp
    · have : cs.filter (fun c => c.lev = l) = [] := by
        apply List.filter_eq_nil_iff.2
        intro c hc; simp; intro hcl; exact hex ⟨c, hc, hcl⟩
      simp [totAt, this]
  have hbelow : ∀ L, totBelow L cs = 0 := by
    intro L
    induction L with
    | zero =>
        have : cs.filter (fun c => decide (c.lev < 0)) = [] := by
          apply List.filter_eq_nil_iff.2; intro c _; simp
        simp only [totBelow, this, tot_nil]
    | succ n ih => rw [totBelow_succ, ih, hzero n]; rfl
  have hbound : ∃ L, ∀ c ∈ cs, c.lev < L := by
    clear hs hall hzero hbelow
    induction cs with
    | nil => exact ⟨0, by simp⟩
    | cons c cs ih =>
        obtain ⟨L, hL⟩ := ih
        refine ⟨max L (c.lev + 1), ?_⟩
        intro c' hc'
        rcases List.mem_cons.1 hc' with rfl | h
        · omega
        · have := hL c' h; omega
  obtain ⟨L, hL⟩ := hbound
  rw [tot_filter_all L cs hL, hbelow L]

theorem dAt_filter_above (l l' : Nat) (cs : List Col) :
    dAt l' (cs.filter fun c => l < c.lev) = if l < l' then dAt l' cs else 0 := by
  simp only [dAt, List.filter_filter]
  split
  · rename_i h
    have : cs.filter (fun c => decide (c.lev = l') && decide (l < c.lev)) = cs.filter (fun c => decide (c.lev = l')) := by
      apply List.filter_congr
      intro c _
      by_cases hc : c.lev = l'
      · simp [hc, h]
      · simp [hc]
    rw [this]
  · rename_i h
    have : cs.filter (fun c => decide (c.lev = l') && decide (l < c.lev)) = [] := by
      apply List.filter_eq_nil_iff.2
      intro c _
      simp only [Bool.and_eq_true, decide_eq_true_eq, not_and]
      intro hc; omega
    rw [this]; rfl

/-- if the level sums agree at every level above `l`, the columns above `l` contribute nothing -/
theorem totAbove_zero_of_levels (cs : List Col) (hcert : dominates cs = true) (l : Nat)
    (hhigher : ∀ l', l < l' → dAt l' cs = 0) : totAbove l cs = 0 := by
  have hs := dominates_spec cs hcert
  apply tot_zero_of_levels
  · intro c hc c' hc' hl
    exact (hs c (List.mem_filter.1 hc).1).2.2 c' (List.mem_filter.1 hc').1 hl
  · intro l'
    rw [dAt_filter_above]
    split
    · exact hhigher l' ‹_›
    · rfl

/-- **the lexicographic ranking, in level sums only**: two 0/1 configurations whose level sums agree at every level above `l`
    are ranked by their level sums at `l` -/
theorem lex_by_level_sums (cs : List Col) (hcert : dominates cs = true) (hd : ∀ c ∈ cs, -1 ≤ c.d ∧ c.d ≤ 1)
    (l : Nat) (hl : ∃ c ∈ cs, c.lev = l) (hhigher : ∀ l', l < l' → dAt l' cs = 0) :
    (0 < dAt l cs → 0 < tot cs) ∧ (dAt l cs < 0 → tot cs < 0) :=
  lex_of_cert cs hcert hd l hl (totAbove_zero_of_levels cs hcert l hhigher)

/-- **"hence"**: a configuration `x` that is optimal against `y` (objective(x) − objective(y) = `tot cs` ≥ 0) is at least as
    good as `y` at the highest level where they differ.  With the levels of `level_order` this is the statement's conclusion:
    at a user-priority level the prioritised item is taken when `y` shows it can be (positive priority) or avoided (negative);
    with the user levels tied, no more non-default helpers are on than in `y`; with those tied too, no more columns are
    selected than in `y`. -/
theorem optimal_lex_maximal (cs : List Col) (hcert : dominates cs = true) (hd : ∀ c ∈ cs, -1 ≤ c.d ∧ c.d ≤ 1)
    (hopt : 0 ≤ tot cs) (l : Nat) (hl : ∃ c ∈ cs, c.lev = l) (hhigher : ∀ l', l < l' → dAt l' cs = 0) :
    0 ≤ dAt l cs := by
  have := (lex_by_level_sums cs hcert hd l hl hhigher).2
  omega

theorem sum_const_sign (d : Int) : ∀ l : List Col, l ≠ [] → (∀ c ∈ l, c.d = d) →
    (0 ≤ (l.map (·.d)).foldr (· + ·) 0 → 0 ≤ d)
  | [], h, _ => absurd rfl h
  | [c], _, h => by have := h c (by simp); simp; omega
  | c :: c' :: r, _, h => by
      have ih := sum_const_sign d (c' :: r) (by simp) (fun x hx => h x (by simp [hx]))
      have hc := h c (by simp)
      simp only [List.map_cons, List.foldr_cons] at ih ⊢
      intro hsum
      by_cases hd0 : 0 ≤ d
      · exact hd0
      · have hneg : (c'.d + (r.map (·.d)).foldr (· + ·) 0) < 0 := by
          by_cases h' : 0 ≤ c'.d + (r.map (·.d)).foldr (· + ·) 0
          · exact absurd (ih h') hd0
          · omega
        omega

/-- **a feasible prioritised item is selected**: if one column `c0` alone carries the highest level (the item with the
    user's top priority), a configuration that is optimal against `y` does at `c0` at least as well as `y` —
    `c0.d = sgn·(x − y) ≥ 0`: selected if `y` selects it (positive priority), not selected if `y` avoids it (negative) -/
theorem top_priority_followed (cs : List Col) (hcert : dominates cs = true) (hd : ∀ c ∈ cs, -1 ≤ c.d ∧ c.d ≤ 1)
    (hopt : 0 ≤ tot cs) (c0 : Col) (hc0 : c0 ∈ cs) (hmax : ∀ c ∈ cs, c.lev ≤ c0.lev)
    (huniq : ∀ c ∈ cs, c.lev = c0.lev → c.d = c0.d) : 0 ≤ c0.d := by
  have hhigher : ∀ l', c0.lev < l' → dAt l' cs = 0 := by
    intro l' hl'
    have : cs.filter (fun c => c.lev = l') = [] := by
      apply List.filter_eq_nil_iff.2
      intro c hc; have := hmax c hc; simp; omega
    simp [dAt, this]
  have h := optimal_lex_maximal cs hcert hd hopt c0.lev ⟨c0, hc0, rfl⟩ hhigher
  apply sum_const_sign c0.d (cs.filter fun c => c.lev = c0.lev)
  · intro he
    have : c0 ∈ cs.filter (fun c => c.lev = c0.lev) := List.mem_filter.2 ⟨hc0, by simp⟩
    rw [he] at this; cases this
  · intro c hc
    have := List.mem_filter.1 hc
    exact huniq c this.1 (by simpa using this.2)
  · exact h

/-! ### the objective the configurator hands to the solver passes the certificate — for every input

  `_vectors_from_prios` shadow-compresses the rows [default priorities, user priorities]; in key form
  (C13, `shadowSpec`) the weight of a column is `weightOf (table ks) k` for its key `k` = (row, magnitude):
  user priorities (row 1) rank above default priorities (row 0), inside a row the magnitude decides, so the
  levels are exactly the statement's: user priority by magnitude, then the non-default branch (−2), then
  every other column (−1). -/

section configurator
open Prio C13

/-- the columns of the objective for two 0/1 configurations: level and weight from the column's key,
    `d` the signed difference of the two configurations at that column -/
def colOf (ks : List Key) (z : Key × Int) : Col := ⟨levOf ks z.1, weightOf (table ks) z.1, z.2⟩

theorem wBelow_cols (ks : List Key) (k : Key) (hk : k ∈ ks) : ∀ zs : List (Key × Int), (∀ z ∈ zs, z.1 ∈ ks) →
    wBelow (levOf ks k) (zs.map (colOf ks)) = keySumBelow (weightOf (table ks)) k (zs.map (·.1))
  | [], _ => by simp [wBelow, keySumBelow]
  | z :: r, h => by
      have ih := wBelow_cols ks k hk r (fun x hx => h x (by simp [hx]))
      have hz := h z (by simp)
      have hiff := levOf_lt_iff ks z.1 k hz hk
      simp only [wBelow, List.map_cons, List.filter_cons, keySumBelow] at *
      by_cases hlt : Key.lt z.1 k
      · have hl' : levOf ks z.1 < levOf ks k := hiff.2 hlt
        have hl'' : (colOf ks z).lev < levOf ks k := hl'
        simp only [hl'', decide_true, if_true, List.map_cons, List.foldr_cons, hlt]
        rw [ih]; rfl
      · have hl' : ¬ levOf ks z.1 < levOf ks k := fun h' => hlt (hiff.1 h')
        have hl'' : ¬ (colOf ks z).lev < levOf ks k := hl'
        simp only [hl'', decide_false, hlt, if_false, Bool.false_eq_true, Int.zero_add]
        exact ih

/-- **the objective passes the dominance certificate for every priority input**: whatever the keys of the columns
    are (every column has one, since default priorities are never 0) and whatever two configurations are compared -/
theorem shadow_objective_dominates (ks : List Key) (ds : List Int) (hlen : ks.length ≤ ds.length) :
    dominates ((List.zip ks ds).map (colOf ks)) = true := by
  have hmem : ∀ z ∈ List.zip ks ds, z.1 ∈ ks := fun z hz => (List.of_mem_zip hz).1
  have hfst : (List.zip ks ds).map (·.1) = ks := List.map_fst_zip hlen
  apply List.all_eq_true.2
  intro c hc
  obtain ⟨z, hz, rfl⟩ := List.mem_map.1 hc
  have hk := hmem z hz
  have hw := weightOf_spec ks z.1 hk
  have hdom := weight_dominates ks z.1 hk
  have hwb := wBelow_cols ks z.1 hk (List.zip ks ds) hmem
  rw [hfst] at hwb
  simp only [Bool.and_eq_true, decide_eq_true_eq, List.all_eq_true, Bool.or_eq_true, bne_iff_ne, ne_eq, beq_iff_eq]
  refine ⟨⟨by simp only [colOf]; omega, by simp only [colOf] at hwb ⊢; rw [hwb]; omega⟩, ?_⟩
  intro c' hc'
  obtain ⟨z', hz', rfl⟩ := List.mem_map.1 hc'
  by_cases hl : (colOf ks z').lev = (colOf ks z).lev
  · right
    have := levOf_inj ks z'.1 z.1 (hmem z' hz') hk (by simpa [colOf] using hl)
    simp [colOf, this]
  · left; exact hl

/-- **choices over defaults over stinginess**, for every configurator objective: with `w` the shadow weights of the
    columns' keys, two 0/1 configurations x, y (`ds` = their signed differences, entries in {−1,0,1}) are ranked by the
    highest level at which their level sums differ — there the objective difference has the sign of the level-sum
    difference (and by `equal_of_no_difference` they tie if no level differs). -/
theorem configurator_objective_lex (ks : List Key) (ds : List Int) (hlen : ks.length ≤ ds.length)
    (hd : ∀ d ∈ ds, -1 ≤ d ∧ d ≤ 1) (l : Nat)
    (hl : ∃ c ∈ (List.zip ks ds).map (colOf ks), c.lev = l)
    (habove : totAbove l ((List.zip ks ds).map (colOf ks)) = 0) :
    (0 < dAt l ((List.zip ks ds).map (colOf ks)) → 0 < tot ((List.zip ks ds).map (colOf ks))) ∧
    (dAt l ((List.zip ks ds).map (colOf ks)) < 0 → tot ((List.zip ks ds).map (colOf ks)) < 0) := by
  apply lex_of_cert _ (shadow_objective_dominates ks ds hlen) _ l hl habove
  intro c hc
  obtain ⟨z, hz, rfl⟩ := List.mem_map.1 hc
  exact hd z.2 (List.of_mem_zip hz).2

/-- the levels are the statement's: a user priority (row 1) ranks above every default priority (row 0); among
    defaults the non-default branch (magnitude 2) ranks above every other column (magnitude 1); among user
    priorities the larger magnitude ranks higher -/
theorem level_order (ks : List Key) (k' k : Key) (hk' : k' ∈ ks) (hk : k ∈ ks) :
    (k'.row < k.row → levOf ks k' < levOf ks k) ∧ (k'.row = k.row → k'.mag < k.mag → levOf ks k' < levOf ks k) := by
  constructor
  · intro h; exact levOf_lt ks k' k hk' (Or.inl h)
  · intro h1 h2; exact levOf_lt ks k' k hk' (Or.inr ⟨h1, h2⟩)

/-- **the statement's "hence", for the configurator's own objective**: a configuration that the exact solver returns
    (optimal against the feasible `y`: `tot ≥ 0`) is at least as good as `y` at the highest level at which their level sums
    differ — levels as in `level_order` -/
theorem configurator_optimal_lex (ks : List Key) (ds : List Int) (hlen : ks.length ≤ ds.length)
    (hd : ∀ d ∈ ds, -1 ≤ d ∧ d ≤ 1) (hopt : 0 ≤ tot ((List.zip ks ds).map (colOf ks))) (l : Nat)
    (hl : ∃ c ∈ (List.zip ks ds).map (colOf ks), c.lev = l)
    (hhigher : ∀ l', l < l' → dAt l' ((List.zip ks ds).map (colOf ks)) = 0) :
    0 ≤ dAt l ((List.zip ks ds).map (colOf ks)) := by
  apply optimal_lex_maximal _ (shadow_objective_dominates ks ds hlen) _ hopt l hl hhigher
  intro c hc
  obtain ⟨z, hz, rfl⟩ := List.mem_map.1 hc
  exact hd z.2 (List.of_mem_zip hz).2

end configurator

/-- non-vacuity: user priority (level 3) over the non-default branch (level 2) over plain
    selections (level 1); selecting the prioritised item beats any number of plain de-selections -/
example :
    let cs : List Col := [⟨3, 6, 1⟩, ⟨2, 3, -1⟩, ⟨1, 1, -1⟩, ⟨1, 1, -1⟩]
    dominates cs = true ∧ totAbove 3 cs = 0 ∧ dAt 3 cs = 1 ∧ tot cs = 1 := by decide

/-- non-vacuity of the level-sum form: the two configurations tie at the user level 3 (one prioritised item each way is
    not the case here: nobody differs there), differ at the helper level 2 — `y` needs the non-default branch, `x` does
    not — and `x` pays two more plain selections for it: `x` still wins, and no optimal configuration does worse than `y` at
    level 2 -/
example :
    let cs : List Col := [⟨3, 6, 0⟩, ⟨2, 3, 1⟩, ⟨1, 1, -1⟩, ⟨1, 1, -1⟩]
    dominates cs = true ∧ (∀ l', 2 < l' → dAt l' cs = 0) ∧ dAt 2 cs = 1 ∧ 0 < tot cs := by
  intro cs
  refine ⟨by decide, ?_, by decide, by decide⟩
  intro l' h
  by_cases h3 : l' = 3
  · subst h3; decide
  · have : cs.filter (fun c => c.lev = l') = [] := by
      apply List.filter_eq_nil_iff.2
      intro c hc
      simp only [cs, List.mem_cons, List.not_mem_nil, or_false] at hc
      rcases hc with rfl | rfl | rfl | rfl <;> simp <;> omega
    simp [dAt, this]

/-! ## The default restructuring does not change what a rule means

`cc.Any(*alts, default=d)` is held as `Any(d, H)` with the helper `H = Any(non-default alternatives)` tagged −2, and
`cc.Xor(*alts, default=d)` replaces the "at least one" half of the Xor by such a `cc.Any`.  Whatever the default, the rule
still says "at least one" / "exactly one" of its alternatives (over alternatives whose values are not negative — items are
boolean): the defaults only enter the objective (theorems above), never the feasible set. -/

section ccsemantics
open P

theorem evalPt_setDflt (σ) (p : P) (d) : evalPt σ (setDflt p d) = evalPt σ p := by
  cases p <;> simp [setDflt, evalPt]

theorem evalPt_setPrio (σ) (p : P) (q) : evalPt σ (setPrio p q) = evalPt σ p := by
  cases p <;> simp [setPrio, evalPt]

theorem sum_filter_split (σ) (f : Bool × P → Bool) : ∀ l : List (Bool × P),
    sumPt σ (l.map (·.2)) = sumPt σ ((l.filter f).map (·.2)) + sumPt σ ((l.filter (fun x => !f x)).map (·.2))
  | [] => by simp [sumPt]
  | x :: l => by
      have ih := sum_filter_split σ f l
      cases hf : f x <;> simp [List.filter_cons, hf, sumPt, ih] <;> omega

theorem filter_perm_split (f : Bool × P → Bool) : ∀ l : List (Bool × P),
    ((l.filter f).map (·.2) ++ (l.filter (fun x => !f x)).map (·.2)).Perm (l.map (·.2))
  | [] => by simp
  | x :: l => by
      have ih := filter_perm_split f l
      cases hf : f x
      · simp only [List.filter_cons, hf, Bool.not_false, if_true, Bool.false_eq_true, if_false, List.map_cons]
        exact (List.perm_middle).trans (List.Perm.cons _ ih)
      · simp only [List.filter_cons, hf, Bool.not_true, if_true, Bool.false_eq_true, if_false, List.map_cons, List.cons_append]
        exact List.Perm.cons _ ih

theorem sum_nonneg_of (σ) : ∀ l : List P, (∀ k ∈ l, 0 ≤ evalPt σ k) → 0 ≤ sumPt σ l
  | [], _ => by simp [sumPt]
  | k :: l, h => by
      have := sum_nonneg_of σ l (fun x hx => h x (by simp [hx]))
      have := h k (by simp)
      simp only [sumPt]; omega

/-- `cc.Any` with or without a default: true iff at least one alternative is true -/
theorem evalPt_mkCcAny (σ) (args : List (Bool × P)) (dflt) (oid) (hnn : ∀ k ∈ args.map (·.2), 0 ≤ evalPt σ k) :
    evalPt σ (mkCcAny args dflt oid) = if sumPt σ (args.map (·.2)) ≥ 1 then 1 else 0 := by
  have hp : evalPt σ (setDflt (mkAny args oid .ccAny) dflt) = if sumPt σ (args.map (·.2)) ≥ 1 then 1 else 0 := by
    rw [evalPt_setDflt, C04.evalPt_mkAny]
  unfold mkCcAny
  cases dflt with
  | nil => exact hp
  | cons d ds =>
      obtain ⟨d1, d2⟩ := d
      simp only
      split
      · exact hp
      · split
        · exact hp
        · rw [evalPt_setDflt, C04.evalPt_mkAny]
          simp only [List.map_append, List.map_cons, List.map_nil, P.sumPt_append, sumPt, evalPt_setPrio, C04.evalPt_mkAny]
          have hsplit := sum_filter_split σ (fun x : Bool × P => x.2.isLeaf && x.2.id == d1) args
          have h1 : 0 ≤ sumPt σ ((args.filter (fun x : Bool × P => x.2.isLeaf && x.2.id == d1)).map (·.2)) :=
            sum_nonneg_of σ _ (fun k hk => by
              obtain ⟨x, hx, rfl⟩ := List.mem_map.1 hk
              exact hnn _ (List.mem_map.2 ⟨x, (List.mem_filter.1 hx).1, rfl⟩))
          have h2 : 0 ≤ sumPt σ ((args.filter (fun x : Bool × P => !(x.2.isLeaf && x.2.id == d1))).map (·.2)) :=
            sum_nonneg_of σ _ (fun k hk => by
              obtain ⟨x, hx, rfl⟩ := List.mem_map.1 hk
              exact hnn _ (List.mem_map.2 ⟨x, (List.mem_filter.1 hx).1, rfl⟩))
          rw [hsplit]
          split <;> split <;> split <;> omega

theorem sum_replaceFirst (σ) (pred : P → Bool) (f : P → P) : ∀ ks : List P,
    (∀ k ∈ ks, pred k = true → evalPt σ (f k) = evalPt σ k) → sumPt σ (replaceFirst ks pred f) = sumPt σ ks
  | [], _ => by simp [replaceFirst]
  | k :: r, h => by
      unfold replaceFirst
      split
      · rename_i hp
        simp only [sumPt, h k (by simp) hp]
      · simp only [sumPt, sum_replaceFirst σ pred f r (fun x hx => h x (by simp [hx]))]

/-- the node `Xor(*args)` builds: value 2 over its two halves (in the order their ids sort) -/
theorem mkXor_node (args : List (Bool × P)) (oid) (cls) :
    ∃ i b m, mkXor args oid cls = .node i b 1 2
      (sortById [mkAtLeast 1 (orderArgs args) none none, mkAtMost 1 (orderArgs args) none]) m := by
  have hd : distinctCount [(false, mkAtLeast 1 (orderArgs args) none none), (false, mkAtMost 1 (orderArgs args) none)] = 2 :=
    C04.distinct_two _ _ (C04.xor_halves_differ _)
  have ho : orderArgs [(false, mkAtLeast 1 (orderArgs args) none none), (false, mkAtMost 1 (orderArgs args) none)] =
      [mkAtLeast 1 (orderArgs args) none none, mkAtMost 1 (orderArgs args) none] := by simp [orderArgs]
  unfold mkXor mkAll
  generalize mkAtLeast 1 (orderArgs args) none none = L at *
  generalize mkAtMost 1 (orderArgs args) none = M at *
  rw [ho, hd]
  unfold mkAtLeast
  cases varOf oid with
  | none => exact ⟨_, _, _, rfl⟩
  | some x => exact ⟨_, _, _, rfl⟩

/-- `cc.Xor` with or without a default: true iff exactly one alternative is true -/
theorem evalPt_mkCcXor (σ) (args : List (Bool × P)) (dflt) (oid) (hnn : ∀ k ∈ args.map (·.2), 0 ≤ evalPt σ k) :
    evalPt σ (mkCcXor args dflt oid) = if sumPt σ (args.map (·.2)) = 1 then 1 else 0 := by
  have hX : evalPt σ (setDflt (mkXor args oid .ccXor) dflt) = if sumPt σ (args.map (·.2)) = 1 then 1 else 0 := by
    rw [evalPt_setDflt, C04.evalPt_mkXor]
  unfold mkCcXor
  cases dflt with
  | nil => exact hX
  | cons d ds =>
      obtain ⟨i, b, m, hx⟩ := mkXor_node args oid .ccXor
      rw [hx] at hX ⊢
      simp only [setDflt] at hX ⊢
      rw [← hX]
      simp only [evalPt]
      rw [sum_replaceFirst]
      intro k hk hp
      have hk' : k ∈ [mkAtLeast 1 (orderArgs args) none none, mkAtMost 1 (orderArgs args) none] :=
        (sortById_perm _).mem_iff.1 hk
      simp only [List.mem_cons, List.not_mem_nil, or_false] at hk'
      rcases hk' with rfl | rfl
      · -- the "at least one" half becomes a cc.Any over the same alternatives
        have hkids : (mkAtLeast 1 (orderArgs args) none none).kids = sortById (orderArgs args) := by simp [mkAtLeast, P.kids]
        rw [hkids]
        have hmap : ((sortById (orderArgs args)).map (fun c => ((false : Bool), c))).map (·.2) = sortById (orderArgs args) := by
          generalize sortById (orderArgs args) = l
          induction l with
          | nil => rfl
          | cons x l ih => simp [ih]
        have hnn' : ∀ k ∈ ((sortById (orderArgs args)).map (fun c => ((false : Bool), c))).map (·.2), 0 ≤ evalPt σ k := by
          rw [hmap]
          intro k hk
          exact hnn k ((C04.orderArgs_perm args).mem_iff.1 ((sortById_perm _).mem_iff.1 hk))
        rw [evalPt_mkCcAny σ _ _ _ hnn', hmap, evalPt_mkAtLeast]
        simp [sgnOf, P.sumPt_sort]
      · -- the "at most one" half has threshold −1: it is not the one that is replaced
        simp [mkAtMost, mkAtLeast, isLeaf] at hp


theorem mkCcAny_node_cls (args : List (Bool × P)) (dflt) (oid) :
    ∃ i b s v ks m, mkCcAny args dflt oid = .node i b s v ks m ∧ m.cls = .ccAny := by
  have hp : ∀ a, ∃ i b s v ks m, setDflt (mkAny a oid .ccAny) dflt = .node i b s v ks m ∧ m.cls = .ccAny := by
    intro a
    unfold mkAny mkAtLeast
    cases varOf oid <;> exact ⟨_, _, _, _, _, _, rfl, rfl⟩
  unfold mkCcAny
  cases dflt with
  | nil => exact hp args
  | cons d ds =>
      obtain ⟨d1, d2⟩ := d
      simp only
      split
      · exact hp args
      · split
        · exact hp args
        · exact hp _

/-- non-vacuity: the hypothesis of `evalPt_mkCcXor` holds for boolean items under a 0/1 assignment -/
example : ∀ k ∈ ([((false : Bool), P.leaf "a" ⟨0,1⟩), (false, P.leaf "b" ⟨0,1⟩), (false, P.leaf "c" ⟨0,1⟩)]).map (·.2),
    0 ≤ evalPt (fun i => if i = "b" then 1 else 0) k := by
  intro k hk
  simp only [List.map_cons, List.map_nil, List.mem_cons, List.not_mem_nil, or_false] at hk
  rcases hk with rfl | rfl | rfl <;> simp [evalPt]

/-! ### … so the configurator's rule classes have the truth functions of their plog counterparts (C04 for cc classes) -/

theorem okL_mem (σ) : ∀ as : List Ast, C04.OkL σ as → ∀ a ∈ as, C04.Ok σ a
  | [], _, a, h => by simp at h
  | x :: as, h, a, ha => by
      have ⟨h1, h2⟩ : C04.Ok σ x ∧ C04.OkL σ as := by simpa [C04.OkL] using h
      rcases List.mem_cons.1 ha with rfl | ha
      · exact h1
      · exact okL_mem σ as h2 a ha

theorem buildL_snd' : ∀ as : List Ast, (Ast.buildL as).map (·.2) = as.map Ast.build
  | [] => by simp [Ast.buildL]
  | a :: as => by simp [Ast.buildL, buildL_snd' as]

theorem built_nonneg (σ) (as : List Ast) (h : C04.OkL σ as) : ∀ k ∈ (Ast.buildL as).map (·.2), 0 ≤ evalPt σ k := by
  rw [buildL_snd']
  intro k hk
  obtain ⟨a, ha, rfl⟩ := List.mem_map.1 hk
  have ⟨h1, _, h3, _⟩ := C04.build_inv σ a (okL_mem σ as h a ha)
  rw [h1]; rcases h3 with h | h <;> omega

/-- `cc.Any(*args, default=…)` over well-formed arguments: true iff at least one argument is true -/
theorem ccAny_truth (σ : String → Int) (as : List Ast) (dflt) (oid) (h : C04.OkL σ as) :
    evalPt σ (Ast.ccAny as dflt oid).build = if C04.truthSum σ as ≥ 1 then 1 else 0 := by
  have ⟨i1, _, _, _⟩ := C04.buildL_inv σ as h
  simp only [Ast.build]
  rw [evalPt_mkCcAny σ _ _ _ (built_nonneg σ as h), i1]

/-- `cc.Xor(*args, default=…)` over well-formed arguments: true iff exactly one argument is true -/
theorem ccXor_truth (σ : String → Int) (as : List Ast) (dflt) (oid) (h : C04.OkL σ as) :
    evalPt σ (Ast.ccXor as dflt oid).build = if C04.truthSum σ as = 1 then 1 else 0 := by
  have ⟨i1, _, _, _⟩ := C04.buildL_inv σ as h
  simp only [Ast.build]
  rw [evalPt_mkCcXor σ _ _ _ (built_nonneg σ as h), i1]

/-- `StingyConfigurator(*rules)` over well-formed, pairwise distinct rules: holds iff every rule holds -/
theorem stingy_truth (σ : String → Int) (as : List Ast) (oid) (h : C04.OkL σ as)
    (hd : distinctCount (Ast.buildL as) = as.length) :
    evalPt σ (Ast.stingy as oid).build = if C04.truthSum σ as = as.length then 1 else 0 := by
  have ⟨i1, _, i3, i4⟩ := C04.buildL_inv σ as h
  simp only [Ast.build]
  rw [C04.evalPt_mkAll σ _ oid .stingy (by rw [hd, i4]) (by rw [i1, i4]; exact i3), i1, i4]

end ccsemantics


/-! ## … and how the defaults reach the objective

`default_prios` reads the `prio` tag of every flattened sub-proposition (−1 where there is none).  The only tag the
constructors set is the −2 on the helper that `cc.Any(…, default=d)` puts around the NON-default alternatives; the helper
holds exactly when some non-default alternative is selected.  So its column — at level "default magnitude 2", above every
plain column and below every user priority (`level_order`) — is what makes a configuration that stays with the default
beat one that leaves it, all user priorities being equal (`configurator_objective_lex`). -/

section defaults
open P

theorem dedup_nodup : ∀ l : List (String × Int), (l.map (·.1)).Nodup → Lex.defaultPrios.dedup l = l
  | [], _ => by unfold Lex.defaultPrios.dedup; rfl
  | [x], _ => by unfold Lex.defaultPrios.dedup; rfl
  | x :: y :: r, h => by
      have hne : x.1 ≠ y.1 := by
        intro he
        have := (List.nodup_cons.1 h).1
        simp [he] at this
      have ih := dedup_nodup (y :: r) (List.nodup_cons.1 h).2
      unfold Lex.defaultPrios.dedup
      rw [if_neg hne, ih]

theorem dedup_sub : ∀ (l : List (String × Int)) (x : String × Int), x ∈ Lex.defaultPrios.dedup l → x ∈ l
  | [], x, h => by unfold Lex.defaultPrios.dedup at h; exact h
  | [a], x, h => by unfold Lex.defaultPrios.dedup at h; exact h
  | a :: b :: r, x, h => by
      unfold Lex.defaultPrios.dedup at h
      split at h
      · have := dedup_sub (a :: r) x h
        rcases List.mem_cons.1 this with rfl | hr
        · simp
        · simp [hr]
      · rcases List.mem_cons.1 h with rfl | hr
        · simp
        · exact List.mem_cons.2 (Or.inr (dedup_sub (b :: r) x hr))
termination_by l => l.length

theorem dedup_head : ∀ (a : String × Int) (r : List (String × Int)), ∃ r', Lex.defaultPrios.dedup (a :: r) = a :: r'
  | a, [] => ⟨[], by unfold Lex.defaultPrios.dedup; rfl⟩
  | a, b :: r => by
      unfold Lex.defaultPrios.dedup
      split
      · exact dedup_head a r
      · exact ⟨_, rfl⟩
termination_by a r => r.length

theorem dedup_cover : ∀ (l : List (String × Int)) (x : String × Int), x ∈ l → ∃ y ∈ Lex.defaultPrios.dedup l, y.1 = x.1
  | [], x, h => by simp at h
  | [a], x, h => by
      unfold Lex.defaultPrios.dedup
      simp only [List.mem_singleton] at h ⊢
      exact ⟨a, rfl, by rw [h]⟩
  | a :: b :: r, x, h => by
      unfold Lex.defaultPrios.dedup
      split
      · rename_i hab
        rcases List.mem_cons.1 h with rfl | hr
        · exact dedup_cover (x :: r) x (by simp)
        · rcases List.mem_cons.1 hr with rfl | hr'
          · obtain ⟨y, hy, hyk⟩ := dedup_cover (a :: r) a (by simp)
            exact ⟨y, hy, hyk.trans hab⟩
          · exact dedup_cover (a :: r) x (List.mem_cons.2 (Or.inr hr'))
      · rcases List.mem_cons.1 h with rfl | hr
        · exact ⟨x, by simp, rfl⟩
        · obtain ⟨y, hy, hyk⟩ := dedup_cover (b :: r) x hr
          exact ⟨y, List.mem_cons.2 (Or.inr hy), hyk⟩
termination_by l => l.length

/-- **`default_prios` in general** (no distinctness assumed): every entry is the id and tag of some sub-proposition, every
    sub-proposition's id has an entry, and the entry of the smallest id is that of the FIRST sub-proposition carrying it in
    the flattened order (`dedup_head`) — of several equal sub-propositions the first one met decides, as in `flatten()` -/
theorem defaultPrios_sound_cover (t : P) :
    (∀ x ∈ Lex.defaultPrios t, ∃ p ∈ subs t, x = (p.id, p.mt.prio.getD (-1))) ∧
    (∀ p ∈ subs t, ∃ y ∈ Lex.defaultPrios t, y.1 = p.id) := by
  unfold Lex.defaultPrios
  simp only
  constructor
  · intro x hx
    have := dedup_sub _ x hx
    obtain ⟨p, hp, rfl⟩ := List.mem_map.1 this
    exact ⟨p, (sortById_perm _).mem_iff.1 hp, rfl⟩
  · intro p hp
    exact dedup_cover _ (p.id, p.mt.prio.getD (-1)) (List.mem_map.2 ⟨p, (sortById_perm _).mem_iff.2 hp, rfl⟩)

/-- **what `default_prios` is**, for a configurator whose flattened ids are pairwise distinct: one entry per
    sub-proposition — its `prio` tag, −1 where it has none -/
theorem defaultPrios_spec (t : P) (hnd : ((sortById (subs t)).map (·.id)).Nodup) (x : String × Int) :
    x ∈ Lex.defaultPrios t ↔ ∃ p ∈ subs t, x = (p.id, p.mt.prio.getD (-1)) := by
  unfold Lex.defaultPrios
  simp only
  rw [dedup_nodup _ (by simpa [List.map_map, Function.comp_def] using hnd)]
  constructor
  · intro h
    obtain ⟨p, hp, rfl⟩ := List.mem_map.1 h
    exact ⟨p, (sortById_perm _).mem_iff.1 hp, rfl⟩
  · rintro ⟨p, hp, rfl⟩
    exact List.mem_map.2 ⟨p, (sortById_perm _).mem_iff.2 hp, rfl⟩

/-- **the helper of a defaulted `cc.Any`**: when the default names one of several alternatives, the node holds the default
    alternative(s) and ONE further child `H`, tagged −2, which is true exactly when some non-default alternative is -/
theorem ccAny_default_helper (args : List (Bool × P)) (d1 : String) (d2 : Bnd) (ds) (oid)
    (h1 : ¬ args.length ≤ 1)
    (h2 : ¬ (((args.filter (fun x => !(x.2.isLeaf && x.2.id == d1))).length == args.length ||
        (args.filter (fun x => !(x.2.isLeaf && x.2.id == d1))).length == 0) = true)) :
    ∃ H, H ∈ (mkCcAny args ((d1, d2) :: ds) oid).kids ∧ H.mt.prio = some (-2) ∧ H.isLeaf = false ∧
      (∀ σ, evalPt σ H =
        if sumPt σ ((args.filter (fun x => !(x.2.isLeaf && x.2.id == d1))).map (·.2)) ≥ 1 then 1 else 0) ∧
      ∀ k ∈ (mkCcAny args ((d1, d2) :: ds) oid).kids, k = H ∨
        k ∈ (args.filter (fun x => x.2.isLeaf && x.2.id == d1)).map (·.2) := by
  have hform : mkCcAny args ((d1, d2) :: ds) oid =
      setDflt (mkAny (args.filter (fun x => x.2.isLeaf && x.2.id == d1) ++
        [(false, setPrio (mkAny (args.filter (fun x => !(x.2.isLeaf && x.2.id == d1))) none) (-2))]) oid .ccAny)
        ((d1, d2) :: ds) := by
    simp only [mkCcAny, h1, if_false]
    rw [if_neg h2]
  have hkids : (mkCcAny args ((d1, d2) :: ds) oid).kids =
      sortById (orderArgs (args.filter (fun x => x.2.isLeaf && x.2.id == d1) ++
        [(false, setPrio (mkAny (args.filter (fun x => !(x.2.isLeaf && x.2.id == d1))) none) (-2))])) := by
    rw [hform]
    unfold mkAny mkAtLeast
    cases varOf oid <;> simp [setDflt, P.kids]
  refine ⟨setPrio (mkAny (args.filter (fun x => !(x.2.isLeaf && x.2.id == d1))) none) (-2), ?_, ?_, ?_, ?_, ?_⟩
  · rw [hkids]
    exact (sortById_perm _).mem_iff.2 ((C04.orderArgs_perm _).mem_iff.2 (by simp))
  · simp [mkAny, mkAtLeast, varOf, setPrio, P.mt]
  · simp [mkAny, mkAtLeast, varOf, setPrio, isLeaf]
  · intro σ
    rw [evalPt_setPrio, C04.evalPt_mkAny]
  · intro k hk
    rw [hkids] at hk
    have := (C04.orderArgs_perm _).mem_iff.1 ((sortById_perm _).mem_iff.1 hk)
    rw [List.map_append] at this
    rcases List.mem_append.1 this with h | h
    · exact Or.inr h
    · left; simpa using h

theorem self_mem_subs (p : P) : p ∈ subs p := by cases p <;> simp [subs]

theorem kid_mem_subsL : ∀ (ks : List P) (k : P), k ∈ ks → k ∈ subsL ks
  | [], _, h => by simp at h
  | x :: r, k, h => by
      simp only [subsL, List.mem_append]
      rcases List.mem_cons.1 h with rfl | h
      · exact Or.inl (self_mem_subs _)
      · exact Or.inr (kid_mem_subsL r k h)

theorem kid_mem_subs (t k : P) (h : k ∈ t.kids) : k ∈ subs t := by
  cases t with
  | leaf => simp [P.kids] at h
  | node i b s v ks m => simp only [subs, List.mem_cons]; exact Or.inr (kid_mem_subsL ks k (by simpa [P.kids] using h))

/-- **the default reaches the objective through one column**: in `default_prios` of a defaulted `cc.Any` (flattened ids
    pairwise distinct) the helper — true exactly when a non-default alternative is selected — carries −2 -/
theorem ccAny_default_prio (args : List (Bool × P)) (d1 : String) (d2 : Bnd) (ds) (oid)
    (h1 : ¬ args.length ≤ 1)
    (h2 : ¬ (((args.filter (fun x => !(x.2.isLeaf && x.2.id == d1))).length == args.length ||
        (args.filter (fun x => !(x.2.isLeaf && x.2.id == d1))).length == 0) = true))
    (hnd : ((sortById (subs (mkCcAny args ((d1, d2) :: ds) oid))).map (·.id)).Nodup) :
    ∃ H, (H.id, -2) ∈ Lex.defaultPrios (mkCcAny args ((d1, d2) :: ds) oid) ∧
      ∀ σ, evalPt σ H =
        if sumPt σ ((args.filter (fun x => !(x.2.isLeaf && x.2.id == d1))).map (·.2)) ≥ 1 then 1 else 0 := by
  obtain ⟨H, hk, hp, _, hev, _⟩ := ccAny_default_helper args d1 d2 ds oid h1 h2
  refine ⟨H, (defaultPrios_spec _ hnd _).2 ⟨H, kid_mem_subs _ _ hk, ?_⟩, hev⟩
  rw [hp]; rfl

theorem replaced_mem (pred : P → Bool) (f : P → P) : ∀ (ks : List P) (k : P), k ∈ ks → pred k = true →
    (∀ k' ∈ ks, pred k' = true → k' = k) → f k ∈ replaceFirst ks pred f
  | [], _, h, _, _ => by simp at h
  | x :: r, k, h, hp, hu => by
      unfold replaceFirst
      by_cases hx : pred x = true
      · have : x = k := hu x (by simp) hx
        subst this
        simp [hx]
      · rw [if_neg hx]
        rcases List.mem_cons.1 h with rfl | h
        · exact absurd hp hx
        · exact List.mem_cons.2 (Or.inr (replaced_mem pred f r k h hp (fun k' hk' => hu k' (by simp [hk']))))

/-- **the helper of a defaulted `cc.Xor`**: its "at least one" half is a `cc.Any` with the same default around the same
    alternatives, so (when the default names one of several alternatives) the rule holds, two levels down, ONE node `H`
    tagged −2 that is true exactly when some non-default alternative is -/
theorem ccXor_default_helper (args : List (Bool × P)) (d1 : String) (d2 : Bnd) (ds) (oid)
    (h1 : ¬ ((sortById (orderArgs args)).map (fun c => ((false : Bool), c))).length ≤ 1)
    (h2 : ¬ (((((sortById (orderArgs args)).map (fun c => ((false : Bool), c))).filter
          (fun x => !(x.2.isLeaf && x.2.id == d1))).length ==
          ((sortById (orderArgs args)).map (fun c => ((false : Bool), c))).length ||
        (((sortById (orderArgs args)).map (fun c => ((false : Bool), c))).filter
          (fun x => !(x.2.isLeaf && x.2.id == d1))).length == 0) = true)) :
    ∃ A ∈ (mkCcXor args ((d1, d2) :: ds) oid).kids, ∃ H ∈ A.kids, H.mt.prio = some (-2) ∧
      ∀ σ, evalPt σ H = if sumPt σ ((((sortById (orderArgs args)).map (fun c => ((false : Bool), c))).filter
          (fun x => !(x.2.isLeaf && x.2.id == d1))).map (·.2)) ≥ 1 then 1 else 0 := by
  obtain ⟨i, b, m, hx⟩ := mkXor_node args oid .ccXor
  obtain ⟨H, hH, hp, _, hev, _⟩ := ccAny_default_helper ((sortById (orderArgs args)).map (fun c => ((false : Bool), c))) d1 d2 ds
    (some (mkAtLeast 1 (orderArgs args) none none).id) h1 h2
  refine ⟨mkCcAny ((sortById (orderArgs args)).map (fun c => ((false : Bool), c))) ((d1, d2) :: ds)
    (some (mkAtLeast 1 (orderArgs args) none none).id), ?_, H, hH, hp, hev⟩
  unfold mkCcXor
  rw [hx]
  simp only [setDflt]
  show _ ∈ replaceFirst _ _ _
  have hL : mkAtLeast 1 (orderArgs args) none none ∈ sortById [mkAtLeast 1 (orderArgs args) none none, mkAtMost 1 (orderArgs args) none] :=
    (sortById_perm _).mem_iff.2 (by simp)
  have hkids : (mkAtLeast 1 (orderArgs args) none none).kids = sortById (orderArgs args) := by simp [mkAtLeast, P.kids]
  have := replaced_mem (fun k => !k.isLeaf && (match k with | .node _ _ _ w _ _ => w == 1 | _ => false))
    (fun k => mkCcAny (k.kids.map (fun c => (false, c))) ((d1, d2) :: ds) (some k.id)) _ _ hL
    (by simp [mkAtLeast, isLeaf])
    (by
      intro k' hk' hp'
      have : k' = mkAtLeast 1 (orderArgs args) none none ∨ k' = mkAtMost 1 (orderArgs args) none := by
        simpa using (sortById_perm _).mem_iff.1 hk'
      rcases this with rfl | rfl
      · rfl
      · simp [mkAtMost, mkAtLeast, isLeaf] at hp')
  rw [hkids] at this
  exact this

/-- non-vacuity: `cc.Any(a, b, c, default=a)` meets the hypotheses of `ccAny_default_helper` -/
example :
    let args : List (Bool × P) := [(true, .leaf "a" ⟨0, 1⟩), (true, .leaf "b" ⟨0, 1⟩), (true, .leaf "c" ⟨0, 1⟩)]
    (¬ args.length ≤ 1) ∧
    ¬ (((args.filter (fun x => !(x.2.isLeaf && x.2.id == "a"))).length == args.length ||
        (args.filter (fun x => !(x.2.isLeaf && x.2.id == "a"))).length == 0) = true) := by
  decide

end defaults

end Puan.C14
