/-
  C07 — assuming values is equivalent to evaluating with them.
  (About `assume` as repaired by the `fix:` commit for defect D6: only sub-propositions
  that came out constant are replaced by their bare variable.)
-/
import Puan.Lemmas.Assume
namespace Puan.C07
open Puan P

/-- For any assumption `A` (leaves and/or sub-proposition ids, constants or ranges) and any
    further interpretation `I` of leaves that `A` left open (values inside their declared
    bounds), the model returned by `assume A` evaluates on `I` to what the original model
    evaluates to on the union of both dictionaries. -/
theorem assume_evaluate (A I : Interp) (t : P) (hA : IWf A) (hI : IWf I)
    (hs : SignOk t) (hd : DeclWf t) (hr : Rest A I t) :
    evalB I (assume A t) = evalB (Interp.union A I) t :=
  P.assume_evaluate A I hA hI t hs hd hr

/-- Variables not mentioned keep bounds that still contain every value they can take:
    the bounds of the assumed model contain its value under every completion. -/
theorem assume_bounds_contain (A : Interp) (σ : String → Int) (t : P) (hs : SignOk t) (hc : Compl A σ t) :
    Bnd.mem (evalOv A σ t) (assume A t).bnd := sound A σ t hs hc

/-- non-vacuity / regression witness of defect D6: a range assumed for a sub-proposition id -/
example :
    let t : P := .node "T" ⟨0,1⟩ 1 2 [.node "B" ⟨0,1⟩ 1 1 [.leaf "x" ⟨0,1⟩, .leaf "y" ⟨0,1⟩] {}, .leaf "z" ⟨0,1⟩] {}
    let A : Interp := Interp.ofList [("B", ⟨0,1⟩)]
    let I : Interp := Interp.ofList [("x", ⟨1,1⟩), ("z", ⟨1,1⟩)]
    evalB (Interp.union A I) t = ⟨1, 1⟩ ∧ Rest A I t ∧ IWf A := by
  refine ⟨by decide, by simp [Rest, RestL, Interp.ofList, List.lookup, Bnd.sub], ?_⟩
  intro i b h
  simp only [Interp.ofList, List.lookup] at h
  split at h
  · cases h; simp [Bnd.wf]
  · cases h

end Puan.C07
