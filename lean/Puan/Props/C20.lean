/-
  C20 — id/position bridges are faithful.
-/
import Puan.Model.Bridge
namespace Puan.C20
open Puan Bridge

/-- Building a vector from an id→value dictionary puts each given value at the column of the
    variable with that id and fills the rest with the declared default; unknown ids are ignored
    (they are never looked up). -/
theorem construct_get (vars : List (String × Bnd)) (dict : List (String × Int)) (d : Dflt) (j : Nat) :
    (construct vars dict d)[j]? = (vars[j]?).map (entry dict d) := by
  simp [construct, List.getElem?_map]

/-- a given value wins; otherwise the declared default (callable result, lower bound, or NaN) -/
theorem entry_spec (dict : List (String × Int)) (d : Dflt) (i : String) (b : Bnd) :
    (∀ x, dict.lookup i = some x → entry dict d (i, b) = some x) ∧
    (dict.lookup i = none → entry dict d (i, b) = fill d b) := by
  constructor
  · intro x h; simp [entry, h]
  · intro h; simp [entry, h]

theorem construct_length (vars dict d) : (construct vars dict d).length = vars.length := by
  simp [construct]

/-- boolean list conversion marks exactly the listed ids -/
theorem fromListBool_get (lst ctx : List String) (j : Nat) (x : String) (h : ctx[j]? = some x) :
    (fromListBool lst ctx)[j]? = some (if x ∈ lst then 1 else 0) := by
  simp [fromListBool, List.getElem?_map, h]

/-- integer list conversion marks the listed ids with their 1-based first position -/
theorem fromListInt_get (lst ctx : List String) (j : Nat) (x : String) (h : ctx[j]? = some x) :
    (fromListInt lst ctx)[j]? = some (if x ∈ lst then 1 + (lst.idxOf x : Int) else 0) := by
  simp [fromListInt, List.getElem?_map, h]

theorem idxOf_first : ∀ (lst : List String) (x : String), x ∈ lst →
    lst[lst.idxOf x]? = some x ∧ ∀ k : Nat, k < lst.idxOf x → lst[k]? ≠ some x
  | [], x, h => by simp at h
  | y :: l, x, h => by
      by_cases hy : y = x
      · subst hy; simp
      · have hx : x ∈ l := by
          rcases List.mem_cons.1 h with h | h
          · exact absurd h.symm hy
          · exact h
        have ih := idxOf_first l x hx
        have hne : (y == x) = false := by simpa using hy
        simp only [List.idxOf_cons, hne, cond_false]
        constructor
        · simpa using ih.1
        · intro k hk
          cases k with
          | zero => simpa using hy
          | succ k => simpa using ih.2 k (by omega)

/-- `to_list` returns exactly the variables at the 1-entries -/
theorem toList_mem : ∀ (vec : List Int) (vars : List String) (x : String),
    x ∈ toList vec vars ↔ ∃ j : Nat, vec[j]? = some 1 ∧ vars[j]? = some x
  | [], vars, x => by simp [toList]
  | v :: vs, [], x => by simp [toList]
  | v :: vs, y :: ys, x => by
      have ih := toList_mem vs ys x
      by_cases hv : v = 1
      · simp only [toList, hv, if_true, List.mem_cons, ih]
        constructor
        · rintro (rfl | ⟨j, h1, h2⟩)
          · exact ⟨0, by simp, by simp⟩
          · exact ⟨j + 1, by simpa using h1, by simpa using h2⟩
        · rintro ⟨j, h1, h2⟩
          cases j with
          | zero => left; simpa using h2.symm
          | succ j => right; exact ⟨j, by simpa using h1, by simpa using h2⟩
      · simp only [toList, hv, if_false, ih]
        constructor
        · rintro ⟨j, h1, h2⟩; exact ⟨j + 1, by simpa using h1, by simpa using h2⟩
        · rintro ⟨j, h1, h2⟩
          cases j with
          | zero => simp at h1; exact absurd h1 hv
          | succ j => exact ⟨j, by simpa using h1, by simpa using h2⟩

theorem idxWhere_mem (pred : Bnd → Bool) : ∀ (bs : List Bnd) (s j : Nat),
    j ∈ idxWhere pred s bs ↔ s ≤ j ∧ ∃ b, bs[j - s]? = some b ∧ pred b = true
  | [], s, j => by simp [idxWhere]
  | b :: bs, s, j => by
      have ih := idxWhere_mem pred bs (s + 1) j
      by_cases hp : pred b = true
      · simp only [idxWhere, hp, if_true, List.mem_cons, ih]
        constructor
        · rintro (rfl | ⟨h1, c, h2, h3⟩)
          · exact ⟨Nat.le_refl _, b, by simp, hp⟩
          · refine ⟨by omega, c, ?_, h3⟩
            have : j - s = (j - (s + 1)) + 1 := by omega
            rw [this]; simpa using h2
        · rintro ⟨h1, c, h2, h3⟩
          by_cases hj : j = s
          · left; exact hj
          · right
            refine ⟨by omega, c, ?_, h3⟩
            have : j - s = (j - (s + 1)) + 1 := by omega
            rw [this] at h2; simpa using h2
      · simp only [idxWhere, hp, if_false, ih, Bool.false_eq_true]
        constructor
        · rintro ⟨h1, c, h2, h3⟩
          refine ⟨by omega, c, ?_, h3⟩
          have : j - s = (j - (s + 1)) + 1 := by omega
          rw [this]; simpa using h2
        · rintro ⟨h1, c, h2, h3⟩
          by_cases hj : j = s
          · subst hj; simp at h2; subst h2; exact absurd h3 hp
          · refine ⟨by omega, c, ?_, h3⟩
            have : j - s = (j - (s + 1)) + 1 := by omega
            rw [this] at h2; simpa using h2

/-- boolean and integer variable index sets partition the columns by whether bounds are (0,1) -/
theorem varIndices_partition (bs : List Bnd) (j : Nat) (b : Bnd) (h : bs[j]? = some b) :
    (j ∈ boolIdx bs ↔ (b.lo = 0 ∧ b.hi = 1)) ∧ (j ∈ intIdx bs ↔ ¬ (b.lo = 0 ∧ b.hi = 1)) ∧
    (j ∈ boolIdx bs ∨ j ∈ intIdx bs) ∧ ¬ (j ∈ boolIdx bs ∧ j ∈ intIdx bs) := by
  have hb : j ∈ boolIdx bs ↔ isBoolB b = true := by
    simp only [boolIdx, idxWhere_mem, Nat.zero_le, true_and, Nat.sub_zero, h, Option.some.injEq]
    constructor
    · rintro ⟨c, rfl, hc⟩; exact hc
    · intro hc; exact ⟨b, rfl, hc⟩
  have hi : j ∈ intIdx bs ↔ isBoolB b = false := by
    simp only [intIdx, idxWhere_mem, Nat.zero_le, true_and, Nat.sub_zero, h, Option.some.injEq]
    constructor
    · rintro ⟨c, rfl, hc⟩; simpa using hc
    · intro hc; exact ⟨b, rfl, by simpa using hc⟩
  have hiff : isBoolB b = true ↔ (b.lo = 0 ∧ b.hi = 1) := by simp [isBoolB]
  rw [hb, hi]
  cases hbb : isBoolB b <;> simp [hbb, ← hiff]

/-- a CONSTANT column — bounds (0,0) or (1,1), as `assume()` leaves them or as the support column is declared — is an integer
    column, not a boolean one: "boolean" means the bounds are exactly (0,1), not that the values lie in {0,1} -/
theorem const_column_is_integer (bs : List Bnd) (j : Nat) (b : Bnd) (h : bs[j]? = some b) (hc : b.lo = b.hi) :
    j ∈ intIdx bs ∧ ¬ j ∈ boolIdx bs := by
  have hp := varIndices_partition bs j b h
  have hnb : ¬ (b.lo = 0 ∧ b.hi = 1) := by intro hx; omega
  exact ⟨hp.2.1.2 hnb, fun hm => hnb (hp.1.1 hm)⟩

/-- indices beyond the columns are in neither set -/
theorem varIndices_range (bs : List Bnd) (j : Nat) (h : j ∈ boolIdx bs ∨ j ∈ intIdx bs) : j < bs.length := by
  rcases h with h | h
  · simp only [boolIdx, idxWhere_mem] at h
    obtain ⟨_, b, hb, _⟩ := h
    exact (List.getElem?_eq_some_iff.1 hb).1
  · simp only [intIdx, idxWhere_mem] at h
    obtain ⟨_, b, hb, _⟩ := h
    exact (List.getElem?_eq_some_iff.1 hb).1

/-- `A` and `b` are the row without, and its first entry -/
theorem splitRow_spec (c : Int) (r : List Int) : splitRow (c :: r) = (c, r) := rfl

/-- non-vacuity -/
example :
    construct [("x", ⟨0,1⟩), ("y", ⟨-2,3⟩), ("z", ⟨0,1⟩)] [("y", 2), ("q", 9)] .lower = [some 0, some 2, some 0] ∧
    fromListInt ["b", "a"] ["a", "b", "c"] = [2, 1, 0] ∧ toList [1, 0, 1] ["a", "b", "c"] = ["a", "c"] ∧
    boolIdx [⟨0,1⟩, ⟨-2,3⟩, ⟨0,1⟩] = [0, 2] ∧ intIdx [⟨0,1⟩, ⟨-2,3⟩, ⟨0,1⟩] = [1] := by decide

end Puan.C20
