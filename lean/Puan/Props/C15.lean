/-
  C15 — solver bridge: objectives, solutions and ids stay aligned.
-/
import Puan.Model.Solve
import Puan.Props.C02
namespace Puan.C15
open Puan Solve

/-- the objective entry at each column is the weight given for that column's id, else 0 -/
theorem objective_entry (cols : List ColInfo) (obj : List (String × Int)) (j : Nat) (c : ColInfo)
    (h : cols[j]? = some c) : (objectiveVec cols obj)[j]? = some ((obj.lookup c.id).getD 0) := by
  simp [objectiveVec, List.getElem?_map, h]

/-- **one objective vector per request**, and the vector of request `k` is built from request `k` alone: what the other
    requests of the same call say, or said before, has no part in it -/
theorem objectives_per_request (cols : List ColInfo) (objs : List (List (String × Int))) :
    (objectives cols objs).length = objs.length ∧
    ∀ k (h : k < objs.length), (objectives cols objs)[k]? = some (objectiveVec cols objs[k]) := by
  refine ⟨by simp [objectives], fun k h => ?_⟩
  simp [objectives, List.getElem?_map, List.getElem?_eq_getElem h]

/-- a column whose id the request does not name gets weight 0 -/
theorem objective_unnamed_zero (cols : List ColInfo) (obj : List (String × Int)) (j : Nat) (c : ColInfo)
    (hc : cols[j]? = some c) (hn : obj.lookup c.id = none) : (objectiveVec cols obj)[j]? = some 0 := by
  simp [objectiveVec, List.getElem?_map, hc, hn]

theorem objective_length (cols obj) : (objectiveVec cols obj).length = cols.length := by simp [objectiveVec]

/-- a returned vector is reported as a dictionary mapping each kept column's id to its value -/
theorem zipKeep_mem (keep : ColInfo → Bool) : ∀ (cols : List ColInfo) (sol : List Int) (i : String) (v : Int),
    (i, v) ∈ zipKeep keep cols sol ↔ ∃ j : Nat, ∃ c, cols[j]? = some c ∧ sol[j]? = some v ∧ c.id = i ∧ keep c = true
  | [], sol, i, v => by simp [zipKeep]
  | c :: cs, [], i, v => by simp [zipKeep]
  | c :: cs, x :: xs, i, v => by
      have ih := zipKeep_mem keep cs xs i v
      by_cases hk : keep c = true
      · simp only [zipKeep, hk, if_true, List.mem_cons, Prod.mk.injEq, ih]
        constructor
        · rintro (⟨rfl, rfl⟩ | ⟨j, c', h1, h2, h3, h4⟩)
          · exact ⟨0, c, by simp, by simp, rfl, hk⟩
          · exact ⟨j + 1, c', by simpa using h1, by simpa using h2, h3, h4⟩
        · rintro ⟨j, c', h1, h2, h3, h4⟩
          cases j with
          | zero => simp at h1 h2; subst h1; subst h2; left; exact ⟨h3.symm, rfl⟩
          | succ j => right; exact ⟨j, c', by simpa using h1, by simpa using h2, h3, h4⟩
      · simp only [zipKeep, hk, if_false, ih, Bool.false_eq_true]
        constructor
        · rintro ⟨j, c', h1, h2, h3, h4⟩
          exact ⟨j + 1, c', by simpa using h1, by simpa using h2, h3, h4⟩
        · rintro ⟨j, c', h1, h2, h3, h4⟩
          cases j with
          | zero => simp at h1; subst h1; exact absurd h4 hk
          | succ j => exact ⟨j, c', by simpa using h1, by simpa using h2, h3, h4⟩

/-- `solve`: leaves and explicitly named sub-propositions are always reported, generated helper
    variables only when asked for -/
theorem solve_keeps (cols sol iv i v) :
    (i, v) ∈ solveResult cols (some sol) iv ↔
      ∃ j : Nat, ∃ c, cols[j]? = some c ∧ sol[j]? = some v ∧ c.id = i ∧ (c.isLeaf = true ∨ c.gen = false ∨ iv = true) := by
  simp only [solveResult, zipKeep_mem, Bool.or_eq_true, Bool.not_eq_true']
  constructor <;> rintro ⟨j, c, h1, h2, h3, h4⟩ <;> refine ⟨j, c, h1, h2, h3, ?_⟩
  · rcases h4 with (h | h) | h <;> simp [h]
  · rcases h4 with h | h | h <;> simp [h]

/-- `select`: every column, or only leaf items with `only_leafs` -/
theorem select_keeps (cols sol ol i v) :
    (i, v) ∈ selectResult cols (some sol) ol ↔
      ∃ j : Nat, ∃ c, cols[j]? = some c ∧ sol[j]? = some v ∧ c.id = i ∧ (ol = false ∨ c.isLeaf = true) := by
  simp only [selectResult, zipKeep_mem, Bool.or_eq_true, Bool.not_eq_true']

/-- a `None` solution becomes an empty result -/
theorem none_gives_empty (cols iv ol) : solveResult cols none iv = [] ∧ selectResult cols none ol = [] := ⟨rfl, rfl⟩

/-- with an exact solver the reported solution is a point of the asserted polyhedron; for models
    in solver-safe form its leaf part satisfies the model (C02) -/
theorem exact_solver_valid (x : String → Int) (i b s v ks m)
    (hs : P.Safe (.node i b s v ks m)) (hf : P.Free01 (.node i b s v ks m)) (hb : P.Box x (.node i b s v ks m))
    (hr : ∀ r ∈ P.encode true (.node i b s v ks m), r.sat x) :
    P.evalPt x (.node i b s v ks m) = 1 := C02.sound_active x i b s v ks m hs hf hb hr

/-- non-vacuity -/
example :
    let cols : List ColInfo := [⟨"VARx", false, true⟩, ⟨"B", false, false⟩, ⟨"a", true, false⟩]
    objectiveVec cols [("a", 3), ("zz", 9)] = [0, 0, 3] ∧
    solveResult cols (some [1, 0, 1]) false = [("B", 0), ("a", 1)] ∧
    selectResult cols (some [1, 0, 1]) true = [("a", 1)] := by decide

end Puan.C15
