/-
  C13 — priority compression yields strictly dominating weights.
  Two layers of theorems.  (1) About the optimized bit allocation `oba` over an integer sequence (what
  puan-rspy computes; tied by op `oba`).  (2) About `shadow` itself in its key form `shadowSpec`
  (key of a column = row of its last non-zero entry, then magnitude): zeros kept, sign kept, equal
  keys equal magnitudes, strictly smaller key strictly smaller magnitude, and every magnitude = 1 + the
  sum of the magnitudes of all columns ranked strictly below it (`shadow_clauses`, `weight_dominates`,
  `weight_strict_mono`, `shadow_strictly_dominates`).  That `ndint_compress(method="shadow")` computes
  `shadowSpec` (1-D, 2-D on both axes, 3-D batches) is tied by the correspondence: the driver answers
  both with the model that mirrors the code's plumbing (`shadow2d`) and with `shadowSpec`, and both must
  equal the implementation's output.  (3) About `prio` in key form (`prioSpec`, `rankOf`): equal keys equal
  ranks, strictly smaller key strictly smaller rank, dense (rank = 1 + number of distinct keys below,
  at most the number of distinct keys), tied the same way; `rank` is compared as `ranking (prioSpec m)`.
  first / last / min / max are tied by the correspondence and judged by the oracle, not proved.
-/
import Puan.Model.Prio
import Puan.Lemmas.Shadow
namespace Puan.C13
open Puan Prio

def sum : List Int → Int
  | [] => 0
  | x :: xs => x + sum xs

theorem obaGo_cons (prev w total x : Int) (xs : List Int) :
    obaGo prev w total (x :: xs) =
      (if x = prev then w else total + 1) ::
        obaGo x (if x = prev then w else total + 1) (total + (if x = prev then w else total + 1)) xs := by
  by_cases h : x = prev
  · subst h; simp [obaGo]
  · simp [obaGo, h]

theorem obaGo_length : ∀ (xs : List Int) (prev w total : Int), (obaGo prev w total xs).length = xs.length
  | [], _, _, _ => rfl
  | x :: xs, prev, w, total => by rw [obaGo_cons]; simp [obaGo_length xs]

theorem oba_length (xs : List Int) : (oba xs).length = xs.length := by
  cases xs with
  | nil => rfl
  | cons x xs => simp [oba, obaGo_length]

/-- the running form: `w0` is the weight of the current run (value `x`), `T` the sum of all
    weights emitted so far including `w0` -/
theorem run_step : ∀ (xs : List Int) (x w0 T : Int) (i : Nat) (a b wa wb : Int),
    (x :: xs)[i]? = some a → (x :: xs)[i+1]? = some b →
    (w0 :: obaGo x w0 T xs)[i]? = some wa → (w0 :: obaGo x w0 T xs)[i+1]? = some wb →
    (b = a → wb = wa) ∧ (b ≠ a → wb = (T - w0) + sum ((w0 :: obaGo x w0 T xs).take (i+1)) + 1)
  | [], x, w0, T, i, a, b, wa, wb, _, h2, _, _ => by simp at h2
  | y :: r, x, w0, T, 0, a, b, wa, wb, h1, h2, h3, h4 => by
      rw [obaGo_cons] at h4
      simp at h1 h2 h3 h4
      subst h1; subst h2; subst h3
      constructor
      · intro e; simp [e] at h4; exact h4.symm
      · intro e; simp [e] at h4; rw [obaGo_cons]; simp [sum, e]; omega
  | y :: r, x, w0, T, i+1, a, b, wa, wb, h1, h2, h3, h4 => by
      rw [obaGo_cons] at h3 h4 ⊢
      have ih := run_step r y (if y = x then w0 else T + 1) (T + (if y = x then w0 else T + 1)) i a b wa wb
        (by simpa using h1) (by simpa using h2) (by simpa using h3) (by simpa using h4)
      refine ⟨ih.1, fun e => ?_⟩
      rw [ih.2 e]
      simp only [List.take_succ_cons, sum]
      omega

theorem run_pos : ∀ (xs : List Int) (x w0 T : Int), 1 ≤ w0 → 0 ≤ T → ∀ w ∈ obaGo x w0 T xs, 1 ≤ w
  | [], _, _, _, _, _, w, h => by simp [obaGo] at h
  | y :: r, x, w0, T, h0, hT, w, h => by
      rw [obaGo_cons] at h
      have hw1 : 1 ≤ (if y = x then w0 else T + 1) := by split <;> omega
      rcases List.mem_cons.1 h with rfl | h
      · exact hw1
      · exact run_pos r y _ _ hw1 (by omega) w h

/-- every weight is positive (so zeros and signs of the priorities can be restored) -/
theorem oba_pos (xs : List Int) : ∀ w ∈ oba xs, 1 ≤ w := by
  cases xs with
  | nil => simp [oba]
  | cons x xs =>
      intro w h
      simp only [oba, List.mem_cons] at h
      rcases h with rfl | h
      · exact Int.le_refl _
      · exact run_pos xs x 1 1 (Int.le_refl _) (by omega) w h

/-- equal consecutive priorities get equal weights -/
theorem oba_equal (xs : List Int) (i : Nat) (a wa wb : Int)
    (h1 : xs[i]? = some a) (h2 : xs[i+1]? = some a) (h3 : (oba xs)[i]? = some wa) (h4 : (oba xs)[i+1]? = some wb) :
    wb = wa := by
  cases xs with
  | nil => simp at h1
  | cons x xs => exact (run_step xs x 1 1 i a a wa wb h1 h2 h3 h4).1 rfl

/-- a new priority gets 1 + the sum of all weights of the earlier (lower) priorities, hence
    strictly more than that sum -/
theorem oba_dominates (xs : List Int) (i : Nat) (a b wa wb : Int)
    (h1 : xs[i]? = some a) (h2 : xs[i+1]? = some b) (hne : b ≠ a)
    (h3 : (oba xs)[i]? = some wa) (h4 : (oba xs)[i+1]? = some wb) :
    wb = sum ((oba xs).take (i+1)) + 1 ∧ wb > sum ((oba xs).take (i+1)) := by
  cases xs with
  | nil => simp at h1
  | cons x xs =>
      have := (run_step xs x 1 1 i a b wa wb h1 h2 h3 h4).2 hne
      simp only [oba] at *
      omega

theorem sum_nonneg_of_pos : ∀ l : List Int, (∀ w ∈ l, 1 ≤ w) → 0 ≤ sum l
  | [], _ => by simp [sum]
  | x :: xs, h => by
      have := sum_nonneg_of_pos xs (fun w hw => h w (by simp [hw]))
      have := h x (by simp)
      simp only [sum]; omega

/-- weights never decrease along the sequence: later priorities weigh at least as much -/
theorem oba_mono (xs : List Int) (i : Nat) (a b wa wb : Int)
    (h1 : xs[i]? = some a) (h2 : xs[i+1]? = some b)
    (h3 : (oba xs)[i]? = some wa) (h4 : (oba xs)[i+1]? = some wb) : wa ≤ wb := by
  by_cases e : b = a
  · subst e; have := oba_equal xs i b wa wb h1 h2 h3 h4; omega
  · have hd := (oba_dominates xs i a b wa wb h1 h2 e h3 h4).1
    have hi : i < (oba xs).length := (List.getElem?_eq_some_iff.1 h3).1
    have hget : (oba xs)[i] = wa := (List.getElem?_eq_some_iff.1 h3).2
    have hsplit : (oba xs).take (i+1) = (oba xs).take i ++ [wa] := by
      rw [List.take_add_one, List.getElem?_eq_getElem hi, hget]; rfl
    have hsum : sum ((oba xs).take i ++ [wa]) = sum ((oba xs).take i) + wa := by
      generalize (oba xs).take i = l
      induction l with
      | nil => simp [sum]
      | cons y ys ih => simp [sum, ih]; omega
    have hnn := sum_nonneg_of_pos ((oba xs).take i) (fun w hw => oba_pos xs w (List.mem_of_mem_take hw))
    rw [hsplit, hsum] at hd
    omega

/-- non-vacuity: three runs -/
example : oba [1, 1, -2, -2, 3] = [1, 1, 3, 3, 9] ∧ oba [2, 2, -5, -5, -5, 7] = [1, 1, 3, 3, 3, 12] := by decide

/-! ### `shadow` by keys: the five clauses of the statement -/

section shadow
open Prio

/-- **dominance over the columns' keys**: the weight of a key equals 1 + the sum, over all keys of the
    input list (one per column, with multiplicity) that are strictly smaller, of their weights -/
theorem weight_dominates (ks : List Key) (k : Key) (hk : k ∈ ks) :
    weightOf (table ks) k = 1 + keySumBelow (weightOf (table ks)) k ks := by
  rw [(weightOf_spec ks k hk).1, sumBelow_eq_keySum ks k (table ks) (weightOf_entry ks), table_keys,
    keySumBelow_perm _ k (sortK_perm ks)]

/-- weights are ordered like keys: a strictly smaller key has a strictly smaller weight -/
theorem weight_strict_mono (ks : List Key) (j k : Key) (hj : j ∈ ks) (hk : k ∈ ks) (hlt : Key.lt j k) :
    weightOf (table ks) j < weightOf (table ks) k := by
  have := weight_dominates ks k hk
  have := keySumBelow_ge_of_mem ks k j ks (fun _ h => h) hj hlt
  omega

theorem shadowSpec_eq (m : Mat) :
    shadowSpec m = ((List.range (ncols m)).map (col m)).map
      (entry (table (((List.range (ncols m)).map (col m)).filterMap keyOf))) := rfl

/-- Clauses of C13 for the `shadow` weights `w = shadowSpec m`, column by column (`cols` = the columns of `m`,
    `ks` = their keys): zeros are kept, the sign is the sign of the column's last non-zero entry, the magnitude is a
    function of the key (equal priorities, equal weights), strictly smaller keys get strictly smaller magnitudes, and
    each magnitude is 1 + the sum of the magnitudes of *all* columns ranked strictly below it. -/
theorem shadow_clauses (cols : List (List Int)) (c : List Int) (hc : c ∈ cols) :
    let ks := cols.filterMap keyOf
    let t := table ks
    (keyOf c = none → entry t c = 0) ∧
    (∀ k, keyOf c = some k →
        entry t c = Prio.sgnOf c * weightOf t k ∧ 1 ≤ weightOf t k ∧ (Prio.sgnOf c = 1 ∨ Prio.sgnOf c = -1) ∧
        weightOf t k = 1 + keySumBelow (weightOf t) k ks ∧
        (∀ c' ∈ cols, ∀ k', keyOf c' = some k' → Key.lt k' k → weightOf t k' < weightOf t k)) := by
  intro ks t
  refine ⟨fun h => by simp [entry, h], fun k hk => ?_⟩
  have hmem : k ∈ ks := List.mem_filterMap.2 ⟨c, hc, hk⟩
  refine ⟨by simp [entry, hk], (weightOf_spec ks k hmem).2, sgnOf_of_key c k hk, weight_dominates ks k hmem, ?_⟩
  intro c' hc' k' hk' hlt
  exact weight_strict_mono ks k' k (List.mem_filterMap.2 ⟨c', hc', hk'⟩) hmem hlt

/-- the dominance clause in the statement's words: the magnitude of a weight strictly exceeds the sum of the
    magnitudes of all lower priorities -/
theorem shadow_strictly_dominates (ks : List Key) (k : Key) (hk : k ∈ ks) :
    weightOf (table ks) k > keySumBelow (weightOf (table ks)) k ks := by
  have := weight_dominates ks k hk; omega

end shadow

/-! ### `prio` by keys: an order-preserving dense ranking of the same ordering -/

section prio
open Prio

/-- the rank of a key: 1 + the number of distinct keys strictly below it -/
def rankOf (ks : List Key) (k : Key) : Int := 1 + (levOf (dedupK ks) k : Int)

/-- equal priorities get equal ranks (the rank is a function of the key), ranks start at 1, … -/
theorem rank_pos (ks : List Key) (k : Key) : 1 ≤ rankOf ks k := by unfold rankOf; omega

/-- … a strictly smaller key gets a strictly smaller rank (order preserved: later rows above earlier rows, then magnitude), … -/
theorem rank_strict_mono (ks : List Key) (k' k : Key) (hk' : k' ∈ ks) (h : Key.lt k' k) : rankOf ks k' < rankOf ks k := by
  unfold rankOf
  have := levOf_lt (dedupK ks) k' k ((mem_dedupK ks k').2 hk') h
  omega

/-- … and the ranking is dense: the rank of a key is exactly one more than the number of distinct keys below it, so the
    ranks that occur are 1, 2, …, (number of distinct keys) without gaps -/
theorem rank_dense (ks : List Key) (k : Key) :
    rankOf ks k = 1 + (((dedupK ks).filter (fun k' => decide (Key.lt k' k))).length : Int) ∧ (dedupK ks).Nodup ∧
    (∀ x, x ∈ dedupK ks ↔ x ∈ ks) :=
  ⟨rfl, nodup_dedupK ks, mem_dedupK ks⟩

theorem rank_le_distinct (ks : List Key) (k : Key) (hk : k ∈ ks) : rankOf ks k ≤ (dedupK ks).length := by
  unfold rankOf levOf
  have hmem : k ∈ dedupK ks := (mem_dedupK ks k).2 hk
  -- k itself is not below k, so the filter misses at least one element
  have : ((dedupK ks).filter (fun k' => decide (Key.lt k' k))).length < (dedupK ks).length := by
    have h1 := filter_length_lt (fun k' => decide (Key.lt k' k)) (fun _ => true) (dedupK ks) (by intros; rfl)
      ⟨k, hmem, rfl, by simpa using Key.not_lt_self k⟩
    have h2 : (dedupK ks).filter (fun _ => true) = dedupK ks := by simp
    rw [h2] at h1; exact h1
  omega

/-- `prioSpec`, entry by entry: 0 for a column without a key, otherwise sign × rank of its key -/
theorem prioSpec_eq (m : Mat) :
    prioSpec m = ((List.range (ncols m)).map (col m)).map (fun c =>
      match keyOf c with
      | none => 0
      | some k => Prio.sgnOf c * rankOf (((List.range (ncols m)).map (col m)).filterMap keyOf) k) := rfl

end prio

/-! ### the selection methods ('first', 'last', 'min', 'max') and the final ranking step of 'rank' -/

section selection

/-- 'first': 0 for a column of zeros … -/
theorem firstNZ_zeros : ∀ c : List Int, (∀ x ∈ c, x = 0) → firstNZ c = 0
  | [], _ => rfl
  | x :: c, h => by
      have hx : x = 0 := h x (by simp)
      have ih := firstNZ_zeros c (fun y hy => h y (by simp [hy]))
      subst hx
      exact ih

/-- … otherwise the first non-zero entry -/
theorem firstNZ_spec : ∀ (pre : List Int) (x : Int) (post : List Int), (∀ y ∈ pre, y = 0) → x ≠ 0 →
    firstNZ (pre ++ x :: post) = x
  | [], x, post, _, hx => by simp [firstNZ, List.find?_cons, hx]
  | y :: pre, x, post, hp, hx => by
      have hy : y = 0 := hp y (by simp)
      have ih := firstNZ_spec pre x post (fun z hz => hp z (by simp [hz])) hx
      subst hy
      exact ih

def lastGo (k : Nat) (c : List Int) (acc : Option (Nat × Int)) : Option (Nat × Int) :=
  (List.zip (List.range' k c.length) c).foldl (fun acc (p : Nat × Int) => if p.2 != 0 then some (p.1, p.2) else acc) acc

theorem lastGo_cons (k : Nat) (v : Int) (c : List Int) (acc) :
    lastGo k (v :: c) acc = lastGo (k + 1) c (if v != 0 then some (k, v) else acc) := by
  simp [lastGo, List.range'_succ]

theorem lastGo_zeros : ∀ (c : List Int) (k : Nat) (acc), (∀ x ∈ c, x = 0) → lastGo k c acc = acc
  | [], k, acc, _ => by simp [lastGo]
  | v :: c, k, acc, h => by
      have hv : v = 0 := h v (by simp)
      rw [lastGo_cons, lastGo_zeros c (k + 1) _ (fun y hy => h y (by simp [hy]))]
      simp [hv]

theorem lastGo_spec : ∀ (pre : List Int) (x : Int) (post : List Int) (k : Nat) (acc), (∀ y ∈ post, y = 0) → x ≠ 0 →
    lastGo k (pre ++ x :: post) acc = some (k + pre.length, x)
  | [], x, post, k, acc, hp, hx => by
      rw [List.nil_append, lastGo_cons, lastGo_zeros post (k + 1) _ hp]
      simp [hx]
  | y :: pre, x, post, k, acc, hp, hx => by
      rw [List.cons_append, lastGo_cons, lastGo_spec pre x post (k + 1) _ hp hx]
      simp only [List.length_cons]
      congr 2; omega

theorem lastNZ_eq (c : List Int) : lastNZ c = lastGo 0 c none := by
  simp [lastNZ, lastGo, List.range_eq_range']

/-- 'last': none for a column of zeros, otherwise the last non-zero entry (with its row) -/
theorem lastNZ_zeros (c : List Int) (h : ∀ x ∈ c, x = 0) : lastNZ c = none := by
  rw [lastNZ_eq]; exact lastGo_zeros c 0 none h

theorem lastNZ_spec (pre : List Int) (x : Int) (post : List Int) (hp : ∀ y ∈ post, y = 0) (hx : x ≠ 0) :
    lastNZ (pre ++ x :: post) = some (pre.length, x) := by
  rw [lastNZ_eq, lastGo_spec pre x post 0 none hp hx]; simp

theorem foldl_min_spec : ∀ (xs : List Int) (a : Int),
    (xs.foldl min a = a ∨ xs.foldl min a ∈ xs) ∧ xs.foldl min a ≤ a ∧ ∀ y ∈ xs, xs.foldl min a ≤ y
  | [], a => by simp
  | x :: xs, a => by
      have ⟨h1, h2, h3⟩ := foldl_min_spec xs (min a x)
      simp only [List.foldl_cons]
      refine ⟨?_, by omega, ?_⟩
      · rcases h1 with h | h
        · by_cases hax : a ≤ x
          · left; rw [h]; omega
          · right; rw [h]; simp; omega
        · right; simp [h]
      · intro y hy
        rcases List.mem_cons.1 hy with rfl | hy
        · omega
        · exact h3 y hy

/-- 'min': 0 for a column of zeros, otherwise the smallest non-zero entry -/
theorem minNZ_spec (c : List Int) :
    ((∀ x ∈ c, x = 0) → minNZ c = 0) ∧
    ((∃ x ∈ c, x ≠ 0) → (minNZ c ∈ c ∧ minNZ c ≠ 0) ∧ ∀ y ∈ c, y ≠ 0 → minNZ c ≤ y) := by
  unfold minNZ
  constructor
  · intro h
    have : c.filter (· != 0) = [] := by
      apply List.filter_eq_nil_iff.2
      intro x hx; simp [h x hx]
    rw [this]
  · intro ⟨x, hx, hx0⟩
    cases hf : c.filter (· != 0) with
    | nil =>
        have := List.filter_eq_nil_iff.1 hf x hx
        simp at this; exact absurd this hx0
    | cons a as =>
        have ⟨h1, h2, h3⟩ := foldl_min_spec as a
        have hmem : ∀ z, z ∈ a :: as ↔ z ∈ c ∧ z ≠ 0 := by
          intro z; rw [← hf]; simp
        simp only
        refine ⟨?_, ?_⟩
        · have : as.foldl min a ∈ a :: as := by
            rcases h1 with h | h
            · rw [h]; simp
            · simp [h]
          exact (hmem _).1 this
        · intro y hy hy0
          have : y ∈ a :: as := (hmem y).2 ⟨hy, hy0⟩
          rcases List.mem_cons.1 this with rfl | h
          · exact h2
          · exact h3 y h

theorem foldl_max_spec : ∀ (xs : List Int) (a : Int),
    (xs.foldl max a = a ∨ xs.foldl max a ∈ xs) ∧ a ≤ xs.foldl max a ∧ ∀ y ∈ xs, y ≤ xs.foldl max a
  | [], a => by simp
  | x :: xs, a => by
      have ⟨h1, h2, h3⟩ := foldl_max_spec xs (max a x)
      simp only [List.foldl_cons]
      refine ⟨?_, by omega, ?_⟩
      · rcases h1 with h | h
        · by_cases hax : x ≤ a
          · left; rw [h]; omega
          · right; rw [h]; simp; omega
        · right; simp [h]
      · intro y hy
        rcases List.mem_cons.1 hy with rfl | hy
        · omega
        · exact h3 y hy

/-- 'max': the largest entry of a non-empty column -/
theorem lmax_spec (x : Int) (xs : List Int) : lmax (x :: xs) ∈ x :: xs ∧ ∀ y ∈ x :: xs, y ≤ lmax (x :: xs) := by
  have ⟨h1, h2, h3⟩ := foldl_max_spec xs x
  have he : lmax (x :: xs) = xs.foldl max x := by simp [lmax]
  rw [he]
  refine ⟨?_, ?_⟩
  · rcases h1 with h | h
    · rw [h]; simp
    · simp [h]
  · intro y hy
    rcases List.mem_cons.1 hy with rfl | hy
    · exact h2
    · exact h3 y hy

/-- the rank `ranking` gives to a value: `base` + the number of distinct smaller values -/
def rkOf (r : List Int) (x : Int) : Int :=
  (if r.foldl min (r.headD 0) > 0 then 1 else 0) + ((r.eraseDups.filter (· < x)).length : Int)

theorem ranking_eq (a : Int) (r : List Int) : ranking (a :: r) = (a :: r).map (rkOf (a :: r)) := by
  simp [ranking, rkOf]

/-- 'rank' (final step): the ranking is order-preserving … -/
theorem ranking_strict_mono (r : List Int) (x y : Int) (hx : x ∈ r) (h : x < y) : rkOf r x < rkOf r y := by
  unfold rkOf
  have := filter_length_lt (fun d : Int => decide (d < x)) (fun d => decide (d < y)) r.eraseDups
    (by intro d hd; simp at hd ⊢; omega) ⟨x, List.mem_eraseDups.2 hx, by simpa using h, by simp⟩
  omega

/-- … gives equal values equal ranks and different values different ranks … -/
theorem ranking_eq_iff (r : List Int) (x y : Int) (hx : x ∈ r) (hy : y ∈ r) : rkOf r x = rkOf r y ↔ x = y := by
  constructor
  · intro h
    rcases Int.lt_trichotomy x y with hlt | heq | hgt
    · have := ranking_strict_mono r x y hx hlt; omega
    · exact heq
    · have := ranking_strict_mono r y x hy hgt; omega
  · intro h; rw [h]

/-- … and is dense: rank − base is exactly the number of distinct smaller values (base 1 when every value is positive, else 0) -/
theorem ranking_dense (r : List Int) (x : Int) :
    rkOf r x = (if r.foldl min (r.headD 0) > 0 then 1 else 0) + ((r.eraseDups.filter (· < x)).length : Int) := rfl

/-- what `ndint_compress` returns for the selection methods and for 'rank', column by column (axis 0) -/
theorem compress0_selection (m : Mat) :
    compress0 "first" m = some (((List.range (ncols m)).map (col m)).map firstNZ) ∧
    compress0 "last" m = some (((List.range (ncols m)).map (col m)).map (fun c => match lastNZ c with | some (_, v) => v | none => 0)) ∧
    compress0 "min" m = some (((List.range (ncols m)).map (col m)).map minNZ) ∧
    compress0 "max" m = some (((List.range (ncols m)).map (col m)).map lmax) ∧
    compress0 "rank" m = some (ranking (prio2d m)) := ⟨rfl, rfl, rfl, rfl, rfl⟩

end selection

example : firstNZ [0, 3, 0, -2] = 3 ∧ lastNZ [0, 3, 0, -2, 0] = some (3, -2) ∧ minNZ [0, 3, 0, -2] = -2 ∧ lmax [0, 3, 0, -2] = 3 ∧
    ranking [5, -1, 5, 0] = [2, 0, 2, 1] ∧ ranking [4, 2, 4] = [2, 1, 2] := by decide

/-- non-vacuity of the key form: an empty level between two used ones (the witness of seeded change C13-a) -/
example : shadowSpec [[1, 2, 0], [0, 0, 0], [0, 0, 2]] = [1, 2, 4] ∧
    shadowSpec [[1, -2, 3, 0], [0, 5, -5, 0], [2, 0, 0, 0]] = [3, 1, -1, 0] ∧
    prioSpec [[1, -2, 3, 0], [0, 5, -5, 0], [2, 0, 0, 0]] = [2, 1, -1, 0] := by decide

end Puan.C13
