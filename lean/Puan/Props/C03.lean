/-
  C03 — evaluation computes the arithmetic truth function of every node.
-/
import Puan.Lemmas.Eval
namespace Puan.C03
open Puan P

/-- Evaluating on an interpretation that fixes every leaf returns the constant given by
    the arithmetic truth function, where a node whose own variable is fixed by the
    interpretation (or by its bounds) takes that fixed value (`evalOv`). -/
theorem evaluate_total (I : Interp) (σ : String → Int) (t : P)
    (hs : SignOk t) (ht : Total I σ t) :
    evalB I t = Bnd.pt (evalOv I σ t) := exact I σ t hs ht

mutual
/-- no compound id is named by the interpretation and none is pre-fixed by its bounds -/
def NoOv (I : Interp) : P → Prop
  | .leaf .. => True
  | .node i b _ _ ks _ => (I i = none ∧ b.lo ≠ b.hi) ∧ NoOvL I ks
def NoOvL (I : Interp) : List P → Prop
  | [] => True
  | k :: ks => NoOv I k ∧ NoOvL I ks
end

mutual
theorem evalOv_eq_evalPt (I σ) : ∀ p, NoOv I p → evalOv I σ p = evalPt σ p
  | .leaf i b, _ => by simp [evalOv, evalPt]
  | .node i b s v ks m, h => by
      have ⟨⟨h1, h2⟩, h3⟩ : (I i = none ∧ b.lo ≠ b.hi) ∧ NoOvL I ks := by simpa [NoOv] using h
      simp [evalOv, evalPt, h1, h2, sumOv_eq_sumPt I σ ks h3]
theorem sumOv_eq_sumPt (I σ) : ∀ ks, NoOvL I ks → sumOv I σ ks = sumPt σ ks
  | [], _ => by simp [sumOv, sumPt]
  | k :: ks, h => by
      have ⟨h1, h2⟩ : NoOv I k ∧ NoOvL I ks := by simpa [NoOvL] using h
      simp [sumOv, sumPt, evalOv_eq_evalPt I σ k h1, sumOv_eq_sumPt I σ ks h2]
end

/-- Without overrides: 1 when sign·(sum of the children's values) ≥ value, else 0, bottom-up. -/
theorem evaluate_total_plain (I : Interp) (σ : String → Int) (t : P)
    (hs : SignOk t) (ht : Total I σ t) (hn : NoOv I t) :
    evalB I t = Bnd.pt (evalPt σ t) := by
  rw [evaluate_total I σ t hs ht, evalOv_eq_evalPt I σ t hn]

/-- the same statement for the children of the evaluated node, i.e. one level of "for each
    sub-proposition"; deeper levels follow by applying it again (the recursion of `assume`) -/
theorem evaluate_total_kids (I : Interp) (σ : String → Int) (i b s v ks m)
    (hs : SignOk (.node i b s v ks m)) (ht : Total I σ (.node i b s v ks m)) :
    ∀ k ∈ ks, evalB I k = Bnd.pt (evalOv I σ k) := by
  intro k hk
  have hs' : SignOks ks := by
    have : (s = 1 ∨ s = -1) ∧ SignOks ks := by simpa [SignOk] using hs
    exact this.2
  have ht' : TotalL I σ ks := by simpa [Total] using ht
  have hsk := (SignOks_iff ks).1 hs' k hk
  have htk : Total I σ k := by
    clear hs hs' hsk
    induction ks with
    | nil => cases hk
    | cons a as ih =>
        have ⟨t1, t2⟩ : Total I σ a ∧ TotalL I σ as := by simpa [TotalL] using ht'
        rcases List.mem_cons.1 hk with rfl | h
        · exact t1
        · exact ih (by simp [Total]; exact t2) h t2
  exact exact I σ k hsk htk

/-- non-vacuity: a two-level model with an integer leaf, a total interpretation, the value 1 -/
example :
    let t : P := .node "A" ⟨0,1⟩ 1 2 [.node "B" ⟨0,1⟩ (-1) (-1) [.leaf "x" ⟨0,1⟩, .leaf "y" ⟨0,1⟩] {}, .leaf "z" ⟨-3,10⟩] {}
    let I : Interp := Interp.ofList [("x", ⟨1,1⟩), ("y", ⟨0,0⟩), ("z", ⟨7,7⟩)]
    evalB I t = ⟨1, 1⟩ := by decide

end Puan.C03
