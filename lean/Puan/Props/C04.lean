/-
  C04 — connectives have their documented truth functions.
  (Not / Imply / XNor go through `negate`, i.e. through the repair of defect D1.)
-/
import Puan.Lemmas.Build
import Puan.Model.Cic
import Puan.Props.C05
namespace Puan.C04
open Puan P

/-! ### the constructors at the level of propositions -/

theorem orderArgs_perm (l : List (Bool × P)) : (orderArgs l).Perm (l.map (·.2)) := by
  unfold orderArgs
  rw [← List.map_append]
  apply List.Perm.map
  have := List.filter_append_perm (fun x : Bool × P => !x.1) l
  simpa using this

theorem sum_orderArgs (σ) (l : List (Bool × P)) : sumPt σ (orderArgs l) = sumPt σ (l.map (·.2)) :=
  sumPt_perm σ (orderArgs_perm l)

theorem goodL_orderArgs (σ) (l : List (Bool × P)) : GoodL σ (orderArgs l) ↔ GoodL σ (l.map (·.2)) :=
  goodL_perm σ (orderArgs_perm l)

/-- `All`: true iff the number of true arguments equals the number of arguments -/
theorem evalPt_mkAll (σ) (args : List (Bool × P)) (oid cls) (hd : distinctCount args = args.length)
    (hc : 0 ≤ sumPt σ (args.map (·.2)) ∧ sumPt σ (args.map (·.2)) ≤ args.length) :
    evalPt σ (mkAll args oid cls) = if sumPt σ (args.map (·.2)) = args.length then 1 else 0 := by
  unfold mkAll
  rw [evalPt_mkAtLeast, sum_orderArgs, hd]
  unfold sgnOf
  simp only [Option.getD_none]
  split <;> split <;> split <;> omega

/-- `Any`: true iff at least one argument is true -/
theorem evalPt_mkAny (σ) (args : List (Bool × P)) (oid cls) :
    evalPt σ (mkAny args oid cls) = if sumPt σ (args.map (·.2)) ≥ 1 then 1 else 0 := by
  unfold mkAny
  rw [evalPt_mkAtLeast, sum_orderArgs]
  simp [sgnOf]

/-- `AtMost k`: true iff at most k arguments are true -/
theorem evalPt_mkAtMost (σ) (k : Int) (ks : List P) (var) :
    evalPt σ (mkAtMost k ks var) = if sumPt σ ks ≤ k then 1 else 0 := by
  unfold mkAtMost
  rw [evalPt_mkAtLeast]
  simp only [sgnOf, Option.getD_some]
  have : (-1 * sumPt σ ks ≥ -k) ↔ (sumPt σ ks ≤ k) := by omega
  simp only [this]

theorem distinct_two (a b : P) (h : beq a b = false) : distinctCount [(false, a), (false, b)] = 2 := by
  simp [distinctCount, h]

theorem xor_halves_differ (ks : List P) : beq (mkAtLeast 1 ks none none) (mkAtMost 1 ks none) = false := by
  simp [mkAtLeast, mkAtMost, beq]

/-- `Xor` / `ExactlyOne`: true iff exactly one argument is true -/
theorem evalPt_mkXor (σ) (args : List (Bool × P)) (oid cls) :
    evalPt σ (mkXor args oid cls) = if sumPt σ (args.map (·.2)) = 1 then 1 else 0 := by
  unfold mkXor
  have h1 := evalPt_mkAtLeast σ 1 (orderArgs args) none none .atLeast
  have h2 := evalPt_mkAtMost σ 1 (orderArgs args) none
  rw [sum_orderArgs] at h1 h2
  simp only [sgnOf, Option.getD_none] at h1
  rw [evalPt_mkAll σ _ oid cls (distinct_two _ _ (xor_halves_differ _))]
  · simp only [List.map_cons, List.map_nil, sumPt, h1, h2, List.length_cons, List.length_nil]
    split <;> split <;> split <;> split <;> omega
  · simp only [List.map_cons, List.map_nil, sumPt, h1, h2, List.length_cons, List.length_nil]
    split <;> split <;> omega

theorem evalPt_setCond (σ) (p : P) (cid) : evalPt σ (setCond p cid) = evalPt σ p := by
  cases p <;> simp [setCond, evalPt]

theorem good_setCond (σ) (p : P) (cid) (h : Good σ p) : Good σ (setCond p cid) := by
  cases p <;> simpa [setCond, Good, SignOk, InB] using h

theorem setCond_isLeaf (p : P) (cid) : (setCond p cid).isLeaf = p.isLeaf := by
  cases p <;> simp [setCond, isLeaf]

/-- `XNor`: true iff the number of true arguments is not one -/
theorem evalPt_mkXNor (σ) (args : List (Bool × P)) (oid) (hg : GoodL σ (args.map (·.2))) :
    evalPt σ (mkXNor args oid) = if sumPt σ (args.map (·.2)) = 1 then 0 else 1 := by
  unfold mkXNor
  have hgo := (goodL_orderArgs σ args).2 hg
  have g1 := good_mkAtLeast σ 1 (orderArgs args) none none .atLeast (Or.inl rfl) hgo
  have g2 : Good σ (mkAtMost 1 (orderArgs args) none) :=
    good_mkAtLeast σ (-1) (orderArgs args) none (some (-1)) .atMost (Or.inr (Or.inr rfl)) hgo
  have n1 := C05.negate_compl σ _ g1.1 g1.2 (mkAtLeast_isLeaf _ _ _ _ _)
  have n2 := C05.negate_compl σ _ g2.1 g2.2 (mkAtLeast_isLeaf _ _ _ _ _)
  have h1 := evalPt_mkAtLeast σ 1 (orderArgs args) none none .atLeast
  have h2 := evalPt_mkAtMost σ 1 (orderArgs args) none
  rw [sum_orderArgs] at h1 h2
  simp only [sgnOf, Option.getD_none] at h1
  rw [evalPt_setCond, evalPt_mkAny]
  simp only [List.map_cons, List.map_nil, sumPt, n1, n2, h1, h2]
  split <;> split <;> split <;> split <;> omega

/-- `Not`: the complement -/
theorem evalPt_mkNot (σ) (isAtom : Bool) (a : Bool × P) (hg : Good σ a.2) (hl : isAtom = false → a.2.isLeaf = false)
    (hb : evalPt σ a.2 = 0 ∨ evalPt σ a.2 = 1) :
    evalPt σ (mkNot isAtom a) = 1 - evalPt σ a.2 := by
  unfold mkNot
  cases isAtom with
  | true =>
      simp only [if_true]
      have hgl : GoodL σ ([a].map (·.2)) := (GoodL_iff σ _).2 (by intro k hk; simp at hk; rw [hk]; exact hg)
      have g : Good σ (mkAll [a] none) := good_mkAtLeast σ _ _ _ _ _ (Or.inl rfl) ((goodL_orderArgs σ [a]).2 hgl)
      rw [C05.negate_compl σ _ g.1 g.2 (mkAtLeast_isLeaf _ _ _ _ _)]
      rw [evalPt_mkAll σ [a] none .all (by simp [distinctCount])]
      · simp only [List.map_cons, List.map_nil, sumPt, List.length_cons, List.length_nil]
        rcases hb with h | h <;> simp [h]
      · simp only [List.map_cons, List.map_nil, sumPt, List.length_cons, List.length_nil]
        rcases hb with h | h <;> simp [h]
  | false =>
      simp only [Bool.false_eq_true, if_false]
      exact C05.negate_compl σ _ hg.1 hg.2 (hl rfl)

/-- `Imply`: material implication -/
theorem evalPt_mkImply (σ) (cAtom : Bool) (c d : Bool × P) (oid)
    (hg : Good σ c.2) (hl : cAtom = false → c.2.isLeaf = false)
    (hc : evalPt σ c.2 = 0 ∨ evalPt σ c.2 = 1) (hd : evalPt σ d.2 = 0 ∨ evalPt σ d.2 = 1) :
    evalPt σ (mkImply cAtom c d oid) = if evalPt σ c.2 = 0 ∨ evalPt σ d.2 = 1 then 1 else 0 := by
  unfold mkImply
  simp only [evalPt_setCond]
  rw [evalPt_mkAny]
  simp only [List.map_cons, List.map_nil, sumPt, evalPt_mkNot σ cAtom c hg hl hc]
  rcases hc with h | h <;> rcases hd with h' | h' <;> simp [h, h']

/-! ### arbitrarily nested formulas: the truth function of a constructor expression -/

mutual
def truth (σ : String → Int) : Ast → Int
  | .var i _ => σ i
  | .str i => σ i
  | .atLeast v as _ sgn => if sgnOf v sgn * truthSum σ as ≥ v then 1 else 0
  | .atMost v as _ => if truthSum σ as ≤ v then 1 else 0
  | .all as _ => if truthSum σ as = as.length then 1 else 0
  | .any as _ => if truthSum σ as ≥ 1 then 1 else 0
  | .xor as _ _ => if truthSum σ as = 1 then 1 else 0
  | .xnor as _ => if truthSum σ as = 1 then 0 else 1
  | .imply c d _ => if truth σ c = 0 ∨ truth σ d = 1 then 1 else 0
  | .not a => 1 - truth σ a
  | .ccAny .. => 0
  | .ccXor .. => 0
  | .stingy .. => 0
/-- the number of true arguments -/
def truthSum (σ : String → Int) : List Ast → Int
  | [] => 0
  | a :: as => truth σ a + truthSum σ as
end

mutual
/-- boolean atoms, legal signs, `All` over pairwise distinct arguments; plog classes only -/
def Ok (σ : String → Int) : Ast → Prop
  | .var i b => (b.lo = 0 ∧ b.hi = 1) ∧ (σ i = 0 ∨ σ i = 1)
  | .str i => σ i = 0 ∨ σ i = 1
  | .atLeast _ as _ sgn => (sgn = none ∨ sgn = some 1 ∨ sgn = some (-1)) ∧ OkL σ as
  | .atMost _ as _ => OkL σ as
  | .all as _ => distinctCount (Ast.buildL as) = as.length ∧ OkL σ as
  | .any as _ => OkL σ as
  | .xor as _ _ => OkL σ as
  | .xnor as _ => OkL σ as
  | .imply c d _ => Ok σ c ∧ Ok σ d
  | .not a => Ok σ a
  | .ccAny .. => False
  | .ccXor .. => False
  | .stingy .. => False
def OkL (σ : String → Int) : List Ast → Prop
  | [] => True
  | a :: as => Ok σ a ∧ OkL σ as
end

/-- what the induction carries for one expression -/
def Inv (σ : String → Int) (a : Ast) : Prop :=
  evalPt σ a.build = truth σ a ∧ Good σ a.build ∧ (truth σ a = 0 ∨ truth σ a = 1) ∧
  (a.isAtom = false → a.build.isLeaf = false)

/-- … and for an argument list -/
def InvL (σ : String → Int) (as : List Ast) : Prop :=
  sumPt σ ((Ast.buildL as).map (·.2)) = truthSum σ as ∧ GoodL σ ((Ast.buildL as).map (·.2)) ∧
  (0 ≤ truthSum σ as ∧ truthSum σ as ≤ as.length) ∧ (Ast.buildL as).length = as.length

theorem ite01 (c : Prop) [Decidable c] : (if c then (1:Int) else 0) = 0 ∨ (if c then (1:Int) else 0) = 1 := by
  split <;> simp
theorem ite10 (c : Prop) [Decidable c] : (if c then (0:Int) else 1) = 0 ∨ (if c then (0:Int) else 1) = 1 := by
  split <;> simp

mutual
/-- Models built with All, Any, AtLeast, AtMost, Xor/ExactlyOne, XNor, Imply and Not,
    arbitrarily nested over boolean leaves, evaluate exactly like conjunction, disjunction,
    at-least-k, at-most-k, exactly-one, not-exactly-one, material implication and negation
    of their arguments' truth values. -/
theorem build_inv (σ : String → Int) : ∀ a, Ok σ a → Inv σ a
  | .var i b, h => by
      have ⟨⟨h1, h2⟩, h3⟩ : (b.lo = 0 ∧ b.hi = 1) ∧ (σ i = 0 ∨ σ i = 1) := by simpa [Ok] using h
      refine ⟨by simp [Ast.build, evalPt, truth], ?_, by simpa [truth] using h3, by simp [Ast.isAtom]⟩
      simp only [Good, Ast.build, SignOk, InB, true_and]; rcases h3 with h | h <;> omega
  | .str i, h => by
      have h3 : σ i = 0 ∨ σ i = 1 := by simpa [Ok] using h
      refine ⟨by simp [Ast.build, evalPt, truth], ?_, by simpa [truth] using h3, by simp [Ast.isAtom]⟩
      simp only [Good, Ast.build, SignOk, InB, true_and]; rcases h3 with h | h <;> omega
  | .atLeast v as oid sgn, h => by
      have ⟨hs, hl⟩ : (sgn = none ∨ sgn = some 1 ∨ sgn = some (-1)) ∧ OkL σ as := by simpa [Ok] using h
      have ⟨i1, i2, _, _⟩ := buildL_inv σ as hl
      refine ⟨?_, ?_, by simp only [truth]; exact ite01 _, fun _ => by simp [Ast.build, mkAtLeast_isLeaf]⟩
      · simp only [Ast.build, truth, evalPt_mkAtLeast, sum_orderArgs, i1]
      · exact good_mkAtLeast σ _ _ _ _ _ hs ((goodL_orderArgs σ _).2 i2)
  | .atMost v as oid, h => by
      have hl : OkL σ as := by simpa [Ok] using h
      have ⟨i1, i2, _, _⟩ := buildL_inv σ as hl
      refine ⟨?_, ?_, by simp only [truth]; exact ite01 _, fun _ => by simp [Ast.build, mkAtMost, mkAtLeast_isLeaf]⟩
      · simp only [Ast.build, truth, evalPt_mkAtMost, sum_orderArgs, i1]
      · exact good_mkAtLeast σ _ _ _ _ _ (Or.inr (Or.inr rfl)) ((goodL_orderArgs σ _).2 i2)
  | .all as oid, h => by
      have ⟨hd, hl⟩ : distinctCount (Ast.buildL as) = as.length ∧ OkL σ as := by simpa [Ok] using h
      have ⟨i1, i2, i3, i4⟩ := buildL_inv σ as hl
      refine ⟨?_, ?_, by simp only [truth]; exact ite01 _, fun _ => by simp [Ast.build, mkAll, mkAtLeast_isLeaf]⟩
      · simp only [Ast.build, truth]
        rw [evalPt_mkAll σ _ oid .all (by rw [hd, i4]) (by rw [i1, i4]; exact i3), i1, i4]
      · exact good_mkAtLeast σ _ _ _ _ _ (Or.inl rfl) ((goodL_orderArgs σ _).2 i2)
  | .any as oid, h => by
      have hl : OkL σ as := by simpa [Ok] using h
      have ⟨i1, i2, _, _⟩ := buildL_inv σ as hl
      refine ⟨?_, ?_, by simp only [truth]; exact ite01 _, fun _ => by simp [Ast.build, mkAny, mkAtLeast_isLeaf]⟩
      · simp only [Ast.build, truth, evalPt_mkAny, i1]
      · exact good_mkAtLeast σ _ _ _ _ _ (Or.inl rfl) ((goodL_orderArgs σ _).2 i2)
  | .xor as oid e, h => by
      have hl : OkL σ as := by simpa [Ok] using h
      have ⟨i1, i2, _, _⟩ := buildL_inv σ as hl
      have hgo := (goodL_orderArgs σ (Ast.buildL as)).2 i2
      refine ⟨?_, ?_, by simp only [truth]; exact ite01 _, fun _ => by simp [Ast.build, mkXor, mkAll, mkAtLeast_isLeaf]⟩
      · simp only [Ast.build, truth, evalPt_mkXor, i1]
      · simp only [Ast.build, mkXor, mkAll]
        apply good_mkAtLeast σ _ _ _ _ _ (Or.inl rfl)
        apply (goodL_orderArgs σ _).2
        apply (GoodL_iff σ _).2
        intro k hk
        simp at hk
        rcases hk with rfl | rfl
        · exact good_mkAtLeast σ _ _ _ _ _ (Or.inl rfl) hgo
        · exact good_mkAtLeast σ _ _ _ _ _ (Or.inr (Or.inr rfl)) hgo
  | .xnor as oid, h => by
      have hl : OkL σ as := by simpa [Ok] using h
      have ⟨i1, i2, _, _⟩ := buildL_inv σ as hl
      have hgo := (goodL_orderArgs σ (Ast.buildL as)).2 i2
      refine ⟨?_, ?_, by simp only [truth]; exact ite10 _, fun _ => by simp [Ast.build, mkXNor, mkAny, mkAtLeast_isLeaf, setCond_isLeaf]⟩
      · simp only [Ast.build, truth, evalPt_mkXNor σ _ oid i2, i1]
      · simp only [Ast.build, mkXNor, mkAny]
        apply good_setCond
        apply good_mkAtLeast σ _ _ _ _ _ (Or.inl rfl)
        apply (goodL_orderArgs σ _).2
        apply (GoodL_iff σ _).2
        intro k hk
        simp at hk
        rcases hk with rfl | rfl
        · exact good_negate σ _ (good_mkAtLeast σ _ _ _ _ _ (Or.inl rfl) hgo)
        · exact good_negate σ _ (good_mkAtLeast σ _ _ _ _ _ (Or.inr (Or.inr rfl)) hgo)
  | .imply c d oid, h => by
      have ⟨hc, hd⟩ : Ok σ c ∧ Ok σ d := by simpa [Ok] using h
      have ⟨c1, c2, c3, c4⟩ := build_inv σ c hc
      have ⟨d1, d2, d3, _⟩ := build_inv σ d hd
      have hnot := evalPt_mkNot σ c.isAtom (c.isStr, c.build) c2 c4 (by rw [c1]; exact c3)
      have gnot : Good σ (mkNot c.isAtom (c.isStr, c.build)) := by
        unfold mkNot
        split
        · apply good_negate
          apply good_mkAtLeast σ _ _ _ _ _ (Or.inl rfl)
          apply (goodL_orderArgs σ _).2
          apply (GoodL_iff σ _).2
          intro k hk; simp at hk; rw [hk]; exact c2
        · exact good_negate σ _ c2
      refine ⟨?_, ?_, by simp only [truth]; exact ite01 _, fun _ => ?_⟩
      · simp only [Ast.build, truth]
        rw [evalPt_mkImply σ _ _ _ oid c2 c4 (by rw [c1]; exact c3) (by rw [d1]; exact d3), c1, d1]
      · simp only [Ast.build, mkImply]
        have : Good σ (mkAny [(false, mkNot c.isAtom (c.isStr, c.build)), (d.isStr, d.build)] oid .imply) := by
          apply good_mkAtLeast σ _ _ _ _ _ (Or.inl rfl)
          apply (goodL_orderArgs σ _).2
          apply (GoodL_iff σ _).2
          intro k hk
          simp at hk
          rcases hk with rfl | rfl
          · exact gnot
          · exact d2
        revert this
        generalize mkAny _ oid .imply = q
        intro hq
        cases q <;> simpa [setCond, Good, SignOk, InB] using hq
      · simp only [Ast.build, mkImply, mkAny, mkAtLeast]
        cases oid <;> simp [varOf, setCond, isLeaf]
  | .not a, h => by
      have ha : Ok σ a := by simpa [Ok] using h
      have ⟨a1, a2, a3, a4⟩ := build_inv σ a ha
      refine ⟨?_, ?_, by simp only [truth]; rcases a3 with h | h <;> simp [h], fun _ => ?_⟩
      · simp only [Ast.build, truth]
        rw [evalPt_mkNot σ a.isAtom (a.isStr, a.build) a2 a4 (by rw [a1]; exact a3), a1]
      · simp only [Ast.build, mkNot]
        split
        · apply good_negate
          apply good_mkAtLeast σ _ _ _ _ _ (Or.inl rfl)
          apply (goodL_orderArgs σ _).2
          apply (GoodL_iff σ _).2
          intro k hk; simp at hk; rw [hk]; exact a2
        · exact good_negate σ _ a2
      · simp only [Ast.build, mkNot]
        split
        · exact negate_isLeaf _ (by simp [mkAll, mkAtLeast_isLeaf])
        · rename_i hna
          exact negate_isLeaf _ (a4 (by simpa using hna))
  | .ccAny .., h => by simp [Ok] at h
  | .ccXor .., h => by simp [Ok] at h
  | .stingy .., h => by simp [Ok] at h
theorem buildL_inv (σ : String → Int) : ∀ as, OkL σ as → InvL σ as
  | [], _ => by simp [InvL, Ast.buildL, sumPt, truthSum, GoodL, SignOks, InBs]
  | a :: as, h => by
      have ⟨h1, h2⟩ : Ok σ a ∧ OkL σ as := by simpa [OkL] using h
      have ⟨a1, a2, a3, _⟩ := build_inv σ a h1
      have ⟨l1, l2, l3, l4⟩ := buildL_inv σ as h2
      refine ⟨?_, ?_, ?_, by simp [Ast.buildL, l4]⟩
      · simp [Ast.buildL, sumPt, truthSum, a1, l1]
      · simp only [Ast.buildL, List.map_cons, GoodL, SignOks, InBs]
        exact ⟨⟨a2.1, l2.1⟩, ⟨a2.2, l2.2⟩⟩
      · simp only [truthSum, List.length_cons]
        rcases a3 with h | h <;> omega
end

/-- the statement of C04 for one expression -/
theorem build_truth (σ : String → Int) (a : Ast) (h : Ok σ a) : evalPt σ a.build = truth σ a :=
  (build_inv σ a h).1

/-- at-least-k with k ≥ 1 (or an explicit + sign) counts true arguments -/
theorem truth_atLeast_pos (σ) (k : Int) (as oid) (hk : k ≥ 1) :
    truth σ (.atLeast k as oid none) = if truthSum σ as ≥ k then 1 else 0 := by
  have : sgnOf k none = 1 := by simp [sgnOf]; omega
  simp [truth, this]

/-- non-vacuity: a nested expression meeting `Ok`, evaluated at a point -/
example :
    let a : Ast := .imply (.xor [.str "a", .str "b"] none false) (.not (.all [.str "c", .any [.str "a", .str "c"] none] (some "N"))) none
    let σ : String → Int := fun i => if i = "a" then 1 else 0
    truth σ a = 1 := by decide

/-! ### … and via the JSON and rule-dictionary constructors -/

mutual
/-- plog classes only (the JSON class map of `plog.from_json`) -/
def PlogExpr : Ast → Prop
  | .var .. => True
  | .str .. => True
  | .atLeast _ as _ _ => PlogExprL as
  | .atMost _ as _ => PlogExprL as
  | .all as _ => PlogExprL as
  | .any as _ => PlogExprL as
  | .xor as _ _ => PlogExprL as
  | .xnor as _ => PlogExprL as
  | .imply c d _ => PlogExpr c ∧ PlogExpr d
  | .not a => PlogExpr a
  | .ccAny .. => False
  | .ccXor .. => False
  | .stingy .. => False
def PlogExprL : List Ast → Prop
  | [] => True
  | a :: as => PlogExpr a ∧ PlogExprL as
end

mutual
/-- every `AtLeast` carries the sign the constructor would infer from its value (JSON written by hand has no sign) -/
def DefaultSigns : Ast → Prop
  | .var .. => True
  | .str .. => True
  | .atLeast v as _ sgn => (sgn = none ∨ sgn = some (sgnOf v none)) ∧ DefaultSignsL as
  | .atMost _ as _ => DefaultSignsL as
  | .all as _ => DefaultSignsL as
  | .any as _ => DefaultSignsL as
  | .xor as _ _ => DefaultSignsL as
  | .xnor as _ => DefaultSignsL as
  | .imply c d _ => DefaultSigns c ∧ DefaultSigns d
  | .not a => DefaultSigns a
  | .ccAny as _ _ => DefaultSignsL as
  | .ccXor as _ _ => DefaultSignsL as
  | .stingy as _ => DefaultSignsL as
def DefaultSignsL : List Ast → Prop
  | [] => True
  | a :: as => DefaultSigns a ∧ DefaultSignsL as
end

mutual
/-- `plog.from_json` dispatches the JSON of an expression to the same constructor calls (strings as boolean variables) -/
theorem fromJson_userJson : ∀ a : Ast, PlogExpr a → PJ.toAst false a.userJson = some a.viaJson
  | .var i b, _ => by simp [Ast.userJson, Ast.viaJson, PJ.toAst]
  | .str i, _ => by simp [Ast.userJson, Ast.viaJson, PJ.toAst]
  | .atLeast v as oid sgn, h => by
      simp [Ast.userJson, Ast.viaJson, PJ.toAst, fromJson_userJsonL as (by simpa [PlogExpr] using h)]
  | .atMost v as oid, h => by
      simp [Ast.userJson, Ast.viaJson, PJ.toAst, fromJson_userJsonL as (by simpa [PlogExpr] using h)]
  | .all as oid, h => by
      simp [Ast.userJson, Ast.viaJson, PJ.toAst, fromJson_userJsonL as (by simpa [PlogExpr] using h)]
  | .any as oid, h => by
      simp [Ast.userJson, Ast.viaJson, PJ.toAst, fromJson_userJsonL as (by simpa [PlogExpr] using h)]
  | .xor as oid e, h => by
      cases e <;> simp [Ast.userJson, Ast.viaJson, PJ.toAst, fromJson_userJsonL as (by simpa [PlogExpr] using h)]
  | .xnor as oid, h => by
      simp [Ast.userJson, Ast.viaJson, PJ.toAst, fromJson_userJsonL as (by simpa [PlogExpr] using h)]
  | .imply c d oid, h => by
      have ⟨h1, h2⟩ : PlogExpr c ∧ PlogExpr d := by simpa [PlogExpr] using h
      simp [Ast.userJson, Ast.viaJson, PJ.toAst, PJ.toAstOpt, fromJson_userJson c h1, fromJson_userJson d h2]
  | .not a, h => by
      simp [Ast.userJson, Ast.viaJson, PJ.toAst, PJ.toAstOpt, fromJson_userJson a (by simpa [PlogExpr] using h)]
  | .ccAny .., h => by simp [PlogExpr] at h
  | .ccXor .., h => by simp [PlogExpr] at h
  | .stingy .., h => by simp [PlogExpr] at h
theorem fromJson_userJsonL : ∀ as : List Ast, PlogExprL as → PJ.toAstL false (Ast.userJsonL as) = some (Ast.viaJsonL as)
  | [], _ => by simp [Ast.userJsonL, Ast.viaJsonL, PJ.toAstL]
  | a :: as, h => by
      have ⟨h1, h2⟩ : PlogExpr a ∧ PlogExprL as := by simpa [PlogExprL] using h
      simp [Ast.userJsonL, Ast.viaJsonL, PJ.toAstL, fromJson_userJson a h1, fromJson_userJsonL as h2]
end

theorem length_viaJsonL : ∀ as : List Ast, (Ast.viaJsonL as).length = as.length
  | [] => rfl
  | a :: as => by simp [Ast.viaJsonL, length_viaJsonL as]

mutual
theorem truth_viaJson (σ) : ∀ a : Ast, PlogExpr a → DefaultSigns a → truth σ a.viaJson = truth σ a
  | .var i b, _, _ => by simp [Ast.viaJson, truth]
  | .str i, _, _ => by simp [Ast.viaJson, truth]
  | .atLeast v as oid sgn, h, hs => by
      have ⟨s1, s2⟩ : (sgn = none ∨ sgn = some (sgnOf v none)) ∧ DefaultSignsL as := by simpa [DefaultSigns] using hs
      have : sgnOf v sgn = sgnOf v none := by rcases s1 with rfl | rfl <;> simp [sgnOf]
      simp [Ast.viaJson, truth, truthSum_viaJson σ as (by simpa [PlogExpr] using h) s2, this]
  | .atMost v as oid, h, hs => by
      simp [Ast.viaJson, truth, truthSum_viaJson σ as (by simpa [PlogExpr] using h) (by simpa [DefaultSigns] using hs)]
  | .all as oid, h, hs => by
      simp [Ast.viaJson, truth, length_viaJsonL, truthSum_viaJson σ as (by simpa [PlogExpr] using h) (by simpa [DefaultSigns] using hs)]
  | .any as oid, h, hs => by
      simp [Ast.viaJson, truth, truthSum_viaJson σ as (by simpa [PlogExpr] using h) (by simpa [DefaultSigns] using hs)]
  | .xor as oid e, h, hs => by
      simp [Ast.viaJson, truth, truthSum_viaJson σ as (by simpa [PlogExpr] using h) (by simpa [DefaultSigns] using hs)]
  | .xnor as oid, h, hs => by
      simp [Ast.viaJson, truth, truthSum_viaJson σ as (by simpa [PlogExpr] using h) (by simpa [DefaultSigns] using hs)]
  | .imply c d oid, h, hs => by
      have ⟨h1, h2⟩ : PlogExpr c ∧ PlogExpr d := by simpa [PlogExpr] using h
      have ⟨s1, s2⟩ : DefaultSigns c ∧ DefaultSigns d := by simpa [DefaultSigns] using hs
      simp [Ast.viaJson, truth, truth_viaJson σ c h1 s1, truth_viaJson σ d h2 s2]
  | .not a, h, hs => by
      simp [Ast.viaJson, truth, truth_viaJson σ a (by simpa [PlogExpr] using h) (by simpa [DefaultSigns] using hs)]
  | .ccAny .., h, _ => by simp [PlogExpr] at h
  | .ccXor .., h, _ => by simp [PlogExpr] at h
  | .stingy .., h, _ => by simp [PlogExpr] at h
theorem truthSum_viaJson (σ) : ∀ as : List Ast, PlogExprL as → DefaultSignsL as → truthSum σ (Ast.viaJsonL as) = truthSum σ as
  | [], _, _ => by simp [Ast.viaJsonL, truthSum]
  | a :: as, h, hs => by
      have ⟨h1, h2⟩ : PlogExpr a ∧ PlogExprL as := by simpa [PlogExprL] using h
      have ⟨s1, s2⟩ : DefaultSigns a ∧ DefaultSignsL as := by simpa [DefaultSignsL] using hs
      simp [Ast.viaJsonL, truthSum, truth_viaJson σ a h1 s1, truthSum_viaJson σ as h2 s2]
end

/-- **via the JSON constructor**: the model that `plog.from_json` builds from the JSON of an expression evaluates to the
    expression's truth function -/
theorem json_truth (σ : String → Int) (a : Ast) (h : PlogExpr a) (hs : DefaultSigns a) (hok : Ok σ a.viaJson) :
    ∃ a', PJ.toAst false a.userJson = some a' ∧ evalPt σ a'.build = truth σ a :=
  ⟨a.viaJson, fromJson_userJson a h, by rw [build_truth σ _ hok, truth_viaJson σ a h hs]⟩

/-! #### rule dictionaries -/

/-- number of selected components -/
def sel (σ : String → Int) (ids : List String) : Nat := (ids.filter (fun i => σ i = 1)).length

theorem truthSum_comps (σ : String → Int) (hb : ∀ i, σ i = 0 ∨ σ i = 1) (m : Bool) :
    ∀ ids : List String, truthSum σ (ids.map (Cic.comp m)) = sel σ ids
  | [] => by simp [truthSum, sel]
  | i :: r => by
      have ih := truthSum_comps σ hb m r
      have hc : truth σ (Cic.comp m i) = σ i := by cases m <;> simp [Cic.comp, truth]
      simp only [List.map_cons, truthSum, hc, ih, sel, List.filter_cons]
      rcases hb i with h | h <;> simp [h]
      omega

/-- the consequence of a rule, in words -/
def consSem (σ : String → Int) (d : Cic) : Bool :=
  match d.ruleType with
  | .requiresAll => sel σ d.comps == d.comps.length          -- all of them
  | .requiresAny => decide (sel σ d.comps ≥ 1)               -- at least one
  | .oneOrNone => decide (sel σ d.comps ≤ 1)                 -- at most one
  | .forbidsAll => sel σ d.comps == 0                        -- none
  | .requiresExclusively => sel σ d.comps == 1               -- exactly one

def subSem (σ : String → Int) (s : SubCond) : Bool :=
  if s.all then sel σ s.comps == s.comps.length else decide (sel σ s.comps ≥ 1)

/-- the condition of a rule: the sub-conditions combined by ALL / ANY (a single one stands for itself) -/
def condSem (σ : String → Int) (d : Cic) : Bool :=
  match d.subs with
  | [s] => subSem σ s
  | ss => if d.condAll then ss.all (subSem σ) else ss.any (subSem σ)

/-- what a rule dictionary means: consequence alone, or condition → consequence -/
def ruleSem (σ : String → Int) (d : Cic) : Bool :=
  if !d.hasCond || d.subs.isEmpty then consSem σ d else (!condSem σ d || consSem σ d)

theorem truth_consAst (σ) (hb : ∀ i, σ i = 0 ∨ σ i = 1) (m : Bool) (d : Cic) :
    truth σ (Cic.consAst m d) = if consSem σ d then 1 else 0 := by
  have hs := truthSum_comps σ hb m d.comps
  unfold Cic.consAst consSem
  cases d.ruleType <;> simp only [truth, hs, List.length_map] <;> simp <;> (try split) <;> (try split) <;> omega

theorem truth_subAst (σ) (hb : ∀ i, σ i = 0 ∨ σ i = 1) (m : Bool) (s : SubCond) :
    truth σ (Cic.subAst m s) = if subSem σ s then 1 else 0 := by
  have hs := truthSum_comps σ hb m s.comps
  cases hall : s.all
  · simp only [Cic.subAst, subSem, hall, Bool.false_eq_true, if_false, truth, hs]
    by_cases h : sel σ s.comps ≥ 1 <;> simp [h] <;> omega
  · simp only [Cic.subAst, subSem, hall, if_true, truth, hs, List.length_map]
    by_cases h : sel σ s.comps = s.comps.length <;> simp [h]
    omega

theorem truthSum_subs (σ) (hb : ∀ i, σ i = 0 ∨ σ i = 1) (m : Bool) : ∀ ss : List SubCond,
    truthSum σ (ss.map (Cic.subAst m)) = ((ss.filter (subSem σ)).length : Int) ∧ (ss.filter (subSem σ)).length ≤ ss.length
  | [] => by simp [truthSum]
  | s :: r => by
      have ⟨ih, il⟩ := truthSum_subs σ hb m r
      simp only [List.map_cons, truthSum, truth_subAst σ hb m s, ih, List.filter_cons, List.length_cons]
      cases hsub : subSem σ s <;> simp <;> omega

theorem filter_length_eq_iff_all {α} (f : α → Bool) : ∀ l : List α, (l.filter f).length = l.length ↔ l.all f = true
  | [] => by simp
  | x :: r => by
      have ih := filter_length_eq_iff_all f r
      have hle := List.length_filter_le f r
      cases hx : f x
      · simp only [List.filter_cons, hx, Bool.false_eq_true, if_false, List.length_cons, List.all_cons, Bool.false_and]
        constructor
        · intro h; omega
        · intro h; cases h
      · simp only [List.filter_cons, hx, if_true, List.length_cons, List.all_cons, Bool.true_and]
        constructor
        · intro h; exact ih.1 (by omega)
        · intro h; have := ih.2 h; omega

theorem filter_length_pos_iff_any {α} (f : α → Bool) : ∀ l : List α, (l.filter f).length ≥ 1 ↔ l.any f = true
  | [] => by simp
  | x :: r => by
      have ih := filter_length_pos_iff_any f r
      cases hx : f x
      · simp only [List.filter_cons, hx, Bool.false_eq_true, if_false, List.any_cons, Bool.false_or]
        exact ih
      · simp [hx]

/-- a condition over several sub-conditions, implied consequence -/
theorem truth_imply_many (σ) (hb : ∀ i, σ i = 0 ∨ σ i = 1) (m : Bool) (ss : List SubCond) (condAll : Bool)
    (oid oid2 : Option String) (consA : Ast) (cb : Bool) (hc : truth σ consA = if cb then 1 else 0) :
    truth σ (.imply (if condAll then .all (ss.map (Cic.subAst m)) oid2 else .any (ss.map (Cic.subAst m)) oid2) consA oid) =
      if (!(if condAll then ss.all (subSem σ) else ss.any (subSem σ)) || cb) then 1 else 0 := by
  have ⟨hsum, hlen⟩ := truthSum_subs σ hb m ss
  have hall := filter_length_eq_iff_all (subSem σ) ss
  have hany := filter_length_pos_iff_any (subSem σ) ss
  cases condAll
  · simp only [Bool.false_eq_true, if_false, truth, hc, hsum]
    cases hA : ss.any (subSem σ)
    · have : ¬ (ss.filter (subSem σ)).length ≥ 1 := fun h => by have := hany.1 h; simp [hA] at this
      cases cb <;> simp <;> omega
    · have := hany.2 hA
      cases cb <;> simp <;> omega
  · simp only [if_true, truth, hc, hsum, List.length_map]
    cases hA : ss.all (subSem σ)
    · have : ¬ (ss.filter (subSem σ)).length = ss.length := fun h => by have := hall.1 h; simp [hA] at this
      cases cb <;> simp <;> omega
    · have := hall.2 hA
      cases cb <;> simp <;> omega

/-- **via the rule-dictionary constructor**: the model `Imply.from_cicJE` builds (default component mapping or one that
    returns the id strings) evaluates, on every 0/1 assignment, to what the rule says: REQUIRES_ALL / REQUIRES_ANY /
    ONE_OR_NONE / FORBIDS_ALL / REQUIRES_EXCLUSIVELY of the consequence's components, implied by the ALL / ANY
    combination of the sub-conditions when there is a condition -/
theorem cic_semantics (σ : String → Int) (hb : ∀ i, σ i = 0 ∨ σ i = 1) (m : Bool) (d : Cic) (hok : Ok σ (d.toAst m)) :
    evalPt σ (d.toAst m).build = if ruleSem σ d then 1 else 0 := by
  rw [build_truth σ _ hok]
  have hc := truth_consAst σ hb m d
  unfold Cic.toAst ruleSem
  cases hh : d.hasCond
  · simp [hc]
  · simp only [Bool.not_true, Bool.false_or, Bool.false_eq_true, if_false]
    cases hss : d.subs with
    | nil => simp [hc]
    | cons s r =>
        cases r with
        | nil =>
            simp only [truth, hc, truth_subAst σ hb m s, condSem, hss, List.isEmpty_cons, Bool.false_eq_true, if_false]
            cases subSem σ s <;> cases consSem σ d <;> simp
        | cons s2 r2 =>
            simp only [List.isEmpty_cons, Bool.false_eq_true, if_false, condSem, hss]
            exact truth_imply_many σ hb m (s :: s2 :: r2) d.condAll d.id d.condId _ _ hc

/-- non-vacuity: a rule with two sub-conditions; the hypotheses hold and the rule is false at this point -/
example :
    let d : Cic := { id := some "R", ruleType := .oneOrNone, comps := ["x", "y"], consId := none, hasCond := true, condAll := true,
                     subs := [⟨true, ["a", "b"], none⟩, ⟨false, ["c"], some "S"⟩], condId := none }
    let σ : String → Int := fun i => if i = "z" then 0 else 1
    ruleSem σ d = false ∧ (∀ i, σ i = 0 ∨ σ i = 1) := by
  refine ⟨by decide, fun i => ?_⟩
  simp only; split <;> simp

end Puan.C04
