/-
  C04 — connectives have their documented truth functions.
  (Not / Imply / XNor go through `negate`, i.e. through the repair of defect D1.)
-/
import Puan.Lemmas.Build
import Puan.Props.C05
namespace Puan.C04
open Puan P

/-! ### the constructors at the level of propositions -/

theorem orderArgs_perm (l : List (Bool × P)) : (orderArgs l).Perm (l.map (·.2)) := by
  unfold orderArgs
  rw [← List.map_append]
  apply List.Perm.map
  have := List.filter_append_perm (fun x : Bool × P => !x.1) l
  simpa using this

theorem sum_orderArgs (σ) (l : List (Bool × P)) : sumPt σ (orderArgs l) = sumPt σ (l.map (·.2)) :=
  sumPt_perm σ (orderArgs_perm l)

theorem goodL_orderArgs (σ) (l : List (Bool × P)) : GoodL σ (orderArgs l) ↔ GoodL σ (l.map (·.2)) :=
  goodL_perm σ (orderArgs_perm l)

/-- `All`: true iff the number of true arguments equals the number of arguments -/
theorem evalPt_mkAll (σ) (args : List (Bool × P)) (oid cls) (hd : distinctCount args = args.length)
    (hc : 0 ≤ sumPt σ (args.map (·.2)) ∧ sumPt σ (args.map (·.2)) ≤ args.length) :
    evalPt σ (mkAll args oid cls) = if sumPt σ (args.map (·.2)) = args.length then 1 else 0 := by
  unfold mkAll
  rw [evalPt_mkAtLeast, sum_orderArgs, hd]
  unfold sgnOf
  simp only [Option.getD_none]
  split <;> split <;> split <;> omega

/-- `Any`: true iff at least one argument is true -/
theorem evalPt_mkAny (σ) (args : List (Bool × P)) (oid cls) :
    evalPt σ (mkAny args oid cls) = if sumPt σ (args.map (·.2)) ≥ 1 then 1 else 0 := by
  unfold mkAny
  rw [evalPt_mkAtLeast, sum_orderArgs]
  simp [sgnOf]

/-- `AtMost k`: true iff at most k arguments are true -/
theorem evalPt_mkAtMost (σ) (k : Int) (ks : List P) (var) :
    evalPt σ (mkAtMost k ks var) = if sumPt σ ks ≤ k then 1 else 0 := by
  unfold mkAtMost
  rw [evalPt_mkAtLeast]
  simp only [sgnOf, Option.getD_some]
  have : (-1 * sumPt σ ks ≥ -k) ↔ (sumPt σ ks ≤ k) := by omega
  simp only [this]

theorem distinct_two (a b : P) (h : beq a b = false) : distinctCount [(false, a), (false, b)] = 2 := by
  simp [distinctCount, h]

theorem xor_halves_differ (ks : List P) : beq (mkAtLeast 1 ks none none) (mkAtMost 1 ks none) = false := by
  simp [mkAtLeast, mkAtMost, beq]

/-- `Xor` / `ExactlyOne`: true iff exactly one argument is true -/
theorem evalPt_mkXor (σ) (args : List (Bool × P)) (oid cls) :
    evalPt σ (mkXor args oid cls) = if sumPt σ (args.map (·.2)) = 1 then 1 else 0 := by
  unfold mkXor
  have h1 := evalPt_mkAtLeast σ 1 (orderArgs args) none none .atLeast
  have h2 := evalPt_mkAtMost σ 1 (orderArgs args) none
  rw [sum_orderArgs] at h1 h2
  simp only [sgnOf, Option.getD_none] at h1
  rw [evalPt_mkAll σ _ oid cls (distinct_two _ _ (xor_halves_differ _))]
  · simp only [List.map_cons, List.map_nil, sumPt, h1, h2, List.length_cons, List.length_nil]
    split <;> split <;> split <;> split <;> omega
  · simp only [List.map_cons, List.map_nil, sumPt, h1, h2, List.length_cons, List.length_nil]
    split <;> split <;> omega

theorem evalPt_setCond (σ) (p : P) (cid) : evalPt σ (setCond p cid) = evalPt σ p := by
  cases p <;> simp [setCond, evalPt]

theorem good_setCond (σ) (p : P) (cid) (h : Good σ p) : Good σ (setCond p cid) := by
  cases p <;> simpa [setCond, Good, SignOk, InB] using h

theorem setCond_isLeaf (p : P) (cid) : (setCond p cid).isLeaf = p.isLeaf := by
  cases p <;> simp [setCond, isLeaf]

/-- `XNor`: true iff the number of true arguments is not one -/
theorem evalPt_mkXNor (σ) (args : List (Bool × P)) (oid) (hg : GoodL σ (args.map (·.2))) :
    evalPt σ (mkXNor args oid) = if sumPt σ (args.map (·.2)) = 1 then 0 else 1 := by
  unfold mkXNor
  have hgo := (goodL_orderArgs σ args).2 hg
  have g1 := good_mkAtLeast σ 1 (orderArgs args) none none .atLeast (Or.inl rfl) hgo
  have g2 : Good σ (mkAtMost 1 (orderArgs args) none) :=
    good_mkAtLeast σ (-1) (orderArgs args) none (some (-1)) .atMost (Or.inr (Or.inr rfl)) hgo
  have n1 := C05.negate_compl σ _ g1.1 g1.2 (mkAtLeast_isLeaf _ _ _ _ _)
  have n2 := C05.negate_compl σ _ g2.1 g2.2 (mkAtLeast_isLeaf _ _ _ _ _)
  have h1 := evalPt_mkAtLeast σ 1 (orderArgs args) none none .atLeast
  have h2 := evalPt_mkAtMost σ 1 (orderArgs args) none
  rw [sum_orderArgs] at h1 h2
  simp only [sgnOf, Option.getD_none] at h1
  rw [evalPt_setCond, evalPt_mkAny]
  simp only [List.map_cons, List.map_nil, sumPt, n1, n2, h1, h2]
  split <;> split <;> split <;> split <;> omega

/-- `Not`: the complement -/
theorem evalPt_mkNot (σ) (isAtom : Bool) (a : Bool × P) (hg : Good σ a.2) (hl : isAtom = false → a.2.isLeaf = false)
    (hb : evalPt σ a.2 = 0 ∨ evalPt σ a.2 = 1) :
    evalPt σ (mkNot isAtom a) = 1 - evalPt σ a.2 := by
  unfold mkNot
  cases isAtom with
  | true =>
      simp only [if_true]
      have hgl : GoodL σ ([a].map (·.2)) := (GoodL_iff σ _).2 (by intro k hk; simp at hk; rw [hk]; exact hg)
      have g : Good σ (mkAll [a] none) := good_mkAtLeast σ _ _ _ _ _ (Or.inl rfl) ((goodL_orderArgs σ [a]).2 hgl)
      rw [C05.negate_compl σ _ g.1 g.2 (mkAtLeast_isLeaf _ _ _ _ _)]
      rw [evalPt_mkAll σ [a] none .all (by simp [distinctCount])]
      · simp only [List.map_cons, List.map_nil, sumPt, List.length_cons, List.length_nil]
        rcases hb with h | h <;> simp [h]
      · simp only [List.map_cons, List.map_nil, sumPt, List.length_cons, List.length_nil]
        rcases hb with h | h <;> simp [h]
  | false =>
      simp only [Bool.false_eq_true, if_false]
      exact C05.negate_compl σ _ hg.1 hg.2 (hl rfl)

/-- `Imply`: material implication -/
theorem evalPt_mkImply (σ) (cAtom : Bool) (c d : Bool × P) (oid)
    (hg : Good σ c.2) (hl : cAtom = false → c.2.isLeaf = false)
    (hc : evalPt σ c.2 = 0 ∨ evalPt σ c.2 = 1) (hd : evalPt σ d.2 = 0 ∨ evalPt σ d.2 = 1) :
    evalPt σ (mkImply cAtom c d oid) = if evalPt σ c.2 = 0 ∨ evalPt σ d.2 = 1 then 1 else 0 := by
  unfold mkImply
  simp only [evalPt_setCond]
  rw [evalPt_mkAny]
  simp only [List.map_cons, List.map_nil, sumPt, evalPt_mkNot σ cAtom c hg hl hc]
  rcases hc with h | h <;> rcases hd with h' | h' <;> simp [h, h']

/-! ### arbitrarily nested formulas: the truth function of a constructor expression -/

mutual
def truth (σ : String → Int) : Ast → Int
  | .var i _ => σ i
  | .str i => σ i
  | .atLeast v as _ sgn => if sgnOf v sgn * truthSum σ as ≥ v then 1 else 0
  | .atMost v as _ => if truthSum σ as ≤ v then 1 else 0
  | .all as _ => if truthSum σ as = as.length then 1 else 0
  | .any as _ => if truthSum σ as ≥ 1 then 1 else 0
  | .xor as _ _ => if truthSum σ as = 1 then 1 else 0
  | .xnor as _ => if truthSum σ as = 1 then 0 else 1
  | .imply c d _ => if truth σ c = 0 ∨ truth σ d = 1 then 1 else 0
  | .not a => 1 - truth σ a
  | .ccAny .. => 0
  | .ccXor .. => 0
  | .stingy .. => 0
/-- the number of true arguments -/
def truthSum (σ : String → Int) : List Ast → Int
  | [] => 0
  | a :: as => truth σ a + truthSum σ as
end

mutual
/-- boolean atoms, legal signs, `All` over pairwise distinct arguments; plog classes only -/
def Ok (σ : String → Int) : Ast → Prop
  | .var i b => (b.lo = 0 ∧ b.hi = 1) ∧ (σ i = 0 ∨ σ i = 1)
  | .str i => σ i = 0 ∨ σ i = 1
  | .atLeast _ as _ sgn => (sgn = none ∨ sgn = some 1 ∨ sgn = some (-1)) ∧ OkL σ as
  | .atMost _ as _ => OkL σ as
  | .all as _ => distinctCount (Ast.buildL as) = as.length ∧ OkL σ as
  | .any as _ => OkL σ as
  | .xor as _ _ => OkL σ as
  | .xnor as _ => OkL σ as
  | .imply c d _ => Ok σ c ∧ Ok σ d
  | .not a => Ok σ a
  | .ccAny .. => False
  | .ccXor .. => False
  | .stingy .. => False
def OkL (σ : String → Int) : List Ast → Prop
  | [] => True
  | a :: as => Ok σ a ∧ OkL σ as
end

/-- what the induction carries for one expression -/
def Inv (σ : String → Int) (a : Ast) : Prop :=
  evalPt σ a.build = truth σ a ∧ Good σ a.build ∧ (truth σ a = 0 ∨ truth σ a = 1) ∧
  (a.isAtom = false → a.build.isLeaf = false)

/-- … and for an argument list -/
def InvL (σ : String → Int) (as : List Ast) : Prop :=
  sumPt σ ((Ast.buildL as).map (·.2)) = truthSum σ as ∧ GoodL σ ((Ast.buildL as).map (·.2)) ∧
  (0 ≤ truthSum σ as ∧ truthSum σ as ≤ as.length) ∧ (Ast.buildL as).length = as.length

theorem ite01 (c : Prop) [Decidable c] : (if c then (1:Int) else 0) = 0 ∨ (if c then (1:Int) else 0) = 1 := by
  split <;> simp
theorem ite10 (c : Prop) [Decidable c] : (if c then (0:Int) else 1) = 0 ∨ (if c then (0:Int) else 1) = 1 := by
  split <;> simp

mutual
/-- Models built with All, Any, AtLeast, AtMost, Xor/ExactlyOne, XNor, Imply and Not,
    arbitrarily nested over boolean leaves, evaluate exactly like conjunction, disjunction,
    at-least-k, at-most-k, exactly-one, not-exactly-one, material implication and negation
    of their arguments' truth values. -/
theorem build_inv (σ : String → Int) : ∀ a, Ok σ a → Inv σ a
  | .var i b, h => by
      have ⟨⟨h1, h2⟩, h3⟩ : (b.lo = 0 ∧ b.hi = 1) ∧ (σ i = 0 ∨ σ i = 1) := by simpa [Ok] using h
      refine ⟨by simp [Ast.build, evalPt, truth], ?_, by simpa [truth] using h3, by simp [Ast.isAtom]⟩
      simp only [Good, Ast.build, SignOk, InB, true_and]; rcases h3 with h | h <;> omega
  | .str i, h => by
      have h3 : σ i = 0 ∨ σ i = 1 := by simpa [Ok] using h
      refine ⟨by simp [Ast.build, evalPt, truth], ?_, by simpa [truth] using h3, by simp [Ast.isAtom]⟩
      simp only [Good, Ast.build, SignOk, InB, true_and]; rcases h3 with h | h <;> omega
  | .atLeast v as oid sgn, h => by
      have ⟨hs, hl⟩ : (sgn = none ∨ sgn = some 1 ∨ sgn = some (-1)) ∧ OkL σ as := by simpa [Ok] using h
      have ⟨i1, i2, _, _⟩ := buildL_inv σ as hl
      refine ⟨?_, ?_, by simp only [truth]; exact ite01 _, fun _ => by simp [Ast.build, mkAtLeast_isLeaf]⟩
      · simp only [Ast.build, truth, evalPt_mkAtLeast, sum_orderArgs, i1]
      · exact good_mkAtLeast σ _ _ _ _ _ hs ((goodL_orderArgs σ _).2 i2)
  | .atMost v as oid, h => by
      have hl : OkL σ as := by simpa [Ok] using h
      have ⟨i1, i2, _, _⟩ := buildL_inv σ as hl
      refine ⟨?_, ?_, by simp only [truth]; exact ite01 _, fun _ => by simp [Ast.build, mkAtMost, mkAtLeast_isLeaf]⟩
      · simp only [Ast.build, truth, evalPt_mkAtMost, sum_orderArgs, i1]
      · exact good_mkAtLeast σ _ _ _ _ _ (Or.inr (Or.inr rfl)) ((goodL_orderArgs σ _).2 i2)
  | .all as oid, h => by
      have ⟨hd, hl⟩ : distinctCount (Ast.buildL as) = as.length ∧ OkL σ as := by simpa [Ok] using h
      have ⟨i1, i2, i3, i4⟩ := buildL_inv σ as hl
      refine ⟨?_, ?_, by simp only [truth]; exact ite01 _, fun _ => by simp [Ast.build, mkAll, mkAtLeast_isLeaf]⟩
      · simp only [Ast.build, truth]
        rw [evalPt_mkAll σ _ oid .all (by rw [hd, i4]) (by rw [i1, i4]; exact i3), i1, i4]
      · exact good_mkAtLeast σ _ _ _ _ _ (Or.inl rfl) ((goodL_orderArgs σ _).2 i2)
  | .any as oid, h => by
      have hl : OkL σ as := by simpa [Ok] using h
      have ⟨i1, i2, _, _⟩ := buildL_inv σ as hl
      refine ⟨?_, ?_, by simp only [truth]; exact ite01 _, fun _ => by simp [Ast.build, mkAny, mkAtLeast_isLeaf]⟩
      · simp only [Ast.build, truth, evalPt_mkAny, i1]
      · exact good_mkAtLeast σ _ _ _ _ _ (Or.inl rfl) ((goodL_orderArgs σ _).2 i2)
  | .xor as oid e, h => by
      have hl : OkL σ as := by simpa [Ok] using h
      have ⟨i1, i2, _, _⟩ := buildL_inv σ as hl
      have hgo := (goodL_orderArgs σ (Ast.buildL as)).2 i2
      refine ⟨?_, ?_, by simp only [truth]; exact ite01 _, fun _ => by simp [Ast.build, mkXor, mkAll, mkAtLeast_isLeaf]⟩
      · simp only [Ast.build, truth, evalPt_mkXor, i1]
      · simp only [Ast.build, mkXor, mkAll]
        apply good_mkAtLeast σ _ _ _ _ _ (Or.inl rfl)
        apply (goodL_orderArgs σ _).2
        apply (GoodL_iff σ _).2
        intro k hk
        simp at hk
        rcases hk with rfl | rfl
        · exact good_mkAtLeast σ _ _ _ _ _ (Or.inl rfl) hgo
        · exact good_mkAtLeast σ _ _ _ _ _ (Or.inr (Or.inr rfl)) hgo
  | .xnor as oid, h => by
      have hl : OkL σ as := by simpa [Ok] using h
      have ⟨i1, i2, _, _⟩ := buildL_inv σ as hl
      have hgo := (goodL_orderArgs σ (Ast.buildL as)).2 i2
      refine ⟨?_, ?_, by simp only [truth]; exact ite10 _, fun _ => by simp [Ast.build, mkXNor, mkAny, mkAtLeast_isLeaf, setCond_isLeaf]⟩
      · simp only [Ast.build, truth, evalPt_mkXNor σ _ oid i2, i1]
      · simp only [Ast.build, mkXNor, mkAny]
        apply good_setCond
        apply good_mkAtLeast σ _ _ _ _ _ (Or.inl rfl)
        apply (goodL_orderArgs σ _).2
        apply (GoodL_iff σ _).2
        intro k hk
        simp at hk
        rcases hk with rfl | rfl
        · exact good_negate σ _ (good_mkAtLeast σ _ _ _ _ _ (Or.inl rfl) hgo)
        · exact good_negate σ _ (good_mkAtLeast σ _ _ _ _ _ (Or.inr (Or.inr rfl)) hgo)
  | .imply c d oid, h => by
      have ⟨hc, hd⟩ : Ok σ c ∧ Ok σ d := by simpa [Ok] using h
      have ⟨c1, c2, c3, c4⟩ := build_inv σ c hc
      have ⟨d1, d2, d3, _⟩ := build_inv σ d hd
      have hnot := evalPt_mkNot σ c.isAtom (c.isStr, c.build) c2 c4 (by rw [c1]; exact c3)
      have gnot : Good σ (mkNot c.isAtom (c.isStr, c.build)) := by
        unfold mkNot
        split
        · apply good_negate
          apply good_mkAtLeast σ _ _ _ _ _ (Or.inl rfl)
          apply (goodL_orderArgs σ _).2
          apply (GoodL_iff σ _).2
          intro k hk; simp at hk; rw [hk]; exact c2
        · exact good_negate σ _ c2
      refine ⟨?_, ?_, by simp only [truth]; exact ite01 _, fun _ => ?_⟩
      · simp only [Ast.build, truth]
        rw [evalPt_mkImply σ _ _ _ oid c2 c4 (by rw [c1]; exact c3) (by rw [d1]; exact d3), c1, d1]
      · simp only [Ast.build, mkImply]
        have : Good σ (mkAny [(false, mkNot c.isAtom (c.isStr, c.build)), (d.isStr, d.build)] oid .imply) := by
          apply good_mkAtLeast σ _ _ _ _ _ (Or.inl rfl)
          apply (goodL_orderArgs σ _).2
          apply (GoodL_iff σ _).2
          intro k hk
          simp at hk
          rcases hk with rfl | rfl
          · exact gnot
          · exact d2
        revert this
        generalize mkAny _ oid .imply = q
        intro hq
        cases q <;> simpa [setCond, Good, SignOk, InB] using hq
      · simp only [Ast.build, mkImply, mkAny, mkAtLeast]
        cases oid <;> simp [varOf, setCond, isLeaf]
  | .not a, h => by
      have ha : Ok σ a := by simpa [Ok] using h
      have ⟨a1, a2, a3, a4⟩ := build_inv σ a ha
      refine ⟨?_, ?_, by simp only [truth]; rcases a3 with h | h <;> simp [h], fun _ => ?_⟩
      · simp only [Ast.build, truth]
        rw [evalPt_mkNot σ a.isAtom (a.isStr, a.build) a2 a4 (by rw [a1]; exact a3), a1]
      · simp only [Ast.build, mkNot]
        split
        · apply good_negate
          apply good_mkAtLeast σ _ _ _ _ _ (Or.inl rfl)
          apply (goodL_orderArgs σ _).2
          apply (GoodL_iff σ _).2
          intro k hk; simp at hk; rw [hk]; exact a2
        · exact good_negate σ _ a2
      · simp only [Ast.build, mkNot]
        split
        · exact negate_isLeaf _ (by simp [mkAll, mkAtLeast_isLeaf])
        · rename_i hna
          exact negate_isLeaf _ (a4 (by simpa using hna))
  | .ccAny .., h => by simp [Ok] at h
  | .ccXor .., h => by simp [Ok] at h
  | .stingy .., h => by simp [Ok] at h
theorem buildL_inv (σ : String → Int) : ∀ as, OkL σ as → InvL σ as
  | [], _ => by simp [InvL, Ast.buildL, sumPt, truthSum, GoodL, SignOks, InBs]
  | a :: as, h => by
      have ⟨h1, h2⟩ : Ok σ a ∧ OkL σ as := by simpa [OkL] using h
      have ⟨a1, a2, a3, _⟩ := build_inv σ a h1
      have ⟨l1, l2, l3, l4⟩ := buildL_inv σ as h2
      refine ⟨?_, ?_, ?_, by simp [Ast.buildL, l4]⟩
      · simp [Ast.buildL, sumPt, truthSum, a1, l1]
      · simp only [Ast.buildL, List.map_cons, GoodL, SignOks, InBs]
        exact ⟨⟨a2.1, l2.1⟩, ⟨a2.2, l2.2⟩⟩
      · simp only [truthSum, List.length_cons]
        rcases a3 with h | h <;> omega
end

/-- the statement of C04 for one expression -/
theorem build_truth (σ : String → Int) (a : Ast) (h : Ok σ a) : evalPt σ a.build = truth σ a :=
  (build_inv σ a h).1

/-- at-least-k with k ≥ 1 (or an explicit + sign) counts true arguments -/
theorem truth_atLeast_pos (σ) (k : Int) (as oid) (hk : k ≥ 1) :
    truth σ (.atLeast k as oid none) = if truthSum σ as ≥ k then 1 else 0 := by
  have : sgnOf k none = 1 := by simp [sgnOf]; omega
  simp [truth, this]

/-- non-vacuity: a nested expression meeting `Ok`, evaluated at a point -/
example :
    let a : Ast := .imply (.xor [.str "a", .str "b"] none false) (.not (.all [.str "c", .any [.str "a", .str "c"] none] (some "N"))) none
    let σ : String → Int := fun i => if i = "a" then 1 else 0
    truth σ a = 1 := by decide

end Puan.C04
