/-
  C09 — queries are pure and results are independent of call history.
  In the model this is true by construction (values are immutable); the theorems below state
  it so that the correspondence has something precise to transfer.  The assurance for C09
  comes from the correspondence: real objects are driven through random call histories, every
  result is compared with the model's pure function of the receiver's *current* snapshot and
  with a freshly built identical object, and every live object is snapshotted after every call.
  The calls of the model include the JSON round trip (`Call.jsonRoundtrip cfg`: `from_json(to_json(x))` under plog's or the
  configurator's class map — reading a document back is a query on the document), so `run_history_free` / `same_as_fresh`
  speak about it too; on the real code the class map is module-level state, which is why the history check asks for it.
-/
import Puan.Model.Hist
namespace Puan.C09
open Puan Hist

/-- a call never changes any object of the heap -/
theorem step_heap (heap : Heap) (h : Nat) (c : Call) : (step heap h c).1 = heap := rfl

/-- the result of every call of a history is what the same call returns on a fresh heap holding
    the objects as they were built: results do not depend on the calls made before -/
theorem run_history_free : ∀ (heap : Heap) (calls : List (Nat × Call)),
    run heap calls = calls.map (fun hc => (heap[hc.1]?).map (out · hc.2))
  | _, [] => rfl
  | heap, (h, c) :: rest => by
      simp only [run, step, List.map_cons]
      rw [run_history_free heap rest]

/-- in particular: the same call after any history equals the call on a freshly built object -/
theorem same_as_fresh (heap : Heap) (before : List (Nat × Call)) (h : Nat) (c : Call) (t : P)
    (ht : heap[h]? = some t) :
    (run heap (before ++ [(h, c)])).getLast? = some (some (out t c)) := by
  rw [run_history_free]
  simp [ht]

/-- the known impurity touches only the receiver: every other object stays as it was -/
theorem leaky_others (heap : Heap) (h j : Nat) (c : Call) (hj : j ≠ h) :
    (stepLeaky heap h c).1[j]? = heap[j]? := by
  unfold stepLeaky
  cases hh : heap[h]? with
  | none => rfl
  | some t => simp [Ne.symm hj]

/-- … and calls that are not assume / evaluate / evaluate_propositions do not even touch the receiver -/
theorem leaky_pure_calls (heap : Heap) (h : Nat) (c : Call)
    (hc : match c with | .evaluate _ => False | .evalProps _ => False | .assume _ => False | _ => True) :
    (stepLeaky heap h c).1 = heap := by
  unfold stepLeaky
  cases hh : heap[h]? with
  | none => rfl
  | some t =>
      have : leakOf t c = t := by cases c <;> simp_all [leakOf]
      simp only [this]
      apply List.ext_getElem?
      intro k
      by_cases hk : k = h
      · subst hk; simp [List.getElem?_set, hh]; exact (List.getElem?_eq_some_iff.1 hh).1
      · simp [Ne.symm hk]

mutual
/-- a dictionary naming no compound id of the receiver leaks nothing: the finding's class
    predicate is exact -/
theorem leak_none (I : Interp) : ∀ t : P, (∀ n ∈ P.subs t, n.isLeaf = false → I n.id = none) → leak I t = t
  | .leaf i b, _ => by simp [leak]
  | .node i b s v ks m, h => by
      have hi : I i = none := h (.node i b s v ks m) (by simp [P.subs]) rfl
      have hk := leakL_none I ks (fun n hn hl => h n (by simp [P.subs, hn]) hl)
      simp [leak, hi, hk]
theorem leakL_none (I : Interp) : ∀ ks : List P, (∀ n ∈ P.subsL ks, n.isLeaf = false → I n.id = none) → leakL I ks = ks
  | [], _ => by simp [leakL]
  | k :: ks, h => by
      simp only [leakL]
      rw [leak_none I k (fun n hn hl => h n (by simp [P.subsL, hn]) hl),
          leakL_none I ks (fun n hn hl => h n (by simp [P.subsL, hn]) hl)]
end

/-- non-vacuity / witness of finding F-C09a in the model: naming compound id "B" leaks -/
example :
    let t : P := .node "T" ⟨0,1⟩ 1 2 [.node "B" ⟨0,1⟩ 1 1 [.leaf "x" ⟨0,1⟩, .leaf "y" ⟨0,1⟩] {}, .leaf "z" ⟨0,1⟩] {}
    let I : Interp := Interp.ofList [("B", ⟨1,1⟩), ("z", ⟨1,1⟩)]
    (leak I t).kids.map (·.bnd) = [⟨1,1⟩, ⟨0,1⟩] ∧ P.evalB (Interp.ofList [("x", ⟨0,0⟩), ("y", ⟨0,0⟩), ("z", ⟨1,1⟩)]) (leak I t) = ⟨1,1⟩ := by
  decide

end Puan.C09
