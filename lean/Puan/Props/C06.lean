/-
  C06 — partial evaluation and tautology/contradiction flags are sound.
-/
import Puan.Lemmas.Eval
namespace Puan.C06
open Puan P

/-- Evaluating on a partial or interval-valued interpretation returns bounds that contain
    the node's value under every completion of the leaves within the given intervals
    (declared bounds where nothing is given). -/
theorem evalB_sound (I : Interp) (σ : String → Int) (t : P) (hs : SignOk t) (hc : Compl I σ t) :
    Bnd.mem (evalOv I σ t) (evalB I t) := sound I σ t hs hc

/-- A returned constant is never contradicted by any completion. -/
theorem const_never_contradicted (I : Interp) (σ : String → Int) (t : P) (c : Int)
    (hs : SignOk t) (hc : Compl I σ t) (h : evalB I t = Bnd.pt c) : evalOv I σ t = c := by
  have := evalB_sound I σ t hs hc
  rw [h] at this
  simp [Bnd.mem, Bnd.pt] at this
  omega

/-- Refining the interpretation can only shrink the returned bounds. -/
theorem evalB_mono (A J : Interp) (t : P) (hs : SignOk t) (h : Refines A J t) :
    (evalB J t).sub (evalB A t) := mono A J t hs h

/-! ### equation bounds: the exact attainable range of s·Σ − v over the children's boxes -/

/-- a valuation of the children, one value per child, each inside that child's bounds -/
def InBoxL : List Int → List P → Prop
  | [], [] => True
  | y :: ys, k :: ks => (k.bnd.lo ≤ y ∧ y ≤ k.bnd.hi) ∧ InBoxL ys ks
  | _, _ => False

def lsum : List Int → Int
  | [] => 0
  | y :: ys => y + lsum ys

def WfL : List P → Prop
  | [] => True
  | k :: ks => k.bnd.lo ≤ k.bnd.hi ∧ WfL ks

theorem eqSums_pos : ∀ (ys : List Int) (ks : List P), InBoxL ys ks →
    eqSumLo 1 ks ≤ lsum ys ∧ lsum ys ≤ eqSumHi 1 ks
  | [], [], _ => by simp [eqSumLo, eqSumHi, lsum]
  | [], _ :: _, h => by simp [InBoxL] at h
  | _ :: _, [], h => by simp [InBoxL] at h
  | y :: ys, k :: ks, h => by
      have ⟨h1, h2⟩ : (k.bnd.lo ≤ y ∧ y ≤ k.bnd.hi) ∧ InBoxL ys ks := by simpa [InBoxL] using h
      have ih := eqSums_pos ys ks h2
      simp only [eqSumLo, eqSumHi, lsum]; omega

theorem eqSums_neg : ∀ (ys : List Int) (ks : List P), InBoxL ys ks →
    eqSumHi (-1) ks ≤ -lsum ys ∧ -lsum ys ≤ eqSumLo (-1) ks
  | [], [], _ => by simp [eqSumLo, eqSumHi, lsum]
  | [], _ :: _, h => by simp [InBoxL] at h
  | _ :: _, [], h => by simp [InBoxL] at h
  | y :: ys, k :: ks, h => by
      have ⟨h1, h2⟩ : (k.bnd.lo ≤ y ∧ y ≤ k.bnd.hi) ∧ InBoxL ys ks := by simpa [InBoxL] using h
      have ih := eqSums_neg ys ks h2
      simp only [eqSumLo, eqSumHi, lsum]; omega

theorem eqSums_enclose (s : Int) (hs : s = 1 ∨ s = -1) (ys : List Int) (ks : List P) (h : InBoxL ys ks) :
    min (eqSumLo s ks) (eqSumHi s ks) ≤ s * lsum ys ∧ s * lsum ys ≤ max (eqSumLo s ks) (eqSumHi s ks) := by
  rcases hs with rfl | rfl
  · have := eqSums_pos ys ks h; omega
  · have := eqSums_neg ys ks h; omega

/-- the reported equation bounds enclose s·Σ − v for every in-bounds valuation of the children -/
theorem eqBounds_enclose (s v : Int) (hs : s = 1 ∨ s = -1) (ys : List Int) (ks : List P) (h : InBoxL ys ks) :
    (eqBounds s v ks).lo ≤ s * lsum ys - v ∧ s * lsum ys - v ≤ (eqBounds s v ks).hi := by
  have := eqSums_enclose s hs ys ks h
  simp only [eqBounds]; omega

def los : List P → List Int
  | [] => []
  | k :: ks => k.bnd.lo :: los ks
def his : List P → List Int
  | [] => []
  | k :: ks => k.bnd.hi :: his ks

theorem los_box : ∀ ks, WfL ks → InBoxL (los ks) ks
  | [], _ => by simp [los, InBoxL]
  | k :: ks, h => by
      have ⟨h1, h2⟩ : k.bnd.lo ≤ k.bnd.hi ∧ WfL ks := by simpa [WfL] using h
      simp only [los, InBoxL]; exact ⟨⟨Int.le_refl _, h1⟩, los_box ks h2⟩
theorem his_box : ∀ ks, WfL ks → InBoxL (his ks) ks
  | [], _ => by simp [his, InBoxL]
  | k :: ks, h => by
      have ⟨h1, h2⟩ : k.bnd.lo ≤ k.bnd.hi ∧ WfL ks := by simpa [WfL] using h
      simp only [his, InBoxL]; exact ⟨⟨h1, Int.le_refl _⟩, his_box ks h2⟩

theorem lsum_los (s : Int) : ∀ ks, s * lsum (los ks) = eqSumLo s ks
  | [] => by simp [los, lsum, eqSumLo]
  | k :: ks => by simp only [los, lsum, eqSumLo, Int.mul_add, lsum_los s ks, Int.mul_comm]
theorem lsum_his (s : Int) : ∀ ks, s * lsum (his ks) = eqSumHi s ks
  | [] => by simp [his, lsum, eqSumHi]
  | k :: ks => by simp only [his, lsum, eqSumHi, Int.mul_add, lsum_his s ks, Int.mul_comm]

/-- both ends of the reported equation bounds are attained by an in-bounds valuation -/
theorem eqBounds_attained (s v : Int) (ks : List P) (hw : WfL ks) :
    (∃ ys, InBoxL ys ks ∧ s * lsum ys - v = (eqBounds s v ks).lo) ∧
    (∃ ys, InBoxL ys ks ∧ s * lsum ys - v = (eqBounds s v ks).hi) := by
  have hl := lsum_los s ks
  have hh := lsum_his s ks
  simp only [eqBounds]
  constructor
  · by_cases h : eqSumLo s ks ≤ eqSumHi s ks
    · exact ⟨los ks, los_box ks hw, by omega⟩
    · exact ⟨his ks, his_box ks hw, by omega⟩
  · by_cases h : eqSumLo s ks ≤ eqSumHi s ks
    · exact ⟨his ks, his_box ks hw, by omega⟩
    · exact ⟨los ks, los_box ks hw, by omega⟩

/-- reported as tautology ⇔ true for every in-bounds valuation of the children -/
theorem tautology_iff (s v : Int) (hs : s = 1 ∨ s = -1) (ks : List P) (hw : WfL ks) :
    isTautology s v ks = true ↔ ∀ ys, InBoxL ys ks → s * lsum ys ≥ v := by
  simp only [isTautology, decide_eq_true_eq]
  constructor
  · intro h ys hy
    have := (eqBounds_enclose s v hs ys ks hy).1
    omega
  · intro h
    obtain ⟨ys, hy, he⟩ := (eqBounds_attained s v ks hw).1
    have := h ys hy
    omega

/-- reported as contradiction ⇔ false for every in-bounds valuation of the children -/
theorem contradiction_iff (s v : Int) (hs : s = 1 ∨ s = -1) (ks : List P) (hw : WfL ks) :
    isContradiction s v ks = true ↔ ∀ ys, InBoxL ys ks → ¬ (s * lsum ys ≥ v) := by
  simp only [isContradiction, decide_eq_true_eq]
  constructor
  · intro h ys hy
    have := (eqBounds_enclose s v hs ys ks hy).2
    omega
  · intro h
    obtain ⟨ys, hy, he⟩ := (eqBounds_attained s v ks hw).2
    have := h ys hy
    omega

/-- non-vacuity: a partial interpretation with a sub-range on an integer leaf -/
example :
    let t : P := .node "A" ⟨0,1⟩ 1 2 [.leaf "x" ⟨0,1⟩, .leaf "z" ⟨-3,10⟩] {}
    let I : Interp := Interp.ofList [("z", ⟨1,4⟩)]
    evalB I t = ⟨0, 1⟩ ∧ isTautology 1 2 t.kids = false ∧ eqBounds 1 2 t.kids = ⟨-5, 9⟩ := by decide

end Puan.C06
