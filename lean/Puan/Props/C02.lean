/-
  C02 — integer solutions of the polyhedron are exactly the satisfying configurations.
-/
import Puan.Props.C01
import Puan.Lemmas.SafeBuild
namespace Puan.C02
open Puan P

mutual
theorem box_of_agrees (x σ : String → Int) : ∀ p, Agrees x σ p → InB σ p → Free01 p → Box x p
  | .leaf i b, ha, hb, _ => by
      have h : x i = σ i := by simpa [Agrees] using ha
      simpa [Box, h, InB] using hb
  | .node i b s v ks m, ha, hb, hf => by
      have ⟨hx, hks⟩ : x i = evalPt σ (.node i b s v ks m) ∧ AgreesL x σ ks := by simpa [Agrees] using ha
      have hb' : InBs σ ks := by simpa [InB] using hb
      have ⟨hf1, hf2⟩ : (b.lo = 0 ∧ b.hi = 1) ∧ Free01L ks := by simpa [Free01] using hf
      have hr := evalPt_node_range σ i b s v ks m
      simp only [Box]
      exact ⟨by omega, boxL_of_agrees x σ ks hks hb' hf2⟩
theorem boxL_of_agrees (x σ : String → Int) : ∀ ks, AgreesL x σ ks → InBs σ ks → Free01L ks → BoxL x ks
  | [], _, _, _ => by simp [BoxL]
  | k :: ks, ha, hb, hf => by
      have ⟨a1, a2⟩ : Agrees x σ k ∧ AgreesL x σ ks := by simpa [AgreesL] using ha
      have ⟨b1, b2⟩ : InB σ k ∧ InBs σ ks := by simpa [InBs] using hb
      have ⟨f1, f2⟩ : Free01 k ∧ Free01L ks := by simpa [Free01L] using hf
      simp only [BoxL]
      exact ⟨box_of_agrees x σ k a1 b1 f1, boxL_of_agrees x σ ks a2 b2 f2⟩
end

/-- No valid configuration is lost: a leaf assignment that makes the model true can be
    completed (by the evaluated truth values) to an in-bounds integer point of the
    asserted polyhedron. -/
theorem complete (σ : String → Int) (i b s v ks m)
    (hc : C01.Coherent σ (.node i b s v ks m)) (hb : InB σ (.node i b s v ks m))
    (hs : SignOk (.node i b s v ks m)) (hf : Free01 (.node i b s v ks m))
    (htrue : evalPt σ (.node i b s v ks m) = 1) :
    ∃ x : String → Int, Box x (.node i b s v ks m) ∧ Agrees x σ (.node i b s v ks m) ∧
      ∀ r ∈ encode true (.node i b s v ks m), r.sat x := by
  refine ⟨C01.ext _ σ, ?_, C01.agrees_ext σ _ hc, ?_⟩
  · exact box_of_agrees _ σ _ (C01.agrees_ext σ _ hc) hb hf
  · exact (C01.enc_active_iff _ σ i b s v ks m (C01.agrees_ext σ _ hc) hb hs hf).2 htrue

/-- In solver-safe form every selected compound column is justified by the leaf part. -/
theorem sound (x : String → Int) (t : P) (hs : Safe t) (hf : Free01 t) (hb : Box x t)
    (hr : ∀ r ∈ encode false t, r.sat x) : x t.id ≤ evalPt x t := by
  apply sel_le_eval x t hs hf hb
  cases t with
  | leaf i b => simp [RowsSat]
  | node i b s v ks m => exact (rows_spec x _).1 (by simpa [encode] using hr)

/-- In solver-safe form the leaf part of every in-bounds integer point of the asserted
    polyhedron makes the model true. -/
theorem sound_active (x : String → Int) (i b s v ks m)
    (hs : Safe (.node i b s v ks m)) (hf : Free01 (.node i b s v ks m)) (hb : Box x (.node i b s v ks m))
    (hr : ∀ r ∈ encode true (.node i b s v ks m), r.sat x) :
    evalPt x (.node i b s v ks m) = 1 := by
  have ⟨hs1, hs2⟩ : (s = 1 ∨ (s = -1 ∧ ∀ k ∈ ks, k.isLeaf = true)) ∧ SafeL ks := by simpa [Safe] using hs
  have ⟨_, hf2⟩ : (b.lo = 0 ∧ b.hi = 1) ∧ Free01L ks := by simpa [Free01] using hf
  have ⟨_, hb2⟩ : (b.lo ≤ x i ∧ x i ≤ b.hi) ∧ BoxL x ks := by simpa [Box] using hb
  simp only [encode, if_true, List.mem_cons, forall_eq_or_imp, topRow_sat, rowsL_spec] at hr
  obtain ⟨htop, hrest⟩ := hr
  have hle := sel_le_evalL x ks hs2 hf2 hb2 hrest
  simp only [evalPt]
  rcases hs1 with rfl | ⟨rfl, hl⟩
  · split <;> omega
  · have hc := colSum_leaves x ks hl
    rw [hc] at htop
    split <;> omega

/-- The solver-safe hypothesis is forced: a compound under a negatively signed parent
    admits an in-box point of the asserted polyhedron whose leaves falsify the model. -/
theorem unsafe_witness :
    let t : P := .node "T" ⟨0,1⟩ (-1) 0 [.node "B" ⟨0,1⟩ 1 1 [.leaf "a" ⟨0,1⟩] {}] {}
    let x : String → Int := fun i => if i = "a" then 1 else 0
    (encode true t).all (fun r => decide (r.sat x)) = true ∧ evalPt x t = 0 := by decide

/-- "Negation pushes inwards to re-establish this form": every constructor expression of the safe grammar
    (boolean variables; All / Any / XNor / Imply / Not / positively signed AtLeast over safe arguments, arbitrarily
    nested; AtMost / Xor / negatively signed AtLeast over variables only) builds a model in solver-safe form … -/
theorem expr_safe (a : Ast) (h : a.SafeExpr) : Safe a.build := (Ast.build_sb a h).1

/-- … so for such an expression the leaf part of every in-bounds integer point of the asserted polyhedron
    makes the model true: whatever an exact ILP solver returns is a valid configuration. -/
theorem expr_sound (a : Ast) (x : String → Int) (i b s v ks m) (h : a.SafeExpr) (hb : a.build = .node i b s v ks m)
    (hx : Box x a.build) (hr : ∀ r ∈ encode true a.build, r.sat x) :
    evalPt x a.build = 1 := by
  have hs := expr_safe a h
  have hf := Ast.build_free01 a h      -- constructors never pre-fix a sub-proposition
  rw [hb] at hs hf hx hr ⊢
  exact sound_active x i b s v ks m hs hf hx hr

/-- non-vacuity of `expr_safe` (the witness of seeded change C02-a): Not(XNor(All(a,b), Any(c,d))) is in the
    safe grammar, although it negates an "at most" over compounds twice -/
example :
    let a : Ast := .not (.xnor [.all [.str "a", .str "b"] none, .any [.str "c", .str "d"] none] none)
    a.SafeExpr ∧ Safe a.build := by
  intro a
  have h : a.SafeExpr := by simp [a, Ast.SafeExpr, Ast.SafeExprL]
  exact ⟨h, expr_safe a h⟩

/-- non-vacuity of `sound_active`: a solver-safe model and an in-box point satisfying all rows -/
example :
    let t : P := .node "T" ⟨0,1⟩ 1 1 [.node "B" ⟨0,1⟩ (-1) (-1) [.leaf "a" ⟨0,1⟩, .leaf "c" ⟨0,3⟩] {}] {}
    let x : String → Int := fun i => if i = "B" then 1 else if i = "c" then 1 else 0
    (encode true t).all (fun r => decide (r.sat x)) = true ∧ evalPt x t = 1 := by decide

/-- **no valid configuration is lost, for models that `errors()` accepts** (reference-free, no compound pre-fixed): the
    coherence hypothesis of `complete` is what validation gives (C01.validated_coherent) -/
theorem complete_validated (σ : String → Int) (i b s v ks m)
    (he : errors (.node i b s v ks m) = []) (hr : C01.RefFree (.node i b s v ks m)) (hb : InB σ (.node i b s v ks m))
    (hs : SignOk (.node i b s v ks m)) (hf : Free01 (.node i b s v ks m))
    (htrue : evalPt σ (.node i b s v ks m) = 1) :
    ∃ x : String → Int, Box x (.node i b s v ks m) ∧ Agrees x σ (.node i b s v ks m) ∧
      ∀ r ∈ encode true (.node i b s v ks m), r.sat x :=
  complete σ i b s v ks m (C01.validated_coherent σ _ he hr) hb hs hf htrue

end Puan.C02
