/-
  C16 — JSON round trip preserves meaning, explicit ids and defaults.
  Theorems:
  * `frag_roundtrip` — the fragment variable / AtLeast (any sign and value — the part repaired by
    the fix for finding F16a) / AtMost / Any / All / Xor / ExactlyOne, nested arbitrarily: the model
    read back evaluates identically on EVERY assignment and has the same leaf variables and bounds.
  * `fragN_roundtrip` — the same plus Imply and XNor nodes (and therefore every model `Not(…)` /
    `negate` produce, which are AtLeast nodes of some sign and value): the model read back evaluates
    identically on every assignment inside the leaf bounds.  The work is `nrt_node`: the JSON that
    `to_json` writes for the negation of the condition held (`toJsonNeg`, mirroring `negate`'s case
    analysis) reads back as the complement.
  * `build_roundtrip` — the same statement for what the constructors build: every constructor
    expression over the plog classes (`RTExpr cfg`) builds a model of the fragment (`build_fragN`:
    closure of `FragN cfg` under `negate`, and the shape each constructor produces — `fragN_mkXor`,
    `fragN_mkImply`, `fragN_mkXNor`, …).
  * `defaults_kept`, `id_written_iff` — defaults and explicit ids.
  * `ccXor_items_roundtrip`, `ccAny_items_roundtrip` — the configurator's own rule classes over
    items, through the configurator's class map (`toAst true`): a defaulted `cc.Xor` / `cc.Any`
    over items is read back as the same class over the same items with the same default and
    evaluates identically (built on C14's `evalPt_mkCcXor` / `evalPt_mkCcAny`), and stays `Good`.
  * every theorem of the file is stated for BOTH class maps (`cfg : Bool`, `PJ.toAst cfg`): plog's own
    (`cfg = false`) and the configurator's (`cfg = true`, which reads every "Xor" as a `cc.Xor`, an
    "Any" with a default as a `cc.Any`, and knows `StingyConfigurator`).
  * `configurator_roundtrip` — `StingyConfigurator(*rules)`: written as a StingyConfigurator node,
    read back as one, holding on the same in-bounds assignments; the rules (`RTExpr true`) are
    constructor expressions over the plog classes AND defaulted `cc.Xor` / `cc.Any` over alternatives
    that are themselves such expressions (`CcXorRule` / `CcAnyRule` are members of the fragment
    `FragN true`: `fragN_mkCcXor_items`, `fragN_mkCcAny_items`, `rtn_ccXor`, `rtn_ccAny`, on
    `ccXor_roundtrip_gen` / `ccAny_roundtrip_gen`: alternatives of any kind that read back), nested
    arbitrarily — a defaulted choice below an Imply below the configurator, a choice below a choice
    (see the last two `example`s).  `build_untagged`: no constructor tags what it returns (the −2 sits
    on the helper inside a defaulted cc.Any), so "alternatives carry no priority tag" is a theorem.
  For All / StingyConfigurator the proofs need the children to stay pairwise distinct after the round
  trip (`DistinctRT cfg`) — exactly what fails on the models of known finding F16f.  Hypotheses kept
  for the configurator rules: items among the alternatives never take negative values
  (`ItemsNonneg`), and at most one item carries the first default's id (`OneDefault`).
  * `items_configurator_exact` — the everyday configurator, `StingyConfigurator` over defaulted
    `cc.Xor` / `cc.Any` rules whose alternatives are items (ids pairwise distinct), is read back as
    the VERY SAME model (`a.build = model`): same default priorities (`Lex.defaultPrios`), same
    polyhedron (`P.encode`), same columns, same JSON.  On `ccAny_items_exact`, `ccXor_items_exact`
    (the constructors depend on their alternatives only as a set: `mkCcAny_congr`, `mkCcXor_congr`,
    from C18's `sorted_unique`) and `stingy_exact` (a configurator whose rules come back as themselves).
    Hypothesis besides distinct ids: the generated id of a cc.Any helper is no item's id.
  PARTIAL: for configurators with other rules, default priorities and the polyhedron after the
  round trip are covered by the correspondence (toJson / toAst + build against the real code) and
  the oracle only.
-/
import Puan.Model.Json
import Puan.Lemmas.Build
import Puan.Props.C04
import Puan.Props.C14
import Puan.Props.C18
import Puan.Props.C10
import Puan.Model.Encode
import Puan.Model.Solve
namespace Puan.C16
open Puan P

variable {cfg : Bool}

/-- the children stay pairwise distinct propositions after the round trip (what `All` counts with `len(set(…))`);
    it fails exactly on the models of known finding F16f -/
def DistinctRT (cfg : Bool) (ks : List P) : Prop :=
  ∀ as, PJ.toAstL cfg (toJsonL ks) = some as → distinctCount (Ast.buildL as) = as.length

/-- the two halves of an `Xor` / `ExactlyOne`: "at least one" and "at most one" of the same propositions, in either order -/
def XorShape (ks : List P) : Prop :=
  ∃ i1 b1 m1 i2 b2 m2 args,
    ks = [.node i1 b1 1 1 args m1, .node i2 b2 (-1) (-1) args m2] ∨
    ks = [.node i2 b2 (-1) (-1) args m2, .node i1 b1 1 1 args m1]

mutual
/-- the fragment: variables; AtLeast (any legal sign); AtMost; Any; All (value = number of children, children distinct
    after the round trip); Xor / ExactlyOne (the two halves over the same propositions) — nested arbitrarily -/
def Frag (cfg : Bool) : P → Prop
  | .leaf _ _ => True
  | .node _ _ s v ks m =>
      ((m.cls = .atLeast ∧ (s = 1 ∨ s = -1)) ∨ (m.cls = .atMost ∧ s = -1) ∨ (m.cls = .any ∧ s = 1 ∧ v = 1) ∨
       (m.cls = .all ∧ v = ks.length ∧ s = (if v > 0 then 1 else -1) ∧ DistinctRT cfg ks) ∨
       ((m.cls = .xor ∨ m.cls = .exactlyOne) ∧ s = 1 ∧ v = 2 ∧ XorShape ks)) ∧ FragL cfg ks
def FragL (cfg : Bool) : List P → Prop
  | [] => True
  | k :: ks => Frag cfg k ∧ FragL cfg ks
end

/-- the sign written to JSON (only when it differs from the default) reads back as the sign -/
theorem sgnOf_signJ (s v : Int) (hs : s = 1 ∨ s = -1) : sgnOf v (signJ s v) = s := by
  rcases hs with rfl | rfl <;> by_cases hv : v > 0 <;> simp [sgnOf, signJ, defaultSign, hv]

theorem leaf_roundtrip (i : String) (b : Bnd) : PJ.toAst cfg (leafJ i b) = some (.var i b) := by
  unfold leafJ
  split
  · rename_i h
    cases b with
    | mk lo hi => simp at h; simp [PJ.toAst, h.1, h.2]
  · simp [PJ.toAst]

theorem toAstL_length : ∀ (js : List PJ) (as : List Ast), PJ.toAstL cfg js = some as → as.length = js.length
  | [], as, h => by simp [PJ.toAstL] at h; subst h; rfl
  | j :: js, as, h => by
      simp only [PJ.toAstL] at h
      split at h
      · rename_i a as' _ h2
        cases h
        simp [toAstL_length js as' h2]
      · cases h

theorem toJsonL_length : ∀ ks : List P, (toJsonL ks).length = ks.length
  | [] => by simp [toJsonL]
  | k :: ks => by simp [toJsonL, toJsonL_length ks]

theorem buildL_length : ∀ as : List Ast, (Ast.buildL as).length = as.length
  | [] => rfl
  | a :: as => by simp [Ast.buildL, buildL_length as]

/-! ### … over the same leaf variables with the same bounds -/

mutual
/-- the leaf variables of a model with their bounds, in tree order (one entry per occurrence) -/
def leafList : P → List (String × Bnd)
  | .leaf i b => [(i, b)]
  | .node _ _ _ _ ks _ => leafListL ks
def leafListL : List P → List (String × Bnd)
  | [] => []
  | k :: ks => leafList k ++ leafListL ks
end

theorem leafListL_perm : ∀ {l1 l2 : List P}, l1.Perm l2 → (leafListL l1).Perm (leafListL l2) := by
  intro l1 l2 h
  induction h with
  | nil => exact List.Perm.refl _
  | cons x _ ih => simp only [leafListL]; exact List.Perm.append_left _ ih
  | swap x y l =>
      simp only [leafListL]
      rw [← List.append_assoc, ← List.append_assoc]
      exact List.Perm.append_right _ List.perm_append_comm
  | trans _ _ ih1 ih2 => exact ih1.trans ih2

theorem leafList_mkAtLeast (v : Int) (ks : List P) (var sgn cls) :
    (leafList (mkAtLeast v ks var sgn cls)).Perm (leafListL ks) := by
  unfold mkAtLeast
  cases var with
  | none => simp only [leafList]; exact leafListL_perm (sortById_perm ks)
  | some x => simp only [leafList]; exact leafListL_perm (sortById_perm ks)

theorem leafListL_append : ∀ a b : List P, leafListL (a ++ b) = leafListL a ++ leafListL b
  | [], b => by simp [leafListL]
  | x :: a, b => by simp [leafListL, leafListL_append a b, List.append_assoc]

theorem leafListL_args (l : List (Bool × P)) : (leafListL (orderArgs l)).Perm (leafListL (l.map (·.2))) :=
  leafListL_perm (C04.orderArgs_perm l)

theorem leafList_setDflt (p : P) (d) : leafList (setDflt p d) = leafList p := by
  cases p <;> simp [setDflt, leafList]

theorem good_setDflt (σ) (p : P) (d) : Good σ (setDflt p d) ↔ Good σ p := by
  cases p <;> simp [setDflt, Good, SignOk, InB]

/-- what the round trip gives for one proposition: a constructor call whose model evaluates alike, and the same for
    the list of its children -/
def RT (cfg : Bool) (t : P) : Prop :=
  (∃ a, PJ.toAst cfg (toJson t) = some a ∧ (∀ σ, evalPt σ a.build = evalPt σ t) ∧ (leafList a.build).Perm (leafList t)) ∧
  (∃ as, PJ.toAstL cfg (toJsonL t.kids) = some as ∧ (∀ σ, sumPt σ ((Ast.buildL as).map (·.2)) = sumPt σ t.kids) ∧
    (leafListL ((Ast.buildL as).map (·.2))).Perm (leafListL t.kids))

mutual
/-- for the fragment, `from_json (to_json t)` builds a model that evaluates like `t` on every assignment -/
theorem frag_rt : ∀ t : P, Frag cfg t → RT cfg t
  | .leaf i b, _ =>
      ⟨⟨.var i b, by simp [toJson, leaf_roundtrip], fun σ => by simp [Ast.build, evalPt], by simp [Ast.build, leafList]⟩,
       ⟨[], by simp [P.kids, toJsonL, PJ.toAstL], fun σ => by simp [Ast.buildL, sumPt, P.kids], by simp [Ast.buildL, leafListL, P.kids]⟩⟩
  | .node i b s v ks m, h => by
      have ⟨hc, hk⟩ : ((m.cls = .atLeast ∧ (s = 1 ∨ s = -1)) ∨ (m.cls = .atMost ∧ s = -1) ∨ (m.cls = .any ∧ s = 1 ∧ v = 1) ∨
          (m.cls = .all ∧ v = ks.length ∧ s = (if v > 0 then 1 else -1) ∧ DistinctRT cfg ks) ∨
          ((m.cls = .xor ∨ m.cls = .exactlyOne) ∧ s = 1 ∧ v = 2 ∧ XorShape ks)) ∧ FragL cfg ks := by
        simpa [Frag] using h
      obtain ⟨⟨as, has, hsum, hlf⟩, hkids⟩ := frag_rtL ks hk
      have hlfo : (leafListL (orderArgs (Ast.buildL as))).Perm (leafListL ks) := (leafListL_args _).trans hlf
      refine ⟨?_, ⟨as, by simpa [P.kids] using has, fun σ => by simpa [P.kids] using hsum σ, by simpa [P.kids] using hlf⟩⟩
      rcases hc with ⟨hcls, hs⟩ | ⟨hcls, hs⟩ | ⟨hcls, hs, hv⟩ | ⟨hcls, hv, hs, hd⟩ | ⟨hcls, hs, hv, hx⟩
      · refine ⟨.atLeast v as (idJ i m) (signJ s v), ?_, ?_, ?_⟩
        · simp [toJson, hcls, PJ.toAst, has]
        · intro σ
          simp only [Ast.build, evalPt_mkAtLeast, C04.sum_orderArgs, hsum σ, sgnOf_signJ s v hs, evalPt]
        · simp only [Ast.build, leafList]; exact (leafList_mkAtLeast _ _ _ _ _).trans hlfo
      · refine ⟨.atMost (-v) as (idJ i m), ?_, ?_, ?_⟩
        · simp [toJson, hcls, PJ.toAst, has]
        · intro σ
          subst hs
          simp only [Ast.build, C04.evalPt_mkAtMost, C04.sum_orderArgs, hsum σ, evalPt]
          split <;> split <;> omega
        · simp only [Ast.build, mkAtMost, leafList]; exact (leafList_mkAtLeast _ _ _ _ _).trans hlfo
      · refine ⟨.any as (idJ i m), ?_, ?_, ?_⟩
        · simp [toJson, hcls, PJ.toAst, has]
        · intro σ
          subst hs; subst hv
          simp only [Ast.build, C04.evalPt_mkAny, hsum σ, evalPt]
          split <;> split <;> omega
        · simp only [Ast.build, mkAny, leafList]; exact (leafList_mkAtLeast _ _ _ _ _).trans hlfo
      · -- All: the value is re-derived from the number of distinct children
        refine ⟨.all as (idJ i m), ?_, ?_, ?_⟩
        · simp [toJson, hcls, PJ.toAst, has]
        · intro σ
          have hlen : as.length = ks.length := by rw [toAstL_length _ as has, toJsonL_length]
          have hdc : (distinctCount (Ast.buildL as) : Int) = v := by rw [hd as has, hlen, hv]
          simp only [Ast.build, mkAll, evalPt_mkAtLeast, C04.sum_orderArgs, hsum σ, hdc, evalPt, hs, sgnOf, Option.getD_none]
        · simp only [Ast.build, mkAll, leafList]; exact (leafList_mkAtLeast _ _ _ _ _).trans hlfo
      · -- Xor / ExactlyOne: rebuilt from the propositions of one half
        obtain ⟨i1, b1, m1, i2, b2, m2, args, hks⟩ := hx
        -- the children of either half, with their round trip
        have hargs : ∃ as', PJ.toAstL cfg (toJsonL args) = some as' ∧
            (∀ σ, sumPt σ ((Ast.buildL as').map (·.2)) = sumPt σ args) ∧
            (leafListL ((Ast.buildL as').map (·.2))).Perm (leafListL args) := by
          rcases hks with rfl | rfl
          · simpa [P.kids] using (hkids (.node i1 b1 1 1 args m1) (by simp)).2
          · simpa [P.kids] using (hkids (.node i1 b1 1 1 args m1) (by simp)).2
        obtain ⟨as', has', hsum', hlf'⟩ := hargs
        have hlfo' : (leafListL (orderArgs (Ast.buildL as'))).Perm (leafListL args) := (leafListL_args _).trans hlf'
        have hlx : ∀ oid cls, (leafList (mkXor (Ast.buildL as') oid cls)).Perm (leafList (.node i b s v ks m)) := by
          intro oid cls
          have h1 : (leafList (mkXor (Ast.buildL as') oid cls)).Perm (leafListL args ++ leafListL args) := by
            unfold mkXor mkAll
            refine (leafList_mkAtLeast _ _ _ _ _).trans ((leafListL_args _).trans ?_)
            simp only [List.map_cons, List.map_nil, leafListL, List.append_nil]
            exact List.Perm.append ((leafList_mkAtLeast _ _ _ _ _).trans hlfo')
              (by unfold mkAtMost; exact (leafList_mkAtLeast _ _ _ _ _).trans hlfo')
          refine h1.trans ?_
          rcases hks with rfl | rfl <;> simp [leafList, leafListL]
        have hjson : kidsOfNth ks 0 = toJsonL args := by rcases hks with rfl | rfl <;> simp [kidsOfNth]
        have hev : ∀ σ, evalPt σ (.node i b s v ks m) = if sumPt σ args = 1 then 1 else 0 := by
          intro σ; subst hs; subst hv
          rcases hks with rfl | rfl <;> simp only [evalPt, sumPt] <;> split <;> split <;> split <;> split <;> omega
        rcases hcls with hcls | hcls
        · cases cfg
          · refine ⟨.xor as' (idJ i m) false, by simp [toJson, hcls, PJ.toAst, hjson, has'], fun σ => ?_, by simpa [Ast.build] using hlx _ _⟩
            rw [hev σ]; simp only [Ast.build, C04.evalPt_mkXor, hsum' σ]
          · -- the configurator's class map reads "Xor" as cc.Xor (no default: the same two halves)
            refine ⟨.ccXor as' [] (idJ i m), by simp [toJson, hcls, PJ.toAst, hjson, has'], fun σ => ?_,
              by simpa [Ast.build, mkCcXor, leafList_setDflt] using hlx _ _⟩
            rw [hev σ]; simp only [Ast.build, mkCcXor, C14.evalPt_setDflt, C04.evalPt_mkXor, hsum' σ]
        · refine ⟨.xor as' (idJ i m) true, by simp [toJson, hcls, PJ.toAst, hjson, has'], fun σ => ?_, by simpa [Ast.build] using hlx _ _⟩
          rw [hev σ]; simp only [Ast.build, C04.evalPt_mkXor, hsum' σ]
theorem frag_rtL : ∀ ks : List P, FragL cfg ks →
    (∃ as, PJ.toAstL cfg (toJsonL ks) = some as ∧ (∀ σ, sumPt σ ((Ast.buildL as).map (·.2)) = sumPt σ ks) ∧
      (leafListL ((Ast.buildL as).map (·.2))).Perm (leafListL ks)) ∧
    (∀ k ∈ ks, RT cfg k)
  | [], _ => ⟨⟨[], by simp [toJsonL, PJ.toAstL], fun σ => by simp [Ast.buildL, sumPt], by simp [Ast.buildL, leafListL]⟩, by simp⟩
  | k :: ks, h => by
      have ⟨h1, h2⟩ : Frag cfg k ∧ FragL cfg ks := by simpa [FragL] using h
      have hk := frag_rt k h1
      have ⟨⟨a, ha, hev, hla⟩, _⟩ := hk
      obtain ⟨⟨as, has, hsum, hls⟩, hall⟩ := frag_rtL ks h2
      refine ⟨⟨a :: as, by simp [toJsonL, PJ.toAstL, ha, has], fun σ => by simp [Ast.buildL, sumPt, hev σ, hsum σ],
        by simp only [Ast.buildL, List.map_cons, leafListL]; exact List.Perm.append hla hls⟩, ?_⟩
      intro x hx
      rcases List.mem_cons.1 hx with rfl | hx
      · exact hk
      · exact hall x hx
end

/-- **the round trip preserves meaning and leaves** (fragment): converting to JSON and back yields a model over the same
    leaf variables with the same bounds (as a multiset of occurrences) that evaluates identically on every assignment -/
theorem frag_roundtrip (t : P) (h : Frag cfg t) :
    ∃ a, PJ.toAst cfg (toJson t) = some a ∧ (∀ σ, evalPt σ a.build = evalPt σ t) ∧ (leafList a.build).Perm (leafList t) :=
  (frag_rt t h).1

/-! ## The fragment with negations: `Imply`, and everything `negate` / `Not` produce

`Imply(c, d)` is held as `Any(c.negate(), d)` and written as `{"condition": c.negate().negate().to_json(), "consequence": …}`;
`from_json` negates the condition it reads once more.  `toJsonNeg` mirrors the case analysis of `negate`; the theorems below
show that what it writes reads back as the complement (`nrt_node`), for every node whose children read back — and with it
the round trip of `Imply` nodes at any depth.  Assignments are in-bounds (`Good σ t`: the inward push of a negation is
exact only there, C05). -/

theorem signJ_ok (s v : Int) (hs : s = 1 ∨ s = -1) :
    signJ s v = none ∨ signJ s v = some 1 ∨ signJ s v = some (-1) := by
  unfold signJ; split
  · exact Or.inl rfl
  · rcases hs with rfl | rfl <;> simp

theorem toJsonSorted_eq : ∀ ks : List P, toJsonSorted ks = toJsonL ks
  | [] => by simp [toJsonSorted, toJsonL]
  | k :: ks => by simp [toJsonSorted, toJsonL, toJsonSorted_eq ks]

theorem toAstL_append : ∀ (xs ys : List PJ) (as bs : List Ast), PJ.toAstL cfg xs = some as →
    PJ.toAstL cfg ys = some bs → PJ.toAstL cfg (xs ++ ys) = some (as ++ bs)
  | [], ys, as, bs, h1, h2 => by simp [PJ.toAstL] at h1; subst h1; simpa using h2
  | x :: xs, ys, as, bs, h1, h2 => by
      simp only [PJ.toAstL] at h1
      split at h1
      · rename_i a as' ha has'
        cases h1
        simp [PJ.toAstL, ha, toAstL_append xs ys as' bs has' h2]
      · cases h1

theorem buildL_append : ∀ as bs : List Ast, Ast.buildL (as ++ bs) = Ast.buildL as ++ Ast.buildL bs
  | [], bs => by simp [Ast.buildL]
  | a :: as, bs => by simp [Ast.buildL, buildL_append as bs]

theorem buildL_snd : ∀ as : List Ast, (Ast.buildL as).map (·.2) = as.map Ast.build
  | [] => by simp [Ast.buildL]
  | a :: as => by simp [Ast.buildL, buildL_snd as]

/-- the constructor call a leaf's JSON reads back as -/
def varAst (a : P) : Ast := .var a.id a.bnd
/-- … and the one the JSON of a negated group of atoms reads back as -/
def groupAst (l : List P) : Ast := .atLeast 0 (l.map varAst) none none

theorem toAstL_leafs : ∀ l : List P, PJ.toAstL cfg (l.map (fun a => leafJ a.id a.bnd)) = some (l.map varAst)
  | [] => by simp [PJ.toAstL]
  | a :: l => by simp [PJ.toAstL, leaf_roundtrip, toAstL_leafs l, varAst]

theorem leaf_eta : ∀ a : P, a.isLeaf = true → P.leaf a.id a.bnd = a
  | .leaf i b, _ => by simp [P.id, P.bnd]
  | .node .., h => by simp [isLeaf] at h

theorem buildL_vars : ∀ l : List P, (∀ a ∈ l, a.isLeaf = true) → (Ast.buildL (l.map varAst)).map (·.2) = l
  | [], _ => by simp [Ast.buildL]
  | a :: l, h => by
      simp only [List.map_cons, Ast.buildL, varAst, Ast.build]
      rw [leaf_eta a (h a (by simp))]
      congr 1
      exact buildL_vars l (fun x hx => h x (by simp [hx]))

theorem toAst_group (l : List P) :
    PJ.toAst cfg (groupJ (l.map (fun a => leafJ a.id a.bnd))) = some (groupAst l) := by
  simp [groupJ, PJ.toAst, toAstL_leafs, groupAst]

theorem evalPt_group (σ) (l : List P) (hl : ∀ a ∈ l, a.isLeaf = true) :
    evalPt σ (groupAst l).build = evalPt σ (negGroup l) := by
  simp only [groupAst, Ast.build, evalPt_mkAtLeast, C04.sum_orderArgs, buildL_vars l hl, negGroup, evalPt, sgnOf]
  simp

theorem good_group (σ) (l : List P) (hl : ∀ a ∈ l, a.isLeaf = true) (hg : ∀ a ∈ l, Good σ a) :
    Good σ (groupAst l).build := by
  simp only [groupAst, Ast.build]
  refine good_mkAtLeast σ _ _ _ _ _ (Or.inl rfl) ((C04.goodL_orderArgs σ _).2 ?_)
  rw [buildL_vars l hl]; exact (GoodL_iff σ l).2 hg

theorem toAstL_wraps : ∀ l : List P,
    PJ.toAstL cfg ((l.map (fun a => leafJ a.id a.bnd)).map (fun a => groupJ [a])) = some (l.map (fun a => groupAst [a]))
  | [] => by simp [PJ.toAstL]
  | a :: l => by
      have h := toAst_group (cfg := cfg) [a]
      simp only [List.map_cons, List.map_nil] at h
      have ih := toAstL_wraps l
      simp only [List.map_cons, PJ.toAstL, h, ih]

theorem sum_wraps (σ) : ∀ l : List P, (∀ a ∈ l, a.isLeaf = true) →
    sumPt σ ((Ast.buildL (l.map (fun a => groupAst [a]))).map (·.2)) = sumPt σ (l.map (fun a => negGroup [a]))
  | [], _ => by simp [Ast.buildL, sumPt]
  | a :: l, h => by
      simp only [List.map_cons, Ast.buildL, sumPt]
      rw [evalPt_group σ [a] (by simpa using h a (by simp)), sum_wraps σ l (fun x hx => h x (by simp [hx]))]

theorem good_wraps (σ) (l : List P) (hl : ∀ a ∈ l, a.isLeaf = true) (hg : ∀ a ∈ l, Good σ a) :
    GoodL σ ((Ast.buildL (l.map (fun a => groupAst [a]))).map (·.2)) := by
  rw [buildL_snd, GoodL_iff]
  intro k hk
  simp only [List.map_map, List.mem_map, Function.comp] at hk
  obtain ⟨a, ha, rfl⟩ := hk
  exact good_group σ [a] (by simpa using hl a ha) (by simpa using hg a ha)

/-- the children's JSON reads back as constructor calls whose models sum alike (and stay `Good`) -/
def RTL (cfg : Bool) (ks : List P) : Prop :=
  ∃ as, PJ.toAstL cfg (toJsonL ks) = some as ∧
    ∀ σ, GoodL σ ks → sumPt σ ((Ast.buildL as).map (·.2)) = sumPt σ ks ∧ GoodL σ ((Ast.buildL as).map (·.2))

/-- the JSON of the negated compound children reads back as models summing to (#compounds − their sum) -/
def NRTL (cfg : Bool) (ks : List P) : Prop :=
  ∃ cs, PJ.toAstL cfg (negJsonComps ks) = some cs ∧
    ∀ σ, GoodL σ ks → sumPt σ ((Ast.buildL cs).map (·.2)) = (comps ks).length - sumPt σ (comps ks) ∧
      GoodL σ ((Ast.buildL cs).map (·.2))

/-- `from_json (t.negate().to_json())` is a compound that evaluates to the complement of `t` -/
def NRT (cfg : Bool) (t : P) : Prop :=
  ∃ a, PJ.toAst cfg (toJsonNeg t) = some a ∧ a.isAtom = false ∧ a.build.isLeaf = false ∧
    ∀ σ, Good σ t → evalPt σ a.build = 1 - evalPt σ t ∧ Good σ a.build

/-- `from_json (t.to_json())` evaluates like `t` on every in-bounds assignment (and stays `Good`) -/
def RTN (cfg : Bool) (t : P) : Prop :=
  ∃ a, PJ.toAst cfg (toJson t) = some a ∧ ∀ σ, Good σ t → evalPt σ a.build = evalPt σ t ∧ Good σ a.build

theorem atoms_mem (ks : List P) : ∀ a ∈ (sortById ks).filter (·.isLeaf), a ∈ ks ∧ a.isLeaf = true := by
  intro a ha
  have := List.mem_filter.1 ha
  exact ⟨(sortById_perm ks).mem_iff.1 this.1, this.2⟩

/-- **the negation's JSON reads back as the complement**, for any node (whatever its class) whose children read back -/
theorem nrt_node (i b s v ks m) (hs : s = 1 ∨ s = -1) (hL : RTL cfg ks) (hN : NRTL cfg ks) : NRT cfg (.node i b s v ks m) := by
  obtain ⟨as, has, hA⟩ := hL
  obtain ⟨cs, hcs, hC⟩ := hN
  have hs' : (-s) = 1 ∨ (-s) = -1 := by omega
  -- the form that is not pushed inwards
  have flat : ∀ nid : Option String, ∃ a, PJ.toAst cfg (.node (some "AtLeast") nid (some (1 - v)) (signJ (-s) (1 - v)) true
        (toJsonSorted ks) none none none []) = some a ∧ a.isAtom = false ∧ a.build.isLeaf = false ∧
      ∀ σ, Good σ (.node i b s v ks m) → evalPt σ a.build = 1 - evalPt σ (.node i b s v ks m) ∧ Good σ a.build := by
    intro nid
    refine ⟨.atLeast (1 - v) as nid (signJ (-s) (1 - v)), by simp [PJ.toAst, toJsonSorted_eq, has], rfl,
      by simp [Ast.build, mkAtLeast_isLeaf], ?_⟩
    intro σ hg
    have ⟨_, hgk⟩ := good_kids σ i b s v ks m hg
    have ⟨hsum, hgood⟩ := hA σ hgk
    refine ⟨?_, good_mkAtLeast σ _ _ _ _ _ (signJ_ok _ _ hs') ((C04.goodL_orderArgs σ _).2 hgood)⟩
    simp only [Ast.build, evalPt_mkAtLeast, C04.sum_orderArgs, hsum, sgnOf_signJ _ _ hs', evalPt]
    rcases hs with rfl | rfl <;> (split <;> split <;> omega)
  -- facts about the atoms, under an in-bounds assignment
  have hlen : (ks.filter (fun k => !k.isLeaf)).length = (comps ks).length := rfl
  have one : ∀ w : Int, sgnOf w (signJ 1 w) = 1 := fun w => sgnOf_signJ 1 w (Or.inl rfl)
  simp only [NRT, toJsonNeg]
  split
  · rename_i hc1
    obtain ⟨rfl, _⟩ := hc1
    split
    · -- no atoms: the negated compounds, value raised by their number
      rename_i ha
      refine ⟨.atLeast ((1 - v) + ((ks.filter (fun k => !k.isLeaf)).length : Int)) cs (if m.gen then none else some i) (signJ 1 ((1 - v) + ((ks.filter (fun k => !k.isLeaf)).length : Int))), by simp [PJ.toAst, hcs], rfl, by simp [Ast.build, mkAtLeast_isLeaf], ?_⟩
      intro σ hg
      have ⟨_, hgk⟩ := good_kids σ i b 1 v ks m hg
      have ⟨hsum, hgood⟩ := hC σ hgk
      refine ⟨?_, good_mkAtLeast σ _ _ _ _ _ (signJ_ok _ _ (Or.inl rfl)) ((C04.goodL_orderArgs σ _).2 hgood)⟩
      have hat : sumPt σ (atoms ks) = 0 := by
        rw [← sumPt_perm σ (atoms_sort_perm ks)]
        have ha' : atoms (sortById ks) = [] := ha
        rw [ha']; rfl
      have hsplit := sumPt_split σ ks
      simp only [Ast.build, evalPt_mkAtLeast, C04.sum_orderArgs, hsum, one, evalPt, hlen]
      split <;> split <;> omega
    · split
      · -- value 1, non-negative atoms: the atoms as one negated group
        rename_i hv
        obtain ⟨rfl, hnn⟩ := hv
        let ats := (sortById ks).filter (·.isLeaf)
        have hats := atoms_mem ks
        refine ⟨.atLeast ((1 - 1) + (((ks.filter (fun k => !k.isLeaf)).length : Int) + 1)) (cs ++ [groupAst ats]) (if m.gen then none else some i) (signJ 1 ((1 - 1) + (((ks.filter (fun k => !k.isLeaf)).length : Int) + 1))), ?_, rfl, by simp [Ast.build, mkAtLeast_isLeaf], ?_⟩
        · have h1 : PJ.toAstL cfg [groupJ (ats.map (fun a => leafJ a.id a.bnd))] = some [groupAst ats] := by
            simp [PJ.toAstL, toAst_group]
          simp [PJ.toAst, toAstL_append _ _ _ _ hcs h1, ats]
        · intro σ hg
          have ⟨_, hgk⟩ := good_kids σ i b 1 1 ks m hg
          have ⟨hsum, hgood⟩ := hC σ hgk
          have hgat : ∀ a ∈ ats, Good σ a := fun a ha => (GoodL_iff σ ks).1 hgk a (hats a ha).1
          have hlf : ∀ a ∈ ats, a.isLeaf = true := fun a ha => (hats a ha).2
          have hgg := good_group σ ats hlf hgat
          have hgl : GoodL σ ((Ast.buildL (cs ++ [groupAst ats])).map (·.2)) := by
            rw [buildL_append, List.map_append, GoodL_iff]
            intro k hk
            rcases List.mem_append.1 hk with hk | hk
            · exact (GoodL_iff σ _).1 hgood k hk
            · simp only [Ast.buildL, List.map_cons, List.map_nil, List.mem_singleton] at hk
              rw [hk]; exact hgg
          refine ⟨?_, good_mkAtLeast σ _ _ _ _ _ (signJ_ok _ _ (Or.inl rfl)) ((C04.goodL_orderArgs σ _).2 hgl)⟩
          have h0 := leaves_nonneg σ ats (fun a ha => (hgat a ha).2)
            (fun a ha => ⟨hlf a ha, by have := List.all_eq_true.1 hnn a ha; simpa using this⟩)
          have hat : sumPt σ ats = sumPt σ (atoms ks) := sumPt_perm σ (atoms_sort_perm ks)
          have hsplit := sumPt_split σ ks
          have hcn := sum_nonneg_nodes σ (comps ks) (by
            intro k hk; have := (List.mem_filter.1 hk).2; simpa using this)
          have hgv := evalPt_group σ ats hlf
          simp only [negGroup, evalPt] at hgv
          simp only [Ast.build, evalPt_mkAtLeast, C04.sum_orderArgs, buildL_append, List.map_append, sumPt_append, hsum,
            Ast.buildL, List.map_cons, List.map_nil, sumPt, one, evalPt, hlen, hgv]
          split <;> split <;> split <;> omega
      · split
        · -- boolean atoms: each wrapped and negated on its own
          rename_i hbool
          let ats := (sortById ks).filter (·.isLeaf)
          have hats := atoms_mem ks
          refine ⟨.atLeast ((1 - v) + (((ks.filter (fun k => !k.isLeaf)).length : Int) + (ats.length : Int))) (cs ++ ats.map (fun a => groupAst [a])) (if m.gen then none else some i)
            (signJ 1 ((1 - v) + (((ks.filter (fun k => !k.isLeaf)).length : Int) + (ats.length : Int)))), ?_, rfl,
            by simp [Ast.build, mkAtLeast_isLeaf], ?_⟩
          · have h2 := toAstL_append _ _ _ _ hcs (toAstL_wraps ats)
            simp only [List.map_map] at h2
            simp [PJ.toAst, h2, ats]
          · intro σ hg
            have ⟨_, hgk⟩ := good_kids σ i b 1 v ks m hg
            have ⟨hsum, hgood⟩ := hC σ hgk
            have hgat : ∀ a ∈ ats, Good σ a := fun a ha => (GoodL_iff σ ks).1 hgk a (hats a ha).1
            have hlf : ∀ a ∈ ats, a.isLeaf = true := fun a ha => (hats a ha).2
            have hgl : GoodL σ ((Ast.buildL (cs ++ ats.map (fun a => groupAst [a]))).map (·.2)) := by
              rw [buildL_append, List.map_append, GoodL_iff]
              intro k hk
              rcases List.mem_append.1 hk with hk | hk
              · exact (GoodL_iff σ _).1 hgood k hk
              · exact (GoodL_iff σ _).1 (good_wraps σ ats hlf hgat) k hk
            refine ⟨?_, good_mkAtLeast σ _ _ _ _ _ (signJ_ok _ _ (Or.inl rfl)) ((C04.goodL_orderArgs σ _).2 hgl)⟩
            have hw := wrap_sum σ ats (fun a ha => (hgat a ha).2)
              (fun a ha => ⟨hlf a ha, by have := List.all_eq_true.1 hbool a ha; simpa using this⟩)
            have hat : sumPt σ ats = sumPt σ (atoms ks) := sumPt_perm σ (atoms_sort_perm ks)
            have hsplit := sumPt_split σ ks
            have hal : (ats.length : Int) = ((List.filter (fun x => x.isLeaf) (sortById ks)).length : Int) := rfl
            simp only [Ast.build, evalPt_mkAtLeast, C04.sum_orderArgs, buildL_append, List.map_append, sumPt_append, hsum,
              sum_wraps σ ats hlf, hw, one, evalPt, hlen]
            split <;> split <;> omega
        · exact flat _
  · exact flat _

theorem perm_pair {α} {l : List α} {a b : α} (h : l.Perm [a, b]) : l = [a, b] ∨ l = [b, a] := by
  have hl := h.length_eq
  match l, hl, h with
  | [x, y], _, h =>
    have hx : x ∈ [a, b] := h.mem_iff.1 (by simp)
    simp only [List.mem_cons, List.not_mem_nil, or_false] at hx
    rcases hx with rfl | rfl
    · have h2 : [y].Perm [b] := (List.perm_cons x).1 h
      have := List.perm_singleton.1 h2
      simp at this; subst this; exact Or.inl rfl
    · have h2 : [x, y].Perm [x, a] := h.trans (List.Perm.swap x a [])
      have h3 : [y].Perm [a] := (List.perm_cons x).1 h2
      have := List.perm_singleton.1 h3
      simp at this; subst this; exact Or.inr rfl

/-! ## … and defaults: what `cc.Any` / `cc.Xor` write as `default` is what the configurator reads back -/

theorem mt_mkAtLeast (v : Int) (ks : List P) (var sgn cls) :
    (mkAtLeast v ks var sgn cls).mt.dflt = [] ∧ (mkAtLeast v ks var sgn cls).isLeaf = false := by
  unfold mkAtLeast; cases var <;> simp [P.mt, isLeaf]

theorem dflt_setDflt (p : P) (d) (h : p.isLeaf = false) : (setDflt p d).mt.dflt = d ∧ (setDflt p d).isLeaf = false := by
  cases p with
  | leaf => simp [isLeaf] at h
  | node => simp [setDflt, P.mt, isLeaf]

theorem dflt_mkCcAny (args : List (Bool × P)) (dflt) (oid) : (mkCcAny args dflt oid).mt.dflt = dflt := by
  have hp : ∀ a, (setDflt (mkAny a oid .ccAny) dflt).mt.dflt = dflt := fun a =>
    (dflt_setDflt _ dflt (by unfold mkAny; exact (mt_mkAtLeast _ _ _ _ _).2)).1
  unfold mkCcAny
  cases dflt with
  | nil => exact hp args
  | cons d ds =>
      obtain ⟨d1, d2⟩ := d
      simp only
      split
      · exact hp args
      · split
        · exact hp args
        · exact hp _

theorem dflt_mkCcXor (args : List (Bool × P)) (dflt) (oid) : (mkCcXor args dflt oid).mt.dflt = dflt := by
  have hx : (setDflt (mkXor args oid .ccXor) dflt).mt.dflt = dflt ∧ (setDflt (mkXor args oid .ccXor) dflt).isLeaf = false :=
    dflt_setDflt _ dflt (by unfold mkXor mkAll; exact (mt_mkAtLeast _ _ _ _ _).2)
  unfold mkCcXor
  cases dflt with
  | nil => exact hx.1
  | cons d ds =>
      simp only
      generalize hxe : setDflt (mkXor args oid .ccXor) (d :: ds) = x at hx
      cases x with
      | leaf => simp [isLeaf] at hx
      | node i b s v ks m => simpa [P.mt] using hx.1

/-- **defaults are kept**: whenever the configurator reads back what a `cc.Any` / `cc.Xor` node wrote, the model it builds
    carries the same `default` -/
theorem defaults_kept (i b s v ks) (m : Meta) (hc : m.cls = .ccAny ∨ m.cls = .ccXor) :
    ∀ a, PJ.toAst true (toJson (.node i b s v ks m)) = some a → a.build.mt.dflt = m.dflt := by
  intro a ha
  rcases hc with hc | hc
  · simp only [toJson, hc] at ha
    split at ha
    · by_cases hd : m.dflt = []
      · simp [PJ.toAst, hd] at ha
        obtain ⟨as, _, rfl⟩ := ha
        simp only [Ast.build, mkAny]; rw [hd]; exact (mt_mkAtLeast _ _ _ _ _).1
      · have : m.dflt.isEmpty = false := by cases hm : m.dflt <;> simp_all
        simp [PJ.toAst, this] at ha
        obtain ⟨as, _, rfl⟩ := ha
        simp only [Ast.build]; exact dflt_mkCcAny _ _ _
    · by_cases hd : m.dflt = []
      · simp [PJ.toAst, hd] at ha
        obtain ⟨as, _, rfl⟩ := ha
        simp only [Ast.build, mkAny]; rw [hd]; exact (mt_mkAtLeast _ _ _ _ _).1
      · have : m.dflt.isEmpty = false := by cases hm : m.dflt <;> simp_all
        simp [PJ.toAst, this] at ha
        obtain ⟨as, _, rfl⟩ := ha
        simp only [Ast.build]; exact dflt_mkCcAny _ _ _
  · simp only [toJson, hc] at ha
    split at ha
    · simp [PJ.toAst] at ha
      obtain ⟨as, _, rfl⟩ := ha
      simp only [Ast.build]; exact dflt_mkCcXor _ _ _
    · rename_i hd
      have hd' : m.dflt = [] := by simpa using hd
      simp [PJ.toAst] at ha
      obtain ⟨as, _, rfl⟩ := ha
      simp only [Ast.build]; rw [hd']; exact dflt_mkCcXor _ _ _

/-! ### the rebuilt configurator rules stay `Good` (legal signs, assignment inside every leaf's bounds) -/

theorem good_setPrio (σ) (p : P) (q) : Good σ (setPrio p q) ↔ Good σ p := by
  cases p <;> simp [setPrio, Good, SignOk, InB]

theorem good_mkAny (σ) (args : List (Bool × P)) (oid cls) (h : GoodL σ (args.map (·.2))) : Good σ (mkAny args oid cls) := by
  unfold mkAny; exact good_mkAtLeast σ _ _ _ _ _ (Or.inl rfl) ((C04.goodL_orderArgs σ _).2 h)

theorem good_mkXor (σ) (args : List (Bool × P)) (oid cls) (h : GoodL σ (args.map (·.2))) : Good σ (mkXor args oid cls) := by
  have hgo := (C04.goodL_orderArgs σ _).2 h
  unfold mkXor mkAll
  refine good_mkAtLeast σ _ _ _ _ _ (Or.inl rfl) ((C04.goodL_orderArgs σ _).2 ((GoodL_iff σ _).2 ?_))
  intro k hk
  simp only [List.map_cons, List.map_nil, List.mem_cons, List.not_mem_nil, or_false] at hk
  rcases hk with rfl | rfl
  · exact good_mkAtLeast σ _ _ _ _ _ (Or.inl rfl) hgo
  · unfold mkAtMost; exact good_mkAtLeast σ _ _ _ _ _ (Or.inr (Or.inr rfl)) hgo

theorem goodL_filter (σ) (args : List (Bool × P)) (f : Bool × P → Bool) (h : GoodL σ (args.map (·.2))) :
    GoodL σ ((args.filter f).map (·.2)) :=
  (GoodL_iff σ _).2 (fun k hk => by
    obtain ⟨x, hx, rfl⟩ := List.mem_map.1 hk
    exact (GoodL_iff σ _).1 h _ (List.mem_map.2 ⟨x, (List.mem_filter.1 hx).1, rfl⟩))

theorem good_mkCcAny (σ) (args : List (Bool × P)) (dflt oid) (h : GoodL σ (args.map (·.2))) :
    Good σ (mkCcAny args dflt oid) := by
  have hp : ∀ (a : List (Bool × P)) dflt, GoodL σ (a.map (·.2)) → Good σ (setDflt (mkAny a oid .ccAny) dflt) := fun a _ ha =>
    (good_setDflt σ _ _).2 (good_mkAny σ a oid _ ha)
  unfold mkCcAny
  cases dflt with
  | nil => exact hp args _ h
  | cons d ds =>
      obtain ⟨d1, d2⟩ := d
      simp only
      split
      · exact hp args _ h
      · split
        · exact hp args _ h
        · refine hp _ _ ?_
          rw [List.map_append]
          refine (GoodL_iff σ _).2 (fun k hk => ?_)
          rcases List.mem_append.1 hk with hk | hk
          · exact (GoodL_iff σ _).1 (goodL_filter σ args _ h) k hk
          · simp only [List.map_cons, List.map_nil, List.mem_cons, List.not_mem_nil, or_false] at hk
            subst hk
            exact (good_setPrio σ _ _).2 (good_mkAny σ _ none _ (goodL_filter σ args _ h))

theorem goodL_replaceFirst (σ) (pred : P → Bool) (f : P → P) : ∀ ks : List P, GoodL σ ks →
    (∀ k ∈ ks, pred k = true → Good σ k → Good σ (f k)) → GoodL σ (replaceFirst ks pred f)
  | [], h, _ => by simpa [replaceFirst] using h
  | k :: r, h, hf => by
      have hk : Good σ k := (GoodL_iff σ _).1 h k (by simp)
      have hr : GoodL σ r := (GoodL_iff σ _).2 (fun x hx => (GoodL_iff σ _).1 h x (by simp [hx]))
      unfold replaceFirst
      split
      · rename_i hp
        refine (GoodL_iff σ _).2 (fun x hx => ?_)
        rcases List.mem_cons.1 hx with rfl | hx
        · exact hf k (by simp) hp hk
        · exact (GoodL_iff σ _).1 hr x hx
      · refine (GoodL_iff σ _).2 (fun x hx => ?_)
        rcases List.mem_cons.1 hx with rfl | hx
        · exact hk
        · exact (GoodL_iff σ _).1 (goodL_replaceFirst σ pred f r hr (fun y hy => hf y (by simp [hy]))) x hx

theorem map_false_snd : ∀ l : List P, (l.map (fun c => ((false : Bool), c))).map (·.2) = l
  | [] => rfl
  | x :: l => by simp [map_false_snd l]

theorem good_mkCcXor (σ) (args : List (Bool × P)) (dflt oid) (h : GoodL σ (args.map (·.2))) :
    Good σ (mkCcXor args dflt oid) := by
  have hX : Good σ (setDflt (mkXor args oid .ccXor) dflt) := (good_setDflt σ _ _).2 (good_mkXor σ args oid _ h)
  unfold mkCcXor
  cases dflt with
  | nil => exact hX
  | cons d ds =>
      obtain ⟨i, b, m, hx⟩ := C14.mkXor_node args oid .ccXor
      rw [hx] at hX ⊢
      simp only [setDflt] at hX ⊢
      have ⟨hs, hks⟩ := good_kids σ _ _ _ _ _ _ hX
      refine good_node σ _ _ _ _ _ _ hs (goodL_replaceFirst σ _ _ _ hks ?_)
      intro k _ hp hk
      cases k with
      | leaf ki kb => simp [isLeaf] at hp
      | node ki kb ks' kv kks km =>
          refine good_mkCcAny σ _ _ _ ?_
          simp only [P.kids, map_false_snd]
          exact (good_kids σ _ _ _ _ _ _ hk).2

/-! ## A configurator rule over items: `cc.Xor(*items, default=…)` through the configurator's class map -/

theorem leaf_roundtrip_cfg (cfg : Bool) (i : String) (b : Bnd) : PJ.toAst cfg (leafJ i b) = some (.var i b) := by
  unfold leafJ
  split
  · rename_i hb; cases b with | mk lo hi => simp at hb; simp [PJ.toAst, hb.1, hb.2]
  · simp [PJ.toAst]

theorem toAstL_leafs_cfg (cfg : Bool) : ∀ l : List P, (∀ a ∈ l, a.isLeaf = true) →
    PJ.toAstL cfg (toJsonL l) = some (l.map varAst)
  | [], _ => by simp [toJsonL, PJ.toAstL]
  | .leaf i b :: l, h => by
      have ih := toAstL_leafs_cfg cfg l (fun a ha => h a (by simp [ha]))
      have hl : PJ.toAst cfg (leafJ i b) = some (.var i b) := by
        unfold leafJ
        split
        · rename_i hb; cases b with | mk lo hi => simp at hb; simp [PJ.toAst, hb.1, hb.2]
        · simp [PJ.toAst]
      simp [toJsonL, toJson, PJ.toAstL, hl, ih, varAst, P.id, P.bnd]
  | .node i b s v ks m :: l, h => by have := h (.node i b s v ks m) (by simp); simp [isLeaf] at this

/-- **a defaulted `cc.Xor` over items survives the round trip through the configurator's class map**: it is read back as a
    `cc.Xor` over the same items with the same default, and evaluates identically (items' values not negative) -/
theorem ccXor_items_roundtrip (args : List (Bool × P)) (d : String × Bnd) (ds : List (String × Bnd)) (oid)
    (hleaf : ∀ k ∈ args.map (·.2), k.isLeaf = true) :
    ∃ a, PJ.toAst true (toJson (mkCcXor args (d :: ds) oid)) = some a ∧ a.build.mt.dflt = d :: ds ∧
      (∀ σ, (∀ k ∈ args.map (·.2), 0 ≤ evalPt σ k) → evalPt σ a.build = evalPt σ (mkCcXor args (d :: ds) oid)) ∧
      ∀ σ, GoodL σ (args.map (·.2)) → Good σ a.build := by
  have hX : ∀ k ∈ sortById (orderArgs args), k.isLeaf = true := fun k hk =>
    hleaf k ((C04.orderArgs_perm args).mem_iff.1 ((sortById_perm _).mem_iff.1 hk))
  obtain ⟨i, b, m, hx⟩ := C14.mkXor_node args oid .ccXor
  have hcls : m.cls = .ccXor := by
    have h1 : (mkXor args oid .ccXor).mt.cls = .ccXor := by
      unfold mkXor mkAll mkAtLeast; cases varOf oid <;> rfl
    rw [hx] at h1; simpa [P.mt] using h1
  have hMe : mkAtMost 1 (orderArgs args) none =
      .node (genId (sortById (orderArgs args)) (-1) (some (-1))) ⟨0, 1⟩ (-1) (-1) (sortById (orderArgs args)) { cls := .atMost, gen := true } := by
    simp [mkAtMost, mkAtLeast]
  have hLe : mkAtLeast 1 (orderArgs args) none none =
      .node (genId (sortById (orderArgs args)) 1 none) ⟨0, 1⟩ 1 1 (sortById (orderArgs args)) { cls := .atLeast, gen := true } := by
    simp [mkAtLeast]
  -- the JSON lists the children of the "at most one" half: the items
  have hjson : toJson (mkCcXor args (d :: ds) oid) =
      .node (some "Xor") (idJ i { m with dflt := d :: ds }) none none true (toJsonL (sortById (orderArgs args))) none none none (d :: ds) := by
    unfold mkCcXor
    rw [hx]
    simp only [setDflt]
    have hperm := sortById_perm [mkAtLeast 1 (orderArgs args) none none, mkAtMost 1 (orderArgs args) none]
    obtain ⟨ci, cb, cs, cv, cks, cm, hce, hcc⟩ := C14.mkCcAny_node_cls (((sortById (orderArgs args)).map (fun c => ((false : Bool), c))))
      (d :: ds) (some (genId (sortById (orderArgs args)) 1 none))
    rcases perm_pair hperm with h | h
    · rw [h, hLe, hMe]
      simp only [replaceFirst, isLeaf, Bool.not_false, Bool.true_and, BEq.rfl, if_true, P.kids, P.id]
      rw [hce]
      simp [toJson, hcls, kidsOfAtMost, hcc]
    · rw [h, hLe, hMe]
      simp [replaceFirst, isLeaf, toJson, hcls, kidsOfAtMost]
  refine ⟨.ccXor ((sortById (orderArgs args)).map varAst) (d :: ds) (idJ i { m with dflt := d :: ds }), ?_, ?_, ?_, ?_⟩
  · rw [hjson]; simp [PJ.toAst, toAstL_leafs_cfg true _ hX]
  · simp only [Ast.build]; exact dflt_mkCcXor _ _ _
  · intro σ hnn
    have hb := buildL_vars (sortById (orderArgs args)) hX
    have hnn' : ∀ k ∈ (Ast.buildL ((sortById (orderArgs args)).map varAst)).map (·.2), 0 ≤ evalPt σ k := by
      rw [hb]; intro k hk
      exact hnn k ((C04.orderArgs_perm args).mem_iff.1 ((sortById_perm _).mem_iff.1 hk))
    simp only [Ast.build]
    rw [C14.evalPt_mkCcXor σ _ _ _ hnn', C14.evalPt_mkCcXor σ _ _ _ hnn, hb, P.sumPt_sort, C04.sum_orderArgs]
  · intro σ hg
    simp only [Ast.build]
    refine good_mkCcXor σ _ _ _ ?_
    rw [buildL_vars (sortById (orderArgs args)) hX]
    exact (GoodL_iff σ _).2 (fun k hk =>
      (GoodL_iff σ _).1 hg k ((C04.orderArgs_perm args).mem_iff.1 ((sortById_perm _).mem_iff.1 hk)))

theorem toAstL_append_cfg (cfg : Bool) : ∀ (xs ys : List PJ) (as bs : List Ast), PJ.toAstL cfg xs = some as →
    PJ.toAstL cfg ys = some bs → PJ.toAstL cfg (xs ++ ys) = some (as ++ bs)
  | [], ys, as, bs, h1, h2 => by simp [PJ.toAstL] at h1; subst h1; simpa using h2
  | x :: xs, ys, as, bs, h1, h2 => by
      simp only [PJ.toAstL] at h1
      split at h1
      · rename_i a as' ha has'
        cases h1
        simp [PJ.toAstL, ha, toAstL_append_cfg cfg xs ys as' bs has' h2]
      · cases h1

theorem filter_len_split {α} (f : α → Bool) : ∀ l : List α, (l.filter f).length + (l.filter (fun x => !f x)).length = l.length
  | [] => rfl
  | x :: l => by
      have ih := filter_len_split f l
      cases hf : f x <;> simp [List.filter_cons, hf] <;> omega

theorem leaves_not_tagged : ∀ l : List P, (∀ a ∈ l, a.isLeaf = true) → l.any (fun k => k.mt.prio.isSome) = false
  | [], _ => rfl
  | .leaf i b :: l, h => by
      have ih := leaves_not_tagged l (fun a ha => h a (by simp [ha]))
      simp only [List.any_cons, ih, Bool.or_false]
      rfl
  | .node i b s v ks m :: l, h => by have := h (.node i b s v ks m) (by simp); simp [isLeaf] at this

/-- **a defaulted `cc.Any` over items survives the round trip through the configurator's class map** (at most one item
    carries the default's id — item ids are distinct): read back as a `cc.Any` with the same default that evaluates
    identically (items' values not negative) -/
theorem ccAny_items_roundtrip (args : List (Bool × P)) (d : String × Bnd) (ds : List (String × Bnd)) (oid)
    (hleaf : ∀ k ∈ args.map (·.2), k.isLeaf = true)
    (hone : (args.filter (fun x => x.2.isLeaf && x.2.id == d.1)).length ≤ 1) :
    ∃ a, PJ.toAst true (toJson (mkCcAny args (d :: ds) oid)) = some a ∧ a.build.mt.dflt = d :: ds ∧
      (∀ σ, (∀ k ∈ args.map (·.2), 0 ≤ evalPt σ k) → evalPt σ a.build = evalPt σ (mkCcAny args (d :: ds) oid)) ∧
      ∀ σ, GoodL σ (args.map (·.2)) → Good σ a.build := by
  obtain ⟨d1, d2⟩ := d
  -- the plain form: all alternatives directly below the node
  have plain : setDflt (mkAny args oid .ccAny) ((d1, d2) :: ds) = mkCcAny args ((d1, d2) :: ds) oid →
      ∃ a, PJ.toAst true (toJson (mkCcAny args ((d1, d2) :: ds) oid)) = some a ∧ a.build.mt.dflt = (d1, d2) :: ds ∧
        (∀ σ, (∀ k ∈ args.map (·.2), 0 ≤ evalPt σ k) → evalPt σ a.build = evalPt σ (mkCcAny args ((d1, d2) :: ds) oid)) ∧
        ∀ σ, GoodL σ (args.map (·.2)) → Good σ a.build := by
    intro he
    have hX : ∀ k ∈ sortById (orderArgs args), k.isLeaf = true := fun k hk =>
      hleaf k ((C04.orderArgs_perm args).mem_iff.1 ((sortById_perm _).mem_iff.1 hk))
    have hj : ∃ jid, toJson (mkCcAny args ((d1, d2) :: ds) oid) =
        .node (some "Any") jid none none true (toJsonL (sortById (orderArgs args))) none none none ((d1, d2) :: ds) := by
      rw [← he]
      unfold mkAny mkAtLeast
      cases varOf oid with
      | none => exact ⟨_, by simp [setDflt, toJson, leaves_not_tagged _ hX]; rfl⟩
      | some x => exact ⟨_, by simp [setDflt, toJson, leaves_not_tagged _ hX]; rfl⟩
    obtain ⟨jid, hj⟩ := hj
    refine ⟨.ccAny ((sortById (orderArgs args)).map varAst) ((d1, d2) :: ds) jid, ?_, ?_, ?_, ?_⟩
    · rw [hj]; simp [PJ.toAst, toAstL_leafs_cfg true _ hX]
    · simp only [Ast.build]; exact dflt_mkCcAny _ _ _
    · intro σ hnn
      have hb := buildL_vars (sortById (orderArgs args)) hX
      have hnn' : ∀ k ∈ (Ast.buildL ((sortById (orderArgs args)).map varAst)).map (·.2), 0 ≤ evalPt σ k := by
        rw [hb]; intro k hk
        exact hnn k ((C04.orderArgs_perm args).mem_iff.1 ((sortById_perm _).mem_iff.1 hk))
      simp only [Ast.build]
      rw [C14.evalPt_mkCcAny σ _ _ _ hnn', C14.evalPt_mkCcAny σ _ _ _ hnn, hb, P.sumPt_sort, C04.sum_orderArgs]
    · intro σ hg
      simp only [Ast.build]
      refine good_mkCcAny σ _ _ _ ?_
      rw [buildL_vars (sortById (orderArgs args)) hX]
      exact (GoodL_iff σ _).2 (fun k hk =>
        (GoodL_iff σ _).1 hg k ((C04.orderArgs_perm args).mem_iff.1 ((sortById_perm _).mem_iff.1 hk)))
  by_cases h1 : args.length ≤ 1
  · exact plain (by simp [mkCcAny, h1])
  · by_cases h2 : ((args.filter (fun x => !(x.2.isLeaf && x.2.id == d1))).length == args.length ||
        (args.filter (fun x => !(x.2.isLeaf && x.2.id == d1))).length == 0) = true
    · exact plain (by simp only [mkCcAny, h1, if_false]; rw [if_pos h2])
    · -- the restructured form: the default item next to the tagged helper over the other items
      have hlen := filter_len_split (fun x : Bool × P => x.2.isLeaf && x.2.id == d1) args
      have hc : (args.filter (fun x => !(x.2.isLeaf && x.2.id == d1))).length ≠ args.length ∧
          (args.filter (fun x => !(x.2.isLeaf && x.2.id == d1))).length ≠ 0 := by
        simp only [Bool.or_eq_true, beq_iff_eq, not_or] at h2; exact h2
      have hd1 : (args.filter (fun x => x.2.isLeaf && x.2.id == d1)).length = 1 := by
        have := hone; simp only at this; omega
      obtain ⟨x, hdx⟩ : ∃ x, args.filter (fun x => x.2.isLeaf && x.2.id == d1) = [x] := List.length_eq_one_iff.1 hd1
      have hxmem : x ∈ args := (List.mem_filter.1 (by rw [hdx]; simp : x ∈ args.filter (fun x => x.2.isLeaf && x.2.id == d1))).1
      have hxleaf : x.2.isLeaf = true := hleaf _ (List.mem_map.2 ⟨x, hxmem, rfl⟩)
      have hC : ∀ k ∈ sortById (orderArgs (args.filter (fun x => !(x.2.isLeaf && x.2.id == d1)))), k.isLeaf = true := fun k hk => by
        have h1 := (C04.orderArgs_perm _).mem_iff.1 ((sortById_perm _).mem_iff.1 hk)
        obtain ⟨y, hy, rfl⟩ := List.mem_map.1 h1
        exact hleaf _ (List.mem_map.2 ⟨y, (List.mem_filter.1 hy).1, rfl⟩)
      -- the helper node
      have hinner : setPrio (mkAny (args.filter (fun x => !(x.2.isLeaf && x.2.id == d1))) none) (-2) =
          .node (genId (sortById (orderArgs (args.filter (fun x => !(x.2.isLeaf && x.2.id == d1))))) 1 none) ⟨0, 1⟩ 1 1
            (sortById (orderArgs (args.filter (fun x => !(x.2.isLeaf && x.2.id == d1))))) { cls := .any, gen := true, prio := some (-2) } := by
        simp [mkAny, mkAtLeast, setPrio, varOf]
      have hform : mkCcAny args ((d1, d2) :: ds) oid =
          setDflt (mkAny ([x] ++ [(false, setPrio (mkAny (args.filter (fun x => !(x.2.isLeaf && x.2.id == d1))) none) (-2))]) oid .ccAny)
            ((d1, d2) :: ds) := by
        simp only [mkCcAny, h1, if_false]
        rw [if_neg h2, hdx]
      obtain ⟨xf, xp⟩ := x
      have hxp : xp.isLeaf = true := hxleaf
      generalize hcm : args.filter (fun x => !(x.2.isLeaf && x.2.id == d1)) = compl at *
      have hj : ∃ jid, toJson (mkCcAny args ((d1, d2) :: ds) oid) =
          .node (some "Any") jid none none true (leafJ xp.id xp.bnd :: toJsonL (sortById (orderArgs compl))) none none none ((d1, d2) :: ds) := by
        rw [hform, hinner]
        have ho : ∃ l, (l = [xp, P.node (genId (sortById (orderArgs compl)) 1 none) ⟨0, 1⟩ 1 1 (sortById (orderArgs compl)) { cls := .any, gen := true, prio := some (-2) }] ∨
            l = [P.node (genId (sortById (orderArgs compl)) 1 none) ⟨0, 1⟩ 1 1 (sortById (orderArgs compl)) { cls := .any, gen := true, prio := some (-2) }, xp]) ∧
            sortById (orderArgs ([(xf, xp)] ++ [(false, P.node (genId (sortById (orderArgs compl)) 1 none) ⟨0, 1⟩ 1 1 (sortById (orderArgs compl)) { cls := .any, gen := true, prio := some (-2) })])) = l := by
          refine ⟨_, ?_, rfl⟩
          have hp := sortById_perm (orderArgs ([(xf, xp)] ++ [(false, P.node (genId (sortById (orderArgs compl)) 1 none) ⟨0, 1⟩ 1 1 (sortById (orderArgs compl)) { cls := .any, gen := true, prio := some (-2) })]))
          have hq := C04.orderArgs_perm ([(xf, xp)] ++ [(false, P.node (genId (sortById (orderArgs compl)) 1 none) ⟨0, 1⟩ 1 1 (sortById (orderArgs compl)) { cls := .any, gen := true, prio := some (-2) })])
          exact perm_pair (hp.trans (by simpa using hq))
        obtain ⟨l, hl, hle⟩ := ho
        cases xp with
        | node => simp [isLeaf] at hxp
        | leaf xi xb =>
          unfold mkAny mkAtLeast
          rw [hle]
          rcases hl with rfl | rfl
          · cases varOf oid <;> exact ⟨_, by simp [setDflt, toJson, ccAnyProps, P.mt, toJsonL, P.id, P.bnd]; rfl⟩
          · cases varOf oid <;> exact ⟨_, by simp [setDflt, toJson, ccAnyProps, P.mt, toJsonL, P.id, P.bnd]; rfl⟩
      obtain ⟨jid, hj⟩ := hj
      refine ⟨.ccAny (varAst xp :: (sortById (orderArgs compl)).map varAst) ((d1, d2) :: ds) jid, ?_, ?_, ?_, ?_⟩
      · rw [hj]
        have hlx : PJ.toAst true (leafJ xp.id xp.bnd) = some (varAst xp) := by
          cases xp with
          | node => simp [isLeaf] at hxp
          | leaf xi xb => simpa [varAst, P.id, P.bnd] using leaf_roundtrip_cfg true xi xb
        simp [PJ.toAst, PJ.toAstL, hlx, toAstL_leafs_cfg true _ hC]
      · simp only [Ast.build]; exact dflt_mkCcAny _ _ _
      · intro σ hnn
        have hb := buildL_vars (xp :: sortById (orderArgs compl)) (by
          intro a ha; rcases List.mem_cons.1 ha with rfl | ha
          · exact hxp
          · exact hC a ha)
        have hb' : (Ast.buildL (varAst xp :: (sortById (orderArgs compl)).map varAst)).map (·.2) = xp :: sortById (orderArgs compl) := by
          simpa using hb
        have hsplit := C14.sum_filter_split σ (fun x : Bool × P => x.2.isLeaf && x.2.id == d1) args
        rw [hdx, hcm] at hsplit
        have hnn' : ∀ k ∈ (Ast.buildL (varAst xp :: (sortById (orderArgs compl)).map varAst)).map (·.2), 0 ≤ evalPt σ k := by
          rw [hb']; intro k hk
          rcases List.mem_cons.1 hk with rfl | hk
          · exact hnn _ (List.mem_map.2 ⟨(xf, k), hxmem, rfl⟩)
          · have h1 := (C04.orderArgs_perm _).mem_iff.1 ((sortById_perm _).mem_iff.1 hk)
            obtain ⟨y, hy, rfl⟩ := List.mem_map.1 h1
            rw [← hcm] at hy
            exact hnn _ (List.mem_map.2 ⟨y, (List.mem_filter.1 hy).1, rfl⟩)
        simp only [Ast.build]
        rw [C14.evalPt_mkCcAny σ _ _ _ hnn', C14.evalPt_mkCcAny σ _ _ _ hnn, hb', hsplit]
        simp only [sumPt, List.map_cons, List.map_nil, P.sumPt_sort, C04.sum_orderArgs]
        split <;> split <;> omega
      · intro σ hg
        have hb := buildL_vars (xp :: sortById (orderArgs compl)) (by
          intro a ha; rcases List.mem_cons.1 ha with rfl | ha
          · exact hxp
          · exact hC a ha)
        have hb' : (Ast.buildL (varAst xp :: (sortById (orderArgs compl)).map varAst)).map (·.2) = xp :: sortById (orderArgs compl) := by
          simpa using hb
        simp only [Ast.build]
        refine good_mkCcAny σ _ _ _ ?_
        rw [hb']
        refine (GoodL_iff σ _).2 (fun k hk => ?_)
        rcases List.mem_cons.1 hk with rfl | hk
        · exact (GoodL_iff σ _).1 hg _ (List.mem_map.2 ⟨(xf, k), hxmem, rfl⟩)
        · have h1 := (C04.orderArgs_perm _).mem_iff.1 ((sortById_perm _).mem_iff.1 hk)
          obtain ⟨y, hy, rfl⟩ := List.mem_map.1 h1
          rw [← hcm] at hy
          exact (GoodL_iff σ _).1 hg _ (List.mem_map.2 ⟨y, (List.mem_filter.1 hy).1, rfl⟩)

/-- alternatives of a configurator choice: none carries a priority tag of its own, and those that are items (variables) never
    take negative values -/
def AltArgs (args : List (Bool × P)) : Prop := ∀ k ∈ args.map (·.2), k.mt.prio = none ∧ (k.isLeaf = true → 0 ≤ k.bnd.lo)

/-- at most one alternative carries the first default's id (item ids are distinct) -/
def OneDefault (args : List (Bool × P)) (d : String) : Prop := (args.filter (fun x => x.2.isLeaf && x.2.id == d)).length ≤ 1

/-! ### … and over alternatives of any kind that read back (choices below choices) -/

/-- element by element: if every member reads back (`RTN`), the list reads back, member for member -/
theorem rebuilt_facts : ∀ ks : List P, (∀ k ∈ ks, RTN cfg k) →
    ∃ as, PJ.toAstL cfg (toJsonL ks) = some as ∧ ∀ σ, GoodL σ ks →
      sumPt σ (as.map Ast.build) = sumPt σ ks ∧ GoodL σ (as.map Ast.build) ∧
      ((∀ k ∈ ks, 0 ≤ evalPt σ k) → ∀ k' ∈ as.map Ast.build, 0 ≤ evalPt σ k')
  | [], _ => ⟨[], by simp [toJsonL, PJ.toAstL], fun σ _ => ⟨by simp [sumPt], by simp [GoodL, SignOks, InBs], by simp⟩⟩
  | k :: ks, h => by
      obtain ⟨a, ha, hev⟩ := h k (by simp)
      obtain ⟨as, has, hA⟩ := rebuilt_facts ks (fun x hx => h x (by simp [hx]))
      refine ⟨a :: as, by simp [toJsonL, PJ.toAstL, ha, has], fun σ hg => ?_⟩
      have hgk : Good σ k := (GoodL_iff σ _).1 hg k (by simp)
      have hgks : GoodL σ ks := (GoodL_iff σ _).2 (fun x hx => (GoodL_iff σ _).1 hg x (by simp [hx]))
      have ⟨e1, e2⟩ := hev σ hgk
      have ⟨e3, e4, e5⟩ := hA σ hgks
      refine ⟨by simp [sumPt, e1, e3], ?_, ?_⟩
      · refine (GoodL_iff σ _).2 (fun x hx => ?_)
        simp only [List.map_cons, List.mem_cons] at hx
        rcases hx with rfl | hx
        · exact e2
        · exact (GoodL_iff σ _).1 e4 x hx
      · intro hnn x hx
        simp only [List.map_cons, List.mem_cons] at hx
        rcases hx with rfl | hx
        · rw [e1]; exact hnn k (by simp)
        · exact e5 (fun y hy => hnn y (by simp [hy])) x hx

theorem untagged_any : ∀ l : List P, (∀ a ∈ l, a.mt.prio = none) → l.any (fun k => k.mt.prio.isSome) = false
  | [], _ => rfl
  | a :: l, h => by
      have ih := untagged_any l (fun x hx => h x (by simp [hx]))
      simp [List.any_cons, ih, h a (by simp)]

/-- **a defaulted `cc.Any` over alternatives of any kind** (each reads back, none carries a priority tag, at most one
    item carries the first default's id) is read back by the configurator's class map as a `cc.Any` with the same default
    that evaluates identically wherever the alternatives' values are not negative, and stays `Good` -/
theorem ccAny_roundtrip_gen (args : List (Bool × P)) (d : String × Bnd) (ds : List (String × Bnd)) (oid)
    (hun : ∀ k ∈ args.map (·.2), k.mt.prio = none)
    (hone : OneDefault args d.1)
    (hR : ∀ k ∈ args.map (·.2), RTN true k) :
    ∃ a, PJ.toAst true (toJson (mkCcAny args (d :: ds) oid)) = some a ∧ a.build.mt.dflt = d :: ds ∧
      (∀ σ, GoodL σ (args.map (·.2)) → (∀ k ∈ args.map (·.2), 0 ≤ evalPt σ k) →
        evalPt σ a.build = evalPt σ (mkCcAny args (d :: ds) oid) ∧ Good σ a.build) ∧
      ∃ as X, a = .ccAny as (d :: ds) oid ∧ X.Perm (args.map (·.2)) ∧ PJ.toAstL true (toJsonL X) = some as := by
  obtain ⟨d1, d2⟩ := d
  have hsub : ∀ f : Bool × P → Bool, ∀ k ∈ sortById (orderArgs (args.filter f)), k ∈ args.map (·.2) := fun f k hk => by
    have h1 := (C04.orderArgs_perm _).mem_iff.1 ((sortById_perm _).mem_iff.1 hk)
    obtain ⟨y, hy, rfl⟩ := List.mem_map.1 h1
    exact List.mem_map.2 ⟨y, (List.mem_filter.1 hy).1, rfl⟩
  have hK : ∀ k ∈ sortById (orderArgs args), k ∈ args.map (·.2) := fun k hk =>
    (C04.orderArgs_perm args).mem_iff.1 ((sortById_perm _).mem_iff.1 hk)
  -- the plain form: all alternatives directly below the node
  have plain : setDflt (mkAny args oid .ccAny) ((d1, d2) :: ds) = mkCcAny args ((d1, d2) :: ds) oid →
      ∃ a, PJ.toAst true (toJson (mkCcAny args ((d1, d2) :: ds) oid)) = some a ∧ a.build.mt.dflt = (d1, d2) :: ds ∧
        (∀ σ, GoodL σ (args.map (·.2)) → (∀ k ∈ args.map (·.2), 0 ≤ evalPt σ k) →
          evalPt σ a.build = evalPt σ (mkCcAny args ((d1, d2) :: ds) oid) ∧ Good σ a.build) ∧
        ∃ as X, a = .ccAny as ((d1, d2) :: ds) oid ∧ X.Perm (args.map (·.2)) ∧ PJ.toAstL true (toJsonL X) = some as := by
    intro he
    obtain ⟨as, has, hA⟩ := rebuilt_facts (cfg := true) (sortById (orderArgs args)) (fun k hk => hR k (hK k hk))
    have hj : toJson (mkCcAny args ((d1, d2) :: ds) oid) =
        .node (some "Any") oid none none true (toJsonL (sortById (orderArgs args))) none none none ((d1, d2) :: ds) := by
      rw [← he]
      have hut := untagged_any (sortById (orderArgs args)) (fun k hk => hun k (hK k hk))
      unfold mkAny mkAtLeast
      cases oid with
      | none => simp [varOf, setDflt, toJson, hut, idJ]
      | some x => simp [varOf, setDflt, toJson, hut, idJ]
    refine ⟨.ccAny as ((d1, d2) :: ds) oid, ?_, ?_, ?_,
      ⟨as, sortById (orderArgs args), rfl, (sortById_perm _).trans (C04.orderArgs_perm args), has⟩⟩
    · rw [hj]; simp [PJ.toAst, has]
    · simp only [Ast.build]; exact dflt_mkCcAny _ _ _
    · intro σ hg hnn
      have hgK : GoodL σ (sortById (orderArgs args)) := (GoodL_iff σ _).2 (fun k hk => (GoodL_iff σ _).1 hg k (hK k hk))
      have ⟨e1, e2, e3⟩ := hA σ hgK
      have hnn' : ∀ k ∈ (Ast.buildL as).map (·.2), 0 ≤ evalPt σ k := by
        rw [buildL_snd]; exact e3 (fun k hk => hnn k (hK k hk))
      simp only [Ast.build]
      refine ⟨?_, good_mkCcAny σ _ _ _ (by rw [buildL_snd]; exact e2)⟩
      rw [C14.evalPt_mkCcAny σ _ _ _ hnn', C14.evalPt_mkCcAny σ _ _ _ hnn, buildL_snd, e1, P.sumPt_sort, C04.sum_orderArgs]
  by_cases h1 : args.length ≤ 1
  · exact plain (by simp [mkCcAny, h1])
  · by_cases h2 : ((args.filter (fun x => !(x.2.isLeaf && x.2.id == d1))).length == args.length ||
        (args.filter (fun x => !(x.2.isLeaf && x.2.id == d1))).length == 0) = true
    · exact plain (by simp only [mkCcAny, h1, if_false]; rw [if_pos h2])
    · -- the restructured form: the default item next to the tagged helper over the other alternatives
      have hlen := filter_len_split (fun x : Bool × P => x.2.isLeaf && x.2.id == d1) args
      have hc : (args.filter (fun x => !(x.2.isLeaf && x.2.id == d1))).length ≠ args.length ∧
          (args.filter (fun x => !(x.2.isLeaf && x.2.id == d1))).length ≠ 0 := by
        simp only [Bool.or_eq_true, beq_iff_eq, not_or] at h2; exact h2
      have hd1 : (args.filter (fun x => x.2.isLeaf && x.2.id == d1)).length = 1 := by
        have := hone; unfold OneDefault at this; simp only at this; omega
      obtain ⟨x, hdx⟩ : ∃ x, args.filter (fun x => x.2.isLeaf && x.2.id == d1) = [x] := List.length_eq_one_iff.1 hd1
      have hxf : x ∈ args.filter (fun x => x.2.isLeaf && x.2.id == d1) := by rw [hdx]; simp
      have hxmem : x ∈ args := (List.mem_filter.1 hxf).1
      have hxleaf : x.2.isLeaf = true := by
        have := (List.mem_filter.1 hxf).2
        simp only [Bool.and_eq_true] at this; exact this.1
      have hinner : setPrio (mkAny (args.filter (fun x => !(x.2.isLeaf && x.2.id == d1))) none) (-2) =
          .node (genId (sortById (orderArgs (args.filter (fun x => !(x.2.isLeaf && x.2.id == d1))))) 1 none) ⟨0, 1⟩ 1 1
            (sortById (orderArgs (args.filter (fun x => !(x.2.isLeaf && x.2.id == d1))))) { cls := .any, gen := true, prio := some (-2) } := by
        simp [mkAny, mkAtLeast, setPrio, varOf]
      have hform : mkCcAny args ((d1, d2) :: ds) oid =
          setDflt (mkAny ([x] ++ [(false, setPrio (mkAny (args.filter (fun x => !(x.2.isLeaf && x.2.id == d1))) none) (-2))]) oid .ccAny)
            ((d1, d2) :: ds) := by
        simp only [mkCcAny, h1, if_false]
        rw [if_neg h2, hdx]
      have hC := hsub (fun x => !(x.2.isLeaf && x.2.id == d1))
      obtain ⟨xf, xp⟩ := x
      have hxp : xp.isLeaf = true := hxleaf
      generalize hcm : args.filter (fun x => !(x.2.isLeaf && x.2.id == d1)) = compl at *
      obtain ⟨as', has', hA'⟩ := rebuilt_facts (cfg := true) (sortById (orderArgs compl)) (fun k hk => hR k (hC k hk))
      have hj : toJson (mkCcAny args ((d1, d2) :: ds) oid) =
          .node (some "Any") oid none none true (leafJ xp.id xp.bnd :: toJsonL (sortById (orderArgs compl))) none none none ((d1, d2) :: ds) := by
        rw [hform, hinner]
        have ho : ∃ l, (l = [xp, P.node (genId (sortById (orderArgs compl)) 1 none) ⟨0, 1⟩ 1 1 (sortById (orderArgs compl)) { cls := .any, gen := true, prio := some (-2) }] ∨
            l = [P.node (genId (sortById (orderArgs compl)) 1 none) ⟨0, 1⟩ 1 1 (sortById (orderArgs compl)) { cls := .any, gen := true, prio := some (-2) }, xp]) ∧
            sortById (orderArgs ([(xf, xp)] ++ [(false, P.node (genId (sortById (orderArgs compl)) 1 none) ⟨0, 1⟩ 1 1 (sortById (orderArgs compl)) { cls := .any, gen := true, prio := some (-2) })])) = l := by
          refine ⟨_, ?_, rfl⟩
          have hp := sortById_perm (orderArgs ([(xf, xp)] ++ [(false, P.node (genId (sortById (orderArgs compl)) 1 none) ⟨0, 1⟩ 1 1 (sortById (orderArgs compl)) { cls := .any, gen := true, prio := some (-2) })]))
          have hq := C04.orderArgs_perm ([(xf, xp)] ++ [(false, P.node (genId (sortById (orderArgs compl)) 1 none) ⟨0, 1⟩ 1 1 (sortById (orderArgs compl)) { cls := .any, gen := true, prio := some (-2) })])
          exact perm_pair (hp.trans (by simpa using hq))
        obtain ⟨l, hl, hle⟩ := ho
        cases xp with
        | node => simp [isLeaf] at hxp
        | leaf xi xb =>
          unfold mkAny mkAtLeast
          rw [hle]
          rcases hl with rfl | rfl
          · cases oid <;> simp [varOf, setDflt, toJson, ccAnyProps, P.mt, toJsonL, P.id, P.bnd, idJ]
          · cases oid <;> simp [varOf, setDflt, toJson, ccAnyProps, P.mt, toJsonL, P.id, P.bnd, idJ]
      have hXperm : (xp :: sortById (orderArgs compl)).Perm (args.map (·.2)) := by
        have h1 : (sortById (orderArgs compl)).Perm (compl.map (·.2)) := (sortById_perm _).trans (C04.orderArgs_perm compl)
        have h2 := C14.filter_perm_split (fun x : Bool × P => x.2.isLeaf && x.2.id == d1) args
        rw [hdx, hcm] at h2
        exact ((List.Perm.cons xp h1).trans (by simpa using h2))
      refine ⟨.ccAny (varAst xp :: as') ((d1, d2) :: ds) oid, ?_, ?_, ?_,
        ⟨varAst xp :: as', xp :: sortById (orderArgs compl), rfl, hXperm, ?_⟩⟩
      rotate_left 3
      · have hlx : PJ.toAst true (toJson xp) = some (varAst xp) := by
          cases xp with
          | node => simp [isLeaf] at hxp
          | leaf xi xb => simpa [toJson, varAst, P.id, P.bnd] using leaf_roundtrip_cfg true xi xb
        simp [toJsonL, PJ.toAstL, hlx, has']
      · rw [hj]
        have hlx : PJ.toAst true (leafJ xp.id xp.bnd) = some (varAst xp) := by
          cases xp with
          | node => simp [isLeaf] at hxp
          | leaf xi xb => simpa [varAst, P.id, P.bnd] using leaf_roundtrip_cfg true xi xb
        simp [PJ.toAst, PJ.toAstL, hlx, has']
      · simp only [Ast.build]; exact dflt_mkCcAny _ _ _
      · intro σ hg hnn
        have hgC : GoodL σ (sortById (orderArgs compl)) := (GoodL_iff σ _).2 (fun k hk => (GoodL_iff σ _).1 hg k (hC k hk))
        have ⟨e1, e2, e3⟩ := hA' σ hgC
        have hxb : (varAst xp).build = xp := by
          cases xp with
          | node => simp [isLeaf] at hxp
          | leaf xi xb => simp [varAst, Ast.build, P.id, P.bnd]
        have hb' : (Ast.buildL (varAst xp :: as')).map (·.2) = xp :: as'.map Ast.build := by
          simp [Ast.buildL, buildL_snd, hxb]
        have hxg : Good σ xp := (GoodL_iff σ _).1 hg _ (List.mem_map.2 ⟨(xf, xp), hxmem, rfl⟩)
        have hxn : 0 ≤ evalPt σ xp := hnn _ (List.mem_map.2 ⟨(xf, xp), hxmem, rfl⟩)
        have hsplit := C14.sum_filter_split σ (fun x : Bool × P => x.2.isLeaf && x.2.id == d1) args
        rw [hdx, hcm] at hsplit
        have hnn' : ∀ k ∈ (Ast.buildL (varAst xp :: as')).map (·.2), 0 ≤ evalPt σ k := by
          rw [hb']; intro k hk
          rcases List.mem_cons.1 hk with rfl | hk
          · exact hxn
          · exact e3 (fun k hk => hnn k (hC k hk)) k hk
        simp only [Ast.build]
        refine ⟨?_, good_mkCcAny σ _ _ _ ?_⟩
        · rw [C14.evalPt_mkCcAny σ _ _ _ hnn', C14.evalPt_mkCcAny σ _ _ _ hnn, hb', hsplit]
          simp only [sumPt, List.map_cons, List.map_nil, e1, P.sumPt_sort, C04.sum_orderArgs]
          split <;> split <;> omega
        · rw [hb']
          refine (GoodL_iff σ _).2 (fun k hk => ?_)
          rcases List.mem_cons.1 hk with rfl | hk
          · exact hxg
          · exact (GoodL_iff σ _).1 e2 k hk

theorem mkXor_idJ (args : List (Bool × P)) (oid cls) : ∀ i b s v ks m, mkXor args oid cls = .node i b s v ks m → idJ i m = oid := by
  intro i b s v ks m h
  unfold mkXor mkAll mkAtLeast at h
  cases oid with
  | none => simp only [varOf, Option.map_none] at h; cases h; simp [idJ]
  | some x => simp only [varOf, Option.map_some] at h; cases h; simp [idJ]

/-- **a defaulted `cc.Xor` over alternatives of any kind** (each reads back): read back by the configurator's class map as
    a `cc.Xor` with the same default that evaluates identically wherever the alternatives' values are not negative -/
theorem ccXor_roundtrip_gen (args : List (Bool × P)) (d : String × Bnd) (ds : List (String × Bnd)) (oid)
    (hR : ∀ k ∈ args.map (·.2), RTN true k) :
    ∃ a, PJ.toAst true (toJson (mkCcXor args (d :: ds) oid)) = some a ∧ a.build.mt.dflt = d :: ds ∧
      (∀ σ, GoodL σ (args.map (·.2)) → (∀ k ∈ args.map (·.2), 0 ≤ evalPt σ k) →
        evalPt σ a.build = evalPt σ (mkCcXor args (d :: ds) oid) ∧ Good σ a.build) ∧
      ∃ as, a = .ccXor as (d :: ds) oid ∧ PJ.toAstL true (toJsonL (sortById (orderArgs args))) = some as := by
  have hK : ∀ k ∈ sortById (orderArgs args), k ∈ args.map (·.2) := fun k hk =>
    (C04.orderArgs_perm args).mem_iff.1 ((sortById_perm _).mem_iff.1 hk)
  obtain ⟨as, has, hA⟩ := rebuilt_facts (cfg := true) (sortById (orderArgs args)) (fun k hk => hR k (hK k hk))
  obtain ⟨i, b, m, hx⟩ := C14.mkXor_node args oid .ccXor
  have hcls : m.cls = .ccXor := by
    have h1 : (mkXor args oid .ccXor).mt.cls = .ccXor := by
      unfold mkXor mkAll mkAtLeast; cases varOf oid <;> rfl
    rw [hx] at h1; simpa [P.mt] using h1
  have hMe : mkAtMost 1 (orderArgs args) none =
      .node (genId (sortById (orderArgs args)) (-1) (some (-1))) ⟨0, 1⟩ (-1) (-1) (sortById (orderArgs args)) { cls := .atMost, gen := true } := by
    simp [mkAtMost, mkAtLeast]
  have hLe : mkAtLeast 1 (orderArgs args) none none =
      .node (genId (sortById (orderArgs args)) 1 none) ⟨0, 1⟩ 1 1 (sortById (orderArgs args)) { cls := .atLeast, gen := true } := by
    simp [mkAtLeast]
  -- the JSON lists the children of the "at most one" half: the items
  have hjson : toJson (mkCcXor args (d :: ds) oid) =
      .node (some "Xor") (idJ i { m with dflt := d :: ds }) none none true (toJsonL (sortById (orderArgs args))) none none none (d :: ds) := by
    unfold mkCcXor
    rw [hx]
    simp only [setDflt]
    have hperm := sortById_perm [mkAtLeast 1 (orderArgs args) none none, mkAtMost 1 (orderArgs args) none]
    obtain ⟨ci, cb, cs, cv, cks, cm, hce, hcc⟩ := C14.mkCcAny_node_cls (((sortById (orderArgs args)).map (fun c => ((false : Bool), c))))
      (d :: ds) (some (genId (sortById (orderArgs args)) 1 none))
    rcases perm_pair hperm with h | h
    · rw [h, hLe, hMe]
      simp only [replaceFirst, isLeaf, Bool.not_false, Bool.true_and, BEq.rfl, if_true, P.kids, P.id]
      rw [hce]
      simp [toJson, hcls, kidsOfAtMost, hcc]
    · rw [h, hLe, hMe]
      simp [replaceFirst, isLeaf, toJson, hcls, kidsOfAtMost]
  have hid : idJ i { m with dflt := d :: ds } = oid := by
    have := mkXor_idJ args oid .ccXor _ _ _ _ _ _ hx
    simpa [idJ] using this
  rw [hid] at hjson
  refine ⟨.ccXor as (d :: ds) oid, ?_, ?_, ?_, ⟨as, rfl, has⟩⟩
  · rw [hjson]; simp [PJ.toAst, has]
  · simp only [Ast.build]; exact dflt_mkCcXor _ _ _
  · intro σ hg hnn
    have hgK : GoodL σ (sortById (orderArgs args)) := (GoodL_iff σ _).2 (fun k hk => (GoodL_iff σ _).1 hg k (hK k hk))
    have ⟨e1, e2, e3⟩ := hA σ hgK
    have hnn' : ∀ k ∈ (Ast.buildL as).map (·.2), 0 ≤ evalPt σ k := by
      rw [buildL_snd]; exact e3 (fun k hk => hnn k (hK k hk))
    simp only [Ast.build]
    refine ⟨?_, good_mkCcXor σ _ _ _ (by rw [buildL_snd]; exact e2)⟩
    rw [C14.evalPt_mkCcXor σ _ _ _ hnn', C14.evalPt_mkCcXor σ _ _ _ hnn, buildL_snd, e1, P.sumPt_sort, C04.sum_orderArgs]

/-! ### defaulted configurator rules over items as members of the fragment -/

theorem goodL_perm (σ) {l1 l2 : List P} (h : l1.Perm l2) : GoodL σ l1 ↔ GoodL σ l2 := by
  simp only [GoodL_iff]
  exact ⟨fun H k hk => H k (h.mem_iff.2 hk), fun H k hk => H k (h.mem_iff.1 hk)⟩

theorem good_mkAtLeast_inv (σ) (v : Int) (ks : List P) (var sgn cls) (h : Good σ (mkAtLeast v ks var sgn cls)) : GoodL σ ks := by
  unfold mkAtLeast at h
  cases var with
  | none => exact (goodL_perm σ (sortById_perm ks)).1 (good_kids σ _ _ _ _ _ _ h).2
  | some x => exact (goodL_perm σ (sortById_perm ks)).1 (good_kids σ _ _ _ _ _ _ h).2

theorem good_mkAny_inv (σ) (args : List (Bool × P)) (oid cls) (h : Good σ (mkAny args oid cls)) : GoodL σ (args.map (·.2)) := by
  unfold mkAny at h
  exact (C04.goodL_orderArgs σ _).1 (good_mkAtLeast_inv σ _ _ _ _ _ h)

theorem good_mkCcAny_inv (σ) (args : List (Bool × P)) (dflt oid) (h : Good σ (mkCcAny args dflt oid)) :
    GoodL σ (args.map (·.2)) := by
  have hp : ∀ dflt, Good σ (setDflt (mkAny args oid .ccAny) dflt) → GoodL σ (args.map (·.2)) := fun _ ha =>
    good_mkAny_inv σ args oid _ ((good_setDflt σ _ _).1 ha)
  unfold mkCcAny at h
  cases dflt with
  | nil => exact hp _ h
  | cons d ds =>
      obtain ⟨d1, d2⟩ := d
      simp only at h
      split at h
      · exact hp _ h
      · split at h
        · exact hp _ h
        · have h1 := good_mkAny_inv σ _ oid _ ((good_setDflt σ _ _).1 h)
          rw [List.map_append] at h1
          have h2 := (GoodL_iff σ _).1 h1
          have hin : GoodL σ ((args.filter (fun x => !(x.2.isLeaf && x.2.id == d1))).map (·.2)) := by
            have := h2 (setPrio (mkAny (args.filter (fun x => !(x.2.isLeaf && x.2.id == d1))) none) (-2)) (by simp)
            exact good_mkAny_inv σ _ none _ ((good_setPrio σ _ _).1 this)
          refine (GoodL_iff σ _).2 (fun k hk => ?_)
          obtain ⟨x, hx, rfl⟩ := List.mem_map.1 hk
          by_cases hd : (x.2.isLeaf && x.2.id == d1) = true
          · exact h2 _ (List.mem_append.2 (Or.inl (List.mem_map.2 ⟨x, List.mem_filter.2 ⟨hx, hd⟩, rfl⟩)))
          · exact (GoodL_iff σ _).1 hin _ (List.mem_map.2 ⟨x, List.mem_filter.2 ⟨hx, by cases hb : (x.2.isLeaf && x.2.id == d1) <;> simp_all⟩, rfl⟩)

theorem mem_replaceFirst_of_not (pred : P → Bool) (f : P → P) : ∀ (ks : List P) (k : P), k ∈ ks → pred k = false →
    k ∈ replaceFirst ks pred f
  | [], _, h, _ => by simp at h
  | x :: r, k, h, hp => by
      unfold replaceFirst
      rcases List.mem_cons.1 h with rfl | h
      · simp [hp]
      · split
        · exact List.mem_cons.2 (Or.inr h)
        · exact List.mem_cons.2 (Or.inr (mem_replaceFirst_of_not pred f r k h hp))

theorem good_mkCcXor_inv (σ) (args : List (Bool × P)) (d ds oid) (h : Good σ (mkCcXor args (d :: ds) oid)) :
    GoodL σ (args.map (·.2)) := by
  unfold mkCcXor at h
  obtain ⟨i, b, m, hx⟩ := C14.mkXor_node args oid .ccXor
  rw [hx] at h
  simp only [setDflt] at h
  have hks := (good_kids σ _ _ _ _ _ _ h).2
  have hM : mkAtMost 1 (orderArgs args) none ∈ sortById [mkAtLeast 1 (orderArgs args) none none, mkAtMost 1 (orderArgs args) none] :=
    (sortById_perm _).mem_iff.2 (by simp)
  have := (GoodL_iff σ _).1 hks _ (mem_replaceFirst_of_not _ _ _ _ hM (by simp [mkAtMost, mkAtLeast, isLeaf]))
  unfold mkAtMost at this
  exact (C04.goodL_orderArgs σ _).1 (good_mkAtLeast_inv σ _ _ _ _ _ this)

/-- the node a `cc.Any` builds: "at least one" (sign +1, value 1) -/
theorem mkCcAny_node (args : List (Bool × P)) (dflt) (oid) : ∃ i b ks m, mkCcAny args dflt oid = .node i b 1 1 ks m := by
  have hp : ∀ a dflt, ∃ i b ks m, setDflt (mkAny a oid .ccAny) dflt = .node i b 1 1 ks m := by
    intro a dflt
    unfold mkAny mkAtLeast
    cases varOf oid <;> exact ⟨_, _, _, _, rfl⟩
  unfold mkCcAny
  cases dflt with
  | nil => exact hp args _
  | cons d ds =>
      obtain ⟨d1, d2⟩ := d
      simp only
      split
      · exact hp args _
      · split
        · exact hp args _
        · exact hp _ _

/-- a defaulted `cc.Any`, as held -/
def CcAnyRule (t : P) : Prop :=
  ∃ args d ds oid, t = mkCcAny args (d :: ds) oid ∧ AltArgs args ∧ OneDefault args d.1

/-- a defaulted `cc.Xor`, as held -/
def CcXorRule (t : P) : Prop :=
  ∃ args d ds oid, t = mkCcXor args (d :: ds) oid ∧ AltArgs args ∧ OneDefault args d.1

theorem kids_setDflt (p : P) (d) : (setDflt p d).kids = p.kids := by cases p <;> rfl

theorem kids_setPrio (p : P) (q) : (setPrio p q).kids = p.kids := by cases p <;> rfl

theorem kids_mkAtLeast (v : Int) (ks : List P) (var sgn cls) : (mkAtLeast v ks var sgn cls).kids = sortById ks := by
  unfold mkAtLeast; cases var <;> rfl

/-- every alternative of a `cc.Any` is a child of the node or a child of one of its children (the tagged helper) -/
theorem mkCcAny_args_in_kids (args : List (Bool × P)) (dflt oid) : ∀ x ∈ args.map (·.2),
    x ∈ (mkCcAny args dflt oid).kids ∨ ∃ H ∈ (mkCcAny args dflt oid).kids, x ∈ H.kids := by
  have hp : ∀ dflt, ∀ x ∈ args.map (·.2), x ∈ (setDflt (mkAny args oid .ccAny) dflt).kids := by
    intro dflt x hx
    rw [kids_setDflt]; unfold mkAny; rw [kids_mkAtLeast]
    exact (sortById_perm _).mem_iff.2 ((C04.orderArgs_perm args).mem_iff.2 hx)
  intro x hx
  unfold mkCcAny
  cases dflt with
  | nil => exact Or.inl (hp _ x hx)
  | cons d ds =>
      obtain ⟨d1, d2⟩ := d
      simp only
      split
      · exact Or.inl (hp _ x hx)
      · split
        · exact Or.inl (hp _ x hx)
        · obtain ⟨y, hy, rfl⟩ := List.mem_map.1 hx
          have hkids : ∀ z ∈ (args.filter (fun x => x.2.isLeaf && x.2.id == d1) ++
              [(false, setPrio (mkAny (args.filter (fun x => !(x.2.isLeaf && x.2.id == d1))) none) (-2))]).map (·.2),
              z ∈ (setDflt (mkAny (args.filter (fun x => x.2.isLeaf && x.2.id == d1) ++
                [(false, setPrio (mkAny (args.filter (fun x => !(x.2.isLeaf && x.2.id == d1))) none) (-2))]) oid .ccAny)
                ((d1, d2) :: ds)).kids := by
            intro z hz
            rw [kids_setDflt]; unfold mkAny; rw [kids_mkAtLeast]
            exact (sortById_perm _).mem_iff.2 ((C04.orderArgs_perm _).mem_iff.2 hz)
          by_cases hd : (y.2.isLeaf && y.2.id == d1) = true
          · exact Or.inl (hkids _ (by
              rw [List.map_append]
              exact List.mem_append.2 (Or.inl (List.mem_map.2 ⟨y, List.mem_filter.2 ⟨hy, hd⟩, rfl⟩))))
          · refine Or.inr ⟨setPrio (mkAny (args.filter (fun x => !(x.2.isLeaf && x.2.id == d1))) none) (-2),
              hkids _ (by rw [List.map_append]; exact List.mem_append.2 (Or.inr (by simp))), ?_⟩
            rw [kids_setPrio]; unfold mkAny; rw [kids_mkAtLeast]
            refine (sortById_perm _).mem_iff.2 ((C04.orderArgs_perm _).mem_iff.2 (List.mem_map.2 ⟨y, List.mem_filter.2 ⟨hy, ?_⟩, rfl⟩))
            cases hb : (y.2.isLeaf && y.2.id == d1) <;> simp_all

/-- every alternative of a defaulted `cc.Xor` is a child of its "at most one" half -/
theorem mkCcXor_args_in_kids (args : List (Bool × P)) (d ds oid) : ∀ x ∈ args.map (·.2),
    ∃ M ∈ (mkCcXor args (d :: ds) oid).kids, x ∈ M.kids := by
  intro x hx
  obtain ⟨i, b, m, hxn⟩ := C14.mkXor_node args oid .ccXor
  unfold mkCcXor
  rw [hxn]
  simp only [setDflt]
  have hM : mkAtMost 1 (orderArgs args) none ∈ sortById [mkAtLeast 1 (orderArgs args) none none, mkAtMost 1 (orderArgs args) none] :=
    (sortById_perm _).mem_iff.2 (by simp)
  refine ⟨mkAtMost 1 (orderArgs args) none, by
    simp only [P.kids]; exact mem_replaceFirst_of_not _ _ _ _ hM (by simp [mkAtMost, mkAtLeast, isLeaf]), ?_⟩
  have hk : (mkAtMost 1 (orderArgs args) none).kids = sortById (orderArgs args) := by unfold mkAtMost; exact kids_mkAtLeast _ _ _ _ _
  rw [hk]
  exact (sortById_perm _).mem_iff.2 ((C04.orderArgs_perm args).mem_iff.2 hx)

theorem alt_nonneg (σ) (k : P) (hl : k.isLeaf = true → 0 ≤ k.bnd.lo) (hg : Good σ k) : 0 ≤ evalPt σ k := by
  cases k with
  | node i b s v ks m => simp only [evalPt]; split <;> omega
  | leaf i b =>
      simp only [Good, InB] at hg
      have := hl rfl
      simp only [P.bnd] at this
      simp only [evalPt]; omega

theorem rtn_ccAny (t : P) (h : CcAnyRule t) (hk : ∀ k ∈ t.kids, RTN true k)
    (hkk : ∀ k ∈ t.kids, ∀ k' ∈ k.kids, RTN true k') : RTN true t := by
  obtain ⟨args, d, ds, oid, rfl, hit, hone⟩ := h
  have hR : ∀ x ∈ args.map (·.2), RTN true x := fun x hx => by
    rcases mkCcAny_args_in_kids args (d :: ds) oid x hx with h | ⟨H, hH, h⟩
    · exact hk x h
    · exact hkk H hH x h
  obtain ⟨a, ha, _, hev, _⟩ := ccAny_roundtrip_gen args d ds oid (fun k hk => (hit k hk).1) hone hR
  refine ⟨a, ha, fun σ hg => ?_⟩
  have hgl := good_mkCcAny_inv σ args _ oid hg
  exact hev σ hgl (fun k hk => alt_nonneg σ k (hit k hk).2 ((GoodL_iff σ _).1 hgl k hk))

theorem rtn_ccXor (t : P) (h : CcXorRule t) (hkk : ∀ k ∈ t.kids, ∀ k' ∈ k.kids, RTN true k') : RTN true t := by
  obtain ⟨args, d, ds, oid, rfl, hit, _⟩ := h
  have hR : ∀ x ∈ args.map (·.2), RTN true x := fun x hx => by
    obtain ⟨M, hM, h⟩ := mkCcXor_args_in_kids args d ds oid x hx
    exact hkk M hM x h
  obtain ⟨a, ha, _, hev, _⟩ := ccXor_roundtrip_gen args d ds oid hR
  refine ⟨a, ha, fun σ hg => ?_⟩
  have hgl := good_mkCcXor_inv σ args _ _ oid hg
  exact hev σ hgl (fun k hk => alt_nonneg σ k (hit k hk).2 ((GoodL_iff σ _).1 hgl k hk))

theorem ccAny_sign (i b s v ks m) (h : CcAnyRule (.node i b s v ks m)) : s = 1 := by
  obtain ⟨args, d, ds, oid, he, _, _⟩ := h
  obtain ⟨i', b', ks', m', hn⟩ := mkCcAny_node args (d :: ds) oid
  rw [hn] at he; cases he; rfl

theorem ccXor_sign (i b s v ks m) (h : CcXorRule (.node i b s v ks m)) : s = 1 := by
  obtain ⟨args, d, ds, oid, he, _, _⟩ := h
  obtain ⟨i', b', m', hx⟩ := C14.mkXor_node args oid .ccXor
  unfold mkCcXor at he
  rw [hx] at he
  simp only [setDflt] at he
  cases he; rfl

/-- an `Imply` node as held: the negated condition `k` (a compound) and the consequence `d`, in either order, `c` = where `k` is -/
def ImplyShape (ks : List P) (c : Nat) : Prop :=
  ∃ k d, k.isLeaf = false ∧ ((ks = [k, d] ∧ c = 0) ∨ (ks = [d, k] ∧ c = 1))

/-- an `XNor` node as held: `Any(AtLeast(1, args).negate(), AtMost(1, args).negate())` — the second half is never pushed
    inwards (`+args ≥ 2`) and is the one `to_json` reads the propositions from (`c` = where it is) -/
def XNorShape (ks : List P) (c : Nat) : Prop :=
  ∃ i1 b1 m1 args' i2 b2 m2 args, args'.Perm args ∧
    ((ks = [negate (.node i1 b1 1 1 args' m1), .node i2 b2 1 2 args m2] ∧ c = 1) ∨
     (ks = [.node i2 b2 1 2 args m2, negate (.node i1 b1 1 1 args' m1)] ∧ c = 0))

mutual
/-- the fragment with negations: as `Frag cfg`, plus `Imply` and `XNor` nodes; since the class `AtLeast` admits any value and sign, every
    model that `negate` / `Not` produce from the fragment is in it as well -/
def FragN (cfg : Bool) : P → Prop
  | .leaf _ _ => True
  | .node i b s v ks m =>
      ((m.cls = .atLeast ∧ (s = 1 ∨ s = -1)) ∨ (m.cls = .atMost ∧ s = -1) ∨ (m.cls = .any ∧ s = 1 ∧ v = 1) ∨
       (m.cls = .all ∧ v = ks.length ∧ s = (if v > 0 then 1 else -1) ∧ DistinctRT cfg ks) ∨
       ((m.cls = .xor ∨ m.cls = .exactlyOne) ∧ s = 1 ∧ v = 2 ∧ XorShape ks) ∨
       (m.cls = .imply ∧ s = 1 ∧ v = 1 ∧ ImplyShape ks m.cond) ∨
       (m.cls = .xnor ∧ s = 1 ∧ v = 1 ∧ XNorShape ks m.cond) ∨
       (m.cls = .stingy ∧ cfg = true ∧ v = ks.length ∧ s = (if v > 0 then 1 else -1) ∧ DistinctRT cfg ks) ∨
       (cfg = true ∧ CcAnyRule (.node i b s v ks m)) ∨ (cfg = true ∧ CcXorRule (.node i b s v ks m))) ∧ FragNL cfg ks
def FragNL (cfg : Bool) : List P → Prop
  | [] => True
  | k :: ks => FragN cfg k ∧ FragNL cfg ks
end

theorem rtn_atLeast (i b s v ks m) (hcls : m.cls = .atLeast) (hs : s = 1 ∨ s = -1) (hL : RTL cfg ks) :
    RTN cfg (.node i b s v ks m) := by
  obtain ⟨as, has, hA⟩ := hL
  refine ⟨.atLeast v as (idJ i m) (signJ s v), by simp [toJson, hcls, PJ.toAst, has], fun σ hg => ?_⟩
  have ⟨_, hgk⟩ := good_kids σ i b s v ks m hg
  have ⟨hsum, hgood⟩ := hA σ hgk
  refine ⟨?_, good_mkAtLeast σ _ _ _ _ _ (signJ_ok s v hs) ((C04.goodL_orderArgs σ _).2 hgood)⟩
  simp only [Ast.build, evalPt_mkAtLeast, C04.sum_orderArgs, hsum, sgnOf_signJ s v hs, evalPt]

theorem rtn_atMost (i b v ks m) (hcls : m.cls = .atMost) (hL : RTL cfg ks) : RTN cfg (.node i b (-1) v ks m) := by
  obtain ⟨as, has, hA⟩ := hL
  refine ⟨.atMost (-v) as (idJ i m), by simp [toJson, hcls, PJ.toAst, has], fun σ hg => ?_⟩
  have ⟨_, hgk⟩ := good_kids σ i b (-1) v ks m hg
  have ⟨hsum, hgood⟩ := hA σ hgk
  refine ⟨?_, ?_⟩
  · simp only [Ast.build, C04.evalPt_mkAtMost, C04.sum_orderArgs, hsum, evalPt]
    split <;> split <;> omega
  · simp only [Ast.build, mkAtMost]
    exact good_mkAtLeast σ _ _ _ _ _ (Or.inr (Or.inr rfl)) ((C04.goodL_orderArgs σ _).2 hgood)

theorem rtn_any (i b ks m) (hcls : m.cls = .any) (hL : RTL cfg ks) : RTN cfg (.node i b 1 1 ks m) := by
  obtain ⟨as, has, hA⟩ := hL
  refine ⟨.any as (idJ i m), by simp [toJson, hcls, PJ.toAst, has], fun σ hg => ?_⟩
  have ⟨_, hgk⟩ := good_kids σ i b 1 1 ks m hg
  have ⟨hsum, hgood⟩ := hA σ hgk
  refine ⟨?_, ?_⟩
  · simp only [Ast.build, C04.evalPt_mkAny, hsum, evalPt]
    split <;> split <;> omega
  · simp only [Ast.build, mkAny]
    exact good_mkAtLeast σ _ _ _ _ _ (Or.inl rfl) ((C04.goodL_orderArgs σ _).2 hgood)

theorem rtn_all (i b s v ks m) (hcls : m.cls = .all) (hv : v = ks.length) (hs : s = (if v > 0 then 1 else -1))
    (hd : DistinctRT cfg ks) (hL : RTL cfg ks) : RTN cfg (.node i b s v ks m) := by
  obtain ⟨as, has, hA⟩ := hL
  refine ⟨.all as (idJ i m), by simp [toJson, hcls, PJ.toAst, has], fun σ hg => ?_⟩
  have ⟨_, hgk⟩ := good_kids σ i b s v ks m hg
  have ⟨hsum, hgood⟩ := hA σ hgk
  have hlen : as.length = ks.length := by rw [toAstL_length _ as has, toJsonL_length]
  have hdc : (distinctCount (Ast.buildL as) : Int) = v := by rw [hd as has, hlen, hv]
  refine ⟨?_, ?_⟩
  · simp only [Ast.build, mkAll, evalPt_mkAtLeast, C04.sum_orderArgs, hsum, hdc, evalPt, hs, sgnOf, Option.getD_none]
  · simp only [Ast.build, mkAll]
    exact good_mkAtLeast σ _ _ _ _ _ (Or.inl rfl) ((C04.goodL_orderArgs σ _).2 hgood)

/-- the `StingyConfigurator` node itself, read back through the configurator's class map -/
theorem rtn_stingy (i b s v ks m) (hcls : m.cls = .stingy) (hv : v = ks.length) (hs : s = (if v > 0 then 1 else -1))
    (hd : DistinctRT true ks) (hL : RTL true ks) : RTN true (.node i b s v ks m) := by
  obtain ⟨as, has, hA⟩ := hL
  refine ⟨.stingy as (idJ i m), by simp [toJson, hcls, PJ.toAst, has], fun σ hg => ?_⟩
  have ⟨_, hgk⟩ := good_kids σ i b s v ks m hg
  have ⟨hsum, hgood⟩ := hA σ hgk
  have hlen : as.length = ks.length := by rw [toAstL_length _ as has, toJsonL_length]
  have hdc : (distinctCount (Ast.buildL as) : Int) = v := by rw [hd as has, hlen, hv]
  refine ⟨?_, ?_⟩
  · simp only [Ast.build, mkAll, evalPt_mkAtLeast, C04.sum_orderArgs, hsum, hdc, evalPt, hs, sgnOf, Option.getD_none]
  · simp only [Ast.build, mkAll]
    exact good_mkAtLeast σ _ _ _ _ _ (Or.inl rfl) ((C04.goodL_orderArgs σ _).2 hgood)

theorem rtn_xor (i b ks m) (hcls : m.cls = .xor ∨ m.cls = .exactlyOne) (hx : XorShape ks)
    (hkids : ∀ k ∈ ks, RTL cfg k.kids) : RTN cfg (.node i b 1 2 ks m) := by
  obtain ⟨i1, b1, m1, i2, b2, m2, args, hks⟩ := hx
  have hargs : RTL cfg args := by
    rcases hks with rfl | rfl
    · simpa [P.kids] using hkids (.node i1 b1 1 1 args m1) (by simp)
    · simpa [P.kids] using hkids (.node i1 b1 1 1 args m1) (by simp)
  obtain ⟨as', has', hA'⟩ := hargs
  have hjson : kidsOfNth ks 0 = toJsonL args := by rcases hks with rfl | rfl <;> simp [kidsOfNth]
  have hev : ∀ σ, evalPt σ (.node i b 1 2 ks m) = if sumPt σ args = 1 then 1 else 0 := by
    intro σ
    rcases hks with rfl | rfl <;> simp only [evalPt, sumPt] <;> split <;> split <;> split <;> split <;> omega
  have hgargs : ∀ σ, Good σ (.node i b 1 2 ks m) → GoodL σ args := by
    intro σ hg
    have ⟨_, hgk⟩ := good_kids σ i b 1 2 ks m hg
    have h1 : Good σ (.node i1 b1 1 1 args m1) := (GoodL_iff σ ks).1 hgk _ (by rcases hks with rfl | rfl <;> simp)
    exact (good_kids σ _ _ _ _ _ _ h1).2
  have hgood : ∀ σ oid cls, GoodL σ ((Ast.buildL as').map (·.2)) → Good σ (mkXor (Ast.buildL as') oid cls) := by
    intro σ oid cls hg
    have hgo := (C04.goodL_orderArgs σ _).2 hg
    unfold mkXor mkAll
    refine good_mkAtLeast σ _ _ _ _ _ (Or.inl rfl) ((C04.goodL_orderArgs σ _).2 ((GoodL_iff σ _).2 ?_))
    intro k hk
    simp only [List.map_cons, List.map_nil, List.mem_cons, List.not_mem_nil, or_false] at hk
    rcases hk with rfl | rfl
    · exact good_mkAtLeast σ _ _ _ _ _ (Or.inl rfl) hgo
    · unfold mkAtMost; exact good_mkAtLeast σ _ _ _ _ _ (Or.inr (Or.inr rfl)) hgo
  rcases hcls with hcls | hcls
  · cases cfg
    · refine ⟨.xor as' (idJ i m) false, by simp [toJson, hcls, PJ.toAst, hjson, has'], fun σ hg => ?_⟩
      have ⟨hsum, hgd⟩ := hA' σ (hgargs σ hg)
      exact ⟨by rw [hev σ]; simp only [Ast.build, C04.evalPt_mkXor, hsum], by simpa [Ast.build] using hgood σ _ _ hgd⟩
    · refine ⟨.ccXor as' [] (idJ i m), by simp [toJson, hcls, PJ.toAst, hjson, has'], fun σ hg => ?_⟩
      have ⟨hsum, hgd⟩ := hA' σ (hgargs σ hg)
      exact ⟨by rw [hev σ]; simp only [Ast.build, mkCcXor, C14.evalPt_setDflt, C04.evalPt_mkXor, hsum],
        by simpa [Ast.build, mkCcXor, good_setDflt] using hgood σ _ _ hgd⟩
  · refine ⟨.xor as' (idJ i m) true, by simp [toJson, hcls, PJ.toAst, hjson, has'], fun σ hg => ?_⟩
    have ⟨hsum, hgd⟩ := hA' σ (hgargs σ hg)
    exact ⟨by rw [hev σ]; simp only [Ast.build, C04.evalPt_mkXor, hsum], by simpa [Ast.build] using hgood σ _ _ hgd⟩

/-- `Imply`: the condition is written as the negation of the negated condition held, and negated again when read -/
theorem rtn_imply (i b ks m) (hcls : m.cls = .imply) (hx : ImplyShape ks m.cond)
    (hN : ∀ k ∈ ks, k.isLeaf = false → NRT cfg k) (hR : ∀ k ∈ ks, RTN cfg k) : RTN cfg (.node i b 1 1 ks m) := by
  obtain ⟨k, d, hkl, hks⟩ := hx
  have hkm : k ∈ ks := by rcases hks with ⟨rfl, _⟩ | ⟨rfl, _⟩ <;> simp
  have hdm : d ∈ ks := by rcases hks with ⟨rfl, _⟩ | ⟨rfl, _⟩ <;> simp
  obtain ⟨c', hc', hatom, hcleaf, hC⟩ := hN k hkm hkl
  obtain ⟨d', hd', hD⟩ := hR d hdm
  have hjson : negNth ks m.cond = some (toJsonNeg k) ∧ jsonOther ks m.cond = some (toJson d) := by
    rcases hks with ⟨rfl, hc⟩ | ⟨rfl, hc⟩ <;> rw [hc] <;> simp [negNth, jsonOther, toJsonL]
  refine ⟨.imply c' d' (idJ i m), by simp [toJson, hcls, PJ.toAst, hjson.1, hjson.2, PJ.toAstOpt, hc', hd'], fun σ hg => ?_⟩
  have ⟨_, hgk⟩ := good_kids σ i b 1 1 ks m hg
  have ⟨hevc, hgc⟩ := hC σ ((GoodL_iff σ ks).1 hgk k hkm)
  have ⟨hevd, hgd⟩ := hD σ ((GoodL_iff σ ks).1 hgk d hdm)
  have hk01 : evalPt σ k = 0 ∨ evalPt σ k = 1 := by
    cases k with
    | leaf => simp [isLeaf] at hkl
    | node ki kb ks' kv kks km => exact evalPt01 σ ki kb ks' kv kks km
  have hb : evalPt σ c'.build = 0 ∨ evalPt σ c'.build = 1 := by rw [hevc]; omega
  have hnot := C04.evalPt_mkNot σ c'.isAtom (c'.isStr, c'.build) hgc (fun _ => hcleaf) hb
  have hev : evalPt σ (.node i b 1 1 ks m) = if evalPt σ k + evalPt σ d ≥ 1 then 1 else 0 := by
    rcases hks with ⟨rfl, _⟩ | ⟨rfl, _⟩
    · have e : 1 * (evalPt σ k + (evalPt σ d + 0)) = evalPt σ k + evalPt σ d := by omega
      simp only [evalPt, sumPt, e]
    · have e : 1 * (evalPt σ d + (evalPt σ k + 0)) = evalPt σ k + evalPt σ d := by omega
      simp only [evalPt, sumPt, e]
  refine ⟨?_, ?_⟩
  · rw [hev]
    simp only [Ast.build, mkImply, C04.evalPt_setCond, C04.evalPt_mkAny, List.map_cons, List.map_nil, sumPt, hnot, hevc, hevd]
    split <;> split <;> omega
  · simp only [Ast.build, mkImply]
    refine C04.good_setCond σ _ _ ?_
    unfold mkAny
    refine good_mkAtLeast σ _ _ _ _ _ (Or.inl rfl) ((C04.goodL_orderArgs σ _).2 ((GoodL_iff σ _).2 ?_))
    intro x hx
    simp only [List.map_cons, List.map_nil, List.mem_cons, List.not_mem_nil, or_false] at hx
    rcases hx with rfl | rfl
    · simp only [mkNot, hatom, Bool.false_eq_true, if_false]; exact good_negate σ _ hgc
    · exact hgd

/-- `XNor`: rebuilt from the propositions of the half that `negate` never pushes inwards -/
theorem rtn_xnor (i b ks m) (hcls : m.cls = .xnor) (hx : XNorShape ks m.cond)
    (hkids : ∀ k ∈ ks, RTL cfg k.kids) : RTN cfg (.node i b 1 1 ks m) := by
  obtain ⟨i1, b1, m1, args', i2, b2, m2, args, hperm, hks⟩ := hx
  have hargs : RTL cfg args := by
    rcases hks with ⟨rfl, _⟩ | ⟨rfl, _⟩
    · simpa [P.kids] using hkids (.node i2 b2 1 2 args m2) (by simp)
    · simpa [P.kids] using hkids (.node i2 b2 1 2 args m2) (by simp)
  obtain ⟨as', has', hA'⟩ := hargs
  have hjson : kidsOfNth ks m.cond = toJsonL args := by
    rcases hks with ⟨rfl, hc⟩ | ⟨rfl, hc⟩ <;> rw [hc] <;> simp [kidsOfNth]
  refine ⟨.xnor as' (idJ i m), by simp [toJson, hcls, PJ.toAst, hjson, has'], fun σ hg => ?_⟩
  have ⟨_, hgk⟩ := good_kids σ i b 1 1 ks m hg
  have hgB : Good σ (.node i2 b2 1 2 args m2) := (GoodL_iff σ ks).1 hgk _ (by rcases hks with ⟨rfl, _⟩ | ⟨rfl, _⟩ <;> simp)
  have hga : GoodL σ args := (good_kids σ _ _ _ _ _ _ hgB).2
  have hga' : GoodL σ args' := (goodL_perm σ hperm).2 hga
  have ⟨hsum, hgd⟩ := hA' σ hga
  have hsa : sumPt σ args' = sumPt σ args := sumPt_perm σ hperm
  have hA : evalPt σ (negate (.node i1 b1 1 1 args' m1)) = if sumPt σ args ≥ 1 then 0 else 1 := by
    have g := good_node σ i1 b1 1 1 args' m1 (Or.inl rfl) hga'
    rw [C05.negate_compl σ _ g.1 g.2 rfl]
    simp only [evalPt, hsa]
    split <;> split <;> omega
  refine ⟨?_, ?_⟩
  · simp only [Ast.build, C04.evalPt_mkXNor σ _ _ hgd, hsum]
    rcases hks with ⟨rfl, _⟩ | ⟨rfl, _⟩
    · simp only [evalPt, sumPt, hA]
      split <;> split <;> split <;> split <;> omega
    · simp only [evalPt, sumPt, hA]
      split <;> split <;> split <;> split <;> omega
  · simp only [Ast.build, mkXNor]
    refine C04.good_setCond σ _ _ ?_
    unfold mkAny
    have hgo := (C04.goodL_orderArgs σ _).2 hgd
    refine good_mkAtLeast σ _ _ _ _ _ (Or.inl rfl) ((C04.goodL_orderArgs σ _).2 ((GoodL_iff σ _).2 ?_))
    intro x hx
    simp only [List.map_cons, List.map_nil, List.mem_cons, List.not_mem_nil, or_false] at hx
    rcases hx with rfl | rfl
    · exact good_negate σ _ (good_mkAtLeast σ _ _ _ _ _ (Or.inl rfl) hgo)
    · unfold mkAtMost; exact good_negate σ _ (good_mkAtLeast σ _ _ _ _ _ (Or.inr (Or.inr rfl)) hgo)

/-- what the induction carries for one proposition of the fragment -/
def ALL (cfg : Bool) (t : P) : Prop :=
  RTN cfg t ∧ RTL cfg t.kids ∧ (t.isLeaf = false → NRT cfg t) ∧ ∀ k ∈ t.kids, RTN cfg k

mutual
theorem fragN_rt : ∀ t : P, FragN cfg t → ALL cfg t
  | .leaf i b, _ =>
      ⟨⟨.var i b, by simp [toJson, leaf_roundtrip], fun σ hg => ⟨by simp [Ast.build, evalPt], by simpa [Ast.build] using hg⟩⟩,
       ⟨[], by simp [P.kids, toJsonL, PJ.toAstL], fun σ _ => ⟨by simp [Ast.buildL, sumPt, P.kids], by simp [Ast.buildL, GoodL, SignOks, InBs]⟩⟩,
       fun h => by simp [isLeaf] at h, by simp [P.kids]⟩
  | .node i b s v ks m, h => by
      have ⟨hc, hk⟩ : ((m.cls = .atLeast ∧ (s = 1 ∨ s = -1)) ∨ (m.cls = .atMost ∧ s = -1) ∨ (m.cls = .any ∧ s = 1 ∧ v = 1) ∨
          (m.cls = .all ∧ v = ks.length ∧ s = (if v > 0 then 1 else -1) ∧ DistinctRT cfg ks) ∨
          ((m.cls = .xor ∨ m.cls = .exactlyOne) ∧ s = 1 ∧ v = 2 ∧ XorShape ks) ∨
          (m.cls = .imply ∧ s = 1 ∧ v = 1 ∧ ImplyShape ks m.cond) ∨
          (m.cls = .xnor ∧ s = 1 ∧ v = 1 ∧ XNorShape ks m.cond) ∨
          (m.cls = .stingy ∧ cfg = true ∧ v = ks.length ∧ s = (if v > 0 then 1 else -1) ∧ DistinctRT cfg ks) ∨
       (cfg = true ∧ CcAnyRule (.node i b s v ks m)) ∨ (cfg = true ∧ CcXorRule (.node i b s v ks m))) ∧ FragNL cfg ks := by
        simpa [FragN] using h
      obtain ⟨hL, hNL, hkids⟩ := fragN_rtL ks hk
      have hsign : s = 1 ∨ s = -1 := by
        rcases hc with ⟨_, hs⟩ | ⟨_, hs⟩ | ⟨_, hs, _⟩ | ⟨_, _, hs, _⟩ | ⟨_, hs, _⟩ | ⟨_, hs, _⟩ | ⟨_, hs, _⟩ | ⟨_, _, _, hs, _⟩ | ⟨_, hca⟩ | ⟨_, hcx⟩
        · exact hs
        · exact Or.inr hs
        · exact Or.inl hs
        · rw [hs]; split <;> simp
        · exact Or.inl hs
        · exact Or.inl hs
        · exact Or.inl hs
        · rw [hs]; split <;> simp
        · exact Or.inl (ccAny_sign _ _ _ _ _ _ hca)
        · exact Or.inl (ccXor_sign _ _ _ _ _ _ hcx)
      refine ⟨?_, by simpa [P.kids] using hL, fun _ => nrt_node i b s v ks m hsign hL hNL,
        by simpa [P.kids] using fun k hk => (hkids k hk).1⟩
      rcases hc with ⟨hcls, hs⟩ | ⟨hcls, hs⟩ | ⟨hcls, hs, hv⟩ | ⟨hcls, hv, hs, hd⟩ | ⟨hcls, hs, hv, hx⟩ | ⟨hcls, hs, hv, hx⟩ |
        ⟨hcls, hs, hv, hx⟩ | ⟨hcls, hcfg, hv, hs, hd⟩ | ⟨hcfg, hca⟩ | ⟨hcfg, hcx⟩
      · exact rtn_atLeast i b s v ks m hcls hs hL
      · subst hs; exact rtn_atMost i b v ks m hcls hL
      · subst hs; subst hv; exact rtn_any i b ks m hcls hL
      · exact rtn_all i b s v ks m hcls hv hs hd hL
      · subst hs; subst hv; exact rtn_xor i b ks m hcls hx (fun k hk => (hkids k hk).2.1)
      · subst hs; subst hv
        exact rtn_imply i b ks m hcls hx (fun k hk hl => (hkids k hk).2.2.1 hl) (fun k hk => (hkids k hk).1)
      · subst hs; subst hv; exact rtn_xnor i b ks m hcls hx (fun k hk => (hkids k hk).2.1)
      · subst hcfg; exact rtn_stingy i b s v ks m hcls hv hs hd hL
      · subst hcfg
        exact rtn_ccAny _ hca (by simpa [P.kids] using fun k hk => (hkids k hk).1)
          (by simpa [P.kids] using fun k hk => (hkids k hk).2.2.2)
      · subst hcfg
        exact rtn_ccXor _ hcx (by simpa [P.kids] using fun k hk => (hkids k hk).2.2.2)
theorem fragN_rtL : ∀ ks : List P, FragNL cfg ks → RTL cfg ks ∧ NRTL cfg ks ∧ ∀ k ∈ ks, ALL cfg k
  | [], _ =>
      ⟨⟨[], by simp [toJsonL, PJ.toAstL], fun σ _ => ⟨by simp [Ast.buildL, sumPt], by simp [Ast.buildL, GoodL, SignOks, InBs]⟩⟩,
       ⟨[], by simp [negJsonComps, PJ.toAstL], fun σ _ => ⟨by simp [Ast.buildL, sumPt, comps], by simp [Ast.buildL, GoodL, SignOks, InBs]⟩⟩,
       by simp⟩
  | k :: ks, h => by
      have ⟨h1, h2⟩ : FragN cfg k ∧ FragNL cfg ks := by simpa [FragNL] using h
      have hk := fragN_rt k h1
      obtain ⟨⟨as, has, hA⟩, ⟨cs, hcs, hC⟩, hall⟩ := fragN_rtL ks h2
      have ⟨⟨a, ha, hev⟩, _, hneg⟩ := hk
      have hsplitG : ∀ σ, GoodL σ (k :: ks) → Good σ k ∧ GoodL σ ks := by
        intro σ hg
        simp only [GoodL, SignOks, InBs] at hg
        exact ⟨⟨hg.1.1, hg.2.1⟩, ⟨hg.1.2, hg.2.2⟩⟩
      have hcons : ∀ σ (x : P) (l : List P), Good σ x → GoodL σ l → GoodL σ (x :: l) := by
        intro σ x l hx hl
        simp only [GoodL, SignOks, InBs]
        exact ⟨⟨hx.1, hl.1⟩, ⟨hx.2, hl.2⟩⟩
      refine ⟨⟨a :: as, by simp [toJsonL, PJ.toAstL, ha, has], fun σ hg => ?_⟩, ?_, ?_⟩
      · have ⟨g1, g2⟩ := hsplitG σ hg
        have ⟨e1, e2⟩ := hev σ g1
        have ⟨e3, e4⟩ := hA σ g2
        exact ⟨by simp [Ast.buildL, sumPt, e1, e3], by simpa [Ast.buildL] using hcons σ _ _ e2 e4⟩
      · cases k with
        | leaf ki kb =>
            refine ⟨cs, by simpa [negJsonComps] using hcs, fun σ hg => ?_⟩
            have ⟨_, g2⟩ := hsplitG σ hg
            simpa [comps, isLeaf] using hC σ g2
        | node ki kb ks' kv kks km =>
            obtain ⟨c, hc, _, _, hcev⟩ := hneg.1 rfl
            refine ⟨c :: cs, by simp [negJsonComps, PJ.toAstL, hc, hcs], fun σ hg => ?_⟩
            have ⟨g1, g2⟩ := hsplitG σ hg
            have ⟨e1, e2⟩ := hcev σ g1
            have ⟨e3, e4⟩ := hC σ g2
            refine ⟨?_, by simpa [Ast.buildL] using hcons σ _ _ e2 e4⟩
            simp only [Ast.buildL, List.map_cons, sumPt, e1, e3, comps, List.filter_cons, isLeaf, Bool.not_false, if_true,
              List.length_cons]
            simp only [comps] at *
            omega
      · intro x hx
        rcases List.mem_cons.1 hx with rfl | hx
        · exact hk
        · exact hall x hx
end

/-- **the round trip preserves meaning, with negations** — for every model of the fragment `FragN cfg` (variables, AtLeast of
    any sign — hence every `Not(…)` and negated model —, AtMost, Any, All, Xor, ExactlyOne, **Imply** and **XNor**, nested arbitrarily),
    `from_json(to_json(t))` succeeds and evaluates like `t` on every assignment that respects the leaf bounds -/
theorem fragN_roundtrip (t : P) (h : FragN cfg t) :
    ∃ a, PJ.toAst cfg (toJson t) = some a ∧ ∀ σ, Good σ t → evalPt σ a.build = evalPt σ t :=
  let ⟨a, ha, hev⟩ := (fragN_rt t h).1
  ⟨a, ha, fun σ hg => (hev σ hg).1⟩

def idOf : PJ → Option String
  | .var i _ => some i
  | .node _ oid _ _ _ _ _ _ _ _ => oid

/-- for every class: an explicitly given id is written, a generated one is not -/
theorem id_written_iff (i b s v ks) (m : Meta) :
    idOf (toJson (.node i b s v ks m)) = if m.gen then none else some i := by
  cases hc : m.cls <;> simp only [toJson, hc, idJ] <;> (try split) <;> rfl

/-! ## What the constructors build lies in the fragment

`FragN cfg` is a predicate on the model held.  The lemmas below show that the models the constructors build satisfy it, so that
`fragN_roundtrip` becomes a statement about constructor expressions (`build_roundtrip`). -/

theorem FragNL_iff : ∀ ks : List P, FragNL cfg ks ↔ ∀ k ∈ ks, FragN cfg k
  | [] => by simp [FragNL]
  | k :: ks => by simp [FragNL, FragNL_iff ks]

theorem FragNL_perm {l1 l2 : List P} (h : l1.Perm l2) : FragNL cfg l1 ↔ FragNL cfg l2 := by
  simp only [FragNL_iff]; exact ⟨fun H k hk => H k (h.mem_iff.2 hk), fun H k hk => H k (h.mem_iff.1 hk)⟩

theorem fragN_leaflike : ∀ a : P, a.isLeaf = true → FragN cfg a
  | .leaf .., _ => by simp [FragN]
  | .node .., h => by simp [isLeaf] at h

theorem fragN_atLeast_node (i b s v ks) (m : Meta) (hm : m.cls = .atLeast) (hs : s = 1 ∨ s = -1) (hk : ∀ k ∈ ks, FragN cfg k) :
    FragN cfg (.node i b s v ks m) := by
  simp only [FragN]
  exact ⟨Or.inl ⟨hm, hs⟩, (FragNL_iff ks).2 hk⟩

theorem fragN_node_inv (i b s v ks m) (h : FragN cfg (.node i b s v ks m)) : (s = 1 ∨ s = -1) ∧ ∀ k ∈ ks, FragN cfg k := by
  simp only [FragN] at h
  obtain ⟨hc, hk⟩ := h
  refine ⟨?_, (FragNL_iff ks).1 hk⟩
  rcases hc with ⟨_, hs⟩ | ⟨_, hs⟩ | ⟨_, hs, _⟩ | ⟨_, _, hs, _⟩ | ⟨_, hs, _⟩ | ⟨_, hs, _⟩ | ⟨_, hs, _⟩ | ⟨_, _, _, hs, _⟩ | ⟨_, hca⟩ | ⟨_, hcx⟩
  · exact hs
  · exact Or.inr hs
  · exact Or.inl hs
  · rw [hs]; split <;> simp
  · exact Or.inl hs
  · exact Or.inl hs
  · exact Or.inl hs
  · rw [hs]; split <;> simp
  · exact Or.inl (ccAny_sign _ _ _ _ _ _ hca)
  · exact Or.inl (ccXor_sign _ _ _ _ _ _ hcx)

mutual
/-- the fragment is closed under `negate` -/
theorem fragN_negate : ∀ p, FragN cfg p → FragN cfg (negate p)
  | .leaf i b, h => by simpa [negate] using h
  | .node i b s v ks m, h => by
      have ⟨hs, hk'⟩ := fragN_node_inv i b s v ks m h
      have hnp := fragN_negPairs ks hk'
      have hnegs : ∀ k ∈ (sortPairs (negPairs ks)).map (·.2), FragN cfg k := by
        intro k hk
        obtain ⟨p, hp, rfl⟩ := List.mem_map.1 hk
        exact hnp p ((List.mergeSort_perm _ _).mem_iff.1 hp)
      have hsorted : ∀ k ∈ sortById ks, FragN cfg k := fun k hk => hk' k ((sortById_perm ks).mem_iff.1 hk)
      have hatoms : ∀ a ∈ (sortById ks).filter (·.isLeaf), FragN cfg a := fun a ha => hsorted a (List.mem_filter.1 ha).1
      have hgrp : ∀ l : List P, (∀ a ∈ l, FragN cfg a) → FragN cfg (negGroup l) := fun l hl =>
        fragN_atLeast_node _ _ _ _ l _ rfl (Or.inr rfl) hl
      have hneg : -s = 1 ∨ -s = -1 := by rcases hs with rfl | rfl <;> simp
      simp only [negate]
      split
      · split
        · exact fragN_atLeast_node _ _ _ _ _ _ rfl (Or.inl rfl) hnegs
        · split
          · apply fragN_atLeast_node _ _ _ _ _ _ rfl (Or.inl rfl)
            intro k hk
            rcases List.mem_append.1 hk with h | h
            · exact hnegs k h
            · simp at h; rw [h]; exact hgrp _ hatoms
          · split
            · apply fragN_atLeast_node _ _ _ _ _ _ rfl (Or.inl rfl)
              intro k hk
              rcases List.mem_append.1 hk with h | h
              · exact hnegs k h
              · obtain ⟨a, ha, rfl⟩ := List.mem_map.1 h
                exact hgrp [a] (by intro x hx; simp at hx; rw [hx]; exact hatoms a ha)
            · exact fragN_atLeast_node _ _ _ _ _ _ rfl hneg hsorted
      · exact fragN_atLeast_node _ _ _ _ _ _ rfl hneg hsorted
theorem fragN_negPairs : ∀ ks : List P, (∀ k ∈ ks, FragN cfg k) → ∀ p ∈ negPairs ks, FragN cfg p.2
  | [], _ => by simp [negPairs]
  | .leaf i b :: ks, h => by
      simpa [negPairs] using fragN_negPairs ks (fun k hk => h k (by simp [hk]))
  | .node i b s v ks' m :: ks, h => by
      intro p hp
      simp only [negPairs, List.mem_cons] at hp
      rcases hp with rfl | hp
      · exact fragN_negate _ (h _ (by simp))
      · exact fragN_negPairs ks (fun k hk => h k (by simp [hk])) p hp
end

theorem sortById_length (l : List P) : (sortById l).length = l.length := (sortById_perm l).length_eq

theorem sgn_pm (v : Int) (sgn : Option Int) (hs : sgn = none ∨ sgn = some 1 ∨ sgn = some (-1)) :
    sgn.getD (if v > 0 then 1 else -1) = 1 ∨ sgn.getD (if v > 0 then 1 else -1) = -1 := by
  rcases hs with rfl | rfl | rfl <;> simp
  omega

/-- `AtLeast(v, props, variable, sign)` over propositions of the fragment -/
theorem fragN_mkAtLeast (v : Int) (ks : List P) (var sgn) (hs : sgn = none ∨ sgn = some 1 ∨ sgn = some (-1))
    (hk : ∀ k ∈ ks, FragN cfg k) : FragN cfg (mkAtLeast v ks var sgn) := by
  have hk' : ∀ k ∈ sortById ks, FragN cfg k := fun k h => hk k ((sortById_perm ks).mem_iff.1 h)
  unfold mkAtLeast
  cases var with
  | none => exact fragN_atLeast_node _ _ _ _ _ _ rfl (sgn_pm v sgn hs) hk'
  | some x => exact fragN_atLeast_node _ _ _ _ _ _ rfl (sgn_pm v sgn hs) hk'

theorem fragN_mkAtMost (v : Int) (ks : List P) (var) (hk : ∀ k ∈ ks, FragN cfg k) : FragN cfg (mkAtMost v ks var) := by
  have hk' : FragNL cfg (sortById ks) := (FragNL_iff _).2 (fun k h => hk k ((sortById_perm ks).mem_iff.1 h))
  unfold mkAtMost mkAtLeast
  cases var with
  | none => unfold FragN; exact ⟨Or.inr (Or.inl ⟨rfl, rfl⟩), hk'⟩
  | some x => unfold FragN; exact ⟨Or.inr (Or.inl ⟨rfl, rfl⟩), hk'⟩

theorem fragN_mkAny (args : List (Bool × P)) (oid) (hk : ∀ k ∈ args.map (·.2), FragN cfg k) : FragN cfg (mkAny args oid) := by
  have hk' : FragNL cfg (sortById (orderArgs args)) := (FragNL_iff _).2 (fun k h =>
    hk k ((C04.orderArgs_perm args).mem_iff.1 ((sortById_perm _).mem_iff.1 h)))
  unfold mkAny mkAtLeast
  cases hv : varOf oid with
  | none => unfold FragN; exact ⟨Or.inr (Or.inr (Or.inl ⟨rfl, by simp, rfl⟩)), hk'⟩
  | some x => unfold FragN; exact ⟨Or.inr (Or.inr (Or.inl ⟨rfl, by simp, rfl⟩)), hk'⟩

/-- the tagged helper of a defaulted `cc.Any`: a plain `Any` over the non-default alternatives -/
theorem fragN_inner (compl : List (Bool × P)) (q : Int) (hk : ∀ k ∈ compl.map (·.2), FragN cfg k) :
    FragN cfg (setPrio (mkAny compl none) q) := by
  have hk' : FragNL cfg (sortById (orderArgs compl)) := (FragNL_iff _).2 (fun k h =>
    hk k ((C04.orderArgs_perm compl).mem_iff.1 ((sortById_perm _).mem_iff.1 h)))
  simp only [mkAny, mkAtLeast, varOf, Option.map, setPrio]
  unfold FragN
  exact ⟨Or.inr (Or.inr (Or.inl ⟨rfl, by simp, rfl⟩)), hk'⟩

theorem kids_mkCcAny_items (args : List (Bool × P)) (dflt oid) (hargs : ∀ k ∈ args.map (·.2), FragN cfg k) :
    ∀ k ∈ (mkCcAny args dflt oid).kids, FragN cfg k := by
  have hleaf : ∀ (a : List (Bool × P)), (∀ k ∈ a.map (·.2), FragN cfg k) → ∀ dflt,
      ∀ k ∈ (setDflt (mkAny a oid .ccAny) dflt).kids, FragN cfg k := by
    intro a ha dflt k hk
    rw [kids_setDflt] at hk; unfold mkAny at hk; rw [kids_mkAtLeast] at hk
    exact ha k ((C04.orderArgs_perm a).mem_iff.1 ((sortById_perm _).mem_iff.1 hk))
  have hsub : ∀ f : Bool × P → Bool, ∀ k ∈ (args.filter f).map (·.2), FragN cfg k := fun f k hk => by
    obtain ⟨x, hx, rfl⟩ := List.mem_map.1 hk
    exact hargs _ (List.mem_map.2 ⟨x, (List.mem_filter.1 hx).1, rfl⟩)
  unfold mkCcAny
  cases dflt with
  | nil => exact hleaf args hargs _
  | cons d ds =>
      obtain ⟨d1, d2⟩ := d
      simp only
      split
      · exact hleaf args hargs _
      · split
        · exact hleaf args hargs _
        · refine hleaf _ ?_ _
          intro k hk
          rw [List.map_append] at hk
          rcases List.mem_append.1 hk with hk | hk
          · exact hsub _ k hk
          · simp only [List.map_cons, List.map_nil, List.mem_cons, List.not_mem_nil, or_false] at hk
            subst hk
            exact fragN_inner _ _ (hsub _)

/-- a defaulted `cc.Any` over alternatives of the fragment is in the fragment (the configurator's class map) -/
theorem fragN_mkCcAny_items (args : List (Bool × P)) (d ds oid) (hit : AltArgs args) (hone : OneDefault args d.1)
    (hargs : ∀ k ∈ args.map (·.2), FragN true k) : FragN true (mkCcAny args (d :: ds) oid) := by
  have hk := kids_mkCcAny_items (cfg := true) args (d :: ds) oid hargs
  obtain ⟨i, b, ks, m, hn⟩ := mkCcAny_node args (d :: ds) oid
  have hc : CcAnyRule (.node i b 1 1 ks m) := ⟨args, d, ds, oid, hn.symm, hit, hone⟩
  rw [hn] at hk ⊢
  unfold FragN
  exact ⟨Or.inr (Or.inr (Or.inr (Or.inr (Or.inr (Or.inr (Or.inr (Or.inr (Or.inl ⟨rfl, hc⟩)))))))),
    (FragNL_iff _).2 (by simpa [P.kids] using hk)⟩

theorem mem_replaceFirst (pred : P → Bool) (f : P → P) : ∀ (ks : List P) (k : P), k ∈ replaceFirst ks pred f →
    k ∈ ks ∨ ∃ k0 ∈ ks, pred k0 = true ∧ k = f k0
  | [], _, h => by simp [replaceFirst] at h
  | x :: r, k, h => by
      unfold replaceFirst at h
      split at h
      · rename_i hp
        rcases List.mem_cons.1 h with rfl | h
        · exact Or.inr ⟨x, by simp, hp, rfl⟩
        · exact Or.inl (List.mem_cons.2 (Or.inr h))
      · rcases List.mem_cons.1 h with rfl | h
        · exact Or.inl (by simp)
        · rcases mem_replaceFirst pred f r k h with h | ⟨k0, h0, hp, rfl⟩
          · exact Or.inl (List.mem_cons.2 (Or.inr h))
          · exact Or.inr ⟨k0, List.mem_cons.2 (Or.inr h0), hp, rfl⟩

theorem filter_map_false (g : P → Bool) : ∀ l : List P,
    ((l.map (fun c => ((false : Bool), c))).filter (fun x => g x.2)).length = (l.filter g).length
  | [] => rfl
  | x :: l => by
      have ih := filter_map_false g l
      cases hg : g x <;> simp [List.filter_cons, hg, ih]

theorem filter_map_snd (g : P → Bool) : ∀ l : List (Bool × P),
    ((l.map (·.2)).filter g).length = (l.filter (fun x => g x.2)).length
  | [] => rfl
  | x :: l => by
      have ih := filter_map_snd g l
      cases hg : g x.2 <;> simp [List.filter_cons, hg, ih]

theorem oneDefault_sorted (args : List (Bool × P)) (d : String) (h : OneDefault args d) :
    OneDefault ((sortById (orderArgs args)).map (fun c => ((false : Bool), c))) d := by
  unfold OneDefault at *
  rw [filter_map_false (fun k => k.isLeaf && k.id == d)]
  have hp : (sortById (orderArgs args)).Perm (args.map (·.2)) := (sortById_perm _).trans (C04.orderArgs_perm args)
  rw [(hp.filter _).length_eq, filter_map_snd (fun k => k.isLeaf && k.id == d)]
  exact h

/-- a defaulted `cc.Xor` over alternatives of the fragment is in the fragment (the configurator's class map) -/
theorem fragN_mkCcXor_items (args : List (Bool × P)) (d ds oid) (hit : AltArgs args) (hone : OneDefault args d.1)
    (hargs : ∀ k ∈ args.map (·.2), FragN true k) : FragN true (mkCcXor args (d :: ds) oid) := by
  have hleafs : ∀ k ∈ orderArgs args, FragN true k := fun k hk => hargs k ((C04.orderArgs_perm args).mem_iff.1 hk)
  obtain ⟨i, b, m, hx⟩ := C14.mkXor_node args oid .ccXor
  have he : mkCcXor args (d :: ds) oid = .node i b 1 2
      (replaceFirst (sortById [mkAtLeast 1 (orderArgs args) none none, mkAtMost 1 (orderArgs args) none])
        (fun k => !k.isLeaf && (match k with | .node _ _ _ w _ _ => w == 1 | _ => false))
        (fun k => mkCcAny (k.kids.map (fun c => (false, c))) (d :: ds) (some k.id))) { m with dflt := d :: ds } := by
    unfold mkCcXor
    rw [hx]
    rfl
  have hc : CcXorRule (.node i b 1 2
      (replaceFirst (sortById [mkAtLeast 1 (orderArgs args) none none, mkAtMost 1 (orderArgs args) none])
        (fun k => !k.isLeaf && (match k with | .node _ _ _ w _ _ => w == 1 | _ => false))
        (fun k => mkCcAny (k.kids.map (fun c => (false, c))) (d :: ds) (some k.id))) { m with dflt := d :: ds }) :=
    ⟨args, d, ds, oid, he.symm, hit, hone⟩
  rw [he]
  unfold FragN
  refine ⟨Or.inr (Or.inr (Or.inr (Or.inr (Or.inr (Or.inr (Or.inr (Or.inr (Or.inr ⟨rfl, hc⟩)))))))), (FragNL_iff _).2 ?_⟩
  intro k hk
  have hhalf : ∀ k0 ∈ sortById [mkAtLeast 1 (orderArgs args) none none, mkAtMost 1 (orderArgs args) none],
      k0 = mkAtLeast 1 (orderArgs args) none none ∨ k0 = mkAtMost 1 (orderArgs args) none := fun k0 h0 => by
    simpa using (sortById_perm _).mem_iff.1 h0
  rcases mem_replaceFirst _ _ _ _ hk with hk | ⟨k0, h0, hp, rfl⟩
  · rcases hhalf k hk with rfl | rfl
    · exact fragN_mkAtLeast _ _ _ _ (Or.inl rfl) hleafs
    · exact fragN_mkAtMost _ _ _ hleafs
  · rcases hhalf k0 h0 with rfl | rfl
    · rw [kids_mkAtLeast]
      refine fragN_mkCcAny_items _ d ds _ ?_ (oneDefault_sorted args d.1 hone) ?_
      · intro k hk
        rw [map_false_snd] at hk
        exact hit k ((C04.orderArgs_perm args).mem_iff.1 ((sortById_perm _).mem_iff.1 hk))
      · intro k hk
        rw [map_false_snd] at hk
        exact hargs k ((C04.orderArgs_perm args).mem_iff.1 ((sortById_perm _).mem_iff.1 hk))
    · simp [mkAtMost, mkAtLeast, isLeaf] at hp

theorem orderArgs_length (l : List (Bool × P)) : (orderArgs l).length = l.length := by
  have := (C04.orderArgs_perm l).length_eq
  simpa using this

/-- `All(*props)`: the arguments are pairwise distinct and stay so after the round trip -/
theorem fragN_mkAll (args : List (Bool × P)) (oid) (hd : distinctCount args = args.length)
    (hrt : DistinctRT cfg (sortById (orderArgs args))) (hk : ∀ k ∈ args.map (·.2), FragN cfg k) : FragN cfg (mkAll args oid) := by
  have hk' : FragNL cfg (sortById (orderArgs args)) := (FragNL_iff _).2 (fun k h =>
    hk k ((C04.orderArgs_perm args).mem_iff.1 ((sortById_perm _).mem_iff.1 h)))
  have hlen : ((sortById (orderArgs args)).length : Int) = (distinctCount args : Int) := by
    rw [sortById_length, orderArgs_length, hd]
  unfold mkAll mkAtLeast
  cases hv : varOf oid with
  | none =>
      unfold FragN
      exact ⟨Or.inr (Or.inr (Or.inr (Or.inl ⟨rfl, hlen.symm, rfl, hrt⟩))), hk'⟩
  | some x =>
      unfold FragN
      exact ⟨Or.inr (Or.inr (Or.inr (Or.inl ⟨rfl, hlen.symm, rfl, hrt⟩))), hk'⟩

/-- `StingyConfigurator(*rules)`: an `All` of class StingyConfigurator -/
theorem fragN_mkStingy (args : List (Bool × P)) (oid) (hd : distinctCount args = args.length)
    (hrt : DistinctRT true (sortById (orderArgs args))) (hk : ∀ k ∈ args.map (·.2), FragN true k) :
    FragN true (mkAll args oid .stingy) := by
  have hk' : FragNL true (sortById (orderArgs args)) := (FragNL_iff _).2 (fun k h =>
    hk k ((C04.orderArgs_perm args).mem_iff.1 ((sortById_perm _).mem_iff.1 h)))
  have hlen : ((sortById (orderArgs args)).length : Int) = (distinctCount args : Int) := by
    rw [sortById_length, orderArgs_length, hd]
  unfold mkAll mkAtLeast
  cases hv : varOf oid with
  | none =>
      unfold FragN
      exact ⟨Or.inr (Or.inr (Or.inr (Or.inr (Or.inr (Or.inr (Or.inr (Or.inl ⟨rfl, rfl, hlen.symm, rfl, hrt⟩))))))), hk'⟩
  | some x =>
      unfold FragN
      exact ⟨Or.inr (Or.inr (Or.inr (Or.inr (Or.inr (Or.inr (Or.inr (Or.inl ⟨rfl, rfl, hlen.symm, rfl, hrt⟩))))))), hk'⟩

theorem distinctRT_single (k : P) : DistinctRT cfg [k] := by
  intro as h
  have hl : as.length = 1 := by rw [toAstL_length _ as h, toJsonL_length]; rfl
  match as, hl with
  | [a], _ => simp [Ast.buildL, distinctCount]

/-- `Xor(*props)` / `ExactlyOne(*props)` -/
theorem fragN_mkXor (args : List (Bool × P)) (oid) (cls) (hcls : cls = Cls.xor ∨ cls = Cls.exactlyOne)
    (hk : ∀ k ∈ args.map (·.2), FragN cfg k) : FragN cfg (mkXor args oid cls) := by
  have hx : ∀ k ∈ orderArgs args, FragN cfg k := fun k h => hk k ((C04.orderArgs_perm args).mem_iff.1 h)
  have hL := fragN_mkAtLeast 1 (orderArgs args) none none (Or.inl rfl) hx
  have hM := fragN_mkAtMost 1 (orderArgs args) none hx
  have hd : distinctCount [(false, mkAtLeast 1 (orderArgs args) none none), (false, mkAtMost 1 (orderArgs args) none)] = 2 :=
    C04.distinct_two _ _ (C04.xor_halves_differ _)
  have hperm := sortById_perm (orderArgs [(false, mkAtLeast 1 (orderArgs args) none none), (false, mkAtMost 1 (orderArgs args) none)])
  have ho : orderArgs [(false, mkAtLeast 1 (orderArgs args) none none), (false, mkAtMost 1 (orderArgs args) none)] =
      [mkAtLeast 1 (orderArgs args) none none, mkAtMost 1 (orderArgs args) none] := by simp [orderArgs]
  rw [ho] at hperm
  have hks : FragNL cfg (sortById [mkAtLeast 1 (orderArgs args) none none, mkAtMost 1 (orderArgs args) none]) :=
    (FragNL_perm hperm).2 (by simp [FragNL, hL, hM])
  have hshape : XorShape (sortById [mkAtLeast 1 (orderArgs args) none none, mkAtMost 1 (orderArgs args) none]) := by
    have hLe : mkAtLeast 1 (orderArgs args) none none =
        .node (genId (sortById (orderArgs args)) 1 none) ⟨0, 1⟩ 1 1 (sortById (orderArgs args)) { cls := .atLeast, gen := true } := by
      simp [mkAtLeast]
    have hMe : mkAtMost 1 (orderArgs args) none =
        .node (genId (sortById (orderArgs args)) (-1) (some (-1))) ⟨0, 1⟩ (-1) (-1) (sortById (orderArgs args)) { cls := .atMost, gen := true } := by
      simp [mkAtMost, mkAtLeast]
    rcases perm_pair hperm with h | h
    · exact ⟨_, _, _, _, _, _, sortById (orderArgs args), Or.inl (by rw [h, hLe, hMe])⟩
    · exact ⟨_, _, _, _, _, _, sortById (orderArgs args), Or.inr (by rw [h, hLe, hMe])⟩
  unfold mkXor mkAll
  generalize mkAtLeast 1 (orderArgs args) none none = L at *
  generalize mkAtMost 1 (orderArgs args) none = M at *
  rw [ho, hd]
  unfold mkAtLeast
  cases hv : varOf oid with
  | none =>
      unfold FragN
      exact ⟨Or.inr (Or.inr (Or.inr (Or.inr (Or.inl ⟨hcls, rfl, rfl, hshape⟩)))), hks⟩
  | some x =>
      unfold FragN
      exact ⟨Or.inr (Or.inr (Or.inr (Or.inr (Or.inl ⟨hcls, rfl, rfl, hshape⟩)))), hks⟩

theorem sortById_single (k : P) : sortById [k] = [k] := List.perm_singleton.1 (sortById_perm [k])

theorem orderArgs_single (a : Bool × P) : orderArgs [a] = [a.2] := by
  obtain ⟨f, p⟩ := a
  cases f <;> simp [orderArgs]

theorem orderArgs_pair (x : P) (d : Bool × P) : orderArgs [(false, x), d] = [x, d.2] := by
  obtain ⟨f, p⟩ := d
  cases f <;> simp [orderArgs]

theorem mkNot_isLeaf (isAtom : Bool) (a : Bool × P) (hl : isAtom = false → a.2.isLeaf = false) :
    (mkNot isAtom a).isLeaf = false := by
  unfold mkNot
  split
  · exact negate_isLeaf _ (by unfold mkAll; exact mkAtLeast_isLeaf _ _ _ _ _)
  · rename_i h; exact negate_isLeaf _ (hl (by simpa using h))

/-- `Not(p)` -/
theorem fragN_mkNot (isAtom : Bool) (a : Bool × P) (ha : FragN cfg a.2) : FragN cfg (mkNot isAtom a) := by
  unfold mkNot
  split
  · refine fragN_negate _ (fragN_mkAll [a] none (by simp [distinctCount]) ?_ (by simpa using ha))
    rw [orderArgs_single, sortById_single]; exact distinctRT_single _
  · exact fragN_negate _ ha

/-- `Imply(condition, consequence)`: the negated condition and the consequence, in the order their ids sort -/
theorem fragN_mkImply (cAtom : Bool) (c d : Bool × P) (oid) (hc : FragN cfg c.2) (hd : FragN cfg d.2)
    (hcl : cAtom = false → c.2.isLeaf = false) (hid : (d.2.id == (mkNot cAtom c).id) = false) :
    FragN cfg (mkImply cAtom c d oid) := by
  have hnc := fragN_mkNot cAtom c hc
  have hncl := mkNot_isLeaf cAtom c hcl
  unfold mkImply mkAny
  generalize mkNot cAtom c = nc at *
  show FragN cfg ((mkAtLeast 1 (orderArgs [(false, nc), d]) (varOf oid) none Cls.imply).setCond nc.id)
  rw [orderArgs_pair]
  have hperm := sortById_perm [nc, d.2]
  have hks : FragNL cfg (sortById [nc, d.2]) := (FragNL_perm hperm).2 (by simp [FragNL, hnc, hd])
  have hshape : ImplyShape (sortById [nc, d.2]) ((sortById [nc, d.2]).findIdx (fun k => k.id == nc.id)) := by
    rcases perm_pair hperm with h | h
    · exact ⟨nc, d.2, hncl, Or.inl ⟨h, by rw [h]; simp [List.findIdx_cons]⟩⟩
    · exact ⟨nc, d.2, hncl, Or.inr ⟨h, by rw [h]; simp [List.findIdx_cons, hid]⟩⟩
  unfold mkAtLeast
  cases hv : varOf oid with
  | none =>
      simp only [setCond]
      unfold FragN
      exact ⟨Or.inr (Or.inr (Or.inr (Or.inr (Or.inr (Or.inl ⟨rfl, rfl, rfl, hshape⟩))))), hks⟩
  | some x =>
      simp only [setCond]
      unfold FragN
      exact ⟨Or.inr (Or.inr (Or.inr (Or.inr (Or.inr (Or.inl ⟨rfl, rfl, rfl, hshape⟩))))), hks⟩

/-- `XNor(*props)`; `hid`: the generated ids of the two negated halves differ (they are SHA-256 digests of different texts) -/
theorem fragN_mkXNor (args : List (Bool × P)) (oid) (hk : ∀ k ∈ args.map (·.2), FragN cfg k)
    (hid : ((negate (mkAtLeast 1 (orderArgs args) none none)).id == (negate (mkAtMost 1 (orderArgs args) none)).id) = false) :
    FragN cfg (mkXNor args oid) := by
  have hx : ∀ k ∈ orderArgs args, FragN cfg k := fun k h => hk k ((C04.orderArgs_perm args).mem_iff.1 h)
  have hA := fragN_negate _ (fragN_mkAtLeast 1 (orderArgs args) none none (Or.inl rfl) hx)
  have hB := fragN_negate _ (fragN_mkAtMost 1 (orderArgs args) none hx)
  have hLe : mkAtLeast 1 (orderArgs args) none none =
      .node (genId (sortById (orderArgs args)) 1 none) ⟨0, 1⟩ 1 1 (sortById (orderArgs args)) { cls := .atLeast, gen := true } := by
    simp [mkAtLeast]
  have hBe : negate (mkAtMost 1 (orderArgs args) none) =
      .node (genId (sortById (sortById (orderArgs args))) 2 (some 1)) ⟨0, 1⟩ 1 2 (sortById (sortById (orderArgs args))) { gen := true } := by
    simp [mkAtMost, mkAtLeast, negate, negFlat]
  unfold mkXNor mkAny
  rw [orderArgs_pair]
  show FragN cfg ((mkAtLeast 1 [negate (mkAtLeast 1 (orderArgs args) none none), negate (mkAtMost 1 (orderArgs args) none)] (varOf oid) none Cls.xnor).setCond
    (negate (mkAtMost 1 (orderArgs args) none)).id)
  have hperm := sortById_perm [negate (mkAtLeast 1 (orderArgs args) none none), negate (mkAtMost 1 (orderArgs args) none)]
  have hks : FragNL cfg (sortById [negate (mkAtLeast 1 (orderArgs args) none none), negate (mkAtMost 1 (orderArgs args) none)]) :=
    (FragNL_perm hperm).2 (by simp [FragNL, hA, hB])
  have hshape : XNorShape (sortById [negate (mkAtLeast 1 (orderArgs args) none none), negate (mkAtMost 1 (orderArgs args) none)])
      ((sortById [negate (mkAtLeast 1 (orderArgs args) none none), negate (mkAtMost 1 (orderArgs args) none)]).findIdx
        (fun k => k.id == (negate (mkAtMost 1 (orderArgs args) none)).id)) := by
    refine ⟨genId (sortById (orderArgs args)) 1 none, ⟨0, 1⟩, { cls := .atLeast, gen := true }, sortById (orderArgs args),
      genId (sortById (sortById (orderArgs args))) 2 (some 1), ⟨0, 1⟩, { gen := true }, sortById (sortById (orderArgs args)),
      (sortById_perm (sortById (orderArgs args))).symm, ?_⟩
    rcases perm_pair hperm with h | h
    · refine Or.inl ⟨by rw [h, hLe, hBe], ?_⟩
      rw [h]; simp [List.findIdx_cons, hid]
    · refine Or.inr ⟨by rw [h, hLe, hBe], ?_⟩
      rw [h]; simp [List.findIdx_cons]
  generalize negate (mkAtLeast 1 (orderArgs args) none none) = A at *
  generalize negate (mkAtMost 1 (orderArgs args) none) = B at *
  unfold mkAtLeast
  cases hv : varOf oid with
  | none =>
      simp only [setCond]
      unfold FragN
      exact ⟨Or.inr (Or.inr (Or.inr (Or.inr (Or.inr (Or.inr (Or.inl ⟨rfl, rfl, rfl, hshape⟩)))))), hks⟩
  | some x =>
      simp only [setCond]
      unfold FragN
      exact ⟨Or.inr (Or.inr (Or.inr (Or.inr (Or.inr (Or.inr (Or.inl ⟨rfl, rfl, rfl, hshape⟩)))))), hks⟩

theorem prio_mkAtLeast (v : Int) (ks : List P) (var sgn cls) : (mkAtLeast v ks var sgn cls).mt.prio = none := by
  unfold mkAtLeast; cases var <;> rfl

theorem prio_setCond (p : P) (c) : (setCond p c).mt.prio = p.mt.prio := by cases p <;> rfl

theorem prio_setDflt (p : P) (d) : (setDflt p d).mt.prio = p.mt.prio := by cases p <;> rfl

theorem prio_negate : ∀ p : P, (negate p).mt.prio = none
  | .leaf i b => by simp [negate, P.mt]
  | .node i b s v ks m => by
      simp only [negate]
      split
      · split
        · rfl
        · split
          · rfl
          · split
            · rfl
            · rfl
      · rfl

theorem prio_mkCcAny (args : List (Bool × P)) (dflt oid) : (mkCcAny args dflt oid).mt.prio = none := by
  have hp : ∀ a dflt, (setDflt (mkAny a oid .ccAny) dflt).mt.prio = none := fun a dflt => by
    rw [prio_setDflt]; unfold mkAny; exact prio_mkAtLeast _ _ _ _ _
  unfold mkCcAny
  cases dflt with
  | nil => exact hp _ _
  | cons d ds =>
      obtain ⟨d1, d2⟩ := d
      simp only
      split
      · exact hp _ _
      · split
        · exact hp _ _
        · exact hp _ _

theorem prio_mkCcXor (args : List (Bool × P)) (dflt oid) : (mkCcXor args dflt oid).mt.prio = none := by
  obtain ⟨i, b, m, hx⟩ := C14.mkXor_node args oid .ccXor
  have hm : m.prio = none := by
    have h1 : (mkXor args oid .ccXor).mt.prio = none := by unfold mkXor mkAll; exact prio_mkAtLeast _ _ _ _ _
    rw [hx] at h1; simpa [P.mt] using h1
  unfold mkCcXor
  rw [hx]
  cases dflt with
  | nil => simpa [setDflt, P.mt] using hm
  | cons d ds => simpa [setDflt, P.mt] using hm

/-- **no constructor tags what it returns**: the only priority tag the library sets is the −2 on the helper INSIDE a
    defaulted `cc.Any` -/
theorem build_untagged : ∀ a : Ast, a.build.mt.prio = none
  | .var .. => rfl
  | .str .. => rfl
  | .atLeast .. => by simp only [Ast.build]; exact prio_mkAtLeast _ _ _ _ _
  | .atMost .. => by simp only [Ast.build, mkAtMost]; exact prio_mkAtLeast _ _ _ _ _
  | .all .. => by simp only [Ast.build, mkAll]; exact prio_mkAtLeast _ _ _ _ _
  | .any .. => by simp only [Ast.build, mkAny]; exact prio_mkAtLeast _ _ _ _ _
  | .xor .. => by simp only [Ast.build, mkXor, mkAll]; exact prio_mkAtLeast _ _ _ _ _
  | .xnor .. => by simp only [Ast.build, mkXNor, prio_setCond, mkAny]; exact prio_mkAtLeast _ _ _ _ _
  | .imply .. => by simp only [Ast.build, mkImply, prio_setCond, mkAny]; exact prio_mkAtLeast _ _ _ _ _
  | .not a => by
      simp only [Ast.build, mkNot]
      split <;> exact prio_negate _
  | .ccAny .. => by simp only [Ast.build]; exact prio_mkCcAny _ _ _
  | .ccXor .. => by simp only [Ast.build]; exact prio_mkCcXor _ _ _
  | .stingy .. => by simp only [Ast.build, mkAll]; exact prio_mkAtLeast _ _ _ _ _

/-- the alternatives that are items (variables) never take negative values -/
def ItemsNonneg (args : List (Bool × P)) : Prop := ∀ k ∈ args.map (·.2), k.isLeaf = true → 0 ≤ k.bnd.lo

theorem altArgs_built (as : List Ast) (h : ItemsNonneg (Ast.buildL as)) : AltArgs (Ast.buildL as) := by
  intro k hk
  refine ⟨?_, h k hk⟩
  rw [buildL_snd] at hk
  obtain ⟨a, _, rfl⟩ := List.mem_map.1 hk
  exact build_untagged a

mutual
/-- constructor expressions whose round trip the theorem covers — the plog classes, and under the configurator's class map
    (`cfg = true`) also `StingyConfigurator` and defaulted `cc.Any` / `cc.Xor` over items (variables with non-negative values,
    at most one of them carrying the first default's id): legal signs; `All` / `StingyConfigurator` over pairwise
    distinct arguments that stay distinct after the round trip (fails exactly on F16f); for `Imply` the consequence's id is
    not the id of the negated condition, for `XNor` the two generated ids of the negated halves differ (digests of
    different texts — not provable without evaluating SHA-256 symbolically, hence hypotheses) -/
def RTExpr (cfg : Bool) : Ast → Prop
  | .var _ _ => True
  | .str _ => True
  | .atLeast _ as _ sgn => (sgn = none ∨ sgn = some 1 ∨ sgn = some (-1)) ∧ RTExprL cfg as
  | .atMost _ as _ => RTExprL cfg as
  | .all as _ => (distinctCount (Ast.buildL as) = as.length ∧ DistinctRT cfg (sortById (orderArgs (Ast.buildL as)))) ∧ RTExprL cfg as
  | .any as _ => RTExprL cfg as
  | .xor as _ _ => RTExprL cfg as
  | .xnor as _ =>
      (((negate (mkAtLeast 1 (orderArgs (Ast.buildL as)) none none)).id ==
        (negate (mkAtMost 1 (orderArgs (Ast.buildL as)) none)).id) = false) ∧ RTExprL cfg as
  | .imply c d _ => ((d.build.id == (mkNot c.isAtom (c.isStr, c.build)).id) = false) ∧ RTExpr cfg c ∧ RTExpr cfg d
  | .not a => RTExpr cfg a
  | .ccAny as dflt _ => (cfg = true ∧ ItemsNonneg (Ast.buildL as) ∧ ∃ d ds, dflt = d :: ds ∧ OneDefault (Ast.buildL as) d.1) ∧ RTExprL cfg as
  | .ccXor as dflt _ => (cfg = true ∧ ItemsNonneg (Ast.buildL as) ∧ ∃ d ds, dflt = d :: ds ∧ OneDefault (Ast.buildL as) d.1) ∧ RTExprL cfg as
  | .stingy as _ => cfg = true ∧ (distinctCount (Ast.buildL as) = as.length ∧ DistinctRT cfg (sortById (orderArgs (Ast.buildL as)))) ∧ RTExprL cfg as
def RTExprL (cfg : Bool) : List Ast → Prop
  | [] => True
  | a :: as => RTExpr cfg a ∧ RTExprL cfg as
end

mutual
/-- every model built by such an expression lies in the fragment -/
theorem build_fragN : ∀ a, RTExpr cfg a → FragN cfg a.build ∧ (a.isAtom = false → a.build.isLeaf = false)
  | .var i b, _ => ⟨by simp [Ast.build, FragN], by simp [Ast.isAtom]⟩
  | .str i, _ => ⟨by simp [Ast.build, FragN], by simp [Ast.isAtom]⟩
  | .atLeast v as oid sgn, h => by
      have ⟨hs, hl⟩ : (sgn = none ∨ sgn = some 1 ∨ sgn = some (-1)) ∧ RTExprL cfg as := by simpa [RTExpr] using h
      have hk := buildL_fragN as hl
      refine ⟨?_, fun _ => by simp [Ast.build, mkAtLeast_isLeaf]⟩
      simp only [Ast.build]
      exact fragN_mkAtLeast _ _ _ _ hs (fun k h => hk k ((C04.orderArgs_perm _).mem_iff.1 h))
  | .atMost v as oid, h => by
      have hl : RTExprL cfg as := by simpa [RTExpr] using h
      have hk := buildL_fragN as hl
      refine ⟨?_, fun _ => by simp [Ast.build, mkAtMost, mkAtLeast_isLeaf]⟩
      simp only [Ast.build]
      exact fragN_mkAtMost _ _ _ (fun k h => hk k ((C04.orderArgs_perm _).mem_iff.1 h))
  | .all as oid, h => by
      have ⟨⟨hd, hrt⟩, hl⟩ : (distinctCount (Ast.buildL as) = as.length ∧ DistinctRT cfg (sortById (orderArgs (Ast.buildL as)))) ∧
          RTExprL cfg as := by simpa [RTExpr] using h
      have hk := buildL_fragN as hl
      refine ⟨?_, fun _ => by simp [Ast.build, mkAll, mkAtLeast_isLeaf]⟩
      simp only [Ast.build]
      exact fragN_mkAll _ _ (by rw [hd, buildL_length]) hrt hk
  | .any as oid, h => by
      have hl : RTExprL cfg as := by simpa [RTExpr] using h
      have hk := buildL_fragN as hl
      refine ⟨?_, fun _ => by simp [Ast.build, mkAny, mkAtLeast_isLeaf]⟩
      simp only [Ast.build]
      exact fragN_mkAny _ _ hk
  | .xor as oid e, h => by
      have hl : RTExprL cfg as := by simpa [RTExpr] using h
      have hk := buildL_fragN as hl
      refine ⟨?_, fun _ => by simp [Ast.build, mkXor, mkAll, mkAtLeast_isLeaf]⟩
      simp only [Ast.build]
      exact fragN_mkXor _ _ _ (by cases e <;> simp) hk
  | .xnor as oid, h => by
      have ⟨hid, hl⟩ : (((negate (mkAtLeast 1 (orderArgs (Ast.buildL as)) none none)).id ==
          (negate (mkAtMost 1 (orderArgs (Ast.buildL as)) none)).id) = false) ∧ RTExprL cfg as := by simpa [RTExpr] using h
      have hk := buildL_fragN as hl
      refine ⟨?_, fun _ => by simp [Ast.build, mkXNor, mkAny, mkAtLeast_isLeaf, C04.setCond_isLeaf]⟩
      simp only [Ast.build]
      exact fragN_mkXNor _ _ hk hid
  | .imply c d oid, h => by
      have ⟨hid, hc, hd⟩ : ((d.build.id == (mkNot c.isAtom (c.isStr, c.build)).id) = false) ∧ RTExpr cfg c ∧ RTExpr cfg d := by
        simpa [RTExpr] using h
      have ⟨c1, c2⟩ := build_fragN c hc
      have ⟨d1, _⟩ := build_fragN d hd
      refine ⟨?_, fun _ => ?_⟩
      · simp only [Ast.build]
        exact fragN_mkImply _ _ _ _ c1 d1 c2 hid
      · simp only [Ast.build, mkImply, mkAny, mkAtLeast]
        cases oid <;> simp [varOf, setCond, isLeaf]
  | .not a, h => by
      have ha : RTExpr cfg a := by simpa [RTExpr] using h
      have ⟨a1, a2⟩ := build_fragN a ha
      refine ⟨?_, fun _ => ?_⟩
      · simp only [Ast.build]; exact fragN_mkNot _ _ a1
      · simp only [Ast.build]; exact mkNot_isLeaf _ _ a2
  | .ccAny as dflt oid, h => by
      have ⟨⟨hcfg, hit, d, ds, hd, hone⟩, hl⟩ : (cfg = true ∧ ItemsNonneg (Ast.buildL as) ∧
          ∃ d ds, dflt = d :: ds ∧ OneDefault (Ast.buildL as) d.1) ∧ RTExprL cfg as := by simpa [RTExpr] using h
      have hk := buildL_fragN as hl
      subst hcfg; subst hd
      refine ⟨by simp only [Ast.build]; exact fragN_mkCcAny_items _ d ds oid (altArgs_built as hit) hone hk, fun _ => ?_⟩
      simp only [Ast.build]
      obtain ⟨i, b, ks, m, hn⟩ := mkCcAny_node (Ast.buildL as) (d :: ds) oid
      rw [hn]; rfl
  | .ccXor as dflt oid, h => by
      have ⟨⟨hcfg, hit, d, ds, hd, hone⟩, hl⟩ : (cfg = true ∧ ItemsNonneg (Ast.buildL as) ∧
          ∃ d ds, dflt = d :: ds ∧ OneDefault (Ast.buildL as) d.1) ∧ RTExprL cfg as := by simpa [RTExpr] using h
      have hk := buildL_fragN as hl
      subst hcfg; subst hd
      refine ⟨by simp only [Ast.build]; exact fragN_mkCcXor_items _ d ds oid (altArgs_built as hit) hone hk, fun _ => ?_⟩
      simp only [Ast.build]
      obtain ⟨i, b, m, hx⟩ := C14.mkXor_node (Ast.buildL as) oid .ccXor
      unfold mkCcXor
      rw [hx]; rfl
  | .stingy as oid, h => by
      have ⟨hcfg, ⟨hd, hrt⟩, hl⟩ : cfg = true ∧ (distinctCount (Ast.buildL as) = as.length ∧
          DistinctRT cfg (sortById (orderArgs (Ast.buildL as)))) ∧ RTExprL cfg as := by simpa [RTExpr] using h
      have hk := buildL_fragN as hl
      refine ⟨?_, fun _ => by simp [Ast.build, mkAll, mkAtLeast_isLeaf]⟩
      subst hcfg
      simp only [Ast.build]
      exact fragN_mkStingy _ _ (by rw [hd, buildL_length]) hrt hk
theorem buildL_fragN : ∀ as, RTExprL cfg as → ∀ k ∈ (Ast.buildL as).map (·.2), FragN cfg k
  | [], _ => by simp [Ast.buildL]
  | a :: as, h => by
      have ⟨h1, h2⟩ : RTExpr cfg a ∧ RTExprL cfg as := by simpa [RTExprL] using h
      intro k hk
      simp only [Ast.buildL, List.map_cons, List.mem_cons] at hk
      rcases hk with rfl | hk
      · exact (build_fragN a h1).1
      · exact buildL_fragN as h2 k hk
end

/-- **the round trip of what the constructors build**: for every constructor expression `a` over variables, AtLeast,
    AtMost, All, Any, Xor / ExactlyOne, XNor, Imply and Not (nested arbitrarily, under `RTExpr cfg`), `from_json(to_json(model))`
    succeeds and evaluates like the model on every assignment that respects the leaf bounds -/
theorem build_roundtrip (a : Ast) (h : RTExpr cfg a) :
    ∃ a', PJ.toAst cfg (toJson a.build) = some a' ∧ ∀ σ, Good σ a.build → evalPt σ a'.build = evalPt σ a.build :=
  fragN_roundtrip a.build (build_fragN a h).1

/-- **the round trip of a configurator**: `StingyConfigurator(*rules)` over rules built from the plog classes (under
    `RTExpr true`: the rules are pairwise distinct and stay so, legal signs, the two id hypotheses of Imply / XNor) is written
    as a `StingyConfigurator` node, read back — through the configurator's class map, which makes every `Xor` a `cc.Xor` —
    as a `StingyConfigurator` again, and the configurator read back holds on exactly the same in-bounds assignments -/
theorem configurator_roundtrip (rules : List Ast) (oid) (h : RTExpr true (.stingy rules oid)) :
    ∃ rs oid', PJ.toAst true (toJson (Ast.stingy rules oid).build) = some (.stingy rs oid') ∧
      ∀ σ, Good σ (Ast.stingy rules oid).build →
        evalPt σ (Ast.stingy rs oid').build = evalPt σ (Ast.stingy rules oid).build := by
  obtain ⟨a', h1, h2⟩ := build_roundtrip _ h
  have hshape : ∃ rs oid', a' = .stingy rs oid' := by
    simp only [Ast.build, mkAll, mkAtLeast] at h1
    cases hv : varOf oid with
    | none =>
        simp only [hv, toJson, PJ.toAst] at h1
        simp at h1
        obtain ⟨as, _, rfl⟩ := h1
        exact ⟨_, _, rfl⟩
    | some x =>
        simp only [hv, toJson, PJ.toAst] at h1
        simp at h1
        obtain ⟨as, _, rfl⟩ := h1
        exact ⟨_, _, rfl⟩
  obtain ⟨rs, oid', rfl⟩ := hshape
  exact ⟨rs, oid', h1, h2⟩

/-- non-vacuity / regression witness of F16a: value 0 with an explicit + sign keeps its meaning -/
example :
    let t : P := .node "N" ⟨0,1⟩ 1 0 [.leaf "a" ⟨0,1⟩] { cls := .atLeast }
    Frag cfg t ∧ signJ 1 0 = some 1 ∧ sgnOf 0 (signJ 1 0) = 1 := by
  refine ⟨by simp [Frag, FragL], by decide, by decide⟩

/-- non-vacuity of the All / Xor cases: All(Xor-shaped node, c) over boolean leaves is in the fragment -/
example :
    let x : P := .node "X" ⟨0,1⟩ 1 2 [.node "L" ⟨0,1⟩ 1 1 [.leaf "a" ⟨0,1⟩, .leaf "b" ⟨0,1⟩] { cls := .atLeast },
                                      .node "M" ⟨0,1⟩ (-1) (-1) [.leaf "a" ⟨0,1⟩, .leaf "b" ⟨0,1⟩] { cls := .atMost }] { cls := .xor }
    let t : P := .node "T" ⟨0,1⟩ 1 2 [.leaf "c" ⟨0,1⟩, .leaf "d" ⟨0,3⟩] { cls := .all }
    Frag cfg x ∧ Frag cfg t := by
  refine ⟨?_, ?_⟩
  · simp only [Frag, FragL, and_true]
    refine ⟨Or.inr (Or.inr (Or.inr (Or.inr ⟨by simp, by simp, by simp,
      ⟨"L", ⟨0,1⟩, { cls := .atLeast }, "M", ⟨0,1⟩, { cls := .atMost }, _, Or.inl rfl⟩⟩))), ?_, ?_⟩
    · simp
    · simp
  · simp only [Frag, FragL, and_true]
    refine Or.inr (Or.inr (Or.inr (Or.inl ⟨by simp, by simp, by simp, ?_⟩)))
    intro as h
    simp [toJsonL, toJson, leafJ, PJ.toAstL, PJ.toAst] at h
    subst h
    decide

/-- non-vacuity of the Imply / XNor cases: `Imply(Any(a,b), c)` as held — `Any(¬(a+b ≥ 1), c)` with the negated
    condition at position 0 — is in `FragN cfg`, and the all-zero assignment is `Good` for it -/
example :
    let k : P := .node "C" ⟨0,1⟩ (-1) 0 [.leaf "a" ⟨0,1⟩, .leaf "b" ⟨0,1⟩] { cls := .atLeast }
    let t : P := .node "I" ⟨0,1⟩ 1 1 [k, .leaf "c" ⟨0,1⟩] { cls := .imply, cond := 0 }
    FragN cfg t ∧ Good (fun _ => 0) t := by
  refine ⟨?_, by simp [Good, SignOk, SignOks, InB, InBs]⟩
  simp only [FragN, FragNL, and_true]
  refine ⟨Or.inr (Or.inr (Or.inr (Or.inr (Or.inr (Or.inl ⟨by simp, by simp, by simp, ?_⟩))))), by simp⟩
  exact ⟨_, _, rfl, Or.inl ⟨rfl, rfl⟩⟩

/-- non-vacuity of `defaults_kept`: a defaulted `cc.Any` as held (default item next to the tagged non-default branch) is read
    back by the configurator's class map, with its default -/
example :
    let inner : P := .node "H" ⟨0,1⟩ 1 1 [.leaf "b" ⟨0,1⟩, .leaf "c" ⟨0,1⟩] { cls := .any, gen := true, prio := some (-2) }
    let t : P := .node "A" ⟨0,1⟩ 1 1 [.leaf "a" ⟨0,1⟩, inner] { cls := .ccAny, dflt := [("a", ⟨0,1⟩)] }
    PJ.toAst true (toJson t) = some (.ccAny [.var "a" ⟨0,1⟩, .var "b" ⟨0,1⟩, .var "c" ⟨0,1⟩] [("a", ⟨0,1⟩)] (some "A")) := by
  simp [toJson, ccAnyProps, toJsonL, leafJ, idJ, PJ.toAst, PJ.toAstL, P.mt]

theorem negate_id_explicit (i b s v ks) (m : Meta) (hg : m.gen = false) : (negate (.node i b s v ks m)).id = i := by
  simp only [negate, hg]
  split
  · split
    · rfl
    · split
      · rfl
      · split <;> rfl
  · rfl

/-- non-vacuity of `build_roundtrip`: `Imply(Any(a, b, variable="C"), "c", variable="I")` satisfies `RTExpr cfg` -/
example : RTExpr cfg (.imply (.any [.str "a", .str "b"] (some "C")) (.str "c") (some "I")) := by
  simp only [RTExpr, RTExprL, and_true, Ast.build, Ast.isAtom, Ast.isStr, mkNot, mkAny, mkAtLeast, varOf, Option.map,
    Bool.false_eq_true, if_false]
  rw [negate_id_explicit _ _ _ _ _ _ rfl]
  decide

/-- non-vacuity of `configurator_roundtrip`: `StingyConfigurator(Xor(a, b, variable="C"), id="S")` satisfies `RTExpr true` -/
example : RTExpr true (.stingy [.xor [.str "a", .str "b"] (some "C") false] (some "S")) := by
  simp only [RTExpr, RTExprL, and_true, true_and, Ast.buildL, orderArgs_single, sortById_single]
  exact ⟨by simp [distinctCount], distinctRT_single _⟩

theorem mkCcXor_id (args : List (Bool × P)) (dflt) (x : String) : (mkCcXor args dflt (some x)).id = x := by
  have hx : ∃ b s v ks m, mkXor args (some x) .ccXor = .node x b s v ks m := by
    simp only [mkXor, mkAll, mkAtLeast, varOf, Option.map]
    exact ⟨_, _, _, _, _, rfl⟩
  obtain ⟨b, s, v, ks, m, hx⟩ := hx
  unfold mkCcXor
  rw [hx]
  cases dflt <;> rfl

/-- non-vacuity of the nested configurator rules: `StingyConfigurator(Imply(Any(a, b, variable="C"), cc.Xor(x, y, default=x,
    id="X"), variable="I"), id="S")` satisfies `RTExpr true` — a defaulted choice below an implication below the configurator -/
example : RTExpr true (.stingy [.imply (.any [.str "a", .str "b"] (some "C"))
    (.ccXor [.str "x", .str "y"] [("x", ⟨0, 1⟩)] (some "X")) (some "I")] (some "S")) := by
  simp only [RTExpr, RTExprL, and_true, true_and, Ast.buildL, orderArgs_single, sortById_single]
  refine ⟨⟨by simp [distinctCount], distinctRT_single _⟩, ?_, ?_, ?_⟩
  · simp only [Ast.build, Ast.isAtom, Ast.isStr, mkNot, mkAny, mkAtLeast, varOf, Option.map, Bool.false_eq_true, if_false,
      Ast.buildL]
    rw [negate_id_explicit _ _ _ _ _ _ rfl, mkCcXor_id]
    decide
  · intro k hk
    simp only [Ast.build, Ast.isStr, List.map_cons, List.map_nil, List.mem_cons, List.not_mem_nil, or_false] at hk
    rcases hk with rfl | rfl <;> simp [isLeaf, P.bnd, P.mt]
  · exact ⟨("x", ⟨0, 1⟩), [], rfl, by simp [OneDefault, Ast.build, Ast.isStr, isLeaf, P.id, List.filter_cons]⟩

/-! ## Exact round trip of choices over items, and of configurators made of them

For the everyday configurator — `StingyConfigurator` over defaulted `cc.Xor` / `cc.Any` rules whose alternatives are items
— `from_json(to_json(m))` builds the very same model (ids pairwise distinct; the generated id of a helper is not the id of
an item — a digest against a user-chosen name, a hypothesis like the two of `RTExpr`).  Everything else the statement asks
for then holds because it is a function of the model: default priorities, the polyhedron, every query. -/

theorem mkAtLeast_congr (v : Int) (ks ks' : List P) (var sgn cls) (h : sortById ks = sortById ks') :
    mkAtLeast v ks var sgn cls = mkAtLeast v ks' var sgn cls := by
  simp only [mkAtLeast, h]

theorem sort_args_congr (A A' : List (Bool × P)) (hp : (A'.map (·.2)).Perm (A.map (·.2)))
    (hn : ((A.map (·.2)).map (·.id)).Nodup) : sortById (orderArgs A') = sortById (orderArgs A) :=
  C18.sorted_unique _ _ (((C04.orderArgs_perm A').trans hp).trans (C04.orderArgs_perm A).symm)
    ((((C04.orderArgs_perm A').trans hp).map _).nodup_iff.2 hn)

theorem mkAny_congr (A A' : List (Bool × P)) (oid cls) (hp : (A'.map (·.2)).Perm (A.map (·.2)))
    (hn : ((A.map (·.2)).map (·.id)).Nodup) : mkAny A' oid cls = mkAny A oid cls := by
  unfold mkAny; exact mkAtLeast_congr _ _ _ _ _ _ (sort_args_congr A A' hp hn)

theorem mkXor_congr (A A' : List (Bool × P)) (oid cls) (hp : (A'.map (·.2)).Perm (A.map (·.2)))
    (hn : ((A.map (·.2)).map (·.id)).Nodup) : mkXor A' oid cls = mkXor A oid cls := by
  have h := sort_args_congr A A' hp hn
  unfold mkXor mkAtMost
  rw [mkAtLeast_congr 1 _ _ none none .atLeast h, mkAtLeast_congr (-1) _ _ none (some (-1)) .atMost h]

theorem filter_snd (g : P → Bool) : ∀ l : List (Bool × P), (l.filter (fun x => g x.2)).map (·.2) = (l.map (·.2)).filter g
  | [] => rfl
  | x :: l => by
      have ih := filter_snd g l
      cases hg : g x.2 <;> simp [List.filter_cons, hg, ih]

theorem filter_perm_snd (g : P → Bool) {A A' : List (Bool × P)} (hp : (A'.map (·.2)).Perm (A.map (·.2))) :
    ((A'.filter (fun x => g x.2)).map (·.2)).Perm ((A.filter (fun x => g x.2)).map (·.2)) := by
  rw [filter_snd, filter_snd]; exact hp.filter g

theorem nodup_filter_ids (g : P → Bool) (A : List (Bool × P)) (hn : ((A.map (·.2)).map (·.id)).Nodup) :
    (((A.filter (fun x => g x.2)).map (·.2)).map (·.id)).Nodup := by
  rw [filter_snd]
  exact (List.Sublist.map _ List.filter_sublist).nodup hn

theorem id_setPrio (p : P) (q) : (setPrio p q).id = p.id := by cases p <;> rfl

/-- `cc.Any` depends on its alternatives only as a set (ids pairwise distinct; the helper's generated id is no item's id) -/
theorem mkCcAny_congr (A A' : List (Bool × P)) (dflt oid)
    (hp : (A'.map (·.2)).Perm (A.map (·.2))) (hn : ((A.map (·.2)).map (·.id)).Nodup)
    (hfresh : ∀ d1, ∀ k ∈ A.map (·.2), k.id ≠ (mkAny (A.filter (fun x => !(x.2.isLeaf && x.2.id == d1))) none).id) :
    mkCcAny A' dflt oid = mkCcAny A dflt oid := by
  have hlen : A'.length = A.length := by simpa using hp.length_eq
  unfold mkCcAny
  cases dflt with
  | nil => simp only; rw [mkAny_congr A A' oid _ hp hn]
  | cons d ds =>
      obtain ⟨d1, d2⟩ := d
      have hcp := filter_perm_snd (fun k => !(k.isLeaf && k.id == d1)) hp
      have hdp := filter_perm_snd (fun k => k.isLeaf && k.id == d1) hp
      have hcl : (A'.filter (fun x => !(x.2.isLeaf && x.2.id == d1))).length =
          (A.filter (fun x => !(x.2.isLeaf && x.2.id == d1))).length := by simpa using hcp.length_eq
      simp only [hlen, hcl]
      by_cases h1 : A.length ≤ 1
      · simp only [h1, if_true]; rw [mkAny_congr A A' oid _ hp hn]
      · simp only [h1, if_false]
        by_cases h2 : ((A.filter (fun x => !(x.2.isLeaf && x.2.id == d1))).length == A.length ||
            (A.filter (fun x => !(x.2.isLeaf && x.2.id == d1))).length == 0) = true
        · rw [if_pos h2, if_pos h2, mkAny_congr A A' oid _ hp hn]
        · rw [if_neg h2, if_neg h2]
          have hin : mkAny (A'.filter (fun x => !(x.2.isLeaf && x.2.id == d1))) none =
              mkAny (A.filter (fun x => !(x.2.isLeaf && x.2.id == d1))) none :=
            mkAny_congr _ _ none _ hcp (nodup_filter_ids (fun k => !(k.isLeaf && k.id == d1)) A hn)
          rw [hin]
          refine congrArg (fun p => setDflt p ((d1, d2) :: ds)) (mkAny_congr _ _ oid _ ?_ ?_)
          · simp only [List.map_append]; exact hdp.append_right _
          · simp only [List.map_append, List.map_cons, List.map_nil]
            refine List.nodup_append.2 ⟨nodup_filter_ids (fun k => k.isLeaf && k.id == d1) A hn, by simp, ?_⟩
            intro a ha b hb
            simp only [List.mem_singleton] at hb
            subst hb
            obtain ⟨k, hk, rfl⟩ := List.mem_map.1 ha
            obtain ⟨x, hx, rfl⟩ := List.mem_map.1 hk
            rw [id_setPrio]
            exact hfresh d1 x.2 (List.mem_map.2 ⟨x, (List.mem_filter.1 hx).1, rfl⟩)

theorem mkCcXor_congr (A A' : List (Bool × P)) (dflt oid)
    (hp : (A'.map (·.2)).Perm (A.map (·.2))) (hn : ((A.map (·.2)).map (·.id)).Nodup) :
    mkCcXor A' dflt oid = mkCcXor A dflt oid := by
  unfold mkCcXor; rw [mkXor_congr A A' oid _ hp hn]

theorem nodup_const_le_one {α β} (f : α → β) (c : β) : ∀ l : List α, (l.map f).Nodup → (∀ x ∈ l, f x = c) → l.length ≤ 1
  | [], _, _ => by simp
  | [_], _, _ => by simp
  | x :: y :: r, hn, hc => by
      have h1 := hc x (by simp)
      have h2 := hc y (by simp)
      simp only [List.map_cons, List.nodup_cons, List.mem_cons, not_or] at hn
      exact absurd (h1.trans h2.symm) hn.1.1

theorem oneDefault_of_nodup (A : List (Bool × P)) (d : String) (hn : ((A.map (·.2)).map (·.id)).Nodup) : OneDefault A d := by
  unfold OneDefault
  have h1 := nodup_filter_ids (fun k => k.isLeaf && k.id == d) A hn
  rw [List.map_map] at h1
  refine nodup_const_le_one _ d _ h1 (fun x hx => ?_)
  have := (List.mem_filter.1 hx).2
  simp only [Bool.and_eq_true, beq_iff_eq] at this
  exact this.2

theorem leaf_untagged : ∀ k : P, k.isLeaf = true → k.mt.prio = none
  | .leaf .., _ => rfl
  | .node .., h => by simp [isLeaf] at h

theorem rtn_leaf (k : P) (h : k.isLeaf = true) : RTN true k := (fragN_rt k (fragN_leaflike k h)).1

/-- **exact round trip of a defaulted `cc.Any` over items**: `from_json(to_json(rule))` builds the very same rule -/
theorem ccAny_items_exact (args : List (Bool × P)) (d : String × Bnd) (ds : List (String × Bnd)) (oid)
    (hleaf : ∀ k ∈ args.map (·.2), k.isLeaf = true) (hn : ((args.map (·.2)).map (·.id)).Nodup)
    (hfresh : ∀ d1, ∀ k ∈ args.map (·.2), k.id ≠ (mkAny (args.filter (fun x => !(x.2.isLeaf && x.2.id == d1))) none).id) :
    ∃ a, PJ.toAst true (toJson (mkCcAny args (d :: ds) oid)) = some a ∧ a.build = mkCcAny args (d :: ds) oid ∧
      a.isStr = false := by
  obtain ⟨a, ha, _, _, as, X, rfl, hX, has⟩ := ccAny_roundtrip_gen args d ds oid
    (fun k hk => leaf_untagged k (hleaf k hk)) (oneDefault_of_nodup args d.1 hn) (fun k hk => rtn_leaf k (hleaf k hk))
  have hXl : ∀ k ∈ X, k.isLeaf = true := fun k hk => hleaf k (hX.mem_iff.1 hk)
  have : as = X.map varAst := by
    have h2 := toAstL_leafs_cfg true X hXl
    rw [has] at h2; exact Option.some.inj h2
  subst this
  refine ⟨_, ha, ?_, rfl⟩
  simp only [Ast.build]
  exact mkCcAny_congr args _ (d :: ds) oid (by rw [buildL_vars X hXl]; exact hX) hn hfresh

/-- **exact round trip of a defaulted `cc.Xor` over items** -/
theorem ccXor_items_exact (args : List (Bool × P)) (d : String × Bnd) (ds : List (String × Bnd)) (oid)
    (hleaf : ∀ k ∈ args.map (·.2), k.isLeaf = true) (hn : ((args.map (·.2)).map (·.id)).Nodup) :
    ∃ a, PJ.toAst true (toJson (mkCcXor args (d :: ds) oid)) = some a ∧ a.build = mkCcXor args (d :: ds) oid ∧
      a.isStr = false := by
  obtain ⟨a, ha, _, _, as, rfl, has⟩ := ccXor_roundtrip_gen args d ds oid (fun k hk => rtn_leaf k (hleaf k hk))
  have hK : (sortById (orderArgs args)).Perm (args.map (·.2)) := (sortById_perm _).trans (C04.orderArgs_perm args)
  have hXl : ∀ k ∈ sortById (orderArgs args), k.isLeaf = true := fun k hk => hleaf k (hK.mem_iff.1 hk)
  have : as = (sortById (orderArgs args)).map varAst := by
    have h2 := toAstL_leafs_cfg true _ hXl
    rw [has] at h2; exact Option.some.inj h2
  subst this
  refine ⟨_, ha, ?_, rfl⟩
  simp only [Ast.build]
  exact mkCcXor_congr args _ (d :: ds) oid (by rw [buildL_vars _ hXl]; exact hK) hn

/-- a rule that comes back as itself -/
def RTX (r : P) : Prop := ∃ a, PJ.toAst true (toJson r) = some a ∧ a.build = r ∧ a.isStr = false

theorem rtx_list : ∀ ks : List P, (∀ k ∈ ks, RTX k) →
    ∃ as, PJ.toAstL true (toJsonL ks) = some as ∧ Ast.buildL as = ks.map (fun k => (false, k))
  | [], _ => ⟨[], by simp [toJsonL, PJ.toAstL], by simp [Ast.buildL]⟩
  | k :: ks, h => by
      obtain ⟨a, ha, hb, hs⟩ := h k (by simp)
      obtain ⟨as, has, hbs⟩ := rtx_list ks (fun x hx => h x (by simp [hx]))
      exact ⟨a :: as, by simp [toJsonL, PJ.toAstL, ha, has], by simp [Ast.buildL, hb, hs, hbs]⟩

theorem distinctCount_nodup : ∀ l : List P, (l.map (·.id)).Nodup → distinctCount (l.map (fun k => ((false : Bool), k))) = l.length
  | [], _ => rfl
  | x :: r, hn => by
      have ⟨hx, hr⟩ := List.nodup_cons.1 hn
      have ih := distinctCount_nodup r hr
      have hany : (r.map (fun k => ((false : Bool), k))).any (fun y => (false == y.1) && beq x y.2) = false := by
        rw [List.any_eq_false]
        intro y hy
        obtain ⟨k, hk, rfl⟩ := List.mem_map.1 hy
        intro hb
        simp only [Bool.and_eq_true] at hb
        have := (C10.beq_id_kids x k hb.2).1
        exact hx (List.mem_map.2 ⟨k, hk, this.symm⟩)
      simp only [List.map_cons, distinctCount, hany, ih, List.length_cons]
      simp; omega

/-- **exact round trip of a configurator whose rules come back as themselves** (rule ids pairwise distinct) -/
theorem stingy_exact (rules : List P) (i : String) (hx : ∀ r ∈ rules, RTX r) (hn : (rules.map (·.id)).Nodup) :
    ∃ a, PJ.toAst true (toJson (Config.mkStingy rules i)) = some a ∧ a.build = Config.mkStingy rules i := by
  have hK : (sortById rules).Perm rules := sortById_perm rules
  obtain ⟨as, has, hbs⟩ := rtx_list (sortById rules) (fun k hk => hx k (hK.mem_iff.1 hk))
  have hj : toJson (Config.mkStingy rules i) =
      .node (some "StingyConfigurator") (some i) none none true (toJsonL (sortById rules)) none none none [] := by
    simp [Config.mkStingy, mkAll, mkAtLeast, varOf, C18.orderArgs_nonstr, toJson, idJ]
  refine ⟨.stingy as (some i), by rw [hj]; simp [PJ.toAst, has], ?_⟩
  simp only [Ast.build, hbs]
  have hd1 := distinctCount_nodup rules hn
  have hd2 := distinctCount_nodup (sortById rules) ((hK.map _).nodup_iff.2 hn)
  simp only [Config.mkStingy, mkAll, hd1, hd2, C18.orderArgs_nonstr, hK.length_eq]
  exact mkAtLeast_congr _ _ _ _ _ _ (C18.sortById_idem rules)

/-- a defaulted choice over items: `cc.Any(*items, default=…)` or `cc.Xor(*items, default=…)`, item ids pairwise distinct,
    the helper's generated id no item's id -/
def ItemChoice (r : P) : Prop :=
  ∃ args d ds oid, (∀ k ∈ args.map (·.2), k.isLeaf = true) ∧ ((args.map (·.2)).map (·.id)).Nodup ∧
    ((r = mkCcAny args (d :: ds) oid ∧
        ∀ d1, ∀ k ∈ args.map (·.2), k.id ≠ (mkAny (args.filter (fun x => !(x.2.isLeaf && x.2.id == d1))) none).id) ∨
     r = mkCcXor args (d :: ds) oid)

theorem itemChoice_rtx (r : P) (h : ItemChoice r) : RTX r := by
  obtain ⟨args, d, ds, oid, hleaf, hn, ⟨rfl, hfresh⟩ | rfl⟩ := h
  · exact ccAny_items_exact args d ds oid hleaf hn hfresh
  · exact ccXor_items_exact args d ds oid hleaf hn

/-- **the everyday configurator round-trips exactly**: `StingyConfigurator(*rules, id=i)` over defaulted choices over items
    (rule ids pairwise distinct) is read back as the very same model — hence with the same default priorities, the same
    polyhedron (`encode`), the same columns, and the same answer to every query -/
theorem items_configurator_exact (rules : List P) (i : String) (h : ∀ r ∈ rules, ItemChoice r)
    (hn : (rules.map (·.id)).Nodup) :
    ∃ a, PJ.toAst true (toJson (Config.mkStingy rules i)) = some a ∧ a.build = Config.mkStingy rules i ∧
      Lex.defaultPrios a.build = Lex.defaultPrios (Config.mkStingy rules i) ∧
      (∀ act, P.encode act a.build = P.encode act (Config.mkStingy rules i)) ∧
      Solve.columns a.build = Solve.columns (Config.mkStingy rules i) ∧
      toJson a.build = toJson (Config.mkStingy rules i) := by
  obtain ⟨a, ha, hb⟩ := stingy_exact rules i (fun r hr => itemChoice_rtx r (h r hr)) hn
  exact ⟨a, ha, hb, by rw [hb], fun _ => by rw [hb], by rw [hb], by rw [hb]⟩

/-- … and so does every configurator that `add` builds from it: extending an everyday configurator by another choice over
    items and storing the result as JSON loses nothing (with C18's `add_eq_mk`) -/
theorem added_configurator_exact (i b s v ks m) (r c' : P) (h : Config.add (.node i b s v ks m) r = some c')
    (hk : ∀ k ∈ ks, ItemChoice k) (hr : ItemChoice r) (hn : ((ks ++ [r]).map (·.id)).Nodup) :
    ∃ a, PJ.toAst true (toJson c') = some a ∧ a.build = c' ∧ Lex.defaultPrios a.build = Lex.defaultPrios c' := by
  have hc := C18.add_eq_mk i b s v ks m r c' h
  subst hc
  obtain ⟨a, ha, hb, hd, _⟩ := items_configurator_exact (ks ++ [r]) i (fun x hx => by
    rcases List.mem_append.1 hx with hx | hx
    · exact hk x hx
    · simp only [List.mem_singleton] at hx; subst hx; exact hr) hn
  exact ⟨a, ha, hb, hd⟩

/-- non-vacuity of `items_configurator_exact`'s premises: `cc.Xor(x, y, default=x, id="X")` is an `ItemChoice` -/
example : ItemChoice (mkCcXor [(true, .leaf "x" ⟨0, 1⟩), (true, .leaf "y" ⟨0, 1⟩)] [("x", ⟨0, 1⟩)] (some "X")) :=
  ⟨_, _, _, _, by simp [isLeaf], by simp [P.id], Or.inr rfl⟩

/-- … and `cc.Any(a, b, c, default=a, id="A")` is one too: a generated id starts with "VAR" and is longer than an item's name -/
example : ItemChoice (mkCcAny [(true, .leaf "a" ⟨0, 1⟩), (true, .leaf "b" ⟨0, 1⟩), (true, .leaf "c" ⟨0, 1⟩)] [("a", ⟨0, 1⟩)] (some "A")) := by
  refine ⟨_, _, _, _, by simp [isLeaf], by simp [P.id], Or.inl ⟨rfl, ?_⟩⟩
  intro d1 k hk h
  have hl : k.id.length = 1 := by
    simp only [List.map_cons, List.map_nil, List.mem_cons, List.not_mem_nil, or_false] at hk
    rcases hk with rfl | rfl | rfl <;> rfl
  rw [h] at hl
  simp only [mkAny, mkAtLeast, varOf, Option.map_none, genId, P.id, String.length_append] at hl
  have : "VAR".length = 3 := rfl
  omega

/-! ### plain rules over items come back as themselves too

`Any(*items)`, `All(*items)`, `AtMost(v, items)`, `AtLeast(v, items[, sign])` — with an id of the caller's or a generated one;
for a generated id the sign must have been passed the way `to_json` writes it (left out when it can be inferred: otherwise
the generated id hashes another text, which is finding F16f). -/

theorem distinctCount_nodup' : ∀ l : List (Bool × P), ((l.map (·.2)).map (·.id)).Nodup → distinctCount l = l.length
  | [], _ => rfl
  | x :: r, hn => by
      simp only [List.map_cons] at hn
      have ⟨hx, hr⟩ := List.nodup_cons.1 hn
      have ih := distinctCount_nodup' r hr
      have hany : r.any (fun y => (x.1 == y.1) && beq x.2 y.2) = false := by
        rw [List.any_eq_false]
        intro y hy hb
        simp only [Bool.and_eq_true] at hb
        have := (C10.beq_id_kids x.2 y.2 hb.2).1
        exact hx (List.mem_map.2 ⟨y.2, List.mem_map.2 ⟨y, hy, rfl⟩, this.symm⟩)
      simp only [distinctCount, hany, ih, List.length_cons]
      simp; omega

theorem idJ_varOf (oid : Option String) (ks : List P) (v : Int) (sgn : Option Int) (cls : Cls) :
    ∃ i b s m, mkAtLeast v ks (varOf oid) sgn cls = .node i b s v (sortById ks) m ∧ idJ i m = oid ∧ m.cls = cls ∧
      s = sgn.getD (defaultSign v) := by
  cases oid with
  | none => exact ⟨_, _, _, _, rfl, rfl, rfl, rfl⟩
  | some x => exact ⟨_, _, _, _, rfl, rfl, rfl, rfl⟩

/-- a plain rule over items -/
def PlainItemRule (r : P) : Prop :=
  ∃ (args : List (Bool × P)) (oid : Option String), (∀ k ∈ args.map (·.2), k.isLeaf = true) ∧
    ((args.map (·.2)).map (·.id)).Nodup ∧
    (r = mkAny args oid ∨ r = mkAll args oid ∨ (∃ v, r = mkAtMost v (orderArgs args) (varOf oid)) ∨
     (∃ v sgn, (oid.isSome ∨ sgn = none ∨ ∃ s, sgn = some s ∧ s ≠ defaultSign v) ∧
        r = mkAtLeast v (orderArgs args) (varOf oid) sgn))

theorem plainItemRule_rtx (r : P) (h : PlainItemRule r) : RTX r := by
  obtain ⟨args, oid, hleaf, hn, hr⟩ := h
  have hK : (sortById (orderArgs args)).Perm (args.map (·.2)) := (sortById_perm _).trans (C04.orderArgs_perm args)
  have hXl : ∀ k ∈ sortById (orderArgs args), k.isLeaf = true := fun k hk => hleaf k (hK.mem_iff.1 hk)
  have has := toAstL_leafs_cfg true _ hXl
  have hb : ((Ast.buildL ((sortById (orderArgs args)).map varAst)).map (·.2)).Perm (args.map (·.2)) := by
    rw [buildL_vars _ hXl]; exact hK
  have hsort := sort_args_congr args _ hb hn
  rcases hr with rfl | rfl | ⟨v, rfl⟩ | ⟨v, sgn, hs, rfl⟩
  · obtain ⟨i, b, s, m, hnode, hid, hcls, _⟩ := idJ_varOf oid (orderArgs args) 1 none .any
    refine ⟨.any ((sortById (orderArgs args)).map varAst) oid, ?_, ?_, rfl⟩
    · unfold mkAny; rw [hnode]; simp [toJson, hcls, hid, PJ.toAst, has]
    · simp only [Ast.build]; exact mkAny_congr args _ oid _ hb hn
  · obtain ⟨i, b, s, m, hnode, hid, hcls, _⟩ := idJ_varOf oid (orderArgs args) (distinctCount args) none .all
    refine ⟨.all ((sortById (orderArgs args)).map varAst) oid, ?_, ?_, rfl⟩
    · unfold mkAll; rw [hnode]; simp [toJson, hcls, hid, PJ.toAst, has]
    · simp only [Ast.build, mkAll]
      have hn' : (((Ast.buildL ((sortById (orderArgs args)).map varAst)).map (·.2)).map (·.id)).Nodup :=
        ((hb.map _).nodup_iff).2 hn
      rw [distinctCount_nodup' _ hn', distinctCount_nodup' args hn]
      have hl : (Ast.buildL ((sortById (orderArgs args)).map varAst)).length = args.length := by
        simpa using hb.length_eq
      rw [hl]
      exact mkAtLeast_congr _ _ _ _ _ _ hsort
  · obtain ⟨i, b, s, m, hnode, hid, hcls, _⟩ := idJ_varOf oid (orderArgs args) (-v) (some (-1)) .atMost
    refine ⟨.atMost v ((sortById (orderArgs args)).map varAst) oid, ?_, ?_, rfl⟩
    · unfold mkAtMost; rw [hnode]; simp [toJson, hcls, hid, PJ.toAst, has]
    · simp only [Ast.build, mkAtMost]; exact mkAtLeast_congr _ _ _ _ _ _ hsort
  · obtain ⟨i, b, s, m, hnode, hid, hcls, hsg⟩ := idJ_varOf oid (orderArgs args) v sgn .atLeast
    refine ⟨.atLeast v ((sortById (orderArgs args)).map varAst) oid (signJ s v), ?_, ?_, rfl⟩
    · rw [hnode]; simp [toJson, hcls, hid, PJ.toAst, has]
    · simp only [Ast.build]
      rw [mkAtLeast_congr _ _ _ _ _ _ hsort]
      rcases hs with ho | rfl | ⟨s', rfl, hs'⟩
      · obtain ⟨x, rfl⟩ := Option.isSome_iff_exists.1 ho
        subst hsg
        cases sgn with
        | none => simp [mkAtLeast, varOf, signJ, defaultSign]
        | some s' =>
            by_cases h' : s' = defaultSign v
            · simp [mkAtLeast, varOf, signJ, h', defaultSign]
            · simp [mkAtLeast, varOf, signJ, h']
      · subst hsg; simp [signJ]
      · subst hsg; simp [signJ, hs']

/-! ### `Imply(item, rule)` comes back as itself

The everyday conditional rule: the condition is an item, the consequence an item or a rule that comes back as itself.  The
negated condition is held as `All(item).negate()` with a generated id that depends on the item only; `to_json` writes the
condition as `AtLeast(1, [item])` (the negation of what is held), `from_json` negates that again — the same node. -/

/-- what `Not(item)` builds -/
def notItem (ci : String) (cb : Bnd) : P :=
  .node (genId [.leaf ci cb] 0 (some (-1))) ⟨0, 1⟩ (-1) 0 [.leaf ci cb] { gen := true }

theorem mkNot_item (cs : Bool) (ci : String) (cb : Bnd) : mkNot true (cs, .leaf ci cb) = notItem ci cb := by
  simp [mkNot, mkAll, mkAtLeast, distinctCount, orderArgs_single, sortById_single, varOf, negate, negFlat, isLeaf, notItem]

theorem negate_atLeast_item (ci : String) (cb : Bnd) :
    negate (mkAtLeast 1 (orderArgs [(false, .leaf ci cb)]) none none) = notItem ci cb := by
  simp [mkAtLeast, orderArgs_single, sortById_single, negate, negFlat, isLeaf, notItem]

theorem toJsonNeg_notItem (ci : String) (cb : Bnd) :
    toJsonNeg (notItem ci cb) = .node (some "AtLeast") none (some 1) none true [leafJ ci cb] none none none [] := by
  simp [notItem, toJsonNeg, toJsonSorted, toJson, signJ, defaultSign]

/-- a proposition that is read back as itself (an item, or a rule) -/
def RTX' (d : P) : Prop := ∃ a, PJ.toAst true (toJson d) = some a ∧ a.build = d

theorem rtx'_leaf (i : String) (b : Bnd) : RTX' (.leaf i b) :=
  ⟨.var i b, by simp [toJson, leaf_roundtrip_cfg], rfl⟩

theorem rtx'_of_rtx (d : P) (h : RTX d) : RTX' d := let ⟨a, h1, h2, _⟩ := h; ⟨a, h1, h2⟩

/-- **`Imply(item, d)` round-trips exactly** when `d` does and its id is not the (generated) id of the negated condition -/
theorem imply_item_rtx (cs : Bool) (ci : String) (cb : Bnd) (ds : Bool) (d : P) (oid : Option String)
    (hd : RTX' d) (hid : (d.id == (notItem ci cb).id) = false) :
    RTX (mkImply true (cs, .leaf ci cb) (ds, d) oid) := by
  obtain ⟨a', ha', hb'⟩ := hd
  have hne : ¬ (notItem ci cb).id = d.id := by
    intro h; rw [h] at hid; simp at hid
  have hperm := sortById_perm [notItem ci cb, d]
  -- the node as built, and its JSON
  have hjson : toJson (mkImply true (cs, .leaf ci cb) (ds, d) oid) =
      .node (some "Imply") oid none none false [] (some (toJsonNeg (notItem ci cb))) (some (toJson d)) none [] := by
    unfold mkImply mkAny
    rw [mkNot_item]
    show toJson ((mkAtLeast 1 (orderArgs [(false, notItem ci cb), (ds, d)]) (varOf oid) none Cls.imply).setCond (notItem ci cb).id) = _
    rw [orderArgs_pair]
    unfold mkAtLeast
    rcases perm_pair hperm with h | h
    · cases oid <;> simp [varOf, setCond, toJson, idJ, h, List.findIdx_cons, negNth, jsonOther, toJsonL]
    · cases oid <;> simp [varOf, setCond, toJson, idJ, h, List.findIdx_cons, hid, negNth, jsonOther, toJsonL]
  refine ⟨.imply (.atLeast 1 [.var ci cb] none none) a' oid, ?_, ?_, rfl⟩
  · rw [hjson, toJsonNeg_notItem]
    simp [PJ.toAst, PJ.toAstOpt, PJ.toAstL, leaf_roundtrip_cfg, ha']
  · simp only [Ast.build, Ast.isAtom, Ast.isStr, Ast.buildL, hb']
    unfold mkImply
    rw [mkNot_item]
    have hn : mkNot false (false, mkAtLeast 1 (orderArgs [(false, P.leaf ci cb)]) (varOf none) none) = notItem ci cb := by
      simp only [mkNot, Bool.false_eq_true, if_false]; exact negate_atLeast_item ci cb
    rw [hn]
    show (mkAny [(false, notItem ci cb), (_, d)] oid Cls.imply).setCond (notItem ci cb).id =
      (mkAny [(false, notItem ci cb), (ds, d)] oid Cls.imply).setCond (notItem ci cb).id
    congr 1
    apply mkAny_congr
    · simp
    · simp [hne]

/-- the everyday conditional: an item as condition, an item / a defaulted choice / a plain rule as consequence -/
def ItemImply (r : P) : Prop :=
  ∃ cs ci cb ds d oid, (d.isLeaf = true ∨ ItemChoice d ∨ PlainItemRule d) ∧ (d.id == (notItem ci cb).id) = false ∧
    r = mkImply true (cs, .leaf ci cb) (ds, d) oid

/-- a rule of the everyday configurator: a defaulted choice over items, or a plain rule over items -/
def ItemRule (r : P) : Prop := ItemChoice r ∨ PlainItemRule r ∨ ItemImply r

theorem itemRule_rtx (r : P) (h : ItemRule r) : RTX r := by
  rcases h with h | h | ⟨cs, ci, cb, ds, d, oid, hd, hid, rfl⟩
  · exact itemChoice_rtx r h
  · exact plainItemRule_rtx r h
  · apply imply_item_rtx cs ci cb ds d oid _ hid
    rcases hd with hl | hc | hp
    · cases d with
      | leaf i b => exact rtx'_leaf i b
      | node => simp [isLeaf] at hl
    · exact rtx'_of_rtx d (itemChoice_rtx d hc)
    · exact rtx'_of_rtx d (plainItemRule_rtx d hp)

/-- **the everyday configurator — defaulted choices, plain rules and `Imply(item, …)` conditionals over items — round-trips
    exactly**: read back as the very same model, hence the same default priorities, polyhedron, columns and JSON -/
theorem everyday_configurator_exact (rules : List P) (i : String) (h : ∀ r ∈ rules, ItemRule r)
    (hn : (rules.map (·.id)).Nodup) :
    ∃ a, PJ.toAst true (toJson (Config.mkStingy rules i)) = some a ∧ a.build = Config.mkStingy rules i ∧
      Lex.defaultPrios a.build = Lex.defaultPrios (Config.mkStingy rules i) ∧
      (∀ act, P.encode act a.build = P.encode act (Config.mkStingy rules i)) ∧
      Solve.columns a.build = Solve.columns (Config.mkStingy rules i) ∧
      toJson a.build = toJson (Config.mkStingy rules i) := by
  obtain ⟨a, ha, hb⟩ := stingy_exact rules i (fun r hr => itemRule_rtx r (h r hr)) hn
  exact ⟨a, ha, hb, by rw [hb], fun _ => by rw [hb], by rw [hb], by rw [hb]⟩

/-- non-vacuity: `AtMost(2, [a, b, c])` with a generated id and `AtLeast(1, [a, b], sign=-1, variable="N")` are plain rules -/
example : PlainItemRule (mkAtMost 2 (orderArgs [(true, .leaf "a" ⟨0, 1⟩), (true, .leaf "b" ⟨0, 1⟩), (true, .leaf "c" ⟨0, 1⟩)]) (varOf none)) :=
  ⟨_, none, by simp [isLeaf], by simp [P.id], Or.inr (Or.inr (Or.inl ⟨2, rfl⟩))⟩
example : PlainItemRule (mkAtLeast 1 (orderArgs [(true, .leaf "a" ⟨0, 1⟩), (true, .leaf "b" ⟨0, 1⟩)]) (varOf (some "N")) (some (-1))) :=
  ⟨_, some "N", by simp [isLeaf], by simp [P.id], Or.inr (Or.inr (Or.inr ⟨1, some (-1), Or.inl rfl, rfl⟩))⟩

/-- non-vacuity: `Imply("a", cc.Xor(x, y, default=x, id="X"), variable="I")` is an everyday conditional -/
example : ItemImply (mkImply true (true, .leaf "a" ⟨0, 1⟩)
    (false, mkCcXor [(true, .leaf "x" ⟨0, 1⟩), (true, .leaf "y" ⟨0, 1⟩)] [("x", ⟨0, 1⟩)] (some "X")) (some "I")) := by
  refine ⟨true, "a", ⟨0, 1⟩, false, _, some "I",
    Or.inr (Or.inl ⟨_, _, _, _, by simp [isLeaf], by simp [P.id], Or.inr rfl⟩), ?_, rfl⟩
  rw [mkCcXor_id]
  simp only [notItem, P.id, genId, Option.getD_some, beq_eq_false_iff_ne, ne_eq]
  intro h
  have hl := congrArg String.length h
  simp only [String.length_append] at hl
  have h1 : "X".length = 1 := rfl
  have h3 : "VAR".length = 3 := rfl
  omega

theorem mkCcAny_some (args : List (Bool × P)) (dflt) (x : String) :
    (mkCcAny args dflt (some x)).id = x ∧ (mkCcAny args dflt (some x)).mt.gen = false := by
  have hp : ∀ (a : List (Bool × P)) dflt, (setDflt (mkAny a (some x) .ccAny) dflt).id = x ∧
      (setDflt (mkAny a (some x) .ccAny) dflt).mt.gen = false := by
    intro a dflt
    simp [mkAny, mkAtLeast, varOf, setDflt, P.id, P.mt]
  unfold mkCcAny
  cases dflt with
  | nil => exact hp _ _
  | cons d ds =>
      obtain ⟨d1, d2⟩ := d
      simp only
      split
      · exact hp _ _
      · split
        · exact hp _ _
        · exact hp _ _

/-- **known finding F16g, in the model**: a defaulted `cc.Xor` holds, as its "at least one" half, a node whose id is the
    GENERATED id of the half it replaced (`genId …`) but which counts as explicit (`gen = false`) — so `id_written_iff` has
    that id written wherever the half is written on its own (the re-negated condition of an Imply, a Not), although the
    caller never gave it.  The model mirrors the code here; the check reports it as KNOWN-FINDING on the real code. -/
theorem f16g_generated_id_counts_as_explicit (args : List (Bool × P)) (d ds oid) :
    ∃ k ∈ (mkCcXor args (d :: ds) oid).kids,
      k.id = genId (sortById (orderArgs args)) 1 none ∧ k.mt.gen = false := by
  obtain ⟨i, b, m, hx⟩ := C14.mkXor_node args oid .ccXor
  have hLid : (mkAtLeast 1 (orderArgs args) none none).id = genId (sortById (orderArgs args)) 1 none := by
    simp [mkAtLeast, P.id]
  have hkids : (mkAtLeast 1 (orderArgs args) none none).kids = sortById (orderArgs args) := by simp [mkAtLeast, P.kids]
  refine ⟨mkCcAny ((sortById (orderArgs args)).map (fun c => ((false : Bool), c))) (d :: ds)
    (some (mkAtLeast 1 (orderArgs args) none none).id), ?_, ?_, (mkCcAny_some _ _ _).2⟩
  · unfold mkCcXor
    rw [hx]
    simp only [setDflt]
    show _ ∈ replaceFirst _ _ _
    have hL : mkAtLeast 1 (orderArgs args) none none ∈ sortById [mkAtLeast 1 (orderArgs args) none none, mkAtMost 1 (orderArgs args) none] :=
      (sortById_perm _).mem_iff.2 (by simp)
    have := C14.replaced_mem (fun k => !k.isLeaf && (match k with | .node _ _ _ w _ _ => w == 1 | _ => false))
      (fun k => mkCcAny (k.kids.map (fun c => (false, c))) (d :: ds) (some k.id)) _ _ hL
      (by simp [mkAtLeast, isLeaf])
      (by
        intro k' hk' hp'
        have : k' = mkAtLeast 1 (orderArgs args) none none ∨ k' = mkAtMost 1 (orderArgs args) none := by
          simpa using (sortById_perm _).mem_iff.1 hk'
        rcases this with rfl | rfl
        · rfl
        · simp [mkAtMost, mkAtLeast, isLeaf] at hp')
    rw [hkids] at this
    exact this
  · rw [(mkCcAny_some _ _ _).1, hLid]

theorem mkCcAny_isLeaf (args : List (Bool × P)) (dflt oid) : (mkCcAny args dflt oid).isLeaf = false := by
  obtain ⟨i, b, ks, m, hn⟩ := mkCcAny_node args dflt oid
  rw [hn]; rfl

/-- non-vacuity of the choices below choices: `StingyConfigurator(cc.Xor(cc.Any(a, b, default=a, id="G"), c, default=c,
    id="X"), id="S")` satisfies `RTExpr true` -/
example : RTExpr true (.stingy [.ccXor [.ccAny [.str "a", .str "b"] [("a", ⟨0, 1⟩)] (some "G"), .str "c"]
    [("c", ⟨0, 1⟩)] (some "X")] (some "S")) := by
  simp only [RTExpr, RTExprL, and_true, true_and, Ast.buildL, orderArgs_single, sortById_single]
  refine ⟨⟨by simp [distinctCount], distinctRT_single _⟩, ⟨?_, ?_⟩, ?_, ?_⟩
  · intro k hk
    simp only [List.map_cons, List.map_nil, List.mem_cons, List.not_mem_nil, or_false] at hk
    rcases hk with rfl | rfl
    · intro hl; simp [Ast.build, mkCcAny_isLeaf] at hl
    · intro _; simp [Ast.build, P.bnd]
  · refine ⟨("c", ⟨0, 1⟩), [], rfl, ?_⟩
    have hl := mkCcAny_isLeaf (Ast.buildL [Ast.str "a", Ast.str "b"]) [("a", ⟨0, 1⟩)] (some "G")
    simp only [OneDefault, Ast.build, List.filter_cons, hl, Bool.false_and, Bool.false_eq_true, if_false]
    simp [isLeaf, P.id, Ast.isStr]
  · intro k hk
    simp only [Ast.build, Ast.isStr, List.map_cons, List.map_nil, List.mem_cons, List.not_mem_nil, or_false] at hk
    rcases hk with rfl | rfl <;> simp [isLeaf, P.bnd]
  · exact ⟨("a", ⟨0, 1⟩), [], rfl, by simp [OneDefault, Ast.build, Ast.isStr, isLeaf, P.id, List.filter_cons]⟩

end Puan.C16
