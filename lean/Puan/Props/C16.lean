/-
  C16 — JSON round trip preserves meaning, explicit ids and defaults.
  PARTIAL at the theorem level: the round trip is proved for the fragment variable / AtLeast
  (any sign and value — the part repaired by the fix for finding F16a) / AtMost / Any, nested
  arbitrarily; All, Xor, ExactlyOne, XNor, Imply, Not and the configurator classes are covered
  by the correspondence (toJson / toAst + build against the real code) and the oracle.
-/
import Puan.Model.Json
import Puan.Lemmas.Build
import Puan.Props.C04
namespace Puan.C16
open Puan P

mutual
/-- the fragment: variables, AtLeast (any legal sign), AtMost (negative sign), Any (+, value 1) -/
def Frag : P → Prop
  | .leaf _ _ => True
  | .node _ _ s v ks m =>
      ((m.cls = .atLeast ∧ (s = 1 ∨ s = -1)) ∨ (m.cls = .atMost ∧ s = -1) ∨ (m.cls = .any ∧ s = 1 ∧ v = 1)) ∧ FragL ks
def FragL : List P → Prop
  | [] => True
  | k :: ks => Frag k ∧ FragL ks
end

/-- the sign written to JSON (only when it differs from the default) reads back as the sign -/
theorem sgnOf_signJ (s v : Int) (hs : s = 1 ∨ s = -1) : sgnOf v (signJ s v) = s := by
  rcases hs with rfl | rfl <;> by_cases hv : v > 0 <;> simp [sgnOf, signJ, defaultSign, hv]

theorem leaf_roundtrip (i : String) (b : Bnd) : PJ.toAst false (leafJ i b) = some (.var i b) := by
  unfold leafJ
  split
  · rename_i h
    cases b with
    | mk lo hi => simp at h; simp [PJ.toAst, h.1, h.2]
  · simp [PJ.toAst]

mutual
/-- for the fragment, `from_json (to_json t)` builds a model that evaluates like `t` on every assignment -/
theorem frag_roundtrip : ∀ t : P, Frag t →
    ∃ a, PJ.toAst false (toJson t) = some a ∧ ∀ σ, evalPt σ a.build = evalPt σ t
  | .leaf i b, _ => ⟨.var i b, by simp [toJson, leaf_roundtrip], fun σ => by simp [Ast.build, evalPt]⟩
  | .node i b s v ks m, h => by
      have ⟨hc, hk⟩ : ((m.cls = .atLeast ∧ (s = 1 ∨ s = -1)) ∨ (m.cls = .atMost ∧ s = -1) ∨ (m.cls = .any ∧ s = 1 ∧ v = 1)) ∧ FragL ks := by
        simpa [Frag] using h
      obtain ⟨as, has, hsum⟩ := frag_roundtripL ks hk
      rcases hc with ⟨hcls, hs⟩ | ⟨hcls, hs⟩ | ⟨hcls, hs, hv⟩
      · refine ⟨.atLeast v as (idJ i m) (signJ s v), ?_, ?_⟩
        · simp [toJson, hcls, PJ.toAst, has]
        · intro σ
          simp only [Ast.build, evalPt_mkAtLeast, C04.sum_orderArgs, hsum σ, sgnOf_signJ s v hs, evalPt]
      · refine ⟨.atMost (-v) as (idJ i m), ?_, ?_⟩
        · simp [toJson, hcls, PJ.toAst, has]
        · intro σ
          subst hs
          simp only [Ast.build, C04.evalPt_mkAtMost, C04.sum_orderArgs, hsum σ, evalPt]
          split <;> split <;> omega
      · refine ⟨.any as (idJ i m), ?_, ?_⟩
        · simp [toJson, hcls, PJ.toAst, has]
        · intro σ
          subst hs; subst hv
          simp only [Ast.build, C04.evalPt_mkAny, hsum σ, evalPt]
          split <;> split <;> omega
theorem frag_roundtripL : ∀ ks : List P, FragL ks →
    ∃ as, PJ.toAstL false (toJsonL ks) = some as ∧ ∀ σ, sumPt σ ((Ast.buildL as).map (·.2)) = sumPt σ ks
  | [], _ => ⟨[], by simp [toJsonL, PJ.toAstL], fun σ => by simp [Ast.buildL, sumPt]⟩
  | k :: ks, h => by
      have ⟨h1, h2⟩ : Frag k ∧ FragL ks := by simpa [FragL] using h
      obtain ⟨a, ha, hev⟩ := frag_roundtrip k h1
      obtain ⟨as, has, hsum⟩ := frag_roundtripL ks h2
      exact ⟨a :: as, by simp [toJsonL, PJ.toAstL, ha, has], fun σ => by simp [Ast.buildL, sumPt, hev σ, hsum σ]⟩
end

def idOf : PJ → Option String
  | .var i _ => some i
  | .node _ oid _ _ _ _ _ _ _ _ => oid

/-- for every class: an explicitly given id is written, a generated one is not -/
theorem id_written_iff (i b s v ks) (m : Meta) :
    idOf (toJson (.node i b s v ks m)) = if m.gen then none else some i := by
  cases hc : m.cls <;> simp only [toJson, hc, idJ] <;> (try split) <;> rfl

/-- non-vacuity / regression witness of F16a: value 0 with an explicit + sign keeps its meaning -/
example :
    let t : P := .node "N" ⟨0,1⟩ 1 0 [.leaf "a" ⟨0,1⟩] { cls := .atLeast }
    Frag t ∧ signJ 1 0 = some 1 ∧ sgnOf 0 (signJ 1 0) = 1 := by
  refine ⟨by simp [Frag, FragL], by decide, by decide⟩

end Puan.C16
