/-
  C16 — JSON round trip preserves meaning, explicit ids and defaults.
  PARTIAL at the theorem level: the round trip is proved for the fragment variable / AtLeast
  (any sign and value — the part repaired by the fix for finding F16a) / AtMost / Any / All /
  Xor / ExactlyOne, nested arbitrarily.  For All the proof needs the children to stay pairwise
  distinct after the round trip (`DistinctRT`) — exactly what fails on the models of known finding
  F16f.  XNor, Imply, Not and the configurator classes are covered by the correspondence (toJson /
  toAst + build against the real code) and the oracle.
-/
import Puan.Model.Json
import Puan.Lemmas.Build
import Puan.Props.C04
namespace Puan.C16
open Puan P

/-- the children stay pairwise distinct propositions after the round trip (what `All` counts with `len(set(…))`);
    it fails exactly on the models of known finding F16f -/
def DistinctRT (ks : List P) : Prop :=
  ∀ as, PJ.toAstL false (toJsonL ks) = some as → distinctCount (Ast.buildL as) = as.length

/-- the two halves of an `Xor` / `ExactlyOne`: "at least one" and "at most one" of the same propositions, in either order -/
def XorShape (ks : List P) : Prop :=
  ∃ i1 b1 m1 i2 b2 m2 args,
    ks = [.node i1 b1 1 1 args m1, .node i2 b2 (-1) (-1) args m2] ∨
    ks = [.node i2 b2 (-1) (-1) args m2, .node i1 b1 1 1 args m1]

mutual
/-- the fragment: variables; AtLeast (any legal sign); AtMost; Any; All (value = number of children, children distinct
    after the round trip); Xor / ExactlyOne (the two halves over the same propositions) — nested arbitrarily -/
def Frag : P → Prop
  | .leaf _ _ => True
  | .node _ _ s v ks m =>
      ((m.cls = .atLeast ∧ (s = 1 ∨ s = -1)) ∨ (m.cls = .atMost ∧ s = -1) ∨ (m.cls = .any ∧ s = 1 ∧ v = 1) ∨
       (m.cls = .all ∧ v = ks.length ∧ s = (if v > 0 then 1 else -1) ∧ DistinctRT ks) ∨
       ((m.cls = .xor ∨ m.cls = .exactlyOne) ∧ s = 1 ∧ v = 2 ∧ XorShape ks)) ∧ FragL ks
def FragL : List P → Prop
  | [] => True
  | k :: ks => Frag k ∧ FragL ks
end

/-- the sign written to JSON (only when it differs from the default) reads back as the sign -/
theorem sgnOf_signJ (s v : Int) (hs : s = 1 ∨ s = -1) : sgnOf v (signJ s v) = s := by
  rcases hs with rfl | rfl <;> by_cases hv : v > 0 <;> simp [sgnOf, signJ, defaultSign, hv]

theorem leaf_roundtrip (i : String) (b : Bnd) : PJ.toAst false (leafJ i b) = some (.var i b) := by
  unfold leafJ
  split
  · rename_i h
    cases b with
    | mk lo hi => simp at h; simp [PJ.toAst, h.1, h.2]
  · simp [PJ.toAst]

theorem toAstL_length : ∀ (js : List PJ) (as : List Ast), PJ.toAstL false js = some as → as.length = js.length
  | [], as, h => by simp [PJ.toAstL] at h; subst h; rfl
  | j :: js, as, h => by
      simp only [PJ.toAstL] at h
      split at h
      · rename_i a as' _ h2
        cases h
        simp [toAstL_length js as' h2]
      · cases h

theorem toJsonL_length : ∀ ks : List P, (toJsonL ks).length = ks.length
  | [] => by simp [toJsonL]
  | k :: ks => by simp [toJsonL, toJsonL_length ks]

theorem buildL_length : ∀ as : List Ast, (Ast.buildL as).length = as.length
  | [] => rfl
  | a :: as => by simp [Ast.buildL, buildL_length as]

/-! ### … over the same leaf variables with the same bounds -/

mutual
/-- the leaf variables of a model with their bounds, in tree order (one entry per occurrence) -/
def leafList : P → List (String × Bnd)
  | .leaf i b => [(i, b)]
  | .node _ _ _ _ ks _ => leafListL ks
def leafListL : List P → List (String × Bnd)
  | [] => []
  | k :: ks => leafList k ++ leafListL ks
end

theorem leafListL_perm : ∀ {l1 l2 : List P}, l1.Perm l2 → (leafListL l1).Perm (leafListL l2) := by
  intro l1 l2 h
  induction h with
  | nil => exact List.Perm.refl _
  | cons x _ ih => simp only [leafListL]; exact List.Perm.append_left _ ih
  | swap x y l =>
      simp only [leafListL]
      rw [← List.append_assoc, ← List.append_assoc]
      exact List.Perm.append_right _ List.perm_append_comm
  | trans _ _ ih1 ih2 => exact ih1.trans ih2

theorem leafList_mkAtLeast (v : Int) (ks : List P) (var sgn cls) :
    (leafList (mkAtLeast v ks var sgn cls)).Perm (leafListL ks) := by
  unfold mkAtLeast
  cases var with
  | none => simp only [leafList]; exact leafListL_perm (sortById_perm ks)
  | some x => simp only [leafList]; exact leafListL_perm (sortById_perm ks)

theorem leafListL_append : ∀ a b : List P, leafListL (a ++ b) = leafListL a ++ leafListL b
  | [], b => by simp [leafListL]
  | x :: a, b => by simp [leafListL, leafListL_append a b, List.append_assoc]

theorem leafListL_args (l : List (Bool × P)) : (leafListL (orderArgs l)).Perm (leafListL (l.map (·.2))) :=
  leafListL_perm (C04.orderArgs_perm l)

/-- what the round trip gives for one proposition: a constructor call whose model evaluates alike, and the same for
    the list of its children -/
def RT (t : P) : Prop :=
  (∃ a, PJ.toAst false (toJson t) = some a ∧ (∀ σ, evalPt σ a.build = evalPt σ t) ∧ (leafList a.build).Perm (leafList t)) ∧
  (∃ as, PJ.toAstL false (toJsonL t.kids) = some as ∧ (∀ σ, sumPt σ ((Ast.buildL as).map (·.2)) = sumPt σ t.kids) ∧
    (leafListL ((Ast.buildL as).map (·.2))).Perm (leafListL t.kids))

mutual
/-- for the fragment, `from_json (to_json t)` builds a model that evaluates like `t` on every assignment -/
theorem frag_rt : ∀ t : P, Frag t → RT t
  | .leaf i b, _ =>
      ⟨⟨.var i b, by simp [toJson, leaf_roundtrip], fun σ => by simp [Ast.build, evalPt], by simp [Ast.build, leafList]⟩,
       ⟨[], by simp [P.kids, toJsonL, PJ.toAstL], fun σ => by simp [Ast.buildL, sumPt, P.kids], by simp [Ast.buildL, leafListL, P.kids]⟩⟩
  | .node i b s v ks m, h => by
      have ⟨hc, hk⟩ : ((m.cls = .atLeast ∧ (s = 1 ∨ s = -1)) ∨ (m.cls = .atMost ∧ s = -1) ∨ (m.cls = .any ∧ s = 1 ∧ v = 1) ∨
          (m.cls = .all ∧ v = ks.length ∧ s = (if v > 0 then 1 else -1) ∧ DistinctRT ks) ∨
          ((m.cls = .xor ∨ m.cls = .exactlyOne) ∧ s = 1 ∧ v = 2 ∧ XorShape ks)) ∧ FragL ks := by
        simpa [Frag] using h
      obtain ⟨⟨as, has, hsum, hlf⟩, hkids⟩ := frag_rtL ks hk
      have hlfo : (leafListL (orderArgs (Ast.buildL as))).Perm (leafListL ks) := (leafListL_args _).trans hlf
      refine ⟨?_, ⟨as, by simpa [P.kids] using has, fun σ => by simpa [P.kids] using hsum σ, by simpa [P.kids] using hlf⟩⟩
      rcases hc with ⟨hcls, hs⟩ | ⟨hcls, hs⟩ | ⟨hcls, hs, hv⟩ | ⟨hcls, hv, hs, hd⟩ | ⟨hcls, hs, hv, hx⟩
      · refine ⟨.atLeast v as (idJ i m) (signJ s v), ?_, ?_, ?_⟩
        · simp [toJson, hcls, PJ.toAst, has]
        · intro σ
          simp only [Ast.build, evalPt_mkAtLeast, C04.sum_orderArgs, hsum σ, sgnOf_signJ s v hs, evalPt]
        · simp only [Ast.build, leafList]; exact (leafList_mkAtLeast _ _ _ _ _).trans hlfo
      · refine ⟨.atMost (-v) as (idJ i m), ?_, ?_, ?_⟩
        · simp [toJson, hcls, PJ.toAst, has]
        · intro σ
          subst hs
          simp only [Ast.build, C04.evalPt_mkAtMost, C04.sum_orderArgs, hsum σ, evalPt]
          split <;> split <;> omega
        · simp only [Ast.build, mkAtMost, leafList]; exact (leafList_mkAtLeast _ _ _ _ _).trans hlfo
      · refine ⟨.any as (idJ i m), ?_, ?_, ?_⟩
        · simp [toJson, hcls, PJ.toAst, has]
        · intro σ
          subst hs; subst hv
          simp only [Ast.build, C04.evalPt_mkAny, hsum σ, evalPt]
          split <;> split <;> omega
        · simp only [Ast.build, mkAny, leafList]; exact (leafList_mkAtLeast _ _ _ _ _).trans hlfo
      · -- All: the value is re-derived from the number of distinct children
        refine ⟨.all as (idJ i m), ?_, ?_, ?_⟩
        · simp [toJson, hcls, PJ.toAst, has]
        · intro σ
          have hlen : as.length = ks.length := by rw [toAstL_length _ as has, toJsonL_length]
          have hdc : (distinctCount (Ast.buildL as) : Int) = v := by rw [hd as has, hlen, hv]
          simp only [Ast.build, mkAll, evalPt_mkAtLeast, C04.sum_orderArgs, hsum σ, hdc, evalPt, hs, sgnOf, Option.getD_none]
        · simp only [Ast.build, mkAll, leafList]; exact (leafList_mkAtLeast _ _ _ _ _).trans hlfo
      · -- Xor / ExactlyOne: rebuilt from the propositions of one half
        obtain ⟨i1, b1, m1, i2, b2, m2, args, hks⟩ := hx
        -- the children of either half, with their round trip
        have hargs : ∃ as', PJ.toAstL false (toJsonL args) = some as' ∧
            (∀ σ, sumPt σ ((Ast.buildL as').map (·.2)) = sumPt σ args) ∧
            (leafListL ((Ast.buildL as').map (·.2))).Perm (leafListL args) := by
          rcases hks with rfl | rfl
          · simpa [P.kids] using (hkids (.node i1 b1 1 1 args m1) (by simp)).2
          · simpa [P.kids] using (hkids (.node i1 b1 1 1 args m1) (by simp)).2
        obtain ⟨as', has', hsum', hlf'⟩ := hargs
        have hlfo' : (leafListL (orderArgs (Ast.buildL as'))).Perm (leafListL args) := (leafListL_args _).trans hlf'
        have hlx : ∀ oid cls, (leafList (mkXor (Ast.buildL as') oid cls)).Perm (leafList (.node i b s v ks m)) := by
          intro oid cls
          have h1 : (leafList (mkXor (Ast.buildL as') oid cls)).Perm (leafListL args ++ leafListL args) := by
            unfold mkXor mkAll
            refine (leafList_mkAtLeast _ _ _ _ _).trans ((leafListL_args _).trans ?_)
            simp only [List.map_cons, List.map_nil, leafListL, List.append_nil]
            exact List.Perm.append ((leafList_mkAtLeast _ _ _ _ _).trans hlfo')
              (by unfold mkAtMost; exact (leafList_mkAtLeast _ _ _ _ _).trans hlfo')
          refine h1.trans ?_
          rcases hks with rfl | rfl <;> simp [leafList, leafListL]
        have hjson : kidsOfNth ks 0 = toJsonL args := by rcases hks with rfl | rfl <;> simp [kidsOfNth]
        have hev : ∀ σ, evalPt σ (.node i b s v ks m) = if sumPt σ args = 1 then 1 else 0 := by
          intro σ; subst hs; subst hv
          rcases hks with rfl | rfl <;> simp only [evalPt, sumPt] <;> split <;> split <;> split <;> split <;> omega
        rcases hcls with hcls | hcls
        · refine ⟨.xor as' (idJ i m) false, by simp [toJson, hcls, PJ.toAst, hjson, has'], fun σ => ?_, by simpa [Ast.build] using hlx _ _⟩
          rw [hev σ]; simp only [Ast.build, C04.evalPt_mkXor, hsum' σ]
        · refine ⟨.xor as' (idJ i m) true, by simp [toJson, hcls, PJ.toAst, hjson, has'], fun σ => ?_, by simpa [Ast.build] using hlx _ _⟩
          rw [hev σ]; simp only [Ast.build, C04.evalPt_mkXor, hsum' σ]
theorem frag_rtL : ∀ ks : List P, FragL ks →
    (∃ as, PJ.toAstL false (toJsonL ks) = some as ∧ (∀ σ, sumPt σ ((Ast.buildL as).map (·.2)) = sumPt σ ks) ∧
      (leafListL ((Ast.buildL as).map (·.2))).Perm (leafListL ks)) ∧
    (∀ k ∈ ks, RT k)
  | [], _ => ⟨⟨[], by simp [toJsonL, PJ.toAstL], fun σ => by simp [Ast.buildL, sumPt], by simp [Ast.buildL, leafListL]⟩, by simp⟩
  | k :: ks, h => by
      have ⟨h1, h2⟩ : Frag k ∧ FragL ks := by simpa [FragL] using h
      have hk := frag_rt k h1
      have ⟨⟨a, ha, hev, hla⟩, _⟩ := hk
      obtain ⟨⟨as, has, hsum, hls⟩, hall⟩ := frag_rtL ks h2
      refine ⟨⟨a :: as, by simp [toJsonL, PJ.toAstL, ha, has], fun σ => by simp [Ast.buildL, sumPt, hev σ, hsum σ],
        by simp only [Ast.buildL, List.map_cons, leafListL]; exact List.Perm.append hla hls⟩, ?_⟩
      intro x hx
      rcases List.mem_cons.1 hx with rfl | hx
      · exact hk
      · exact hall x hx
end

/-- **the round trip preserves meaning and leaves** (fragment): converting to JSON and back yields a model over the same
    leaf variables with the same bounds (as a multiset of occurrences) that evaluates identically on every assignment -/
theorem frag_roundtrip (t : P) (h : Frag t) :
    ∃ a, PJ.toAst false (toJson t) = some a ∧ (∀ σ, evalPt σ a.build = evalPt σ t) ∧ (leafList a.build).Perm (leafList t) :=
  (frag_rt t h).1

def idOf : PJ → Option String
  | .var i _ => some i
  | .node _ oid _ _ _ _ _ _ _ _ => oid

/-- for every class: an explicitly given id is written, a generated one is not -/
theorem id_written_iff (i b s v ks) (m : Meta) :
    idOf (toJson (.node i b s v ks m)) = if m.gen then none else some i := by
  cases hc : m.cls <;> simp only [toJson, hc, idJ] <;> (try split) <;> rfl

/-- non-vacuity / regression witness of F16a: value 0 with an explicit + sign keeps its meaning -/
example :
    let t : P := .node "N" ⟨0,1⟩ 1 0 [.leaf "a" ⟨0,1⟩] { cls := .atLeast }
    Frag t ∧ signJ 1 0 = some 1 ∧ sgnOf 0 (signJ 1 0) = 1 := by
  refine ⟨by simp [Frag, FragL], by decide, by decide⟩

/-- non-vacuity of the All / Xor cases: All(Xor-shaped node, c) over boolean leaves is in the fragment -/
example :
    let x : P := .node "X" ⟨0,1⟩ 1 2 [.node "L" ⟨0,1⟩ 1 1 [.leaf "a" ⟨0,1⟩, .leaf "b" ⟨0,1⟩] { cls := .atLeast },
                                      .node "M" ⟨0,1⟩ (-1) (-1) [.leaf "a" ⟨0,1⟩, .leaf "b" ⟨0,1⟩] { cls := .atMost }] { cls := .xor }
    let t : P := .node "T" ⟨0,1⟩ 1 2 [.leaf "c" ⟨0,1⟩, .leaf "d" ⟨0,3⟩] { cls := .all }
    Frag x ∧ Frag t := by
  refine ⟨?_, ?_⟩
  · simp only [Frag, FragL, and_true]
    refine ⟨Or.inr (Or.inr (Or.inr (Or.inr ⟨by simp, by simp, by simp,
      ⟨"L", ⟨0,1⟩, { cls := .atLeast }, "M", ⟨0,1⟩, { cls := .atMost }, _, Or.inl rfl⟩⟩))), ?_, ?_⟩
    · simp
    · simp
  · simp only [Frag, FragL, and_true]
    refine Or.inr (Or.inr (Or.inr (Or.inl ⟨by simp, by simp, by simp, ?_⟩)))
    intro as h
    simp [toJsonL, toJson, leafJ, PJ.toAstL, PJ.toAst] at h
    subst h
    decide

end Puan.C16
