/-
  C05 — negation is the exact complement and stays in solver-safe form.
  (About `negate` as repaired by the `fix:` commit for defect D1.)
-/
import Puan.Lemmas.Negate
import Puan.Lemmas.Build
import Puan.Lemmas.NegateFx
namespace Puan.C05
open Puan P

theorem negPairs_comps_length : ∀ ks : List P, (negPairs ks).length = (comps ks).length
  | [] => by simp [negPairs, comps]
  | .leaf i b :: ks => by simpa [negPairs, comps, isLeaf] using negPairs_comps_length ks
  | .node i b s v ks' m :: ks => by simpa [negPairs, comps, isLeaf] using negPairs_comps_length ks

mutual
/-- For every model and every in-bounds total leaf assignment the negated model
    evaluates to 1 exactly when the original evaluates to 0. -/
theorem negate_compl (σ : String → Int) : ∀ p, SignOk p → InB σ p → p.isLeaf = false →
    evalPt σ (negate p) = 1 - evalPt σ p
  | .leaf .., _, _, h => by simp [isLeaf] at h
  | .node i b s v ks m, hs, hb, _ => by
      have ⟨hs1, hs2⟩ : (s = 1 ∨ s = -1) ∧ SignOks ks := by simpa [SignOk] using hs
      have hb' : InBs σ ks := by simpa [InB] using hb
      have hsplit := sumPt_split σ ks
      have hneg := negPairs_sum σ ks hs2 hb'
      have hnegS := sumPt_sortPairs σ (negPairs ks)
      have hc := sum_nonneg_nodes σ (comps ks) (by
        intro k hk; have := (List.mem_filter.1 hk).2; simpa using this)
      have hsort := sumPt_sort σ ks
      have hat : sumPt σ (atoms (sortById ks)) = sumPt σ (atoms ks) := sumPt_perm σ (atoms_sort_perm ks)
      have hbs : ∀ a ∈ atoms (sortById ks), InB σ a := fun a ha =>
        (InBs_iff σ ks).1 hb' a ((sortById_perm ks).mem_iff.1 (List.mem_filter.1 ha).1)
      have hlen : (ks.filter (fun k => !k.isLeaf)).length = (comps ks).length := rfl
      simp only [negate]
      split
      · rename_i hc1
        obtain ⟨rfl, _⟩ := hc1
        split
        · rename_i ha
          have ha' : atoms (sortById ks) = [] := ha
          rw [ha'] at hat
          simp only [evalPt, hnegS, hneg, hlen, sumPt] at *
          split <;> split <;> omega
        · split
          · rename_i hv
            obtain ⟨rfl, hnn⟩ := hv
            have h0 := leaves_nonneg σ (atoms (sortById ks)) hbs
              (fun a ha => ⟨(List.mem_filter.1 ha).2, by
                  have := List.all_eq_true.1 hnn a ha; simpa using this⟩)
            have hat' : sumPt σ (List.filter (fun x => x.isLeaf) (sortById ks)) = sumPt σ (atoms ks) := hat
            simp only [evalPt, sumPt_append, hnegS, hneg, hlen, negGroup, sumPt, hat'] at *
            split <;> split <;> split <;> omega
          · split
            · rename_i hbool
              have hw := wrap_sum σ (atoms (sortById ks)) hbs
                (fun a ha => ⟨(List.mem_filter.1 ha).2, by
                  have := List.all_eq_true.1 hbool a ha; simpa using this⟩)
              have hal : (atoms (sortById ks)).length = (List.filter (fun x => x.isLeaf) (sortById ks)).length := rfl
              have hw' : sumPt σ (List.map (fun a => negGroup [a]) (List.filter (fun x => x.isLeaf) (sortById ks)))
                  = (List.filter (fun x => x.isLeaf) (sortById ks)).length - sumPt σ (atoms ks) := by
                rw [← hat]; exact hw
              simp only [evalPt, sumPt_append, hnegS, hneg, hlen, hw']
              split <;> split <;> omega
            · simp only [negFlat, evalPt, hsort]; split <;> split <;> omega
      · simp only [negFlat, evalPt, hsort]
        rcases hs1 with rfl | rfl <;> (split <;> split <;> omega)
theorem negPairs_sum (σ : String → Int) : ∀ ks, SignOks ks → InBs σ ks →
    sumPt σ ((negPairs ks).map (·.2)) = (comps ks).length - sumPt σ (comps ks)
  | [], _, _ => by simp [negPairs, comps, sumPt]
  | .leaf i b :: ks, hs, hb => by
      have ⟨_, s2⟩ : SignOk (.leaf i b) ∧ SignOks ks := by simpa [SignOks] using hs
      have ⟨_, b2⟩ : InB σ (.leaf i b) ∧ InBs σ ks := by simpa [InBs] using hb
      simpa [negPairs, comps, isLeaf] using negPairs_sum σ ks s2 b2
  | .node i b s v ks' m :: ks, hs, hb => by
      have ⟨s1, s2⟩ : SignOk (.node i b s v ks' m) ∧ SignOks ks := by simpa [SignOks] using hs
      have ⟨b1, b2⟩ : InB σ (.node i b s v ks' m) ∧ InBs σ ks := by simpa [InBs] using hb
      have ih := negPairs_sum σ ks s2 b2
      have h := negate_compl σ (.node i b s v ks' m) s1 b1 rfl
      simp only [negPairs, comps, List.filter_cons, isLeaf, Bool.not_false, if_true, sumPt,
        List.length_cons, List.map_cons, h] at *
      omega
end

/-- An explicitly given id is kept. -/
theorem negate_keeps_id (i b s v ks) (m : Meta) (h : m.gen = false) :
    (negate (.node i b s v ks m)).id = i := by
  simp only [negate, h]
  split
  · split
    · simp [P.id]
    · split
      · simp [P.id]
      · split <;> simp [P.id, negFlat]
  · simp [P.id, negFlat]

mutual
/-- every leaf is boolean -/
def BoolLeaves : P → Prop
  | .leaf _ b => b.lo = 0 ∧ b.hi = 1
  | .node _ _ _ _ ks _ => BoolLeavesL ks
def BoolLeavesL : List P → Prop
  | [] => True
  | k :: ks => BoolLeaves k ∧ BoolLeavesL ks
end

theorem SafeL_iff : ∀ ks : List P, SafeL ks ↔ ∀ k ∈ ks, Safe k
  | [] => by simp [SafeL]
  | k :: ks => by simp [SafeL, SafeL_iff ks]

theorem BoolLeavesL_iff : ∀ ks : List P, BoolLeavesL ks ↔ ∀ k ∈ ks, BoolLeaves k
  | [] => by simp [BoolLeavesL]
  | k :: ks => by simp [BoolLeavesL, BoolLeavesL_iff ks]

theorem safe_leafnode (i b s v) (ks : List P) (m) (hs : s = 1 ∨ s = -1) (hl : ∀ k ∈ ks, k.isLeaf = true) :
    Safe (.node i b s v ks m) := by
  simp only [Safe]
  refine ⟨by rcases hs with h | h <;> simp [h] <;> exact hl, (SafeL_iff ks).2 ?_⟩
  intro k hk
  have := hl k hk
  cases k with
  | leaf => simp [Safe]
  | node => simp [isLeaf] at this

mutual
/-- Negating a solver-safe model over boolean leaves yields a solver-safe model. -/
theorem negate_safe : ∀ p, Safe p → BoolLeaves p → Safe (negate p)
  | .leaf i b, _, _ => by simp [negate, Safe]
  | .node i b s v ks m, hs, hb => by
      have ⟨hs1, hs2⟩ : (s = 1 ∨ (s = -1 ∧ ∀ k ∈ ks, k.isLeaf = true)) ∧ SafeL ks := by simpa [Safe] using hs
      have hb' : BoolLeavesL ks := by simpa [BoolLeaves] using hb
      have hnp := negPairs_safe ks hs2 hb'
      have hnegs : ∀ k ∈ (sortPairs (negPairs ks)).map (·.2), Safe k := by
        intro k hk
        obtain ⟨p, hp, rfl⟩ := List.mem_map.1 hk
        exact hnp p ((List.mergeSort_perm _ _).mem_iff.1 hp)
      have hatoms : ∀ a ∈ (sortById ks).filter (·.isLeaf), a.isLeaf = true := fun a ha => (List.mem_filter.1 ha).2
      have hgrp : ∀ l : List P, (∀ a ∈ l, a.isLeaf = true) → Safe (negGroup l) := fun l hl =>
        safe_leafnode _ _ _ _ l _ (Or.inr rfl) hl
      have hsorted : ∀ k ∈ sortById ks, k ∈ ks := fun k hk => (sortById_perm ks).mem_iff.1 hk
      simp only [negate]
      split
      · rename_i hc
        split
        · simp only [Safe]; exact ⟨Or.inl trivial, (SafeL_iff _).2 hnegs⟩
        · split
          · simp only [Safe]
            refine ⟨Or.inl trivial, (SafeL_iff _).2 ?_⟩
            intro k hk
            rcases List.mem_append.1 hk with h | h
            · exact hnegs k h
            · simp at h; subst h; exact hgrp _ hatoms
          · split
            · simp only [Safe]
              refine ⟨Or.inl trivial, (SafeL_iff _).2 ?_⟩
              intro k hk
              rcases List.mem_append.1 hk with h | h
              · exact hnegs k h
              · obtain ⟨a, ha, rfl⟩ := List.mem_map.1 h
                exact hgrp [a] (by intro x hx; simp at hx; rw [hx]; exact hatoms a ha)
            · -- not reachable with boolean leaves: every atom is (0,1)
              rename_i hnb
              exfalso; apply hnb
              apply List.all_eq_true.2
              intro a ha
              have hak : a ∈ ks := hsorted a (List.mem_filter.1 ha).1
              have hbl := (BoolLeavesL_iff ks).1 hb' a hak
              have hl := hatoms a ha
              cases a with
              | leaf j bj => simpa [BoolLeaves, bnd] using hbl
              | node => simp [isLeaf] at hl
      · rename_i hc
        -- no inward push: either the sign was −1 (all children leaves) or there is no compound child
        have hall : ∀ k ∈ ks, k.isLeaf = true := by
          rcases hs1 with rfl | ⟨_, hl⟩
          · intro k hk
            cases hk' : k.isLeaf with
            | true => rfl
            | false =>
                exfalso; apply hc
                refine ⟨rfl, ?_⟩
                have : k ∈ ks.filter (fun k => !k.isLeaf) := List.mem_filter.2 ⟨hk, by simp [hk']⟩
                intro h0
                have := List.length_pos_of_mem this
                omega
          · exact hl
        have hsgn : -s = 1 ∨ -s = -1 := by rcases hs1 with rfl | ⟨rfl, _⟩ <;> simp
        exact safe_leafnode _ _ _ _ _ _ hsgn (fun k hk => hall k (hsorted k hk))
theorem negPairs_safe : ∀ ks, SafeL ks → BoolLeavesL ks → ∀ p ∈ negPairs ks, Safe p.2
  | [], _, _ => by simp [negPairs]
  | .leaf i b :: ks, hs, hb => by
      have ⟨_, s2⟩ : Safe (.leaf i b) ∧ SafeL ks := by simpa [SafeL] using hs
      have ⟨_, b2⟩ : BoolLeaves (.leaf i b) ∧ BoolLeavesL ks := by simpa [BoolLeavesL] using hb
      simpa [negPairs] using negPairs_safe ks s2 b2
  | .node i b s v ks' m :: ks, hs, hb => by
      have ⟨s1, s2⟩ : Safe (.node i b s v ks' m) ∧ SafeL ks := by simpa [SafeL] using hs
      have ⟨b1, b2⟩ : BoolLeaves (.node i b s v ks' m) ∧ BoolLeavesL ks := by simpa [BoolLeavesL] using hb
      intro p hp
      simp only [negPairs, List.mem_cons] at hp
      rcases hp with rfl | hp
      · exact negate_safe _ s1 b1
      · exact negPairs_safe ks s2 b2 p hp
end

/-- non-vacuity / regression witness of defect D1 (value 2 over a mixed child list): the
    hypotheses of `negate_compl` hold of it, so its negation is false where it is true -/
example :
    let t : P := .node "T" ⟨0,1⟩ 1 2 [.node "B" ⟨0,1⟩ 1 1 [.leaf "a" ⟨0,1⟩, .leaf "b" ⟨0,1⟩] {}, .leaf "b" ⟨0,1⟩, .leaf "c" ⟨0,1⟩] {}
    let σ : String → Int := fun _ => 1
    evalPt σ t = 1 ∧ evalPt σ (negate t) = 0 := by
  intro t σ
  have h1 : evalPt σ t = 1 := by decide
  have hs : SignOk t := by simp [t, SignOk, SignOks]
  have hb : InB σ t := by simp [t, σ, InB, InBs]
  have := negate_compl σ t hs hb rfl
  omega

/-! ### the negation is a proposition like any other: negated once more -/

theorem negate_isLeaf (i b s v ks) (m : Meta) : (negate (.node i b s v ks m)).isLeaf = false := by
  simp only [negate]
  split
  · split
    · rfl
    · split
      · rfl
      · split <;> rfl
  · rfl

theorem negate_gen (i b s v ks) (m : Meta) : (negate (.node i b s v ks m)).mt.gen = m.gen := by
  simp only [negate]
  split
  · split
    · rfl
    · split
      · rfl
      · split <;> rfl
  · rfl

/-- **double negation is the model again** on every assignment inside the leaf bounds … -/
theorem negate_negate_eval (σ : String → Int) (i b s v ks) (m : Meta) (hg : Good σ (.node i b s v ks m)) :
    evalPt σ (negate (negate (.node i b s v ks m))) = evalPt σ (.node i b s v ks m) := by
  have h1 := negate_compl σ (.node i b s v ks m) hg.1 hg.2 rfl
  have hg' := good_negate σ _ hg
  have h2 := negate_compl σ (negate (.node i b s v ks m)) hg'.1 hg'.2 (negate_isLeaf i b s v ks m)
  rw [h2, h1]; omega

/-- … and an explicitly given id survives any number of negations (two, here): the second negation still sees it as given -/
theorem negate_negate_id (i b s v ks) (m : Meta) (h : m.gen = false) :
    (negate (negate (.node i b s v ks m))).id = i := by
  have hid := negate_keeps_id i b s v ks m h
  have hgen := negate_gen i b s v ks m
  generalize hn : negate (.node i b s v ks m) = n at hid hgen
  have hl := negate_isLeaf i b s v ks m
  rw [hn] at hl
  cases n with
  | leaf => simp [isLeaf] at hl
  | node i' b' s' v' ks' m' =>
      simp only [P.id] at hid; subst hid
      simp only [P.mt] at hgen
      exact negate_keeps_id _ b' s' v' ks' m' (by rw [hgen, h])

/-! ### a model whose own variable is fixed (finding F05b, repaired)

`evaluate` lets a node whose own variable has constant bounds take that constant (C03, `evalOv`).  `negate` used to hand the
variable of an explicitly named node on as it was, so the negation of a model fixed to 1 was fixed to 1 as well; since the
`fix:` commit it fixes the negation to the opposite constant. -/

theorem negate_shape (i b s v ks) (m : Meta) :
    ∃ s' v' ks' m', negate (.node i b s v ks m) =
      .node (if m.gen then genId (sortById ks) (1 - v) (some (-s)) else i)
        (if m.gen then ⟨0, 1⟩ else if b.lo = b.hi then ⟨1 - b.hi, 1 - b.lo⟩ else b) s' v' ks' m' := by
  simp only [negate]
  split
  · split
    · exact ⟨_, _, _, _, rfl⟩
    · split
      · exact ⟨_, _, _, _, rfl⟩
      · split <;> exact ⟨_, _, _, _, rfl⟩
  · exact ⟨_, _, _, _, rfl⟩

/-- **the negation of a model fixed by its own variable is fixed to the opposite constant**: with the node-fixing rule of
    `evaluate` (`evalOv`, empty dictionary) the negation evaluates to 1 − the model, whatever the children say -/
theorem negate_fixed_top (σ : String → Int) (i b s v ks) (m : Meta) (hg : m.gen = false) (hc : b.lo = b.hi) :
    evalOv (fun _ => none) σ (negate (.node i b s v ks m)) = 1 - evalOv (fun _ => none) σ (.node i b s v ks m) := by
  obtain ⟨s', v', ks', m', h⟩ := negate_shape i b s v ks m
  rw [h]
  simp only [hg, Bool.false_eq_true, if_false, hc, if_true, evalOv, Option.getD_none]

/-- … and a node that is not fixed stays not fixed: its negation is computed from the children as before -/
theorem negate_free_top (i b s v ks) (m : Meta) (hc : ¬ b.lo = b.hi) :
    ¬ (negate (.node i b s v ks m)).bnd.lo = (negate (.node i b s v ks m)).bnd.hi := by
  obtain ⟨s', v', ks', m', h⟩ := negate_shape i b s v ks m
  rw [h]
  simp only [P.bnd]
  split
  · simp
  · simp [hc]

/-! ### the full statement under `evaluate`'s node-fixing rule: fixed nodes anywhere in the model

`eF` = `evalOv` with the empty dictionary: a node whose own variable has constant bounds takes that constant, every other
node is computed from its children.  With the repair of F05b the negation is the complement at every node, fixed or not. -/

mutual
theorem negate_compl_fx (σ : String → Int) : ∀ p, SignOk p → InB σ p → FixOk p → p.isLeaf = false →
    eF σ (negate p) = 1 - eF σ p
  | .leaf .., _, _, _, h => by simp [isLeaf] at h
  | .node i b s v ks m, hs, hb, hf, _ => by
      by_cases hfix : b.lo = b.hi
      · have hfo : (b.lo = 0 ∨ b.lo = 1) ∧ m.gen = false := by simp only [FixOk] at hf; exact hf.1 hfix
        exact negate_fixed_top σ i b s v ks m hfo.2 hfix
      · have ⟨hs1, hs2⟩ : (s = 1 ∨ s = -1) ∧ SignOks ks := by simpa [SignOk] using hs
        have hf2 : FixOks ks := by simp only [FixOk] at hf; exact hf.2
        have hb' : InBs σ ks := by simpa [InB] using hb
        have hsplit := sF_split σ ks
        have hneg := negPairs_sum_fx σ ks hs2 hb' hf2
        have hnegS := sF_sortPairs σ (negPairs ks)
        have hc := sF_nodes_range σ (comps ks) (by
          intro k hk; have := (List.mem_filter.1 hk).2; simpa using this)
          (fun k hk => (FixOks_iff ks).1 hf2 k (List.mem_filter.1 hk).1)
        have hsort := sF_sort σ ks
        have hal : ∀ a ∈ atoms (sortById ks), a.isLeaf = true := fun a ha => (List.mem_filter.1 ha).2
        have hal0 : ∀ a ∈ atoms ks, a.isLeaf = true := fun a ha => (List.mem_filter.1 ha).2
        have hat : sumPt σ (atoms (sortById ks)) = sumPt σ (atoms ks) := sumPt_perm σ (atoms_sort_perm ks)
        have hatF0 : sF σ (atoms ks) = sumPt σ (atoms ks) := sF_leaves σ _ hal0
        have hbs : ∀ a ∈ atoms (sortById ks), InB σ a := fun a ha =>
          (InBs_iff σ ks).1 hb' a ((sortById_perm ks).mem_iff.1 (List.mem_filter.1 ha).1)
        have hlen : (ks.filter (fun k => !k.isLeaf)).length = (comps ks).length := rfl
        have hnb : ¬ (if m.gen = true then (⟨0, 1⟩ : Bnd) else if b.lo = b.hi then ⟨1 - b.hi, 1 - b.lo⟩ else b).lo =
            (if m.gen = true then (⟨0, 1⟩ : Bnd) else if b.lo = b.hi then ⟨1 - b.hi, 1 - b.lo⟩ else b).hi := by
          split
          · simp
          · simp [hfix]
        have hnb2 : ¬ (if m.gen = true then (⟨0, 1⟩ : Bnd) else b).lo = (if m.gen = true then (⟨0, 1⟩ : Bnd) else b).hi := by
          split
          · simp
          · exact hfix
        have horig : eF σ (.node i b s v ks m) = if s * sF σ ks ≥ v then 1 else 0 := eF_free σ i b s v ks m hfix
        have hnegsum : sF σ ((sortPairs (negPairs ks)).map (·.2)) = (comps ks).length - sF σ (comps ks) := by
          rw [hnegS, hneg]
        rw [horig]
        simp only [negate]
        split
        · rename_i hc1
          obtain ⟨rfl, _⟩ := hc1
          split
          · rename_i ha
            have ha' : atoms (sortById ks) = [] := ha
            rw [ha'] at hat
            (first | rw [eF_free σ _ _ _ _ _ _ hnb2] | rw [eF_free σ _ _ _ _ _ _ hnb]); rw [hnegsum]
            simp only [sumPt] at hat
            split <;> split <;> omega
          · split
            · rename_i hv
              obtain ⟨rfl, hnn⟩ := hv
              have h0 := leaves_nonneg σ (atoms (sortById ks)) hbs
                (fun a ha => ⟨(List.mem_filter.1 ha).2, by
                    have := List.all_eq_true.1 hnn a ha; simpa using this⟩)
              have hg : eF σ (negGroup (atoms (sortById ks))) = if -1 * sumPt σ (atoms (sortById ks)) ≥ 0 then 1 else 0 := by
                unfold negGroup
                rw [eF_free_leafkids σ _ ⟨0, 1⟩ _ _ _ _ (by simp) hal]
                simp [evalPt]
              have hsum : sF σ ((sortPairs (negPairs ks)).map (·.2) ++ [negGroup (atoms (sortById ks))]) =
                  (comps ks).length - sF σ (comps ks) + (if -1 * sumPt σ (atoms (sortById ks)) ≥ 0 then 1 else 0) := by
                rw [sF_append, hnegsum, sF_single, hg]
              first | rw [eF_free σ _ _ _ _ _ _ hnb2] | rw [eF_free σ _ _ _ _ _ _ hnb]
              show (if 1 * sF σ ((sortPairs (negPairs ks)).map (·.2) ++ [negGroup (atoms (sortById ks))]) ≥ _ then (1 : Int) else 0) = _
              rw [hsum]
              split <;> split <;> split <;> omega
            · split
              · rename_i hbool
                have hw := wrap_sum σ (atoms (sortById ks)) hbs
                  (fun a ha => ⟨(List.mem_filter.1 ha).2, by
                    have := List.all_eq_true.1 hbool a ha; simpa using this⟩)
                have hwF := sF_wrap σ (atoms (sortById ks)) hal
                have hsum : sF σ ((sortPairs (negPairs ks)).map (·.2) ++ (atoms (sortById ks)).map (fun a => negGroup [a])) =
                    (comps ks).length - sF σ (comps ks) + ((atoms (sortById ks)).length - sumPt σ (atoms (sortById ks))) := by
                  rw [sF_append, hnegsum, hwF, hw]
                first | rw [eF_free σ _ _ _ _ _ _ hnb2] | rw [eF_free σ _ _ _ _ _ _ hnb]
                show (if 1 * sF σ ((sortPairs (negPairs ks)).map (·.2) ++ (atoms (sortById ks)).map (fun a => negGroup [a])) ≥ _ then (1 : Int) else 0) = _
                rw [hsum]
                have hlen2 : (List.filter (fun x => x.isLeaf) (sortById ks)).length = (atoms (sortById ks)).length := rfl
                split <;> split <;> omega
              · simp only [negFlat]
                (first | rw [eF_free σ _ _ _ _ _ _ hnb2] | rw [eF_free σ _ _ _ _ _ _ hnb]); rw [hsort]
                split <;> split <;> omega
        · simp only [negFlat]
          (first | rw [eF_free σ _ _ _ _ _ _ hnb2] | rw [eF_free σ _ _ _ _ _ _ hnb]); rw [hsort]
          rcases hs1 with rfl | rfl <;> (split <;> split <;> omega)
theorem negPairs_sum_fx (σ : String → Int) : ∀ ks, SignOks ks → InBs σ ks → FixOks ks →
    sF σ ((negPairs ks).map (·.2)) = (comps ks).length - sF σ (comps ks)
  | [], _, _, _ => by simp [negPairs, comps, sF, sumOv]
  | .leaf i b :: ks, hs, hb, hf => by
      have ⟨_, s2⟩ : SignOk (.leaf i b) ∧ SignOks ks := by simpa [SignOks] using hs
      have ⟨_, b2⟩ : InB σ (.leaf i b) ∧ InBs σ ks := by simpa [InBs] using hb
      have ⟨_, f2⟩ : FixOk (.leaf i b) ∧ FixOks ks := by simpa [FixOks] using hf
      simpa [negPairs, comps, isLeaf] using negPairs_sum_fx σ ks s2 b2 f2
  | .node i b s v ks' m :: ks, hs, hb, hf => by
      have ⟨s1, s2⟩ : SignOk (.node i b s v ks' m) ∧ SignOks ks := by simpa [SignOks] using hs
      have ⟨b1, b2⟩ : InB σ (.node i b s v ks' m) ∧ InBs σ ks := by simpa [InBs] using hb
      have ⟨f1, f2⟩ : FixOk (.node i b s v ks' m) ∧ FixOks ks := by
        simp only [FixOks] at hf; exact hf
      have ih := negPairs_sum_fx σ ks s2 b2 f2
      have h := negate_compl_fx σ (.node i b s v ks' m) s1 b1 f1 rfl
      simp only [eF] at h
      simp only [negPairs, comps, List.filter_cons, isLeaf, Bool.not_false, if_true, sF, sumOv,
        List.length_cons, List.map_cons, h] at *
      omega
end

mutual
/-- the negation of a model with well-formed fixed nodes has well-formed fixed nodes -/
theorem fixOk_negate : ∀ p, FixOk p → FixOk (negate p)
  | .leaf i b, _ => by simp [negate, FixOk]
  | .node i b s v ks m, h => by
      have ⟨hb, hk⟩ : (b.lo = b.hi → (b.lo = 0 ∨ b.lo = 1) ∧ m.gen = false) ∧ FixOks ks := by simpa [FixOk] using h
      have hk' : ∀ k ∈ ks, FixOk k := (FixOks_iff ks).1 hk
      have hsorted : ∀ k ∈ sortById ks, FixOk k := fun k hk'' => hk' k ((sortById_perm ks).mem_iff.1 hk'')
      have hnp := fixOk_negPairs ks hk'
      have hnegs : ∀ k ∈ (sortPairs (negPairs ks)).map (·.2), FixOk k := by
        intro k hk''
        obtain ⟨p, hp, rfl⟩ := List.mem_map.1 hk''
        exact hnp p ((List.mergeSort_perm _ _).mem_iff.1 hp)
      have hgrp : ∀ l : List P, (∀ a ∈ l, a.isLeaf = true) → FixOk (negGroup l) := fun l hl => by
        simp only [negGroup, FixOk]
        refine ⟨by simp, (FixOks_iff l).2 (fun a ha => ?_)⟩
        have := hl a ha
        cases a with
        | leaf => simp [FixOk]
        | node => simp [isLeaf] at this
      have hatoms : ∀ a ∈ (sortById ks).filter (·.isLeaf), a.isLeaf = true := fun a ha => (List.mem_filter.1 ha).2
      have hnb : ∀ (s' v' : Int) (ks' : List P), (∀ k ∈ ks', FixOk k) →
          FixOk (.node (if m.gen then genId (sortById ks) (1 - v) (some (-s)) else i)
            (if m.gen then ⟨0, 1⟩ else if b.lo = b.hi then ⟨1 - b.hi, 1 - b.lo⟩ else b) s' v' ks' { gen := m.gen }) := by
        intro s' v' ks' hks'
        simp only [FixOk]
        refine ⟨?_, (FixOks_iff ks').2 hks'⟩
        by_cases hg : m.gen = true
        · simp [hg]
        · have hg' : m.gen = false := by simpa using hg
          by_cases hfx : b.lo = b.hi
          · have := (hb hfx).1
            simp only [hg', Bool.false_eq_true, if_false, hfx, if_true]
            intro _
            refine ⟨?_, trivial⟩
            rcases this with h0 | h1 <;> omega
          · simp only [hg', Bool.false_eq_true, if_false, hfx]
            intro hc; exact absurd hc (by simp)
      simp only [negate]
      split
      · split
        · exact hnb _ _ _ hnegs
        · split
          · apply hnb
            intro k hk''
            rcases List.mem_append.1 hk'' with h' | h'
            · exact hnegs k h'
            · simp at h'; subst h'; exact hgrp _ hatoms
          · split
            · apply hnb
              intro k hk''
              rcases List.mem_append.1 hk'' with h' | h'
              · exact hnegs k h'
              · obtain ⟨a, ha, rfl⟩ := List.mem_map.1 h'
                exact hgrp [a] (by intro x hx; simp at hx; rw [hx]; exact hatoms a ha)
            · exact hnb _ _ _ hsorted
      · exact hnb _ _ _ hsorted
theorem fixOk_negPairs : ∀ ks : List P, (∀ k ∈ ks, FixOk k) → ∀ p ∈ negPairs ks, FixOk p.2
  | [], _ => by simp [negPairs]
  | .leaf i b :: ks, h => by
      simpa [negPairs] using fixOk_negPairs ks (fun k hk => h k (List.mem_cons_of_mem _ hk))
  | .node i b s v ks' m :: ks, h => by
      intro p hp
      simp only [negPairs, List.mem_cons] at hp
      rcases hp with rfl | hp
      · exact fixOk_negate _ (h _ (by simp))
      · exact fixOk_negPairs ks (fun k hk => h k (List.mem_cons_of_mem _ hk)) p hp
end

/-- **double negation under the node-fixing rule**: negating the negation gives back a model that evaluates like the
    original, fixed nodes included -/
theorem negate_negate_fx (σ : String → Int) (i b s v ks) (m : Meta) (hg : Good σ (.node i b s v ks m))
    (hf : FixOk (.node i b s v ks m)) :
    eF σ (negate (negate (.node i b s v ks m))) = eF σ (.node i b s v ks m) := by
  have h1 := negate_compl_fx σ (.node i b s v ks m) hg.1 hg.2 hf rfl
  have hg' := good_negate σ _ hg
  have h2 := negate_compl_fx σ (negate (.node i b s v ks m)) hg'.1 hg'.2 (fixOk_negate _ hf) (negate_isLeaf i b s v ks m)
  rw [h2, h1]; omega

/-- non-vacuity / regression witness of finding F05b: `Any(All('a','b', variable=A fixed to 1), 'c', variable='T')` is true
    whatever the leaves say; its negation is false (it was true at c = 0 before the repair) -/
example :
    let t : P := .node "T" ⟨0,1⟩ 1 1 [.node "A" ⟨1,1⟩ 1 2 [.leaf "a" ⟨0,1⟩, .leaf "b" ⟨0,1⟩] {}, .leaf "c" ⟨0,1⟩] {}
    let σ : String → Int := fun _ => 0
    eF σ t = 1 ∧ eF σ (negate t) = 0 := by
  intro t σ
  have h1 : eF σ t = 1 := by decide
  have hs : SignOk t := by simp [t, SignOk, SignOks]
  have hb : InB σ t := by simp [t, σ, InB, InBs]
  have hf : FixOk t := by simp [t, FixOk, FixOks]
  have := negate_compl_fx σ t hs hb hf rfl
  exact ⟨h1, by rw [this, h1]; rfl⟩

/-- non-vacuity: the D1 witness negated twice is true again where it was true, and is still called "T" -/
example :
    let t : P := .node "T" ⟨0,1⟩ 1 2 [.node "B" ⟨0,1⟩ 1 1 [.leaf "a" ⟨0,1⟩, .leaf "b" ⟨0,1⟩] {}, .leaf "b" ⟨0,1⟩, .leaf "c" ⟨0,1⟩] {}
    let σ : String → Int := fun _ => 1
    evalPt σ (negate (negate t)) = 1 ∧ (negate (negate t)).id = "T" := by
  intro t σ
  have h1 : evalPt σ t = 1 := by decide
  have hg : Good σ t := ⟨by simp [t, SignOk, SignOks], by simp [t, σ, InB, InBs]⟩
  exact ⟨(negate_negate_eval σ _ _ _ _ _ _ hg).trans h1, negate_negate_id _ _ _ _ _ _ rfl⟩

end Puan.C05
