import Puan.Model.Errors
namespace Puan.C10
theorem placeholder : True := trivial
end Puan.C10
