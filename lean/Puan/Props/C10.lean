/-
  C10 — validation accepts exactly the well-defined models.
  About `errors` as repaired by the fix: commits for defects D4 (definitions compared, every
  occurrence seen) and D5 (edges as pairs).  The cycle clause is modelled (reachability in the
  id graph with dict override) and tied, not proved: `graphlib` is trusted to decide it.
-/
import Puan.Model.Errors
namespace Puan.C10
open Puan P

theorem errors_nil_iff (t : P) :
    errors t = [] ↔ hasCycle t = false ∧ ambivalentVars t = false ∧ ambivalentComps t = false ∧ dupEdges t = false := by
  unfold errors
  cases hasCycle t <;> cases ambivalentVars t <;> cases ambivalentComps t <;> cases dupEdges t <;> simp

theorem any_any_false {α} (l l2 : List α) (p : α → α → Bool) :
    (l.any (fun a => l2.any (fun b => p a b))) = false ↔ ∀ a ∈ l, ∀ b ∈ l2, p a b = false := by
  constructor
  · intro h a ha b hb
    cases hp : p a b with
    | false => rfl
    | true =>
        have : (l.any (fun a => l2.any (fun b => p a b))) = true :=
          List.any_eq_true.2 ⟨a, ha, List.any_eq_true.2 ⟨b, hb, hp⟩⟩
        rw [h] at this; cases this
  · intro h
    cases hq : (l.any (fun a => l2.any (fun b => p a b))) with
    | false => rfl
    | true =>
        obtain ⟨a, ha, h2⟩ := List.any_eq_true.1 hq
        obtain ⟨b, hb, hp⟩ := List.any_eq_true.1 h2
        rw [h a ha b hb] at hp; cases hp

/-- A model that passes validation gives every id a single pair of bounds … -/
theorem single_bounds (t : P) (h : errors t = []) :
    ∀ a ∈ subs t, ∀ b ∈ subs t, a.id = b.id → a.bnd = b.bnd := by
  have hv := ((errors_nil_iff t).1 h).2.1
  intro a ha b hb hid
  have := (any_any_false _ _ _).1 hv a ha b hb
  simp only [hid, beq_self_eq_true, Bool.true_and, Bool.not_eq_false', Bool.and_eq_true, beq_iff_eq] at this
  cases ha' : a.bnd; cases hb' : b.bnd
  simp_all

/-- … and every sub-proposition id a single sign, value and list of child ids. -/
theorem single_definition (t : P) (h : errors t = []) :
    ∀ a ∈ subs t, ∀ b ∈ subs t, a.isLeaf = false → b.isLeaf = false → a.id = b.id → sameDef a b = true := by
  have hc := ((errors_nil_iff t).1 h).2.2.1
  intro a ha b hb hla hlb hid
  have := (any_any_false _ _ _).1 hc a (List.mem_filter.2 ⟨ha, by simp [hla]⟩) b (List.mem_filter.2 ⟨hb, by simp [hlb]⟩)
  simpa [hid] using this

theorem sameDef_spec (i b s v ks m j c s' v' ls m') (h : sameDef (.node i b s v ks m) (.node j c s' v' ls m') = true) :
    b = c ∧ s = s' ∧ v = v' ∧ ks.map (·.id) = ls.map (·.id) := by
  simp only [sameDef, Bool.and_eq_true, beq_iff_eq] at h
  obtain ⟨⟨⟨⟨h1, h2⟩, h3⟩, h4⟩, h5⟩ := h
  refine ⟨?_, h3, h4, h5⟩
  cases b; cases c; simp_all

theorem hasDup_false_nodup : ∀ l : List (String × String), hasDup l = false → l.Nodup
  | [], _ => List.nodup_nil
  | x :: xs, h => by
      simp only [hasDup, Bool.or_eq_false_iff] at h
      refine List.nodup_cons.2 ⟨?_, hasDup_false_nodup xs h.2⟩
      intro hx
      have : xs.contains x = true := List.contains_iff_mem.2 hx
      rw [this] at h; exact absurd h.1 (by simp)

mutual
theorem beq_id_kids : ∀ (a b : P), beq a b = true → a.id = b.id ∧ a.kids.map (·.id) = b.kids.map (·.id)
  | .leaf i b, .leaf j c, h => by
      simp only [beq, Bool.and_eq_true, beq_iff_eq] at h
      simp [P.id, P.kids, h.1.1]
  | .leaf .., .node .., h => by simp [beq] at h
  | .node .., .leaf .., h => by simp [beq] at h
  | .node i b s v ks m, .node j c t w ls n, h => by
      simp only [beq, Bool.and_eq_true, beq_iff_eq] at h
      refine ⟨by simp only [P.id]; exact h.1.1.1.1.1.1, ?_⟩
      simpa [P.kids] using beqL_ids ks ls h.2
theorem beqL_ids : ∀ (ks ls : List P), beqL ks ls = true → ks.map (·.id) = ls.map (·.id)
  | [], [], _ => rfl
  | [], _ :: _, h => by simp [beqL] at h
  | _ :: _, [], h => by simp [beqL] at h
  | k :: ks, l :: ls, h => by
      simp only [beqL, Bool.and_eq_true] at h
      simp [(beq_id_kids k l h.1).1, beqL_ids ks ls h.2]
end

mutual
theorem beq_refl : ∀ a : P, beq a a = true
  | .leaf i b => by simp [beq]
  | .node i b s v ks m => by simp [beq, beqL_refl ks]
theorem beqL_refl : ∀ ks : List P, beqL ks ks = true
  | [] => rfl
  | k :: ks => by simp [beqL, beq_refl k, beqL_refl ks]
end

/-- every sub-proposition has a representative in the flattened (de-duplicated) list with the
    same id and the same child ids -/
theorem dedupBeq_rep : ∀ (l : List P) (a : P), a ∈ l →
    ∃ r ∈ dedupBeq l, r.id = a.id ∧ r.kids.map (·.id) = a.kids.map (·.id)
  | [], a, h => by simp at h
  | x :: xs, a, h => by
      simp only [dedupBeq]
      rcases List.mem_cons.1 h with rfl | h'
      · split
        · rename_i hany
          obtain ⟨y, hy, hb⟩ := List.any_eq_true.1 hany
          obtain ⟨r, hr, h1, h2⟩ := dedupBeq_rep xs y hy
          have := beq_id_kids a y hb
          exact ⟨r, hr, by rw [h1, this.1], by rw [h2, this.2]⟩
        · exact ⟨a, by simp, rfl, rfl⟩
      · obtain ⟨r, hr, h1, h2⟩ := dedupBeq_rep xs a h'
        split
        · exact ⟨r, hr, h1, h2⟩
        · exact ⟨r, by simp [hr], h1, h2⟩

theorem nodup_of_map_nodup {α β} (f : α → β) : ∀ l : List α, (l.map f).Nodup → l.Nodup
  | [], _ => List.nodup_nil
  | x :: xs, h => by
      simp only [List.map_cons, List.nodup_cons, List.mem_map, not_exists, not_and] at h
      exact List.nodup_cons.2 ⟨fun hx => h.1 x hx rfl, nodup_of_map_nodup f xs h.2⟩

theorem nodup_of_flatMap {α β} (f : α → List β) : ∀ (l : List α) (a : α), a ∈ l → (l.flatMap f).Nodup → (f a).Nodup
  | [], a, h, _ => by simp at h
  | x :: xs, a, h, hn => by
      simp only [List.flatMap_cons] at hn
      rcases List.mem_cons.1 h with rfl | h'
      · exact (List.nodup_append.1 hn).1
      · exact nodup_of_flatMap f xs a h' (List.nodup_append.1 hn).2.1

/-- … and no node lists the same child twice. -/
theorem no_duplicate_child (t : P) (h : errors t = []) :
    ∀ n ∈ subs t, (n.kids.map (·.id)).Nodup := by
  have hd := ((errors_nil_iff t).1 h).2.2.2
  intro n hn
  cases hl : n.isLeaf with
  | true => cases n <;> simp_all [isLeaf, P.kids]
  | false =>
      have hmem : n ∈ (subs t).filter (fun k => !k.isLeaf) := List.mem_filter.2 ⟨hn, by simp [hl]⟩
      obtain ⟨r, hr, hid, hkids⟩ := dedupBeq_rep _ n hmem
      have hnod := hasDup_false_nodup _ hd
      have hre := nodup_of_flatMap edges _ r hr hnod
      rw [← hkids]
      cases r with
      | leaf i b => simp [P.kids]
      | node i b s v ks m =>
          simp only [edges] at hre
          simp only [P.kids]
          have : (ks.map (fun k => (i, k.id))) = (ks.map (·.id)).map (fun c => (i, c)) := by simp
          rw [this] at hre
          exact nodup_of_map_nodup _ _ hre

theorem nodup_map_inj {α β} (f : α → β) : ∀ (l : List α), (l.map f).Nodup → ∀ a ∈ l, ∀ b ∈ l, f a = f b → a = b
  | [], _, a, ha, _, _, _ => by simp at ha
  | x :: l, hn, a, ha, b, hb, hab => by
      simp only [List.map_cons, List.nodup_cons, List.mem_map, not_exists, not_and] at hn
      rcases List.mem_cons.1 ha with rfl | ha' <;> rcases List.mem_cons.1 hb with rfl | hb'
      · rfl
      · exact absurd hab.symm (hn.1 b hb')
      · exact absurd hab (hn.1 a ha')
      · exact nodup_map_inj f l hn.2 a ha' b hb' hab

theorem nodup_ids_inj (t : P) (hn : ((subs t).map (·.id)).Nodup) :
    ∀ a ∈ subs t, ∀ b ∈ subs t, a.id = b.id → a = b :=
  fun a ha b hb hid => nodup_map_inj (·.id) (subs t) hn a ha b hb hid

theorem sameDef_refl : ∀ a : P, sameDef a a = true
  | .leaf .. => rfl
  | .node .. => by simp [sameDef]

/-- Conversely, on a tree-shaped model with pairwise distinct ids neither ambivalence check fires. -/
theorem distinct_ids_not_ambivalent (t : P) (hn : ((subs t).map (·.id)).Nodup) :
    ambivalentVars t = false ∧ ambivalentComps t = false := by
  have hinj := nodup_ids_inj t hn
  constructor
  · apply (any_any_false _ _ _).2
    intro a ha b hb
    cases hid : (a.id == b.id) with
    | false => simp
    | true =>
        have := hinj a ha b hb (by simpa using hid)
        subst this; simp
  · apply (any_any_false _ _ _).2
    intro a ha b hb
    cases hid : (a.id == b.id) with
    | false => simp
    | true =>
        have := hinj a (List.mem_filter.1 ha).1 b (List.mem_filter.1 hb).1 (by simpa using hid)
        subst this; simp [sameDef_refl]

/-! ### the converse for models that merely share identical sub-propositions -/

theorem nodup_hasDup_false : ∀ l : List (String × String), l.Nodup → hasDup l = false
  | [], _ => rfl
  | x :: xs, h => by
      have ⟨h1, h2⟩ := List.nodup_cons.1 h
      simp only [hasDup, Bool.or_eq_false_iff]
      exact ⟨by simpa using h1, nodup_hasDup_false xs h2⟩

theorem dedupBeq_sub : ∀ (l : List P) (x : P), x ∈ dedupBeq l → x ∈ l
  | [], x, h => by simp [dedupBeq] at h
  | y :: ys, x, h => by
      simp only [dedupBeq] at h
      split at h
      · exact List.mem_cons_of_mem _ (dedupBeq_sub ys x h)
      · rcases List.mem_cons.1 h with rfl | h
        · simp
        · exact List.mem_cons_of_mem _ (dedupBeq_sub ys x h)

/-- when one id means one node, the flattened list has pairwise distinct ids -/
theorem dedupBeq_ids_nodup : ∀ l : List P, (∀ a ∈ l, ∀ b ∈ l, a.id = b.id → a = b) → ((dedupBeq l).map (·.id)).Nodup
  | [], _ => by simp [dedupBeq]
  | x :: xs, h => by
      have ih := dedupBeq_ids_nodup xs (fun a ha b hb => h a (List.mem_cons_of_mem _ ha) b (List.mem_cons_of_mem _ hb))
      simp only [dedupBeq]
      split
      · exact ih
      · rename_i hany
        simp only [List.map_cons, List.nodup_cons, List.mem_map, not_exists, not_and]
        refine ⟨fun r hr hid => ?_, ih⟩
        have hrx : r ∈ xs := dedupBeq_sub xs r hr
        have : r = x := h r (List.mem_cons_of_mem _ hrx) x (by simp) hid
        subst this
        exact hany (List.any_eq_true.2 ⟨r, hrx, beq_refl r⟩)

theorem mem_edges_fst (n : P) (e : String × String) (h : e ∈ edges n) : e.1 = n.id := by
  cases n with
  | leaf i b => simp [edges] at h
  | node i b s v ks m =>
      simp only [edges, List.mem_map] at h
      obtain ⟨k, _, rfl⟩ := h
      rfl

theorem nodup_map_of_inj {α β} (f : α → β) (hf : ∀ a b, f a = f b → a = b) : ∀ l : List α, l.Nodup → (l.map f).Nodup
  | [], _ => by simp
  | x :: xs, h => by
      have ⟨h1, h2⟩ := List.nodup_cons.1 h
      simp only [List.map_cons, List.nodup_cons, List.mem_map, not_exists, not_and]
      exact ⟨fun y hy hxy => h1 (by rw [← hf y x hxy]; exact hy), nodup_map_of_inj f hf xs h2⟩

theorem edges_nodup (n : P) (h : (n.kids.map (·.id)).Nodup) : (edges n).Nodup := by
  cases n with
  | leaf i b => simp [edges]
  | node i b s v ks m =>
      simp only [edges, P.kids] at *
      have : ks.map (fun k => (i, k.id)) = (ks.map (·.id)).map (fun c => (i, c)) := by simp
      rw [this]
      exact nodup_map_of_inj _ (fun a b hab => by simpa using hab) _ h

theorem flatMap_edges_nodup : ∀ l : List P, (l.map (·.id)).Nodup → (∀ n ∈ l, (n.kids.map (·.id)).Nodup) →
    (l.flatMap edges).Nodup
  | [], _, _ => by simp
  | x :: xs, hn, hk => by
      simp only [List.map_cons, List.nodup_cons, List.mem_map, not_exists, not_and] at hn
      simp only [List.flatMap_cons]
      refine List.nodup_append.2 ⟨edges_nodup x (hk x (by simp)),
        flatMap_edges_nodup xs hn.2 (fun n hn' => hk n (List.mem_cons_of_mem _ hn')), ?_⟩
      intro e he e' he' hee
      subst hee
      obtain ⟨y, hy, hey⟩ := List.mem_flatMap.1 he'
      have h1 := mem_edges_fst x e he
      have h2 := mem_edges_fst y e hey
      exact hn.1 y hy (by rw [← h2, h1])

/-- Conversely: a model in which one id always means one and the same sub-proposition (shared objects or identical
    copies — tree-shaped models with pairwise distinct ids are the special case) and in which no node lists a child
    twice passes both ambivalence checks and the duplicate-edge check; with an acyclic id graph (the clause `graphlib`
    decides) it is accepted. -/
theorem shared_identical_accepted (t : P)
    (hs : ∀ a ∈ subs t, ∀ b ∈ subs t, a.id = b.id → a = b)
    (hk : ∀ n ∈ subs t, (n.kids.map (·.id)).Nodup) (hc : hasCycle t = false) :
    errors t = [] := by
  apply (errors_nil_iff t).2
  refine ⟨hc, ?_, ?_, ?_⟩
  · apply (any_any_false _ _ _).2
    intro a ha b hb
    cases hid : (a.id == b.id) with
    | false => simp
    | true =>
        have := hs a ha b hb (by simpa using hid)
        subst this; simp
  · apply (any_any_false _ _ _).2
    intro a ha b hb
    cases hid : (a.id == b.id) with
    | false => simp
    | true =>
        have := hs a (List.mem_filter.1 ha).1 b (List.mem_filter.1 hb).1 (by simpa using hid)
        subst this; simp [sameDef_refl]
  · unfold dupEdges
    apply nodup_hasDup_false
    have hsub : ∀ x ∈ (subs t).filter (fun k => !k.isLeaf), x ∈ subs t := fun x hx => (List.mem_filter.1 hx).1
    apply flatMap_edges_nodup
    · exact dedupBeq_ids_nodup _ (fun a ha b hb => hs a (hsub a ha) b (hsub b hb))
    · intro n hn
      exact hk n (hsub n (dedupBeq_sub _ n hn))

/-- the tree-shaped case: pairwise distinct ids make one id mean one node -/
theorem distinct_ids_accepted (t : P) (hn : ((subs t).map (·.id)).Nodup)
    (hk : ∀ n ∈ subs t, (n.kids.map (·.id)).Nodup) (hc : hasCycle t = false) : errors t = [] :=
  shared_identical_accepted t (nodup_ids_inj t hn) hk hc

/-- non-vacuity of `shared_identical_accepted`: the same sub-proposition under two parents -/
example :
    let b : P := .node "B" ⟨0,1⟩ 1 1 [.leaf "x" ⟨0,3⟩, .leaf "y" ⟨1,2⟩] {}
    let t : P := .node "T" ⟨0,1⟩ 1 2 [b, .node "C" ⟨0,1⟩ 1 1 [b, .leaf "z" ⟨0,1⟩] {}] {}
    errors t = [] := by decide

/-- non-vacuity / regression witnesses of D4 and D5 in the model: equal-sum bounds are told apart,
    and ids containing '-' do not make a distinct-id tree look like it repeats an edge -/
example :
    let bad : P := .node "T" ⟨0,1⟩ 1 2 [.node "A" ⟨0,1⟩ 1 1 [.leaf "x" ⟨0,1⟩, .leaf "y" ⟨0,1⟩] {},
                                          .node "B" ⟨0,1⟩ 1 1 [.leaf "x" ⟨-2,3⟩, .leaf "z" ⟨0,1⟩] {}] {}
    let dash : P := .node "T" ⟨0,1⟩ 1 2 [.node "A" ⟨0,1⟩ 1 1 [.leaf "b-c" ⟨0,1⟩] {}, .node "A-b" ⟨0,1⟩ 1 1 [.leaf "c" ⟨0,1⟩] {}] {}
    ambivalentVars bad = true ∧ dupEdges dash = false ∧ ambivalentVars dash = false := by decide

end Puan.C10
