/-
  C10 — validation accepts exactly the well-defined models.
  About `errors` as repaired by the fix: commits for defects D4 (definitions compared, every
  occurrence seen) and D5 (edges as pairs).  The cycle clause is modelled (reachability in the
  id graph with dict override) and tied, not proved: `graphlib` is trusted to decide it.
-/
import Puan.Model.Errors
namespace Puan.C10
open Puan P

theorem errors_nil_iff (t : P) :
    errors t = [] ↔ hasCycle t = false ∧ ambivalentVars t = false ∧ ambivalentComps t = false ∧ dupEdges t = false := by
  unfold errors
  cases hasCycle t <;> cases ambivalentVars t <;> cases ambivalentComps t <;> cases dupEdges t <;> simp

theorem any_any_false {α} (l l2 : List α) (p : α → α → Bool) :
    (l.any (fun a => l2.any (fun b => p a b))) = false ↔ ∀ a ∈ l, ∀ b ∈ l2, p a b = false := by
  constructor
  · intro h a ha b hb
    cases hp : p a b with
    | false => rfl
    | true =>
        have : (l.any (fun a => l2.any (fun b => p a b))) = true :=
          List.any_eq_true.2 ⟨a, ha, List.any_eq_true.2 ⟨b, hb, hp⟩⟩
        rw [h] at this; cases this
  · intro h
    cases hq : (l.any (fun a => l2.any (fun b => p a b))) with
    | false => rfl
    | true =>
        obtain ⟨a, ha, h2⟩ := List.any_eq_true.1 hq
        obtain ⟨b, hb, hp⟩ := List.any_eq_true.1 h2
        rw [h a ha b hb] at hp; cases hp

/-- A model that passes validation gives every id a single pair of bounds … -/
theorem single_bounds (t : P) (h : errors t = []) :
    ∀ a ∈ subs t, ∀ b ∈ subs t, a.id = b.id → a.bnd = b.bnd := by
  have hv := ((errors_nil_iff t).1 h).2.1
  intro a ha b hb hid
  have := (any_any_false _ _ _).1 hv a ha b hb
  simp only [hid, beq_self_eq_true, Bool.true_and, Bool.not_eq_false', Bool.and_eq_true, beq_iff_eq] at this
  cases ha' : a.bnd; cases hb' : b.bnd
  simp_all

/-- … and every sub-proposition id a single sign, value and list of child ids. -/
theorem single_definition (t : P) (h : errors t = []) :
    ∀ a ∈ subs t, ∀ b ∈ subs t, a.isLeaf = false → b.isLeaf = false → a.id = b.id → sameDef a b = true := by
  have hc := ((errors_nil_iff t).1 h).2.2.1
  intro a ha b hb hla hlb hid
  have := (any_any_false _ _ _).1 hc a (List.mem_filter.2 ⟨ha, by simp [hla]⟩) b (List.mem_filter.2 ⟨hb, by simp [hlb]⟩)
  simpa [hid] using this

theorem sameDef_spec (i b s v ks m j c s' v' ls m') (h : sameDef (.node i b s v ks m) (.node j c s' v' ls m') = true) :
    b = c ∧ s = s' ∧ v = v' ∧ ks.map (·.id) = ls.map (·.id) := by
  simp only [sameDef, Bool.and_eq_true, beq_iff_eq] at h
  obtain ⟨⟨⟨⟨h1, h2⟩, h3⟩, h4⟩, h5⟩ := h
  refine ⟨?_, h3, h4, h5⟩
  cases b; cases c; simp_all

theorem hasDup_false_nodup : ∀ l : List (String × String), hasDup l = false → l.Nodup
  | [], _ => List.nodup_nil
  | x :: xs, h => by
      simp only [hasDup, Bool.or_eq_false_iff] at h
      refine List.nodup_cons.2 ⟨?_, hasDup_false_nodup xs h.2⟩
      intro hx
      have : xs.contains x = true := List.contains_iff_mem.2 hx
      rw [this] at h; exact absurd h.1 (by simp)

mutual
theorem beq_id_kids : ∀ (a b : P), beq a b = true → a.id = b.id ∧ a.kids.map (·.id) = b.kids.map (·.id)
  | .leaf i b, .leaf j c, h => by
      simp only [beq, Bool.and_eq_true, beq_iff_eq] at h
      simp [P.id, P.kids, h.1.1]
  | .leaf .., .node .., h => by simp [beq] at h
  | .node .., .leaf .., h => by simp [beq] at h
  | .node i b s v ks m, .node j c t w ls n, h => by
      simp only [beq, Bool.and_eq_true, beq_iff_eq] at h
      refine ⟨by simp only [P.id]; exact h.1.1.1.1.1.1, ?_⟩
      simpa [P.kids] using beqL_ids ks ls h.2
theorem beqL_ids : ∀ (ks ls : List P), beqL ks ls = true → ks.map (·.id) = ls.map (·.id)
  | [], [], _ => rfl
  | [], _ :: _, h => by simp [beqL] at h
  | _ :: _, [], h => by simp [beqL] at h
  | k :: ks, l :: ls, h => by
      simp only [beqL, Bool.and_eq_true] at h
      simp [(beq_id_kids k l h.1).1, beqL_ids ks ls h.2]
end

mutual
theorem beq_refl : ∀ a : P, beq a a = true
  | .leaf i b => by simp [beq]
  | .node i b s v ks m => by simp [beq, beqL_refl ks]
theorem beqL_refl : ∀ ks : List P, beqL ks ks = true
  | [] => rfl
  | k :: ks => by simp [beqL, beq_refl k, beqL_refl ks]
end

/-- every sub-proposition has a representative in the flattened (de-duplicated) list with the
    same id and the same child ids -/
theorem dedupBeq_rep : ∀ (l : List P) (a : P), a ∈ l →
    ∃ r ∈ dedupBeq l, r.id = a.id ∧ r.kids.map (·.id) = a.kids.map (·.id)
  | [], a, h => by simp at h
  | x :: xs, a, h => by
      simp only [dedupBeq]
      rcases List.mem_cons.1 h with rfl | h'
      · split
        · rename_i hany
          obtain ⟨y, hy, hb⟩ := List.any_eq_true.1 hany
          obtain ⟨r, hr, h1, h2⟩ := dedupBeq_rep xs y hy
          have := beq_id_kids a y hb
          exact ⟨r, hr, by rw [h1, this.1], by rw [h2, this.2]⟩
        · exact ⟨a, by simp, rfl, rfl⟩
      · obtain ⟨r, hr, h1, h2⟩ := dedupBeq_rep xs a h'
        split
        · exact ⟨r, hr, h1, h2⟩
        · exact ⟨r, by simp [hr], h1, h2⟩

theorem nodup_of_map_nodup {α β} (f : α → β) : ∀ l : List α, (l.map f).Nodup → l.Nodup
  | [], _ => List.nodup_nil
  | x :: xs, h => by
      simp only [List.map_cons, List.nodup_cons, List.mem_map, not_exists, not_and] at h
      exact List.nodup_cons.2 ⟨fun hx => h.1 x hx rfl, nodup_of_map_nodup f xs h.2⟩

theorem nodup_of_flatMap {α β} (f : α → List β) : ∀ (l : List α) (a : α), a ∈ l → (l.flatMap f).Nodup → (f a).Nodup
  | [], a, h, _ => by simp at h
  | x :: xs, a, h, hn => by
      simp only [List.flatMap_cons] at hn
      rcases List.mem_cons.1 h with rfl | h'
      · exact (List.nodup_append.1 hn).1
      · exact nodup_of_flatMap f xs a h' (List.nodup_append.1 hn).2.1

/-- … and no node lists the same child twice. -/
theorem no_duplicate_child (t : P) (h : errors t = []) :
    ∀ n ∈ subs t, (n.kids.map (·.id)).Nodup := by
  have hd := ((errors_nil_iff t).1 h).2.2.2
  intro n hn
  cases hl : n.isLeaf with
  | true => cases n <;> simp_all [isLeaf, P.kids]
  | false =>
      have hmem : n ∈ (subs t).filter (fun k => !k.isLeaf) := List.mem_filter.2 ⟨hn, by simp [hl]⟩
      obtain ⟨r, hr, hid, hkids⟩ := dedupBeq_rep _ n hmem
      have hnod := hasDup_false_nodup _ hd
      have hre := nodup_of_flatMap edges _ r hr hnod
      rw [← hkids]
      cases r with
      | leaf i b => simp [P.kids]
      | node i b s v ks m =>
          simp only [edges] at hre
          simp only [P.kids]
          have : (ks.map (fun k => (i, k.id))) = (ks.map (·.id)).map (fun c => (i, c)) := by simp
          rw [this] at hre
          exact nodup_of_map_nodup _ _ hre

theorem nodup_map_inj {α β} (f : α → β) : ∀ (l : List α), (l.map f).Nodup → ∀ a ∈ l, ∀ b ∈ l, f a = f b → a = b
  | [], _, a, ha, _, _, _ => by simp at ha
  | x :: l, hn, a, ha, b, hb, hab => by
      simp only [List.map_cons, List.nodup_cons, List.mem_map, not_exists, not_and] at hn
      rcases List.mem_cons.1 ha with rfl | ha' <;> rcases List.mem_cons.1 hb with rfl | hb'
      · rfl
      · exact absurd hab.symm (hn.1 b hb')
      · exact absurd hab (hn.1 a ha')
      · exact nodup_map_inj f l hn.2 a ha' b hb' hab

theorem nodup_ids_inj (t : P) (hn : ((subs t).map (·.id)).Nodup) :
    ∀ a ∈ subs t, ∀ b ∈ subs t, a.id = b.id → a = b :=
  fun a ha b hb hid => nodup_map_inj (·.id) (subs t) hn a ha b hb hid

theorem sameDef_refl : ∀ a : P, sameDef a a = true
  | .leaf .. => rfl
  | .node .. => by simp [sameDef]

/-- Conversely, on a tree-shaped model with pairwise distinct ids neither ambivalence check fires. -/
theorem distinct_ids_not_ambivalent (t : P) (hn : ((subs t).map (·.id)).Nodup) :
    ambivalentVars t = false ∧ ambivalentComps t = false := by
  have hinj := nodup_ids_inj t hn
  constructor
  · apply (any_any_false _ _ _).2
    intro a ha b hb
    cases hid : (a.id == b.id) with
    | false => simp
    | true =>
        have := hinj a ha b hb (by simpa using hid)
        subst this; simp
  · apply (any_any_false _ _ _).2
    intro a ha b hb
    cases hid : (a.id == b.id) with
    | false => simp
    | true =>
        have := hinj a (List.mem_filter.1 ha).1 b (List.mem_filter.1 hb).1 (by simpa using hid)
        subst this; simp [sameDef_refl]

/-- non-vacuity / regression witnesses of D4 and D5 in the model: equal-sum bounds are told apart,
    and ids containing '-' do not make a distinct-id tree look like it repeats an edge -/
example :
    let bad : P := .node "T" ⟨0,1⟩ 1 2 [.node "A" ⟨0,1⟩ 1 1 [.leaf "x" ⟨0,1⟩, .leaf "y" ⟨0,1⟩] {},
                                          .node "B" ⟨0,1⟩ 1 1 [.leaf "x" ⟨-2,3⟩, .leaf "z" ⟨0,1⟩] {}] {}
    let dash : P := .node "T" ⟨0,1⟩ 1 2 [.node "A" ⟨0,1⟩ 1 1 [.leaf "b-c" ⟨0,1⟩] {}, .node "A-b" ⟨0,1⟩ 1 1 [.leaf "c" ⟨0,1⟩] {}] {}
    ambivalentVars bad = true ∧ dupEdges dash = false ∧ ambivalentVars dash = false := by decide

end Puan.C10
