/-
  C10 — validation accepts exactly the well-defined models.
  About `errors` as repaired by the fix: commits for defects D4 (definitions compared, every
  occurrence seen) and D5 (edges as pairs).  The cycle clause: the model's `hasCycle` is a bounded
  search of the id graph (with dict override); `cycle_detected` / `errors_nil_acyclic` prove that
  the bound suffices — an accepted model has no id that reaches itself — and `tree_acyclic` /
  `tree_with_distinct_ids_accepted` prove the converse clause for trees without any assumption
  about cycles.  That `graphlib` reports a cycle exactly when `hasCycle` does is the tie.
-/
import Puan.Model.Errors
namespace Puan.C10
open Puan P

theorem errors_nil_iff (t : P) :
    errors t = [] ↔ hasCycle t = false ∧ ambivalentVars t = false ∧ ambivalentComps t = false ∧ dupEdges t = false := by
  unfold errors
  cases hasCycle t <;> cases ambivalentVars t <;> cases ambivalentComps t <;> cases dupEdges t <;> simp

theorem any_any_false {α} (l l2 : List α) (p : α → α → Bool) :
    (l.any (fun a => l2.any (fun b => p a b))) = false ↔ ∀ a ∈ l, ∀ b ∈ l2, p a b = false := by
  constructor
  · intro h a ha b hb
    cases hp : p a b with
    | false => rfl
    | true =>
        have : (l.any (fun a => l2.any (fun b => p a b))) = true :=
          List.any_eq_true.2 ⟨a, ha, List.any_eq_true.2 ⟨b, hb, hp⟩⟩
        rw [h] at this; cases this
  · intro h
    cases hq : (l.any (fun a => l2.any (fun b => p a b))) with
    | false => rfl
    | true =>
        obtain ⟨a, ha, h2⟩ := List.any_eq_true.1 hq
        obtain ⟨b, hb, hp⟩ := List.any_eq_true.1 h2
        rw [h a ha b hb] at hp; cases hp

/-- A model that passes validation gives every id a single pair of bounds … -/
theorem single_bounds (t : P) (h : errors t = []) :
    ∀ a ∈ subs t, ∀ b ∈ subs t, a.id = b.id → a.bnd = b.bnd := by
  have hv := ((errors_nil_iff t).1 h).2.1
  intro a ha b hb hid
  have := (any_any_false _ _ _).1 hv a ha b hb
  simp only [hid, beq_self_eq_true, Bool.true_and, Bool.not_eq_false', Bool.and_eq_true, beq_iff_eq] at this
  cases ha' : a.bnd; cases hb' : b.bnd
  simp_all

/-- … and every sub-proposition id a single sign, value and list of child ids. -/
theorem single_definition (t : P) (h : errors t = []) :
    ∀ a ∈ subs t, ∀ b ∈ subs t, a.isLeaf = false → b.isLeaf = false → a.id = b.id → sameDef a b = true := by
  have hc := ((errors_nil_iff t).1 h).2.2.1
  intro a ha b hb hla hlb hid
  have := (any_any_false _ _ _).1 hc a (List.mem_filter.2 ⟨ha, by simp [hla]⟩) b (List.mem_filter.2 ⟨hb, by simp [hlb]⟩)
  simpa [hid] using this

theorem sameDef_spec (i b s v ks m j c s' v' ls m') (h : sameDef (.node i b s v ks m) (.node j c s' v' ls m') = true) :
    b = c ∧ s = s' ∧ v = v' ∧ ks.map (·.id) = ls.map (·.id) := by
  simp only [sameDef, Bool.and_eq_true, beq_iff_eq] at h
  obtain ⟨⟨⟨⟨h1, h2⟩, h3⟩, h4⟩, h5⟩ := h
  refine ⟨?_, h3, h4, h5⟩
  cases b; cases c; simp_all

theorem hasDup_false_nodup : ∀ l : List (String × String), hasDup l = false → l.Nodup
  | [], _ => List.nodup_nil
  | x :: xs, h => by
      simp only [hasDup, Bool.or_eq_false_iff] at h
      refine List.nodup_cons.2 ⟨?_, hasDup_false_nodup xs h.2⟩
      intro hx
      have : xs.contains x = true := List.contains_iff_mem.2 hx
      rw [this] at h; exact absurd h.1 (by simp)

mutual
theorem beq_id_kids : ∀ (a b : P), beq a b = true → a.id = b.id ∧ a.kids.map (·.id) = b.kids.map (·.id)
  | .leaf i b, .leaf j c, h => by
      simp only [beq, Bool.and_eq_true, beq_iff_eq] at h
      simp [P.id, P.kids, h.1.1]
  | .leaf .., .node .., h => by simp [beq] at h
  | .node .., .leaf .., h => by simp [beq] at h
  | .node i b s v ks m, .node j c t w ls n, h => by
      simp only [beq, Bool.and_eq_true, beq_iff_eq] at h
      refine ⟨by simp only [P.id]; exact h.1.1.1.1.1.1, ?_⟩
      simpa [P.kids] using beqL_ids ks ls h.2
theorem beqL_ids : ∀ (ks ls : List P), beqL ks ls = true → ks.map (·.id) = ls.map (·.id)
  | [], [], _ => rfl
  | [], _ :: _, h => by simp [beqL] at h
  | _ :: _, [], h => by simp [beqL] at h
  | k :: ks, l :: ls, h => by
      simp only [beqL, Bool.and_eq_true] at h
      simp [(beq_id_kids k l h.1).1, beqL_ids ks ls h.2]
end

mutual
theorem beq_refl : ∀ a : P, beq a a = true
  | .leaf i b => by simp [beq]
  | .node i b s v ks m => by simp [beq, beqL_refl ks]
theorem beqL_refl : ∀ ks : List P, beqL ks ks = true
  | [] => rfl
  | k :: ks => by simp [beqL, beq_refl k, beqL_refl ks]
end

/-- every sub-proposition has a representative in the flattened (de-duplicated) list with the
    same id and the same child ids -/
theorem dedupBeq_rep : ∀ (l : List P) (a : P), a ∈ l →
    ∃ r ∈ dedupBeq l, r.id = a.id ∧ r.kids.map (·.id) = a.kids.map (·.id)
  | [], a, h => by simp at h
  | x :: xs, a, h => by
      simp only [dedupBeq]
      rcases List.mem_cons.1 h with rfl | h'
      · split
        · rename_i hany
          obtain ⟨y, hy, hb⟩ := List.any_eq_true.1 hany
          obtain ⟨r, hr, h1, h2⟩ := dedupBeq_rep xs y hy
          have := beq_id_kids a y hb
          exact ⟨r, hr, by rw [h1, this.1], by rw [h2, this.2]⟩
        · exact ⟨a, by simp, rfl, rfl⟩
      · obtain ⟨r, hr, h1, h2⟩ := dedupBeq_rep xs a h'
        split
        · exact ⟨r, hr, h1, h2⟩
        · exact ⟨r, by simp [hr], h1, h2⟩

theorem nodup_of_map_nodup {α β} (f : α → β) : ∀ l : List α, (l.map f).Nodup → l.Nodup
  | [], _ => List.nodup_nil
  | x :: xs, h => by
      simp only [List.map_cons, List.nodup_cons, List.mem_map, not_exists, not_and] at h
      exact List.nodup_cons.2 ⟨fun hx => h.1 x hx rfl, nodup_of_map_nodup f xs h.2⟩

theorem nodup_of_flatMap {α β} (f : α → List β) : ∀ (l : List α) (a : α), a ∈ l → (l.flatMap f).Nodup → (f a).Nodup
  | [], a, h, _ => by simp at h
  | x :: xs, a, h, hn => by
      simp only [List.flatMap_cons] at hn
      rcases List.mem_cons.1 h with rfl | h'
      · exact (List.nodup_append.1 hn).1
      · exact nodup_of_flatMap f xs a h' (List.nodup_append.1 hn).2.1

/-- … and no node lists the same child twice. -/
theorem no_duplicate_child (t : P) (h : errors t = []) :
    ∀ n ∈ subs t, (n.kids.map (·.id)).Nodup := by
  have hd := ((errors_nil_iff t).1 h).2.2.2
  intro n hn
  cases hl : n.isLeaf with
  | true => cases n <;> simp_all [isLeaf, P.kids]
  | false =>
      have hmem : n ∈ (subs t).filter (fun k => !k.isLeaf) := List.mem_filter.2 ⟨hn, by simp [hl]⟩
      obtain ⟨r, hr, hid, hkids⟩ := dedupBeq_rep _ n hmem
      have hnod := hasDup_false_nodup _ hd
      have hre := nodup_of_flatMap edges _ r hr hnod
      rw [← hkids]
      cases r with
      | leaf i b => simp [P.kids]
      | node i b s v ks m =>
          simp only [edges] at hre
          simp only [P.kids]
          have : (ks.map (fun k => (i, k.id))) = (ks.map (·.id)).map (fun c => (i, c)) := by simp
          rw [this] at hre
          exact nodup_of_map_nodup _ _ hre

theorem nodup_map_inj {α β} (f : α → β) : ∀ (l : List α), (l.map f).Nodup → ∀ a ∈ l, ∀ b ∈ l, f a = f b → a = b
  | [], _, a, ha, _, _, _ => by simp at ha
  | x :: l, hn, a, ha, b, hb, hab => by
      simp only [List.map_cons, List.nodup_cons, List.mem_map, not_exists, not_and] at hn
      rcases List.mem_cons.1 ha with rfl | ha' <;> rcases List.mem_cons.1 hb with rfl | hb'
      · rfl
      · exact absurd hab.symm (hn.1 b hb')
      · exact absurd hab (hn.1 a ha')
      · exact nodup_map_inj f l hn.2 a ha' b hb' hab

theorem nodup_ids_inj (t : P) (hn : ((subs t).map (·.id)).Nodup) :
    ∀ a ∈ subs t, ∀ b ∈ subs t, a.id = b.id → a = b :=
  fun a ha b hb hid => nodup_map_inj (·.id) (subs t) hn a ha b hb hid

theorem sameDef_refl : ∀ a : P, sameDef a a = true
  | .leaf .. => rfl
  | .node .. => by simp [sameDef]

/-- Conversely, on a tree-shaped model with pairwise distinct ids neither ambivalence check fires. -/
theorem distinct_ids_not_ambivalent (t : P) (hn : ((subs t).map (·.id)).Nodup) :
    ambivalentVars t = false ∧ ambivalentComps t = false := by
  have hinj := nodup_ids_inj t hn
  constructor
  · apply (any_any_false _ _ _).2
    intro a ha b hb
    cases hid : (a.id == b.id) with
    | false => simp
    | true =>
        have := hinj a ha b hb (by simpa using hid)
        subst this; simp
  · apply (any_any_false _ _ _).2
    intro a ha b hb
    cases hid : (a.id == b.id) with
    | false => simp
    | true =>
        have := hinj a (List.mem_filter.1 ha).1 b (List.mem_filter.1 hb).1 (by simpa using hid)
        subst this; simp [sameDef_refl]

/-! ### the converse for models that merely share identical sub-propositions -/

theorem nodup_hasDup_false : ∀ l : List (String × String), l.Nodup → hasDup l = false
  | [], _ => rfl
  | x :: xs, h => by
      have ⟨h1, h2⟩ := List.nodup_cons.1 h
      simp only [hasDup, Bool.or_eq_false_iff]
      exact ⟨by simpa using h1, nodup_hasDup_false xs h2⟩

theorem dedupBeq_sub : ∀ (l : List P) (x : P), x ∈ dedupBeq l → x ∈ l
  | [], x, h => by simp [dedupBeq] at h
  | y :: ys, x, h => by
      simp only [dedupBeq] at h
      split at h
      · exact List.mem_cons_of_mem _ (dedupBeq_sub ys x h)
      · rcases List.mem_cons.1 h with rfl | h
        · simp
        · exact List.mem_cons_of_mem _ (dedupBeq_sub ys x h)

/-- when one id means one node, the flattened list has pairwise distinct ids -/
theorem dedupBeq_ids_nodup : ∀ l : List P, (∀ a ∈ l, ∀ b ∈ l, a.id = b.id → a = b) → ((dedupBeq l).map (·.id)).Nodup
  | [], _ => by simp [dedupBeq]
  | x :: xs, h => by
      have ih := dedupBeq_ids_nodup xs (fun a ha b hb => h a (List.mem_cons_of_mem _ ha) b (List.mem_cons_of_mem _ hb))
      simp only [dedupBeq]
      split
      · exact ih
      · rename_i hany
        simp only [List.map_cons, List.nodup_cons, List.mem_map, not_exists, not_and]
        refine ⟨fun r hr hid => ?_, ih⟩
        have hrx : r ∈ xs := dedupBeq_sub xs r hr
        have : r = x := h r (List.mem_cons_of_mem _ hrx) x (by simp) hid
        subst this
        exact hany (List.any_eq_true.2 ⟨r, hrx, beq_refl r⟩)

theorem mem_edges_fst (n : P) (e : String × String) (h : e ∈ edges n) : e.1 = n.id := by
  cases n with
  | leaf i b => simp [edges] at h
  | node i b s v ks m =>
      simp only [edges, List.mem_map] at h
      obtain ⟨k, _, rfl⟩ := h
      rfl

theorem nodup_map_of_inj {α β} (f : α → β) (hf : ∀ a b, f a = f b → a = b) : ∀ l : List α, l.Nodup → (l.map f).Nodup
  | [], _ => by simp
  | x :: xs, h => by
      have ⟨h1, h2⟩ := List.nodup_cons.1 h
      simp only [List.map_cons, List.nodup_cons, List.mem_map, not_exists, not_and]
      exact ⟨fun y hy hxy => h1 (by rw [← hf y x hxy]; exact hy), nodup_map_of_inj f hf xs h2⟩

theorem edges_nodup (n : P) (h : (n.kids.map (·.id)).Nodup) : (edges n).Nodup := by
  cases n with
  | leaf i b => simp [edges]
  | node i b s v ks m =>
      simp only [edges, P.kids] at *
      have : ks.map (fun k => (i, k.id)) = (ks.map (·.id)).map (fun c => (i, c)) := by simp
      rw [this]
      exact nodup_map_of_inj _ (fun a b hab => by simpa using hab) _ h

theorem flatMap_edges_nodup : ∀ l : List P, (l.map (·.id)).Nodup → (∀ n ∈ l, (n.kids.map (·.id)).Nodup) →
    (l.flatMap edges).Nodup
  | [], _, _ => by simp
  | x :: xs, hn, hk => by
      simp only [List.map_cons, List.nodup_cons, List.mem_map, not_exists, not_and] at hn
      simp only [List.flatMap_cons]
      refine List.nodup_append.2 ⟨edges_nodup x (hk x (by simp)),
        flatMap_edges_nodup xs hn.2 (fun n hn' => hk n (List.mem_cons_of_mem _ hn')), ?_⟩
      intro e he e' he' hee
      subst hee
      obtain ⟨y, hy, hey⟩ := List.mem_flatMap.1 he'
      have h1 := mem_edges_fst x e he
      have h2 := mem_edges_fst y e hey
      exact hn.1 y hy (by rw [← h2, h1])

/-- Conversely: a model in which one id always means one and the same sub-proposition (shared objects or identical
    copies — tree-shaped models with pairwise distinct ids are the special case) and in which no node lists a child
    twice passes both ambivalence checks and the duplicate-edge check; with an acyclic id graph (the clause `graphlib`
    decides) it is accepted. -/
theorem shared_identical_accepted (t : P)
    (hs : ∀ a ∈ subs t, ∀ b ∈ subs t, a.id = b.id → a = b)
    (hk : ∀ n ∈ subs t, (n.kids.map (·.id)).Nodup) (hc : hasCycle t = false) :
    errors t = [] := by
  apply (errors_nil_iff t).2
  refine ⟨hc, ?_, ?_, ?_⟩
  · apply (any_any_false _ _ _).2
    intro a ha b hb
    cases hid : (a.id == b.id) with
    | false => simp
    | true =>
        have := hs a ha b hb (by simpa using hid)
        subst this; simp
  · apply (any_any_false _ _ _).2
    intro a ha b hb
    cases hid : (a.id == b.id) with
    | false => simp
    | true =>
        have := hs a (List.mem_filter.1 ha).1 b (List.mem_filter.1 hb).1 (by simpa using hid)
        subst this; simp [sameDef_refl]
  · unfold dupEdges
    apply nodup_hasDup_false
    have hsub : ∀ x ∈ (subs t).filter (fun k => !k.isLeaf), x ∈ subs t := fun x hx => (List.mem_filter.1 hx).1
    apply flatMap_edges_nodup
    · exact dedupBeq_ids_nodup _ (fun a ha b hb => hs a (hsub a ha) b (hsub b hb))
    · intro n hn
      exact hk n (hsub n (dedupBeq_sub _ n hn))

/-- the tree-shaped case: pairwise distinct ids make one id mean one node -/
theorem distinct_ids_accepted (t : P) (hn : ((subs t).map (·.id)).Nodup)
    (hk : ∀ n ∈ subs t, (n.kids.map (·.id)).Nodup) (hc : hasCycle t = false) : errors t = [] :=
  shared_identical_accepted t (nodup_ids_inj t hn) hk hc

/-- non-vacuity of `shared_identical_accepted`: the same sub-proposition under two parents -/
example :
    let b : P := .node "B" ⟨0,1⟩ 1 1 [.leaf "x" ⟨0,3⟩, .leaf "y" ⟨1,2⟩] {}
    let t : P := .node "T" ⟨0,1⟩ 1 2 [b, .node "C" ⟨0,1⟩ 1 1 [b, .leaf "z" ⟨0,1⟩] {}] {}
    errors t = [] := by decide

/-- non-vacuity / regression witnesses of D4 and D5 in the model: equal-sum bounds are told apart,
    and ids containing '-' do not make a distinct-id tree look like it repeats an edge -/
example :
    let bad : P := .node "T" ⟨0,1⟩ 1 2 [.node "A" ⟨0,1⟩ 1 1 [.leaf "x" ⟨0,1⟩, .leaf "y" ⟨0,1⟩] {},
                                          .node "B" ⟨0,1⟩ 1 1 [.leaf "x" ⟨-2,3⟩, .leaf "z" ⟨0,1⟩] {}] {}
    let dash : P := .node "T" ⟨0,1⟩ 1 2 [.node "A" ⟨0,1⟩ 1 1 [.leaf "b-c" ⟨0,1⟩] {}, .node "A-b" ⟨0,1⟩ 1 1 [.leaf "c" ⟨0,1⟩] {}] {}
    ambivalentVars bad = true ∧ dupEdges dash = false ∧ ambivalentVars dash = false := by decide

/-! ## Trees with pairwise distinct ids have an acyclic id graph

The converse clause needs `hasCycle t = false`.  For tree-shaped models with pairwise distinct ids this is a theorem:
along every edge of the id graph the size of the sub-tree strictly decreases, so the search from a node's children never
comes back to the node. -/

/-- whatever `reach` returns was already seen or is reached from the frontier; a measure that strictly decreases along
    edges therefore stays below any bound that holds for `seen` and the frontier -/
theorem reach_below (g : List (String × List String)) (meas : String → Nat) (r : Nat)
    (hedge : ∀ a l, dictLookup g a = some l → ∀ b ∈ l, meas b < meas a) :
    ∀ (fuel : Nat) (seen frontier : List String), (∀ x ∈ seen, meas x < r) → (∀ x ∈ frontier, meas x < r) →
      ∀ x ∈ reach g fuel seen frontier, meas x < r
  | 0, seen, _, hs, _ => by simpa [reach] using hs
  | fuel + 1, seen, frontier, hs, hf => by
      intro x hx
      simp only [reach] at hx
      have hnext : ∀ y ∈ (frontier.flatMap (fun k => (dictLookup g k).getD [])).eraseDups, meas y < r := by
        intro y hy
        have hy' := List.mem_eraseDups.1 hy
        obtain ⟨k, hk, hyk⟩ := List.mem_flatMap.1 hy'
        cases hl : dictLookup g k with
        | none => simp [hl] at hyk
        | some l =>
            simp only [hl, Option.getD_some] at hyk
            exact Nat.lt_trans (hedge k l hl y hyk) (hf k hk)
      split at hx
      · exact hs x hx
      · refine reach_below g meas r hedge fuel _ _ ?_ ?_ x hx
        · intro y hy
          rcases List.mem_append.1 hy with h | h
          · exact hs y h
          · exact hnext y (List.mem_filter.1 h).1
        · intro y hy
          exact hnext y (List.mem_filter.1 hy).1

/-- a measure that strictly decreases along every edge of the id graph rules out cycles -/
theorem hasCycle_false_of_measure (t : P) (meas : String → Nat)
    (hedge : ∀ a l, dictLookup (deps t) a = some l → ∀ b ∈ l, meas b < meas a) : hasCycle t = false := by
  unfold hasCycle
  simp only
  apply Bool.eq_false_iff.2
  intro h
  obtain ⟨k, _, hk⟩ := List.any_eq_true.1 h
  have hstart : ∀ x ∈ ((dictLookup (deps t) k).getD []).eraseDups, meas x < meas k := by
    intro x hx
    have hx' := List.mem_eraseDups.1 hx
    cases hl : dictLookup (deps t) k with
    | none => simp [hl] at hx'
    | some l => simp only [hl, Option.getD_some] at hx'; exact hedge k l hl x hx'
  have := reach_below (deps t) meas (meas k) hedge _ _ _ hstart hstart k (by simpa using hk)
  exact Nat.lt_irrefl _ this

theorem self_mem_subs : ∀ p : P, p ∈ subs p
  | .leaf .. => by simp [subs]
  | .node .. => by simp [subs]

mutual
theorem subs_trans : ∀ (t n x : P), n ∈ subs t → x ∈ subs n → x ∈ subs t
  | .leaf i b, n, x, hn, hx => by simp [subs] at hn; subst hn; exact hx
  | .node i b s v ks m, n, x, hn, hx => by
      simp only [subs, List.mem_cons] at hn
      rcases hn with rfl | hn
      · exact hx
      · simp only [subs, List.mem_cons]; right; exact subsL_trans ks n x hn hx
theorem subsL_trans : ∀ (ks : List P) (n x : P), n ∈ subsL ks → x ∈ subs n → x ∈ subsL ks
  | [], n, x, hn, _ => by simp [subsL] at hn
  | k :: ks, n, x, hn, hx => by
      simp only [subsL, List.mem_append] at hn ⊢
      rcases hn with h | h
      · left; exact subs_trans k n x h hx
      · right; exact subsL_trans ks n x h hx
end

theorem kid_subs : ∀ (ks : List P) (c : P), c ∈ ks → (∀ x ∈ subs c, x ∈ subsL ks) ∧ (subs c).length ≤ (subsL ks).length
  | [], c, h => by simp at h
  | k :: ks, c, h => by
      simp only [subsL, List.length_append]
      rcases List.mem_cons.1 h with rfl | h
      · exact ⟨fun x hx => List.mem_append.2 (Or.inl hx), by omega⟩
      · have ⟨h1, h2⟩ := kid_subs ks c h
        exact ⟨fun x hx => List.mem_append.2 (Or.inr (h1 x hx)), by omega⟩

theorem find_of_nodup {α β} [BEq β] [LawfulBEq β] (f : α → β) : ∀ (l : List α) (n : α), (l.map f).Nodup → n ∈ l →
    l.find? (fun y => f y == f n) = some n
  | [], n, _, h => by simp at h
  | y :: l, n, hnd, h => by
      simp only [List.map_cons, List.nodup_cons] at hnd
      rcases List.mem_cons.1 h with rfl | h
      · simp [List.find?_cons]
      · have hne : (f y == f n) = false := by
          apply Bool.eq_false_iff.2
          intro he
          have : f y = f n := by simpa using he
          exact hnd.1 (this ▸ List.mem_map.2 ⟨n, h, rfl⟩)
        simp only [List.find?_cons, hne]
        exact find_of_nodup f l n hnd.2 h

/-- **a tree-shaped model with pairwise distinct ids has no circular references** -/
theorem tree_acyclic (t : P) (hn : ((subs t).map (·.id)).Nodup) : hasCycle t = false := by
  apply hasCycle_false_of_measure t
    (fun x => match (subs t).find? (fun y => y.id == x) with | some n => (subs n).length | none => 0)
  intro a l hl b hb
  -- the entry of `a` comes from a node `n` of the tree, and `b` is the id of one of its children
  unfold dictLookup at hl
  cases hf : (deps t).reverse.find? (fun e => e.1 == a) with
  | none => simp [hf] at hl
  | some e =>
      simp only [hf, Option.map_some, Option.some.injEq] at hl
      have he1 : e.1 = a := by have := List.find?_some hf; simpa using this
      have hem : e ∈ deps t := List.mem_reverse.1 (List.mem_of_find?_eq_some hf)
      obtain ⟨n, hnm, hdn⟩ := List.mem_filterMap.1 hem
      cases n with
      | leaf => simp [depsOf] at hdn
      | node i bb s v ks m =>
          simp only [depsOf, Option.some.injEq] at hdn
          subst hdn
          simp only at he1 hl
          subst he1; subst hl
          -- b is the id of a child c
          have hc : ∃ c ∈ ks, c.id = b := by
            rcases List.mem_append.1 hb with h | h
            · obtain ⟨c, hc, rfl⟩ := List.mem_map.1 h; exact ⟨c, (List.mem_filter.1 hc).1, rfl⟩
            · obtain ⟨c, hc, rfl⟩ := List.mem_map.1 h; exact ⟨c, (List.mem_filter.1 hc).1, rfl⟩
          obtain ⟨c, hck, rfl⟩ := hc
          have ⟨hsub, hlen⟩ := kid_subs ks c hck
          have hcm : c ∈ subs t := subs_trans t _ c hnm (by simp only [subs, List.mem_cons]; right; exact hsub c (self_mem_subs c))
          have f1 : (subs t).find? (fun y => y.id == i) = some (.node i bb s v ks m) :=
            find_of_nodup (·.id) (subs t) (.node i bb s v ks m) hn hnm
          have f2 : (subs t).find? (fun y => y.id == c.id) = some c := find_of_nodup (·.id) (subs t) c hn hcm
          simp only [f1, f2]
          simp only [subs, List.length_cons]
          omega

/-- **the converse clause for trees, without any assumption about cycles**: every tree-shaped model with pairwise
    distinct ids (in which no node lists a child twice — implied by distinct ids) is accepted -/
theorem tree_accepted (t : P) (hn : ((subs t).map (·.id)).Nodup)
    (hk : ∀ n ∈ subs t, (n.kids.map (·.id)).Nodup) : errors t = [] :=
  distinct_ids_accepted t hn hk (tree_acyclic t hn)

mutual
theorem subs_sublist : ∀ (t n : P), n ∈ subs t → (subs n).Sublist (subs t)
  | .leaf i b, n, hn => by simp [subs] at hn; subst hn; exact List.Sublist.refl _
  | .node i b s v ks m, n, hn => by
      simp only [subs, List.mem_cons] at hn
      rcases hn with rfl | hn
      · exact List.Sublist.refl _
      · simp only [subs]; exact List.Sublist.cons _ (subsL_sublist ks n hn)
theorem subsL_sublist : ∀ (ks : List P) (n : P), n ∈ subsL ks → (subs n).Sublist (subsL ks)
  | [], n, hn => by simp [subsL] at hn
  | k :: ks, n, hn => by
      simp only [subsL, List.mem_append] at hn ⊢
      rcases hn with h | h
      · exact (subs_sublist k n h).trans (List.sublist_append_left _ _)
      · exact (subsL_sublist ks n h).trans (List.sublist_append_right _ _)
end

theorem subs_head : ∀ p : P, ∃ rest, subs p = p :: rest
  | .leaf i b => ⟨[], by simp [subs]⟩
  | .node i b s v ks m => ⟨subsL ks, by simp [subs]⟩

theorem kids_sublist : ∀ ks : List P, ks.Sublist (subsL ks)
  | [] => by simp [subsL]
  | k :: ks => by
      obtain ⟨rest, hr⟩ := subs_head k
      simp only [subsL, hr, List.cons_append]
      exact List.Sublist.cons₂ _ ((kids_sublist ks).trans (List.sublist_append_right _ _))

/-- in a tree with pairwise distinct ids no node lists a child twice -/
theorem tree_kids_nodup (t : P) (hn : ((subs t).map (·.id)).Nodup) : ∀ n ∈ subs t, (n.kids.map (·.id)).Nodup := by
  intro n hnm
  have h1 : ((subs n).map (·.id)).Nodup := List.Nodup.sublist ((subs_sublist t n hnm).map _) hn
  cases n with
  | leaf => simp [P.kids]
  | node i b s v ks m =>
      simp only [subs, List.map_cons, List.nodup_cons] at h1
      exact List.Nodup.sublist ((kids_sublist ks).map _) h1.2

/-- **every tree-shaped model with pairwise distinct ids is accepted** (no further hypothesis) -/
theorem tree_with_distinct_ids_accepted (t : P) (hn : ((subs t).map (·.id)).Nodup) : errors t = [] :=
  tree_accepted t hn (tree_kids_nodup t hn)

example : errors (.node "T" ⟨0,1⟩ 1 2 [.node "A" ⟨0,1⟩ 1 1 [.leaf "x" ⟨0,1⟩, .leaf "y" ⟨0,1⟩] {}, .leaf "z" ⟨0,3⟩] {}) = [] :=
  tree_with_distinct_ids_accepted _ (by decide)

/-! ## `errors() = []` really means: no circular references

`hasCycle` searches from the children of every node with a bounded number of rounds.  The bound suffices: every round that
does not end the search expands at least one node that had not been expanded before, so the search ends because nothing
new turns up, and what it has seen by then is closed under the edges of the id graph. -/

/-- the ids a node's entry lists (its children) -/
def succ (g : List (String × List String)) (a : String) : List String := (dictLookup g a).getD []

/-- a non-empty path along the edges of the id graph -/
inductive Path (g : List (String × List String)) : String → String → Prop
  | edge {a b : String} : b ∈ succ g a → Path g a b
  | step {a b c : String} : b ∈ succ g a → Path g b c → Path g a c

def expanded (seen frontier : List String) (x : String) : Bool := seen.contains x && !frontier.contains x

/-- the entries whose node has not been expanded yet -/
def pot (g : List (String × List String)) (seen frontier : List String) : Nat :=
  ((g.map (·.1)).filter (fun k => !expanded seen frontier k)).length

theorem filter_length_lt' {α} (p q : α → Bool) : ∀ l : List α, (∀ x, p x = true → q x = true) →
    (∃ a ∈ l, q a = true ∧ p a = false) → (l.filter p).length < (l.filter q).length
  | [], _, h => by obtain ⟨a, ha, _⟩ := h; simp at ha
  | x :: r, hpq, h => by
      have hle : (r.filter p).length ≤ (r.filter q).length := by
        clear h
        induction r with
        | nil => simp
        | cons y ys ih =>
            simp only [List.filter_cons]
            cases hp : p y <;> cases hq : q y <;> simp <;> try omega
            have := hpq y hp; rw [hq] at this; cases this
      obtain ⟨a, ha, hqa, hpa⟩ := h
      simp only [List.filter_cons]
      rcases List.mem_cons.1 ha with rfl | ha'
      · simp [hqa, hpa]; omega
      · have ih := filter_length_lt' p q r hpq ⟨a, ha', hqa, hpa⟩
        cases hp : p x <;> cases hq : q x <;> simp <;> try omega
        have := hpq x hp; rw [hq] at this; cases this

theorem key_of_succ (g : List (String × List String)) (a b : String) (h : b ∈ succ g a) : a ∈ g.map (·.1) := by
  unfold succ dictLookup at h
  cases hf : g.reverse.find? (fun e => e.1 == a) with
  | none => simp [hf] at h
  | some e =>
      have he1 : e.1 = a := by have := List.find?_some hf; simpa using this
      have hem : e ∈ g := List.mem_reverse.1 (List.mem_of_find?_eq_some hf)
      exact List.mem_map.2 ⟨e, hem, he1⟩

/-- with enough rounds the search returns a set that contains what it had seen and is closed under the edges -/
theorem reach_complete (g : List (String × List String)) : ∀ (fuel : Nat) (seen frontier : List String),
    (∀ x ∈ frontier, x ∈ seen) →
    (∀ a, expanded seen frontier a = true → ∀ b ∈ succ g a, b ∈ seen) →
    pot g seen frontier + 1 ≤ fuel →
    (∀ x ∈ seen, x ∈ reach g fuel seen frontier) ∧
    (∀ a ∈ reach g fuel seen frontier, ∀ b ∈ succ g a, b ∈ reach g fuel seen frontier)
  | 0, _, _, _, _, hp => by omega
  | fuel + 1, seen, frontier, hfs, hcl, hp => by
      have hnextmem : ∀ a ∈ frontier, ∀ b ∈ succ g a,
          b ∈ (frontier.flatMap (fun k => (dictLookup g k).getD [])).eraseDups := by
        intro a ha b hb
        exact List.mem_eraseDups.2 (List.mem_flatMap.2 ⟨a, ha, hb⟩)
      simp only [reach]
      split
      · -- nothing new: what has been seen is closed
        rename_i hnew
        refine ⟨fun x hx => hx, ?_⟩
        intro a ha b hb
        by_cases haf : a ∈ frontier
        · have hbn := hnextmem a haf b hb
          have hemp : ((frontier.flatMap (fun k => (dictLookup g k).getD [])).eraseDups.filter (fun k => !seen.contains k)) = [] := by
            simpa using hnew
          have := List.filter_eq_nil_iff.1 hemp b hbn
          simpa using this
        · exact hcl a (by simp [expanded, ha, haf]) b hb
      · rename_i hnew
        -- the new ids become the frontier
        have hnewsub : ∀ y ∈ ((frontier.flatMap (fun k => (dictLookup g k).getD [])).eraseDups.filter (fun k => !seen.contains k)),
            y ∈ (frontier.flatMap (fun k => (dictLookup g k).getD [])).eraseDups ∧ y ∉ seen := by
          intro y hy
          have := List.mem_filter.1 hy
          exact ⟨this.1, by simpa using this.2⟩
        generalize hN : ((frontier.flatMap (fun k => (dictLookup g k).getD [])).eraseDups.filter (fun k => !seen.contains k)) = new at *
        have hne : new ≠ [] := by simpa using hnew
        obtain ⟨y0, hy0⟩ := List.exists_mem_of_ne_nil new hne
        -- some node of the frontier has an entry: it is expanded in this round
        obtain ⟨kf, hkf, hy0k⟩ := List.mem_flatMap.1 (List.mem_eraseDups.1 (hnewsub y0 hy0).1)
        have hkey := key_of_succ g kf y0 hy0k
        have ih := reach_complete g fuel (seen ++ new) new (fun x hx => List.mem_append.2 (Or.inr hx)) ?_ ?_
        · exact ⟨fun x hx => ih.1 x (List.mem_append.2 (Or.inl hx)), ih.2⟩
        · intro a ha b hb
          simp only [expanded, Bool.and_eq_true, List.contains_eq_mem, decide_eq_true_eq, Bool.not_eq_true',
            decide_eq_false_iff_not] at ha
          obtain ⟨hamem, hanew⟩ := ha
          have has : a ∈ seen := by
            rcases List.mem_append.1 hamem with h | h
            · exact h
            · exact absurd h hanew
          by_cases haf : a ∈ frontier
          · have hbn := hnextmem a haf b hb
            by_cases hbs : b ∈ seen
            · exact List.mem_append.2 (Or.inl hbs)
            · refine List.mem_append.2 (Or.inr ?_)
              rw [← hN]; exact List.mem_filter.2 ⟨hbn, by simpa using hbs⟩
          · exact List.mem_append.2 (Or.inl (hcl a (by simp [expanded, has, haf]) b hb))
        · have hlt : pot g (seen ++ new) new < pot g seen frontier := by
            unfold pot
            apply filter_length_lt'
            · intro x hx
              simp only [expanded, Bool.not_eq_true', Bool.and_eq_false_iff, List.contains_eq_mem, decide_eq_false_iff_not,
                Bool.not_eq_false', decide_eq_true_eq] at hx ⊢
              rcases hx with h | h
              · left; intro hs; exact h (List.mem_append.2 (Or.inl hs))
              · by_cases hs : x ∈ seen
                · exact absurd hs (hnewsub x h).2
                · left; exact hs
            · refine ⟨kf, hkey, ?_, ?_⟩
              · simp [expanded, hkf]
              · have hks : kf ∈ seen := hfs kf hkf
                have hkn : kf ∉ new := fun h => (hnewsub kf h).2 hks
                simp [expanded, hks, hkn]
          omega

theorem closed_path (g : List (String × List String)) (R : List String) (hcl : ∀ a ∈ R, ∀ b ∈ succ g a, b ∈ R) :
    ∀ {a b : String}, Path g a b → a ∈ R → b ∈ R := by
  intro a b hp
  induction hp with
  | edge h => intro ha; exact hcl _ ha _ h
  | step h _ ih => intro ha; exact ih (hcl _ ha _ h)

/-- **every circular reference is found**: if some id reaches itself along the edges of the id graph, `hasCycle` says so -/
theorem cycle_detected (t : P) (k : String) (hp : Path (deps t) k k) : hasCycle t = true := by
  have hstart : ∃ b, b ∈ succ (deps t) k ∧ (b = k ∨ Path (deps t) b k) := by
    cases hp with
    | edge h => exact ⟨k, h, Or.inl rfl⟩
    | step h hq => exact ⟨_, h, Or.inr hq⟩
  obtain ⟨b, hb, hbk⟩ := hstart
  have hkey : k ∈ ((deps t).map (·.1)).eraseDups := List.mem_eraseDups.2 (key_of_succ _ k b hb)
  unfold hasCycle
  simp only
  apply List.any_eq_true.2
  refine ⟨k, hkey, ?_⟩
  have hc := reach_complete (deps t) ((deps t).length + 1) ((succ (deps t) k).eraseDups) ((succ (deps t) k).eraseDups)
    (fun x hx => hx) (by intro a ha; simp [expanded] at ha)
    (by
      have : pot (deps t) ((succ (deps t) k).eraseDups) ((succ (deps t) k).eraseDups) ≤ (deps t).length := by
        unfold pot
        exact Nat.le_trans (List.length_filter_le _ _) (by simp)
      omega)
  have hbR : b ∈ reach (deps t) ((deps t).length + 1) ((succ (deps t) k).eraseDups) ((succ (deps t) k).eraseDups) :=
    hc.1 b (List.mem_eraseDups.2 hb)
  have hkR : k ∈ reach (deps t) ((deps t).length + 1) ((succ (deps t) k).eraseDups) ((succ (deps t) k).eraseDups) := by
    rcases hbk with rfl | hq
    · exact hbR
    · exact closed_path _ _ hc.2 hq hbR
  simpa [succ] using hkR

/-- **a model that `errors()` accepts has an acyclic id graph** — no id reaches itself -/
theorem errors_nil_acyclic (t : P) (h : errors t = []) : ∀ k, ¬ Path (deps t) k k := by
  intro k hp
  have h1 := ((errors_nil_iff t).1 h).1
  rw [cycle_detected t k hp] at h1
  cases h1

/-- non-vacuity: a node that lists its own id among its children is circular, and the search says so -/
example : hasCycle (.node "A" ⟨0,1⟩ 1 1 [.leaf "A" ⟨0,1⟩, .leaf "x" ⟨0,1⟩] {}) = true ∧
    Path (deps (.node "A" ⟨0,1⟩ 1 1 [.leaf "A" ⟨0,1⟩, .leaf "x" ⟨0,1⟩] {})) "A" "A" :=
  ⟨by decide, Path.edge (by decide)⟩

end Puan.C10
