/-
  C12 — bound tightening never cuts off a feasible point; row bounds are exact.
-/
import Puan.Lemmas.Poly
import Puan.Lemmas.Comb
namespace Puan.C12
open Puan Poly

/-- declared bounds within the library's default integer range -/
def InRange (b : Bnd) : Prop := defaultMin ≤ b.lo ∧ b.hi ≤ defaultMax

/-- The tightened bounds of a column contain that column's value in every in-bounds
    integer solution. -/
theorem tightenCol_sound (p : Poly) (xs : List Int) (j : Nat) (x : Int) (b : Bnd)
    (hs : Sol p xs) (hx : xs[j]? = some x) (hb : p.bnds[j]? = some b) (hr : InRange b) :
    (tightenCol p j b).lo ≤ x ∧ x ≤ (tightenCol p j b).hi := by
  obtain ⟨hbox, hrows⟩ := hs
  have hw := inBox_get xs p.bnds j x b hbox hx hb
  unfold InRange at hr
  constructor
  · simp only [tightenCol]
    split
    · apply maxL_le _ _ _ (by omega)
      intro c hc
      simp only [lbCands, List.mem_filterMap] at hc
      obtain ⟨r, hr', hcr⟩ := hc
      split at hcr
      · rename_i hpos
        cases hcr
        exact slackQ_lb r xs p.bnds j _ x b hbox (nth_pos_get r.cs j (by omega)) hx hb hpos (hrows r hr')
      · cases hcr
    · exact hw.1
  · simp only [tightenCol]
    split
    · apply le_minL _ _ _ (by omega)
      intro c hc
      simp only [ubCands, List.mem_filterMap] at hc
      obtain ⟨r, hr', hcr⟩ := hc
      split at hcr
      · rename_i hneg
        cases hcr
        exact slackQ_ub r xs p.bnds j _ x b hbox (nth_pos_get r.cs j (by omega)) hx hb hneg (hrows r hr')
      · cases hcr
    · exact hw.2

/-- Tightening never widens the declared bounds. -/
theorem tightenCol_within (p : Poly) (j : Nat) (b : Bnd) :
    b.lo ≤ (tightenCol p j b).lo ∧ (tightenCol p j b).hi ≤ b.hi := by
  simp only [tightenCol]
  constructor <;> split <;> omega

/-- `tighten_column_bounds` is `tightenCol` column by column -/
theorem tighten_get (p : Poly) (j : Nat) : (tighten p)[j]? = (p.bnds[j]?).map (tightenCol p j) := by
  unfold tighten enum
  cases h : p.bnds[j]? with
  | none =>
      have hj : p.bnds.length ≤ j := List.getElem?_eq_none_iff.1 h
      simp [hj]
  | some b =>
      have hj : j < p.bnds.length := (List.getElem?_eq_some_iff.1 h).1
      have hb : p.bnds[j] = b := (List.getElem?_eq_some_iff.1 h).2
      simp [hj, hb]

/-- A lower bound above an upper bound is only reported when there is no solution. -/
theorem crossed_infeasible (p : Poly) (j : Nat) (b : Bnd) (hb : p.bnds[j]? = some b) (hr : InRange b)
    (hc : (tightenCol p j b).lo > (tightenCol p j b).hi) : ¬ ∃ xs, Sol p xs := by
  rintro ⟨xs, hs⟩
  have hlen := inBox_length xs p.bnds hs.1
  have hj : j < p.bnds.length := by
    cases h : p.bnds[j]? with
    | none => rw [h] at hb; cases hb
    | some _ => exact (List.getElem?_eq_some_iff.1 h).1
  have hx : xs[j]? = some (xs[j]'(by omega)) := List.getElem?_eq_getElem (by omega)
  have := tightenCol_sound p xs j _ b hs hx hb hr
  omega

/-- The reported row bounds enclose `row·x − b` over the variable box … -/
theorem rowBounds_enclose (r : PRow) (xs : List Int) (bs : List Bnd) (h : InBox xs bs) :
    rbLo r.cs bs - r.b ≤ dot r.cs xs - r.b ∧ dot r.cs xs - r.b ≤ rbHi r.cs bs - r.b := by
  have := dot_bounds r.cs xs bs h; omega

/-- … and both ends are attained by points of the box: they are exactly the minimum and maximum. -/
theorem rowBounds_attained (r : PRow) (bs : List Bnd) (hw : WfB bs) :
    (∃ xs, InBox xs bs ∧ dot r.cs xs - r.b = rbLo r.cs bs - r.b) ∧
    (∃ xs, InBox xs bs ∧ dot r.cs xs - r.b = rbHi r.cs bs - r.b) := by
  have h1 := argLo_spec r.cs bs hw
  have h2 := argHi_spec r.cs bs hw
  exact ⟨⟨_, h1.1, by rw [h1.2]⟩, ⟨_, h2.1, by rw [h2.2]⟩⟩

/-- `A_min` / `A_max`: entry by entry they bound the term `c·x` of every in-box point … -/
theorem aMinMax_entry : ∀ (cs xs : List Int) (bs : List Bnd) (j : Nat) (c x : Int), InBox xs bs →
    cs[j]? = some c → xs[j]? = some x →
    ∃ lo hi, (zipTerm tmin cs bs)[j]? = some lo ∧ (zipTerm tmax cs bs)[j]? = some hi ∧ lo ≤ c * x ∧ c * x ≤ hi
  | [], _, _, _, _, _, _, hc, _ => by simp at hc
  | _ :: _, [], _, _, _, _, _, _, hx => by simp at hx
  | _ :: _, _ :: _, [], _, _, _, h, _, _ => by simp [InBox] at h
  | c0 :: cs, x0 :: xs, b :: bs, 0, c, x, h, hc, hx => by
      have ⟨h1, _⟩ : (b.lo ≤ x0 ∧ x0 ≤ b.hi) ∧ InBox xs bs := by simpa [InBox] using h
      simp at hc hx; subst hc; subst hx
      have t := term_bounds c0 b x0 h1.1 h1.2
      rw [← tmin_eq_emin c0 b (by omega), ← tmax_eq_emax c0 b (by omega)] at t
      exact ⟨_, _, by simp [zipTerm], by simp [zipTerm], t.1, t.2⟩
  | c0 :: cs, x0 :: xs, b :: bs, j + 1, c, x, h, hc, hx => by
      have ⟨_, h2⟩ : (b.lo ≤ x0 ∧ x0 ≤ b.hi) ∧ InBox xs bs := by simpa [InBox] using h
      simp at hc hx
      obtain ⟨lo, hi, a1, a2, a3, a4⟩ := aMinMax_entry cs xs bs j c x h2 hc hx
      exact ⟨lo, hi, by simpa [zipTerm] using a1, by simpa [zipTerm] using a2, a3, a4⟩

/-- … and their row sums are the quantities `reducable_rows` and `tighten_column_bounds` use. -/
theorem aMin_row_sum : ∀ (cs : List Int) (bs : List Bnd), (zipTerm tmin cs bs).sum = sumMin cs bs
  | [], _ => by simp [zipTerm, sumMin]
  | _ :: _, [] => by simp [zipTerm, sumMin]
  | c :: cs, b :: bs => by simp [zipTerm, sumMin, aMin_row_sum cs bs]
theorem aMax_row_sum : ∀ (cs : List Int) (bs : List Bnd), (zipTerm tmax cs bs).sum = sumMax cs bs
  | [], _ => by simp [zipTerm, sumMax]
  | _ :: _, [] => by simp [zipTerm, sumMax]
  | c :: cs, b :: bs => by simp [zipTerm, sumMax, aMax_row_sum cs bs]

/-- The per-row combination counts match a direct enumeration: `restrPts r.cs bnds` lists, without repetition, exactly
    the restrictions of the in-box points to the row's non-zero columns, and `n_row_combinations` is its length. -/
theorem nRowComb_card (r : PRow) (bs : List Bnd) (hw : WfB bs) (hl : r.cs.length = bs.length) :
    (restrPts r.cs bs).Nodup ∧
    (∀ q, q ∈ restrPts r.cs bs ↔ ∃ xs, InBox xs bs ∧ restr r.cs xs = q) ∧
    ((restrPts r.cs bs).length : Int) = nComb r.cs bs :=
  ⟨restrPts_nodup r.cs bs, mem_restrPts r.cs bs hw hl, restrPts_length r.cs bs hw hl⟩

/-- non-vacuity: a system with a coefficient of magnitude 3 where the division rounds, and a solution -/
example :
    let p : Poly := ⟨[⟨0, 5⟩, ⟨-2, 2⟩], [⟨4, [3, 1]⟩, ⟨-3, [-2, 0]⟩]⟩
    tighten p = [⟨0, 1⟩, ⟨-2, 2⟩] ∧ satisfied p [1, 1] = true := by decide

end Puan.C12
