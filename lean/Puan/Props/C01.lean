/-
  C01 — the logic-to-polyhedron encoding agrees with evaluation on every assignment.
  `enc_feasible` / `enc_active_iff` are stated for any extension that agrees with the model; `agrees_ext` shows that the
  extension by evaluated truth values agrees when the model is coherent (one id, one value); `validated_coherent` (built on
  C10) shows that validation gives coherence — `encoding_agrees_with_evaluation` is the property in one statement.
-/
import Puan.Lemmas.Encode
import Puan.Props.C10
namespace Puan.C01
open Puan P

/-- Without asserting the top node the extended assignment is always feasible:
    every emitted row is satisfied. -/
theorem enc_feasible (x σ : String → Int) (t : P)
    (ha : Agrees x σ t) (hb : InB σ t) (hs : SignOk t) (hf : Free01 t) :
    ∀ r ∈ encode false t, r.sat x := by
  have h := rowsSat_of_agrees x σ t ha hb hs hf
  cases t with
  | leaf i b => simp [encode]
  | node i b s v ks m => simpa [encode] using (rows_spec x _).2 h

/-- With the top node asserted the system is satisfied by the extended assignment
    if and only if the model evaluates to true. -/
theorem enc_active_iff (x σ : String → Int) (i b s v ks m)
    (ha : Agrees x σ (.node i b s v ks m)) (hb : InB σ (.node i b s v ks m))
    (hs : SignOk (.node i b s v ks m)) (hf : Free01 (.node i b s v ks m)) :
    (∀ r ∈ encode true (.node i b s v ks m), r.sat x) ↔ evalPt σ (.node i b s v ks m) = 1 := by
  have ⟨_, hks⟩ : x i = evalPt σ (.node i b s v ks m) ∧ AgreesL x σ ks := by simpa [Agrees] using ha
  have hb' : InBs σ ks := by simpa [InB] using hb
  have ⟨_, hs2⟩ : (s = 1 ∨ s = -1) ∧ SignOks ks := by simpa [SignOk] using hs
  have ⟨_, hf2⟩ : (b.lo = 0 ∧ b.hi = 1) ∧ Free01L ks := by simpa [Free01] using hf
  have hrest := rowsSatL_of_agrees x σ ks hks hb' hs2 hf2
  have hc := colSum_eq x σ ks hks
  simp only [encode, if_true, List.mem_cons, forall_eq_or_imp, topRow_sat, rowsL_spec, hc, evalPt]
  constructor
  · intro ⟨h, _⟩; simp [h]
  · intro h
    refine ⟨?_, hrest⟩
    by_cases hc' : s * sumPt σ ks ≥ v
    · exact hc'
    · simp [hc'] at h

/-! the extension exists: it is the assignment that `evaluate_propositions` reports -/

/-- leaf values from `σ`, every compound id its evaluated truth value -/
def ext (t : P) (σ : String → Int) : String → Int := fun i =>
  match (subs t).find? (fun n => n.id == i) with
  | some n => evalPt σ n
  | none => σ i

/-- all occurrences of an id evaluate alike (true of single-definition, reference-free models) -/
def Coherent (σ : String → Int) (t : P) : Prop :=
  ∀ n ∈ subs t, ∀ m ∈ subs t, n.id = m.id → evalPt σ n = evalPt σ m

mutual
theorem agrees_of_forall (x σ : String → Int) : ∀ p, (∀ n ∈ subs p, x n.id = evalPt σ n) → Agrees x σ p
  | .leaf i b, h => by
      have := h (.leaf i b) (by simp [subs])
      simpa [Agrees, P.id, evalPt] using this
  | .node i b s v ks m, h => by
      have h0 := h (.node i b s v ks m) (by simp [subs])
      simp only [Agrees]
      refine ⟨by simpa [P.id] using h0, agreesL_of_forall x σ ks (fun n hn => h n (by simp [subs, hn]))⟩
theorem agreesL_of_forall (x σ : String → Int) : ∀ ks, (∀ n ∈ subsL ks, x n.id = evalPt σ n) → AgreesL x σ ks
  | [], _ => by simp [AgreesL]
  | k :: ks, h => by
      simp only [AgreesL]
      exact ⟨agrees_of_forall x σ k (fun n hn => h n (by simp [subsL, hn])),
             agreesL_of_forall x σ ks (fun n hn => h n (by simp [subsL, hn]))⟩
end

theorem agrees_ext (σ : String → Int) (t : P) (hc : Coherent σ t) : Agrees (ext t σ) σ t := by
  apply agrees_of_forall
  intro n hn
  unfold ext
  cases hf : (subs t).find? (fun k => k.id == n.id) with
  | none =>
      have := List.find?_eq_none.1 hf n hn
      simp at this
  | some k =>
      have hk := List.mem_of_find?_eq_some hf
      have hid := List.find?_some hf
      simp at hid
      simpa using hc k hk n hn hid

/-- non-vacuity: a three-level mixed model with an integer leaf (−3,10); the extension of a
    concrete assignment satisfies the hypotheses and the asserted system -/
example :
    let t : P := .node "T" ⟨0,1⟩ 1 2
      [.node "M" ⟨0,1⟩ (-1) (-1) [.leaf "a" ⟨0,1⟩, .node "X" ⟨0,1⟩ 1 1 [.leaf "b" ⟨0,1⟩, .leaf "z" ⟨-3,10⟩] {}] {},
       .leaf "c" ⟨0,1⟩] {}
    let σ : String → Int := fun i => if i = "z" then -2 else if i = "c" then 1 else 0
    evalPt σ t = 1 ∧ (encode true t).all (fun r => decide (r.sat (ext t σ))) = true := by decide

/-! ## Validation gives the hypothesis: in a model that `errors()` accepts all occurrences of an id evaluate alike -/

/-- reference-free: no leaf carries the id of a sub-proposition (the scope of C01–C08) -/
def RefFree (t : P) : Prop := ∀ a ∈ subs t, ∀ b ∈ subs t, a.id = b.id → a.isLeaf = b.isLeaf

theorem sum_eq_of_ids (σ : String → Int) (Q : P → P → Prop) (hQ : ∀ a b, Q a b → evalPt σ a = evalPt σ b) :
    ∀ (ks ls : List P), ks.map (·.id) = ls.map (·.id) → (∀ k ∈ ks, ∀ l ∈ ls, k.id = l.id → Q k l) → sumPt σ ks = sumPt σ ls
  | [], [], _, _ => rfl
  | [], _ :: _, h, _ => by simp at h
  | _ :: _, [], h, _ => by simp at h
  | k :: ks, l :: ls, h, hq => by
      simp only [List.map_cons, List.cons.injEq] at h
      simp only [sumPt]
      rw [hQ k l (hq k (by simp) l (by simp) h.1),
        sum_eq_of_ids σ Q hQ ks ls h.2 (fun a ha b hb => hq a (by simp [ha]) b (by simp [hb]))]

/-- **a validated, reference-free model is coherent**: one id, one value — whatever the assignment.  (Every occurrence of
    a sub-proposition id has the same sign, value and child ids — C10.single_definition — and, by induction on the size of
    the sub-tree, the children evaluate alike.) -/
theorem validated_coherent (σ : String → Int) (t : P) (he : errors t = []) (hr : RefFree t) : Coherent σ t := by
  have key : ∀ N : Nat, ∀ n ∈ subs t, ∀ m ∈ subs t, (subs n).length ≤ N → n.id = m.id → evalPt σ n = evalPt σ m := by
    intro N
    induction N with
    | zero =>
        intro n _ m _ hl _
        have : 0 < (subs n).length := by cases n <;> simp [subs]
        omega
    | succ N ih =>
        intro n hn m hm hl hid
        cases n with
        | leaf i b =>
            cases m with
            | leaf j c => simp only [P.id] at hid; simp [evalPt, hid]
            | node j c s' v' ls m' => have := hr _ hn _ hm hid; simp [isLeaf] at this
        | node i b s v ks mm =>
            cases m with
            | leaf j c => have := hr _ hn _ hm hid; simp [isLeaf] at this
            | node j c s' v' ls m' =>
                have hsd := C10.single_definition t he _ hn _ hm rfl rfl hid
                obtain ⟨_, hs, hv, hids⟩ := C10.sameDef_spec _ _ _ _ _ _ _ _ _ _ _ _ hsd
                subst hs; subst hv
                have hsum : sumPt σ ks = sumPt σ ls := by
                  apply sum_eq_of_ids σ (fun a b => a ∈ subs t ∧ b ∈ subs t ∧ (subs a).length ≤ N ∧ a.id = b.id)
                    (fun a b ⟨h1, h2, h3, h4⟩ => ih a h1 b h2 h3 h4) ks ls hids
                  intro k hk l hlm hkl
                  have ⟨hks, hkl'⟩ := C10.kid_subs ks k hk
                  have ⟨hls, _⟩ := C10.kid_subs ls l hlm
                  refine ⟨?_, ?_, ?_, hkl⟩
                  · exact C10.subs_trans t _ k hn (by simp only [subs, List.mem_cons]; right; exact hks k (C10.self_mem_subs k))
                  · exact C10.subs_trans t _ l hm (by simp only [subs, List.mem_cons]; right; exact hls l (C10.self_mem_subs l))
                  · simp only [subs, List.length_cons] at hl; omega
                simp only [evalPt, hsum]
  intro n hn m hm hid
  exact key _ n hn m hm (Nat.le_refl _) hid

/-- … so for validated reference-free models C01 needs no further hypothesis about ids: the assignment extended by the
    evaluated truth values (`ext`) agrees with the model -/
theorem agrees_ext_validated (σ : String → Int) (t : P) (he : errors t = []) (hr : RefFree t) : Agrees (ext t σ) σ t :=
  agrees_ext σ t (validated_coherent σ t he hr)

/-- **C01 in one statement**: for a model that passes validation (reference-free, no sub-proposition pre-fixed, signs ±1)
    and every assignment of its leaves within their bounds, the assignment extended by each sub-proposition's evaluated
    truth value satisfies the system without the top node asserted, and satisfies the asserted system exactly when the
    model evaluates to true -/
theorem encoding_agrees_with_evaluation (σ : String → Int) (i b s v ks m)
    (he : errors (.node i b s v ks m) = []) (hr : RefFree (.node i b s v ks m))
    (hb : InB σ (.node i b s v ks m)) (hs : SignOk (.node i b s v ks m)) (hf : Free01 (.node i b s v ks m)) :
    (∀ r ∈ encode false (.node i b s v ks m), r.sat (ext (.node i b s v ks m) σ)) ∧
    ((∀ r ∈ encode true (.node i b s v ks m), r.sat (ext (.node i b s v ks m) σ)) ↔ evalPt σ (.node i b s v ks m) = 1) :=
  have ha := agrees_ext_validated σ (.node i b s v ks m) he hr
  ⟨enc_feasible _ σ _ ha hb hs hf, enc_active_iff _ σ i b s v ks m ha hb hs hf⟩

end Puan.C01
