/-
  C01 — the logic-to-polyhedron encoding agrees with evaluation on every assignment.
-/
import Puan.Lemmas.Encode
namespace Puan.C01
open Puan P

/-- Without asserting the top node the extended assignment is always feasible:
    every emitted row is satisfied. -/
theorem enc_feasible (x σ : String → Int) (t : P)
    (ha : Agrees x σ t) (hb : InB σ t) (hs : SignOk t) (hf : Free01 t) :
    ∀ r ∈ encode false t, r.sat x := by
  have h := rowsSat_of_agrees x σ t ha hb hs hf
  cases t with
  | leaf i b => simp [encode]
  | node i b s v ks m => simpa [encode] using (rows_spec x _).2 h

/-- With the top node asserted the system is satisfied by the extended assignment
    if and only if the model evaluates to true. -/
theorem enc_active_iff (x σ : String → Int) (i b s v ks m)
    (ha : Agrees x σ (.node i b s v ks m)) (hb : InB σ (.node i b s v ks m))
    (hs : SignOk (.node i b s v ks m)) (hf : Free01 (.node i b s v ks m)) :
    (∀ r ∈ encode true (.node i b s v ks m), r.sat x) ↔ evalPt σ (.node i b s v ks m) = 1 := by
  have ⟨_, hks⟩ : x i = evalPt σ (.node i b s v ks m) ∧ AgreesL x σ ks := by simpa [Agrees] using ha
  have hb' : InBs σ ks := by simpa [InB] using hb
  have ⟨_, hs2⟩ : (s = 1 ∨ s = -1) ∧ SignOks ks := by simpa [SignOk] using hs
  have ⟨_, hf2⟩ : (b.lo = 0 ∧ b.hi = 1) ∧ Free01L ks := by simpa [Free01] using hf
  have hrest := rowsSatL_of_agrees x σ ks hks hb' hs2 hf2
  have hc := colSum_eq x σ ks hks
  simp only [encode, if_true, List.mem_cons, forall_eq_or_imp, topRow_sat, rowsL_spec, hc, evalPt]
  constructor
  · intro ⟨h, _⟩; simp [h]
  · intro h
    refine ⟨?_, hrest⟩
    by_cases hc' : s * sumPt σ ks ≥ v
    · exact hc'
    · simp [hc'] at h

/-! the extension exists: it is the assignment that `evaluate_propositions` reports -/

/-- leaf values from `σ`, every compound id its evaluated truth value -/
def ext (t : P) (σ : String → Int) : String → Int := fun i =>
  match (subs t).find? (fun n => n.id == i) with
  | some n => evalPt σ n
  | none => σ i

/-- all occurrences of an id evaluate alike (true of single-definition, reference-free models) -/
def Coherent (σ : String → Int) (t : P) : Prop :=
  ∀ n ∈ subs t, ∀ m ∈ subs t, n.id = m.id → evalPt σ n = evalPt σ m

mutual
theorem agrees_of_forall (x σ : String → Int) : ∀ p, (∀ n ∈ subs p, x n.id = evalPt σ n) → Agrees x σ p
  | .leaf i b, h => by
      have := h (.leaf i b) (by simp [subs])
      simpa [Agrees, P.id, evalPt] using this
  | .node i b s v ks m, h => by
      have h0 := h (.node i b s v ks m) (by simp [subs])
      simp only [Agrees]
      refine ⟨by simpa [P.id] using h0, agreesL_of_forall x σ ks (fun n hn => h n (by simp [subs, hn]))⟩
theorem agreesL_of_forall (x σ : String → Int) : ∀ ks, (∀ n ∈ subsL ks, x n.id = evalPt σ n) → AgreesL x σ ks
  | [], _ => by simp [AgreesL]
  | k :: ks, h => by
      simp only [AgreesL]
      exact ⟨agrees_of_forall x σ k (fun n hn => h n (by simp [subsL, hn])),
             agreesL_of_forall x σ ks (fun n hn => h n (by simp [subsL, hn]))⟩
end

theorem agrees_ext (σ : String → Int) (t : P) (hc : Coherent σ t) : Agrees (ext t σ) σ t := by
  apply agrees_of_forall
  intro n hn
  unfold ext
  cases hf : (subs t).find? (fun k => k.id == n.id) with
  | none =>
      have := List.find?_eq_none.1 hf n hn
      simp at this
  | some k =>
      have hk := List.mem_of_find?_eq_some hf
      have hid := List.find?_some hf
      simp at hid
      simpa using hc k hk n hn hid

/-- non-vacuity: a three-level mixed model with an integer leaf (−3,10); the extension of a
    concrete assignment satisfies the hypotheses and the asserted system -/
example :
    let t : P := .node "T" ⟨0,1⟩ 1 2
      [.node "M" ⟨0,1⟩ (-1) (-1) [.leaf "a" ⟨0,1⟩, .node "X" ⟨0,1⟩ 1 1 [.leaf "b" ⟨0,1⟩, .leaf "z" ⟨-3,10⟩] {}] {},
       .leaf "c" ⟨0,1⟩] {}
    let σ : String → Int := fun i => if i = "z" then -2 else if i = "c" then 1 else 0
    evalPt σ t = 1 ∧ (encode true t).all (fun r => decide (r.sat (ext t σ))) = true := by decide

end Puan.C01
