/-
  C08 — reduce() preserves meaning and removes every fixed variable.
-/
import Puan.Lemmas.Reduce
namespace Puan.C08
open Puan P

theorem union_E (I : Interp) : Interp.union E I = I := by
  funext i; simp [Interp.union, E]

theorem RestL_iff (A I : Interp) : ∀ ks, RestL A I ks ↔ ∀ k ∈ ks, Rest A I k
  | [] => by simp [RestL]
  | k :: ks => by simp [RestL, RestL_iff A I ks]

theorem DeclWfL_iff : ∀ ks, DeclWfL ks ↔ ∀ k ∈ ks, DeclWf k
  | [] => by simp [DeclWfL]
  | k :: ks => by simp [DeclWfL, DeclWfL_iff ks]

theorem mem_reduceComps : ∀ (ks : List P) (k' : P), k' ∈ reduceComps ks →
    ∃ k ∈ ks, k.isLeaf = false ∧ k' = reduce k
  | [], _, h => by simp [reduceComps] at h
  | .leaf i b :: ks, k', h => by
      obtain ⟨k, hk, h1, h2⟩ := mem_reduceComps ks k' (by simpa [reduceComps] using h)
      exact ⟨k, by simp [hk], h1, h2⟩
  | .node i b s v ks' m :: ks, k', h => by
      simp only [reduceComps, List.mem_cons] at h
      rcases h with rfl | h
      · exact ⟨_, by simp, rfl, rfl⟩
      · obtain ⟨k, hk, h1, h2⟩ := mem_reduceComps ks k' h
        exact ⟨k, by simp [hk], h1, h2⟩

/-- a constant member of the reduced child list keeps its constant under any further
    interpretation that stays inside declared bounds and names no sub-proposition -/
theorem const_kept (I : Interp) (hI : IWf I) (ks : List P) (hd : DeclWfL ks) (hr : RestL E I ks) :
    ∀ k' ∈ reduceComps ks ++ leavesOf ks, k'.bnd.isConst = true → (assume I k').bnd = k'.bnd := by
  intro k' hk' hc
  rcases List.mem_append.1 hk' with h | h
  · obtain ⟨k, hk, hl, rfl⟩ := mem_reduceComps ks k' h
    have hleaf := reduce_const_isLeaf k hc
    have hid := reduce_id k
    have hIk : I k.id = none := restL_nodes E I ks hr k hk hl
    cases hred : reduce k with
    | leaf j c =>
        rw [hred] at hid
        have hj : j = k.id := hid
        simp [assume, bnd, hj, hIk]
    | node j c s v ks' m => rw [hred] at hleaf; simp [isLeaf] at hleaf
  · have hmem : k' ∈ ks := (List.mem_filter.1 h).1
    have hl : k'.isLeaf = true := (List.mem_filter.1 h).2
    cases k' with
    | node => simp [isLeaf] at hl
    | leaf j c =>
        have hrk := (RestL_iff E I ks).1 hr _ hmem
        have hdk := (DeclWfL_iff ks).1 hd _ hmem
        have hsub : ((I j).getD c).sub c := by
          have : (E j ≠ none → I j = none) ∧ (E j = none → ((I j).getD c).sub c) := by simpa [Rest] using hrk
          exact this.2 rfl
        have hw : ((I j).getD c).wf := getD_wf I hI j c (by simpa [DeclWf] using hdk)
        have hcc : c.lo = c.hi := by simpa [bnd, Bnd.isConst] using hc
        simp only [assume, bnd]
        exact sub_const_eq _ _ hcc hw hsub

theorem assume_node_bnd (I : Interp) (i : String) (nb : Bnd) (s v : Int) (K : List P) (m : Meta)
    (hI : I i = none) (hn : ¬ nb.lo = nb.hi) :
    (assume I (.node i nb s v K m)).bnd = thr s v (assumeL I K) := by
  simp [assume, hI, hn, bnd]

theorem thr_shift (s v c : Int) (L1 L2 : List P) (h1 : sumLo s L1 = sumLo s L2 + c) (h2 : sumHi s L1 = sumHi s L2 + c) :
    thr s (v - c) L2 = thr s v L1 := by
  simp only [thr]
  congr 1 <;> (split <;> split <;> omega)

mutual
/-- The reduced model evaluates, on every interpretation of the still-free leaves (values
    inside their bounds, no sub-proposition id named), to the same value as the unreduced
    model with the fixed variables at their constants. -/
theorem reduce_eval (I : Interp) (hI : IWf I) : ∀ p, SignOk p → DeclWf p → Rest E I p →
    (assume I (reduce p)).bnd = (assume I p).bnd
  | .leaf i b, _, _, _ => by simp [reduce]
  | .node i b s v ks m, hs, hd, hr => by
      have ⟨hs1, hs2⟩ : (s = 1 ∨ s = -1) ∧ SignOks ks := by simpa [SignOk] using hs
      have ⟨hI0, hr2⟩ : I i = none ∧ RestL E I ks := by simpa [Rest] using hr
      have ⟨hb, hks⟩ : b.wf ∧ DeclWfL ks := by simpa [DeclWf] using hd
      have hL := reduce_evalL I hI s ks hs2 hks hr2
      have hE := reduceComps_sums s ks
      simp only [leavesOf] at hL hE
      simp only [reduce]
      by_cases hc : b.lo = b.hi
      · simp [(isConst_iff b).2 hc, assume, hI0, hc, bnd]
      · have hc' : b.isConst = false := by
          cases h : b.isConst with
          | false => rfl
          | true => exact absurd ((isConst_iff b).1 h) hc
        simp only [hc', Bool.false_eq_true, if_false]
        have hrhs : (assume I (.node i b s v ks m)).bnd = thr s v (assumeL I ks) := by
          simp [assume, hI0, hc, bnd]
        rw [hrhs]
        split
        · -- decided by the constants alone: stays decided under every refinement
          rename_i hn
          have hn' := (isConst_iff _).1 hn
          have hthr : thr s v (reduceComps ks ++ List.filter (fun x => x.isLeaf) ks) = thr s v (assumeL E ks) := by
            simp only [thr]; rw [hE.1, hE.2]
          simp only [assume, hI0, Option.getD_none, bnd]
          have href : RefinesL E I ks := by
            have := rest_refinesL E I ks hr2
            rwa [union_E] at this
          have ⟨m1, m2⟩ := monoL E I s hs1 ks hs2 href
          have hsub : (thr s v (assumeL I ks)).sub (thr s v (assumeL E ks)) := thr_sub s v _ _ m1 m2
          have hw : (thr s v (assumeL I ks)).wf := thr_wf s v _ (assumeL_wf I hI s hs1 ks hs2 hks)
          rw [hthr] at hn' ⊢
          exact (sub_const_eq _ _ hn' hw hsub).symm
        · -- constants folded into the threshold
          rename_i hn
          have hn' : ¬ ((thr s v (reduceComps ks ++ List.filter (fun x => x.isLeaf) ks)).lo =
              (thr s v (reduceComps ks ++ List.filter (fun x => x.isLeaf) ks)).hi) := fun h => hn ((isConst_iff _).2 h)
          have hsplit := const_split I s hs1 (reduceComps ks ++ List.filter (fun x => x.isLeaf) ks)
            (const_kept I hI ks hks hr2)
          have hperm : (assumeL I (sortById ((reduceComps ks ++ List.filter (fun x => x.isLeaf) ks).filter
              (fun k => !k.bnd.isConst)))).Perm
              (assumeL I ((reduceComps ks ++ List.filter (fun x => x.isLeaf) ks).filter (fun k => !k.bnd.isConst))) := by
            simp only [assumeL_eq_map]; exact (sortById_perm' _).map _
          rw [assume_node_bnd I i _ s _ _ _ hI0 hn']
          apply thr_shift
          · rw [sumLo_perm s hperm, ← hL.1, hsplit.1]
          · rw [sumHi_perm s hperm, ← hL.2, hsplit.2]
theorem reduce_evalL (I : Interp) (hI : IWf I) (s : Int) : ∀ ks, SignOks ks → DeclWfL ks → RestL E I ks →
    sumLo s (assumeL I (reduceComps ks ++ leavesOf ks)) = sumLo s (assumeL I ks) ∧
    sumHi s (assumeL I (reduceComps ks ++ leavesOf ks)) = sumHi s (assumeL I ks)
  | [], _, _, _ => by simp [reduceComps, leavesOf, assumeL, sumLo, sumHi]
  | .leaf i b :: ks, hs, hd, hr => by
      have ⟨_, s2⟩ : SignOk (.leaf i b) ∧ SignOks ks := by simpa [SignOks] using hs
      have ⟨_, d2⟩ : DeclWf (.leaf i b) ∧ DeclWfL ks := by simpa [DeclWfL] using hd
      have ⟨_, r2⟩ : Rest E I (.leaf i b) ∧ RestL E I ks := by simpa [RestL] using hr
      have ih := reduce_evalL I hI s ks s2 d2 r2
      simp only [reduceComps, leavesOf, List.filter_cons, isLeaf, if_true, assumeL, assumeL_append,
        sumLo_append, sumHi_append, sumLo, sumHi] at *
      omega
  | .node i b s' v ks' m :: ks, hs, hd, hr => by
      have ⟨s1, s2⟩ : SignOk (.node i b s' v ks' m) ∧ SignOks ks := by simpa [SignOks] using hs
      have ⟨d1, d2⟩ : DeclWf (.node i b s' v ks' m) ∧ DeclWfL ks := by simpa [DeclWfL] using hd
      have ⟨r1, r2⟩ : Rest E I (.node i b s' v ks' m) ∧ RestL E I ks := by simpa [RestL] using hr
      have ih := reduce_evalL I hI s ks s2 d2 r2
      have hk := reduce_eval I hI (.node i b s' v ks' m) s1 d1 r1
      simp only [reduceComps, leavesOf, List.filter_cons, isLeaf, Bool.false_eq_true, if_false, assumeL,
        List.cons_append, sumLo, sumHi, hk] at *
      omega
end

/-- the statement of C08, first part, in the vocabulary of `evaluate` -/
theorem reduce_preserves_evaluate (I : Interp) (t : P) (hI : IWf I) (hs : SignOk t) (hd : DeclWf t)
    (hr : Rest E I t) : evalB I (reduce t) = evalB I t := reduce_eval I hI t hs hd hr

mutual
/-- no variable and no sub-proposition with constant bounds -/
def NoConst : P → Prop
  | .leaf _ b => ¬ b.lo = b.hi
  | .node _ b _ _ ks _ => ¬ b.lo = b.hi ∧ NoConstL ks
def NoConstL : List P → Prop
  | [] => True
  | k :: ks => NoConst k ∧ NoConstL ks
end

theorem NoConstL_iff : ∀ ks, NoConstL ks ↔ ∀ k ∈ ks, NoConst k
  | [] => by simp [NoConstL]
  | k :: ks => by simp [NoConstL, NoConstL_iff ks]

mutual
/-- The reduced model contains no variable or sub-proposition with constant bounds other
    than, possibly, a single constant standing for the whole model. -/
theorem reduce_no_const : ∀ p, p.isLeaf = false →
    ((reduce p).isLeaf = true ∧ (reduce p).bnd.isConst = true) ∨ NoConst (reduce p)
  | .leaf .., h => by simp [isLeaf] at h
  | .node i b s v ks m, _ => by
      have hsub := reduceComps_no_const ks
      simp only [reduce]
      split
      · rename_i hb; left; simp [isLeaf, bnd, hb]
      · split
        · rename_i hn; left; exact ⟨rfl, hn⟩
        · rename_i hn
          right
          simp only [NoConst]
          refine ⟨fun h => hn ((isConst_iff _).2 h), (NoConstL_iff _).2 ?_⟩
          intro k' hk'
          have hk'' := (sortById_perm' _).mem_iff.1 hk'
          obtain ⟨hmem, hnc⟩ := List.mem_filter.1 hk''
          have hnc' : k'.bnd.isConst = false := by simpa using hnc
          rcases List.mem_append.1 hmem with h | h
          · exact hsub k' h hnc'
          · have hl : k'.isLeaf = true := (List.mem_filter.1 h).2
            cases k' with
            | node => simp [isLeaf] at hl
            | leaf j c =>
                simp only [NoConst]
                intro hc
                have : (Bnd.isConst c) = true := (isConst_iff c).2 hc
                simp [bnd, this] at hnc'
theorem reduceComps_no_const : ∀ ks, ∀ k' ∈ reduceComps ks, k'.bnd.isConst = false → NoConst k'
  | [], _, h, _ => by simp [reduceComps] at h
  | .leaf i b :: ks, k', h, hc => reduceComps_no_const ks k' (by simpa [reduceComps] using h) hc
  | .node i b s v ks' m :: ks, k', h, hc => by
      simp only [reduceComps, List.mem_cons] at h
      rcases h with rfl | h
      · rcases reduce_no_const (.node i b s v ks' m) rfl with ⟨_, h2⟩ | h2
        · rw [h2] at hc; cases hc
        · exact h2
      · exact reduceComps_no_const ks k' h hc
end

/-- non-vacuity: a model with a fixed leaf and a fixed sub-proposition; the reduced model has a
    lower threshold, and the hypotheses of `reduce_preserves_evaluate` hold for an interpretation -/
example :
    let t : P := .node "A" ⟨0,1⟩ 1 3 [.leaf "x" ⟨1,1⟩, .leaf "y" ⟨0,1⟩, .node "B" ⟨1,1⟩ 1 1 [.leaf "z" ⟨0,1⟩] {}, .leaf "w" ⟨0,4⟩] {}
    let I : Interp := Interp.ofList [("y", ⟨1,1⟩)]
    SignOk t ∧ DeclWf t ∧ Rest E I t ∧ evalB I t = ⟨1, 1⟩ := by
  refine ⟨by simp [SignOk, SignOks], by simp [DeclWf, DeclWfL, Bnd.wf], ?_, by decide⟩
  simp [Rest, RestL, E, Interp.ofList, List.lookup, Bnd.sub]

end Puan.C08
