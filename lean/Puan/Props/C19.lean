/-
  C19 — point classification agrees with A x ≥ b in every input shape.
-/
import Puan.Model.Poly
namespace Puan.C19
open Puan Poly

/-- per point: all rows hold -/
theorem satisfied_spec (p : Poly) (xs : List Int) : satisfied p xs = true ↔ ∀ r ∈ p.rows, rowSat r xs := by
  simp [satisfied, List.all_eq_true]

/-- `separable` is the negation: some row is violated -/
theorem separable_spec (p : Poly) (xs : List Int) : separable p xs = true ↔ ∃ r ∈ p.rows, ¬ rowSat r xs := by
  simp [separable, List.any_eq_true]

theorem separable_eq_not_satisfied (p : Poly) (xs : List Int) : separable p xs = !satisfied p xs := by
  cases h : satisfied p xs with
  | true =>
      have := (satisfied_spec p xs).1 h
      cases h' : separable p xs with
      | false => rfl
      | true =>
          obtain ⟨r, hr, hn⟩ := (separable_spec p xs).1 h'
          exact absurd (this r hr) hn
  | false =>
      cases h' : separable p xs with
      | true => rfl
      | false =>
          exfalso
          have hall : ∀ r ∈ p.rows, rowSat r xs := by
            intro r hr
            by_cases hs : rowSat r xs
            · exact hs
            · have : separable p xs = true := (separable_spec p xs).2 ⟨r, hr, hs⟩
              rw [h'] at this; cases this
          rw [(satisfied_spec p xs).2 hall] at h; cases h

/-- per row: some point of the group violates that row -/
theorem ineqSep_spec (p : Poly) (pts : List (List Int)) (i : Nat) (r : PRow) (hr : p.rows[i]? = some r) :
    (ineqSep p pts)[i]? = some (decide (∃ xs ∈ pts, ¬ rowSat r xs)) := by
  simp only [ineqSep, List.getElem?_map, hr, Option.map_some, Option.some.injEq]
  cases h : pts.any (fun xs => !decide (rowSat r xs)) with
  | true =>
      obtain ⟨xs, hx, hv⟩ := List.any_eq_true.1 h
      have : ∃ xs ∈ pts, ¬ rowSat r xs := ⟨xs, hx, by simpa using hv⟩
      simp [this]
  | false =>
      have : ¬ ∃ xs ∈ pts, ¬ rowSat r xs := by
        rintro ⟨xs, hx, hv⟩
        have : pts.any (fun xs => !decide (rowSat r xs)) = true := List.any_eq_true.2 ⟨xs, hx, by simpa using hv⟩
        rw [h] at this; cases this
      simp [this]

/-- output shapes follow the input shape (vector → scalar, matrix → vector, stack → matrix; for
    `ineq_separate_points` one entry per row and per group) -/
theorem shapes (p : Poly) (x : List Int) (xs : List (List Int)) (xss : List (List (List Int))) :
    ineqsSatisfied p (.d1 x) = .b (satisfied p x) ∧
    ineqsSatisfied p (.d2 xs) = .v (xs.map (satisfied p)) ∧
    ineqsSatisfied p (.d3 xss) = .m (xss.map (fun g => g.map (satisfied p))) ∧
    separableP p (.d1 x) = .b (!satisfied p x) ∧
    separableP p (.d2 xs) = .v (xs.map (fun y => !satisfied p y)) ∧
    separableP p (.d3 xss) = .m (xss.map (fun g => g.map (fun y => !satisfied p y))) ∧
    ineqSeparatePoints p (.d1 x) = .v (ineqSep p [x]) ∧
    ineqSeparatePoints p (.d2 xs) = .v (ineqSep p xs) ∧
    ineqSeparatePoints p (.d3 xss) = .m (xss.map (ineqSep p)) ∧
    (ineqSep p xs).length = p.rows.length := by
  simp [ineqsSatisfied, separableP, ineqSeparatePoints, separable_eq_not_satisfied, ineqSep]

/-- non-vacuity: a point on a facet is satisfied, one just outside is separable -/
example :
    let p : Poly := ⟨[⟨0, 3⟩, ⟨0, 3⟩], [⟨2, [1, 1]⟩, ⟨-2, [-1, 0]⟩]⟩
    satisfied p [2, 0] = true ∧ separable p [3, 0] = true ∧ ineqSep p [[2, 0], [3, 0]] = [false, true] := by decide

end Puan.C19
