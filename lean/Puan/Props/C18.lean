/-
  C18 — extending a configurator equals building it with the extra rule.
-/
import Puan.Model.Config
import Puan.Lemmas.Negate
import Puan.Props.C04
namespace Puan.C18
open Puan P Config

/-- `add` returns exactly the configurator constructed from the current rules followed by the
    new one, under the configurator's own id -/
theorem add_eq_mk (i b s v ks m) (r c' : P) (h : add (.node i b s v ks m) r = some c') :
    c' = mkStingy (ks ++ [r]) i := by
  simp only [add] at h
  split at h
  · cases h
  · exact (Option.some.inj h).symm

/-- … it keeps the configurator's id … -/
theorem add_keeps_id (i b s v ks m) (r c' : P) (h : add (.node i b s v ks m) r = some c') : c'.id = i := by
  rw [add_eq_mk i b s v ks m r c' h]
  simp [mkStingy, mkAll, mkAtLeast, varOf, P.id]

/-- … and refuses a rule whose id already names one of the existing top-level rules or items -/
theorem add_refuses (i b s v ks m) (r : P) (h : ∃ k ∈ ks, k.id = r.id) : add (.node i b s v ks m) r = none := by
  obtain ⟨k, hk, hid⟩ := h
  have : ks.any (fun k => k.id == r.id) = true := List.any_eq_true.2 ⟨k, hk, by simp [hid]⟩
  simp [add, this]

theorem add_accepts (i b s v ks m) (r : P) (h : ∀ k ∈ ks, k.id ≠ r.id) :
    add (.node i b s v ks m) r = some (mkStingy (ks ++ [r]) i) := by
  have : ks.any (fun k => k.id == r.id) = false := by
    apply Bool.eq_false_iff.2
    intro ht
    obtain ⟨k, hk, hid⟩ := List.any_eq_true.1 ht
    exact h k hk (by simpa using hid)
  simp [add, this]

theorem orderArgs_nonstr : ∀ rules : List P, orderArgs (rules.map (fun r => (false, r))) = rules
  | [] => by simp [orderArgs]
  | r :: rs => by
      have ih := orderArgs_nonstr rs
      simp only [orderArgs, List.map_cons, List.filter_cons, Bool.not_false, if_true, Bool.false_eq_true, if_false,
        List.cons_append] at *
      rw [ih]

/-- the configurator that `mkStingy` builds: the given rules, sorted by id, under the id `i` -/
theorem mkStingy_node (rules : List P) (i : String) :
    ∃ b s v m, mkStingy rules i = .node i b s v (sortById rules) m := by
  simp only [mkStingy, mkAll, mkAtLeast, varOf, Option.map_some, orderArgs_nonstr]
  exact ⟨_, _, _, _, rfl⟩

theorem le_trans_id : ∀ (a b c : P), decide (a.id ≤ b.id) = true → decide (b.id ≤ c.id) = true → decide (a.id ≤ c.id) = true := by
  intro a b c h1 h2
  simp only [decide_eq_true_eq] at *
  exact String.le_trans h1 h2

theorem le_total_id : ∀ (a b : P), (decide (a.id ≤ b.id) || decide (b.id ≤ a.id)) = true := by
  intro a b
  simp only [Bool.or_eq_true, decide_eq_true_eq]
  exact String.le_total a.id b.id

theorem sortById_sorted (l : List P) : (sortById l).Pairwise (fun a b => decide (a.id ≤ b.id) = true) :=
  List.pairwise_mergeSort le_trans_id le_total_id l

theorem sortById_idem (l : List P) : sortById (sortById l) = sortById l :=
  List.mergeSort_of_pairwise (sortById_sorted l)

theorem nodup_map_inj {α β} (f : α → β) : ∀ (l : List α), (l.map f).Nodup → ∀ a ∈ l, ∀ b ∈ l, f a = f b → a = b
  | [], _, a, ha, _, _, _ => by simp at ha
  | x :: l, hn, a, ha, b, hb, hab => by
      simp only [List.map_cons, List.nodup_cons, List.mem_map, not_exists, not_and] at hn
      rcases List.mem_cons.1 ha with rfl | ha' <;> rcases List.mem_cons.1 hb with rfl | hb'
      · rfl
      · exact absurd hab.symm (hn.1 b hb')
      · exact absurd hab (hn.1 a ha')
      · exact nodup_map_inj f l hn.2 a ha' b hb' hab

/-- sorting is insensitive to the order in which rules were supplied when ids are pairwise
    distinct: two id-sorted arrangements of the same rules coincide -/
theorem sorted_unique (l1 l2 : List P) (hp : l1.Perm l2) (hn : (l1.map (·.id)).Nodup) :
    sortById l1 = sortById l2 := by
  have h1 : (sortById l1).Perm (sortById l2) :=
    (sortById_perm l1).trans (hp.trans (sortById_perm l2).symm)
  apply List.Perm.eq_of_pairwise (le := fun a b : P => decide (a.id ≤ b.id) = true) _
    (sortById_sorted l1) (sortById_sorted l2) h1
  intro a b ha hb hab hba
  simp only [decide_eq_true_eq] at hab hba
  have hid : a.id = b.id := String.le_antisymm hab hba
  have ha1 : a ∈ l1 := (sortById_perm l1).mem_iff.1 ha
  have hb1 : b ∈ l1 := hp.mem_iff.2 ((sortById_perm l2).mem_iff.1 hb)
  exact nodup_map_inj (·.id) l1 hn a ha1 b hb1 hid

/-- Any sequence of additions ends in the configurator constructed directly with the old rules
    followed by the new ones, under the same id (ids pairwise distinct, as `add` itself demands
    at top level; `ks` sorted, as every constructed configurator's rules are). -/
theorem addAll_kids : ∀ (rs : List P) (i b s v ks m) (c' : P),
    addAll (.node i b s v ks m) rs = some c' → sortById ks = ks → (((ks ++ rs).map (·.id)).Nodup) →
    c'.kids = sortById (ks ++ rs) ∧ c'.id = i
  | [], i, b, s, v, ks, m, c', h, hsort, _ => by
      simp only [addAll, Option.some.injEq] at h
      subst h
      simp [P.kids, P.id, hsort]
  | r :: rs, i, b, s, v, ks, m, c', h, hsort, hn => by
      simp only [addAll] at h
      cases hadd : add (.node i b s v ks m) r with
      | none => rw [hadd] at h; cases h
      | some c1 =>
          rw [hadd] at h
          have hc1 := add_eq_mk i b s v ks m r c1 hadd
          obtain ⟨b1, s1, v1, m1, hnode⟩ := mkStingy_node (ks ++ [r]) i
          rw [hc1, hnode] at h
          have hperm : (sortById (ks ++ [r]) ++ rs).Perm (ks ++ r :: rs) := by
            have := (sortById_perm (ks ++ [r])).append_right rs
            simpa using this
          have hn1 : ((sortById (ks ++ [r]) ++ rs).map (·.id)).Nodup :=
            (hperm.map _).nodup_iff.2 hn
          have ih := addAll_kids rs i b1 s1 v1 (sortById (ks ++ [r])) m1 c' h (sortById_idem _) hn1
          refine ⟨?_, ih.2⟩
          rw [ih.1]
          exact sorted_unique _ _ hperm hn1

/-- non-vacuity: a fresh rule id is accepted, the same rule a second time is refused -/
example :
    let k : P := .node "R1" ⟨0,1⟩ 1 1 [.leaf "a" ⟨0,1⟩] {}
    let r : P := .node "R0" ⟨0,1⟩ 1 1 [.leaf "b" ⟨0,1⟩] {}
    add (.node "cfg" ⟨0,1⟩ 1 1 [k] {}) r = some (mkStingy ([k] ++ [r]) "cfg") ∧
    add (.node "cfg" ⟨0,1⟩ 1 2 [r, k] {}) r = none := by
  intro k r
  exact ⟨add_accepts _ _ _ _ _ _ r (by intro x hx; simp at hx; subst hx; simp [k, r, P.id]),
         add_refuses _ _ _ _ _ _ r ⟨r, by simp, rfl⟩⟩

/-! ### what the extended configurator means -/

theorem map_snd_false : ∀ l : List P, (l.map (fun r => ((false : Bool), r))).map (·.2) = l
  | [] => rfl
  | x :: l => by simp [map_snd_false l]

/-- **the extended configurator holds exactly when the old rules and the new rule hold** (rules pairwise distinct, as a
    validated configurator's are; every rule evaluates to 0 or 1): `add` conjoins the new rule and changes nothing else -/
theorem add_semantics (σ : String → Int) (i b s v ks m) (r c' : P) (h : add (.node i b s v ks m) r = some c')
    (hd : distinctCount ((ks ++ [r]).map (fun k => ((false : Bool), k))) = (ks ++ [r]).length)
    (h01 : ∀ k ∈ ks ++ [r], evalPt σ k = 0 ∨ evalPt σ k = 1) :
    evalPt σ c' = if sumPt σ ks = ks.length ∧ evalPt σ r = 1 then 1 else 0 := by
  rw [add_eq_mk i b s v ks m r c' h]
  have hsum : ∀ l : List P, (∀ k ∈ l, evalPt σ k = 0 ∨ evalPt σ k = 1) → 0 ≤ sumPt σ l ∧ sumPt σ l ≤ l.length := by
    intro l
    induction l with
    | nil => intro _; simp [sumPt]
    | cons x l ih =>
        intro hx
        have := ih (fun k hk => hx k (by simp [hk]))
        have hx0 := hx x (by simp)
        simp only [sumPt, List.length_cons]
        rcases hx0 with h | h <;> omega
  have hall := hsum (ks ++ [r]) h01
  have hks := hsum ks (fun k hk => h01 k (by simp [hk]))
  have hr := h01 r (by simp)
  unfold mkStingy
  rw [C04.evalPt_mkAll σ _ (some i) .stingy (by simpa using hd) (by rw [map_snd_false]; simpa using hall)]
  rw [map_snd_false]
  clear hall hd
  simp only [List.length_map, P.sumPt_append, sumPt, List.length_append, List.length_cons, List.length_nil]
  rcases hr with hr | hr <;> simp only [hr]
  · simp
    omega
  · by_cases h2 : sumPt σ ks = (ks.length : Int)
    · simp [h2]
    · simp [h2]

end Puan.C18
