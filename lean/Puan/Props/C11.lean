/-
  C11 — polyhedron reduction preserves the integer solution set.
-/
import Puan.Lemmas.Loop
import Puan.Props.C12
namespace Puan.C11
open Puan Poly

/-- Rows reported as reducible are satisfied by every in-bounds point. -/
theorem redRows_sound (p : Poly) (r : PRow) (h : sumMin r.cs p.bnds ≥ r.b)
    (xs : List Int) (hb : InBox xs p.bnds) : rowSat r xs := by
  have hw := inBox_wf xs p.bnds hb
  have := (dot_bounds r.cs xs p.bnds hb).1
  rw [sumMin_eq_rbLo r.cs p.bnds hw] at h
  unfold rowSat; omega

theorem redRows_get (p : Poly) (i : Nat) (r : PRow) (hr : p.rows[i]? = some r) :
    (redRows p)[i]? = some (decide (sumMin r.cs p.bnds ≥ r.b)) := by
  simp [redRows, List.getElem?_map, hr]

/-- Every column reported with a forced value takes that value in every in-bounds integer
    solution, and the value lies within the column's declared bounds. -/
theorem redCols_forced (p : Poly) (j : Nat) (a : Int) (b : Bnd) (hb : p.bnds[j]? = some b)
    (hr : C12.InRange b) (h : (redCols p)[j]? = some (some a)) :
    (∀ xs x, Sol p xs → xs[j]? = some x → x = a) ∧ (b.lo ≤ a ∧ a ≤ b.hi) := by
  have ht : (tighten p)[j]? = some (tightenCol p j b) := by rw [C12.tighten_get, hb]; rfl
  simp only [redCols, List.getElem?_map, ht, Option.map_some] at h
  have hw := C12.tightenCol_within p j b
  split at h
  · rename_i heq
    have ha : (tightenCol p j b).lo = a := by simpa using h
    refine ⟨?_, by omega⟩
    intro xs x hs hx
    have := C12.tightenCol_sound p xs j x b hs hx hb hr
    omega
  · simp at h

/-- what a pair of masks has to satisfy for `reduce` to be exact: the column mask holds only
    forced values (inside their bounds) and the removed rows are implied by them -/
structure Cert (p : Poly) (rm : List Bool) (cm : List (Option Int)) : Prop where
  rlen : rm.length = p.rows.length
  forced : ∀ xs, Sol p xs → Agrees xs cm
  inb : BoundsOk cm p.bnds
  redundant : ∀ xs, InBox xs p.bnds → Agrees xs cm → ∀ r ∈ removed rm p.rows, rowSat r xs

theorem boundsOk_length : ∀ (m : List (Option Int)) (bs : List Bnd), BoundsOk m bs → m.length = bs.length
  | [], [], _ => rfl
  | [], _ :: _, h => by simp [BoundsOk] at h
  | o :: _, [], h => by cases o <;> simp [BoundsOk] at h
  | some a :: m, b :: bs, h => by
      have : (b.lo ≤ a ∧ a ≤ b.hi) ∧ BoundsOk m bs := by simpa [BoundsOk] using h
      simp [boundsOk_length m bs this.2]
  | none :: m, b :: bs, h => by
      have : BoundsOk m bs := by simpa [BoundsOk] using h
      simp [boundsOk_length m bs this]

/-- Every point of the reduced polyhedron is the projection of a solution of the original … -/
theorem reduce_sound (p : Poly) (rm cm) (hc : Cert p rm cm) (ys : List Int)
    (hs : Sol (reduce p rm cm) ys) : Sol p (merge cm ys) ∧ keep cm (merge cm ys) = ys := by
  obtain ⟨hbox, hrows⟩ := hs
  simp only [reduce, reduceCols, reduceRows] at hbox hrows
  have hlen := boundsOk_length cm p.bnds hc.inb
  have ⟨hag, hkeep⟩ := agrees_merge cm ys p.bnds hlen hbox
  have hin := inBox_merge cm ys p.bnds hc.inb hbox
  refine ⟨⟨hin, ?_⟩, hkeep⟩
  intro r hr
  rcases mem_keepRows_or_removed rm p.rows hc.rlen r hr with h | h
  · have := hrows (reduceRow cm r) (List.mem_map.2 ⟨r, h, rfl⟩)
    rw [← hkeep] at this
    exact (reduceRow_sat r _ cm hag).2 this
  · exact hc.redundant _ hin hag r h

/-- … and every solution of the original projects to a point of the reduced polyhedron from
    which it is recovered: the reduced polyhedron is exactly the projection (empty stays empty). -/
theorem reduce_complete (p : Poly) (rm cm) (hc : Cert p rm cm) (xs : List Int) (hs : Sol p xs) :
    Agrees xs cm ∧ Sol (reduce p rm cm) (keep cm xs) ∧ merge cm (keep cm xs) = xs := by
  have hag := hc.forced xs hs
  refine ⟨hag, ⟨?_, ?_⟩, merge_keep xs cm hag⟩
  · simp only [reduce, reduceCols, reduceRows]
    exact inBox_keep xs cm p.bnds hs.1 hag
  · intro r' hr'
    simp only [reduce, reduceCols, reduceRows] at hr'
    obtain ⟨r, hr, rfl⟩ := List.mem_map.1 hr'
    exact (reduceRow_sat r xs cm hag).1 (hs.2 r (keepRows_sub rm p.rows r hr))

theorem empty_stays_empty (p : Poly) (rm cm) (hc : Cert p rm cm) :
    (¬ ∃ xs, Sol p xs) ↔ (¬ ∃ ys, Sol (reduce p rm cm) ys) := by
  constructor
  · intro h ⟨ys, hy⟩; exact h ⟨_, (reduce_sound p rm cm hc ys hy).1⟩
  · intro h ⟨xs, hx⟩; exact h ⟨_, (reduce_complete p rm cm hc xs hx).2.1⟩

/-- the shape clause: the reduced polyhedron has one bound per kept column and one row per kept row -/
theorem reduce_shape (p : Poly) (rm cm) :
    (reduce p rm cm).bnds = keep cm p.bnds ∧ (reduce p rm cm).rows.length = (keepRows rm p.rows).length := by
  simp [reduce, reduceCols, reduceRows]

/-! ### the fixpoint loop of `reducable_rows_and_columns` produces such a certificate -/

def AllInRange (bs : List Bnd) : Prop := ∀ b ∈ bs, C12.InRange b

/-- every row has one coefficient per column (it is a matrix) -/
def Rect (p : Poly) : Prop := ∀ r ∈ p.rows, r.cs.length = p.bnds.length

theorem tighten_length (p : Poly) : (tighten p).length = p.bnds.length := by
  simp [tighten, enum]

theorem redCols_length (p : Poly) : (redCols p).length = p.bnds.length := by
  simp [redCols, tighten_length]

/-- what one evaluation of `reducable_columns_approx` contributes -/
theorem redCols_facts (m : Poly) (hr : AllInRange m.bnds) :
    (∀ ys, Sol m ys → Agrees ys (redCols m)) ∧ BoundsOk (redCols m) m.bnds := by
  have hlen := redCols_length m
  constructor
  · intro ys hs
    apply agrees_of_get ys (redCols m) (by rw [hlen]; exact inBox_length ys m.bnds hs.1)
    intro j a x hj hx
    have hjl : j < m.bnds.length := by
      have := (List.getElem?_eq_some_iff.1 hj).1; omega
    have hb : m.bnds[j]? = some m.bnds[j] := List.getElem?_eq_getElem hjl
    exact (redCols_forced m j a _ hb (hr _ (List.getElem_mem hjl)) hj).1 ys x hs hx
  · apply boundsOk_of_get _ _ hlen
    intro j a b hj hb
    have hbm : b ∈ m.bnds := List.mem_of_getElem? hb
    exact (redCols_forced m j a b hb (hr b hbm) hj).2

structure Inv (p : Poly) (st : RState) : Prop where
  cert : Cert p st.fr st.fc
  meq : st.m = reduce p st.fr st.fc

theorem removed_flag {α} (g : α → Bool) : ∀ (l : List α) (x : α), x ∈ removed (l.map g) l → g x = true
  | [], x, h => by simp [removed] at h
  | y :: l, x, h => by
      cases hg : g y with
      | true =>
          simp only [List.map_cons, hg, removed, List.mem_cons] at h
          rcases h with rfl | h
          · exact hg
          · exact removed_flag g l x h
      | false =>
          simp only [List.map_cons, hg, removed] at h
          exact removed_flag g l x h

/-- substituting the newly forced columns keeps the invariant -/
theorem step_cols (p : Poly) (hr : AllInRange p.bnds) (st : RState) (hi : Inv p st) :
    Inv p ⟨reduceCols st.m (redCols st.m), st.fr, scatter st.fc (redCols st.m)⟩ := by
  obtain ⟨hc, hm⟩ := hi
  have hfl : st.fc.length = p.bnds.length := boundsOk_length _ _ hc.inb
  have hmb : st.m.bnds = keep st.fc p.bnds := by rw [hm]; simp [reduce, reduceCols, reduceRows]
  have hrm : AllInRange st.m.bnds := by
    intro b hb; rw [hmb] at hb; exact hr b (keep_sub _ _ b hb)
  have ⟨fa, fb⟩ := redCols_facts st.m hrm
  have hcount : countNone st.fc ≤ (redCols st.m).length := by
    rw [redCols_length, hmb, keep_length st.fc p.bnds hfl.symm]; exact Nat.le_refl _
  refine ⟨⟨hc.rlen, ?_, ?_, ?_⟩, ?_⟩
  · intro xs hs
    have ⟨hag, hsol, _⟩ := reduce_complete p st.fr st.fc hc xs hs
    rw [← hm] at hsol
    exact agrees_scatter xs st.fc _ hag (fa _ hsol)
  · apply boundsOk_scatter st.fc _ p.bnds hc.inb
    rw [← hmb]; exact fb
  · intro xs hb hag r hrr
    exact hc.redundant xs hb (agrees_of_scatter xs st.fc _ hag) r hrr
  · show reduceCols st.m (redCols st.m) = reduce p st.fr (scatter st.fc (redCols st.m))
    generalize redCols st.m = rc at hcount
    rw [hm]
    simp only [reduce, reduceCols, reduceRows, List.map_map, keep_scatter st.fc rc p.bnds hcount, Poly.mk.injEq,
      true_and]
    apply List.map_congr_left
    intro r _
    exact reduceRow_scatter st.fc rc r hcount

/-- dropping the rows that became redundant keeps the invariant -/
theorem step_rows (p : Poly) (st : RState) (hi : Inv p st) :
    Inv p ⟨reduceRows st.m (redRows st.m), scatterRows st.fr (redRows st.m), st.fc⟩ := by
  obtain ⟨hc, hm⟩ := hi
  have hmb : st.m.bnds = keep st.fc p.bnds := by rw [hm]; simp [reduce, reduceCols, reduceRows]
  have hmr : st.m.rows = (keepRows st.fr p.rows).map (reduceRow st.fc) := by
    rw [hm]; simp [reduce, reduceCols, reduceRows]
  have hrr : redRows st.m = (keepRows st.fr p.rows).map
      (fun r => decide (sumMin (reduceRow st.fc r).cs st.m.bnds ≥ (reduceRow st.fc r).b)) := by
    simp only [redRows, hmr, List.map_map]; rfl
  have hcount : countFalse st.fr ≤ (redRows st.m).length := by
    rw [hrr, List.length_map, keepRows_length st.fr p.rows hc.rlen.symm]; exact Nat.le_refl _
  refine ⟨⟨by rw [scatterRows_length]; exact hc.rlen, hc.forced, hc.inb, ?_⟩, ?_⟩
  · intro xs hb hag r hrem
    rcases removed_scatter st.fr _ p.rows r hrem with h | h
    · exact hc.redundant xs hb hag r h
    · rw [hrr] at h
      have hflag := removed_flag _ _ r h
      have hflag' : sumMin (reduceRow st.fc r).cs st.m.bnds ≥ (reduceRow st.fc r).b := by simpa using hflag
      have hkb : InBox (keep st.fc xs) st.m.bnds := by rw [hmb]; exact inBox_keep xs st.fc p.bnds hb hag
      have := redRows_sound st.m (reduceRow st.fc r) hflag' _ hkb
      exact (reduceRow_sat r xs st.fc hag).2 this
  · show reduceRows st.m (redRows st.m) = reduce p (scatterRows st.fr (redRows st.m)) st.fc
    generalize redRows st.m = rr at hcount
    rw [hm]
    simp only [reduce, reduceCols, reduceRows, keepRows_map, keepRows_scatter st.fr rr p.rows hcount]

theorem loop_inv (p : Poly) (hr : AllInRange p.bnds) : ∀ (fuel : Nat) (st : RState) (rr : List Bool),
    Inv p st → Inv p (rrcLoop fuel st (redCols st.m) rr)
  | 0, st, _, h => by simpa [rrcLoop] using h
  | fuel + 1, st, rr, h => by
      have h1 := step_cols p hr st h
      have h2 := step_rows p _ h1
      simp only [rrcLoop]
      split
      · split
        · exact h1
        · split
          · exact h2
          · exact loop_inv p hr fuel _ _ h2
      · exact h

theorem map_const_rep {α β} (l : List α) (b : β) : l.map (fun _ => b) = List.replicate l.length b := by
  induction l with
  | nil => rfl
  | cons x xs ih => simp [List.replicate, ih]

theorem keep_nones {α} : ∀ (l : List α) (n : Nat), l.length ≤ n → keep (List.replicate n none) l = l
  | [], n, _ => by cases n <;> simp [keep, List.replicate]
  | x :: l, 0, h => by simp at h
  | x :: l, n+1, h => by simp [List.replicate, keep, keep_nones l n (by simpa using h)]

theorem fixedSum_nones : ∀ (cs : List Int) (n : Nat), fixedSum (List.replicate n none) cs = 0
  | [], n => by cases n <;> simp [fixedSum, List.replicate]
  | c :: cs, 0 => by simp [fixedSum]
  | c :: cs, n+1 => by simp [List.replicate, fixedSum, fixedSum_nones cs n]

theorem keepRows_falses {α} : ∀ (l : List α), keepRows (List.replicate l.length false) l = l
  | [] => by simp [keepRows]
  | x :: l => by simp [List.replicate, keepRows, keepRows_falses l]

theorem removed_falses {α} : ∀ (l : List α), removed (List.replicate l.length false) l = []
  | [] => by simp [removed]
  | x :: l => by simp [List.replicate, removed, removed_falses l]

theorem agrees_nones : ∀ (xs : List Int), Agrees xs (List.replicate xs.length none)
  | [] => by simp [Agrees]
  | x :: xs => by simp [List.replicate, Agrees, agrees_nones xs]

theorem boundsOk_nones : ∀ (bs : List Bnd), BoundsOk (List.replicate bs.length none) bs
  | [] => by simp [BoundsOk]
  | b :: bs => by simp [List.replicate, BoundsOk, boundsOk_nones bs]

/-- The masks returned by `reducable_rows_and_columns` certify the reduction: the reduced
    polyhedron `reduce p rows cols` has exactly the projection of the original solution set
    (by `reduce_sound` / `reduce_complete` / `empty_stays_empty`). -/
theorem rrc_cert (p : Poly) (hr : AllInRange p.bnds) (hrect : Rect p) : Cert p (rrc p).1 (rrc p).2 := by
  have hmapf : p.rows.map (fun _ => false) = List.replicate p.rows.length false := map_const_rep _ _
  have hmapn : p.bnds.map (fun _ => (none : Option Int)) = List.replicate p.bnds.length none := map_const_rep _ _
  have h0 : Inv p ⟨p, p.rows.map (fun _ => false), p.bnds.map (fun _ => none)⟩ := by
    refine ⟨⟨by simp, ?_, ?_, ?_⟩, ?_⟩
    · intro xs hs
      rw [hmapn, ← inBox_length xs p.bnds hs.1]; exact agrees_nones xs
    · rw [hmapn]; exact boundsOk_nones p.bnds
    · intro xs _ _ r hrem
      rw [hmapf, removed_falses] at hrem; cases hrem
    · show p = reduce p _ _
      rw [hmapf, hmapn]
      simp only [reduce, reduceCols, reduceRows, keepRows_falses, keep_nones p.bnds _ (Nat.le_refl _)]
      cases p with
      | mk bnds rows =>
          simp only [Poly.mk.injEq, true_and]
          have hid : rows.map (reduceRow (List.replicate bnds.length none)) = rows.map id := by
            apply List.map_congr_left
            intro r hr'
            have hlen : r.cs.length ≤ bnds.length := by have := hrect r hr'; simp at this; omega
            have hk := keep_nones r.cs bnds.length hlen
            cases r with
            | mk b cs => simp only [reduceRow, fixedSum_nones, id] at hk ⊢; rw [hk]; simp
          rw [hid, List.map_id]
  exact (loop_inv p hr _ _ (redRows p) h0).cert

/-- non-vacuity: −3·v ≥ 0 forces v = 0 and is then dropped; the masks form a certificate -/
example :
    let p : Poly := ⟨[⟨0, 1⟩, ⟨0, 2⟩], [⟨0, [-3, 0]⟩, ⟨1, [1, 1]⟩]⟩
    rrc p = ([true, false], [some 0, none]) ∧ (reduce p [true, false] [some 0, none]).rows = [⟨1, [1]⟩] := by decide

end Puan.C11
