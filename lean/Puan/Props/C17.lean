/-
  C17 — base64 round trip reproduces propositions and configured polyhedra exactly.
  Thin by nature: pickle / gzip / base64 are assumed to round-trip (`Codec.Ok`); what the theorem
  pins is the payload's field order against the constructor's argument order.
-/
import Puan.Model.B64
namespace Puan.C17
open Puan B64

theorem unpack_pack (p : CfgPoly) : unpack (pack p) = some p := rfl

/-- packing a configured polyhedron and unpacking it gives the same matrix, default priority
    vector, variables, row index and dtype -/
theorem b64_roundtrip (c : Codec (List Field)) (hc : c.Ok) (p : CfgPoly) : fromB64 c (toB64 c p) = some p := by
  simp [fromB64, toB64, hc (pack p), unpack_pack]

/-- a proposition is pickled whole: the round trip is the identity under the same assumption -/
theorem b64_roundtrip_prop (c : Codec P) (hc : c.Ok) (t : P) : c.dec (c.enc t) = some t := hc t

/-- the field order matters: swapping two payload fields is not accepted as the same polyhedron -/
theorem order_matters (p : CfgPoly) :
    unpack [.mat p.mat, .vars p.vars, .ints p.dpv, .idx p.index, .dt p.dtype] = none := rfl

/-- non-vacuity -/
example : unpack (pack ⟨[[0, 1, -1]], [-1, -2], [("0", ⟨1,1⟩), ("a", ⟨0,1⟩), ("b", ⟨0,1⟩)], ["0"], "int64"⟩) =
    some ⟨[[0, 1, -1]], [-1, -2], [("0", ⟨1,1⟩), ("a", ⟨0,1⟩), ("b", ⟨0,1⟩)], ["0"], "int64"⟩ := by decide

end Puan.C17
