/-
  Base64 packing (C17): `ge_polyhedron_config.to_b64 / from_b64` pickle the list
  [array, default_prio_vector, variables, index, dtype] and rebuild the object from it with
  `ge_polyhedron_config(*fields)`; propositions are pickled whole.  pickle ∘ gzip ∘ base64 is a
  parameter (`Codec`) assumed to round-trip.
-/
import Puan.Model.Tree
namespace Puan
namespace B64

structure CfgPoly where
  mat : List (List Int)
  dpv : List Int
  vars : List (String × Bnd)
  index : List String
  dtype : String
deriving Repr, DecidableEq

inductive Field where
  | mat (m : List (List Int))
  | ints (l : List Int)
  | vars (l : List (String × Bnd))
  | idx (l : List String)
  | dt (s : String)
deriving Repr, DecidableEq

/-- the pickled payload, in the order the constructor takes its arguments -/
def pack (p : CfgPoly) : List Field := [.mat p.mat, .ints p.dpv, .vars p.vars, .idx p.index, .dt p.dtype]

/-- `ge_polyhedron_config(*payload)` -/
def unpack : List Field → Option CfgPoly
  | [.mat m, .ints d, .vars v, .idx i, .dt t] => some ⟨m, d, v, i, t⟩
  | _ => none

/-- pickle ∘ gzip ∘ base64 and its inverse -/
structure Codec (α : Type) where
  enc : α → String
  dec : String → Option α

def Codec.Ok {α} (c : Codec α) : Prop := ∀ x, c.dec (c.enc x) = some x

def toB64 (c : Codec (List Field)) (p : CfgPoly) : String := c.enc (pack p)
def fromB64 (c : Codec (List Field)) (s : String) : Option CfgPoly := (c.dec s).bind unpack

end B64
end Puan
