/-
  `AtLeast.errors` (validation), as repaired by the fix: commits for defects D4 and D5:
  definitions are compared as (id, bounds[, sign, value, child ids]) tuples gathered by a
  non-deduplicating walk, and duplicate edges are counted as (parent, child) pairs.
-/
import Puan.Model.Ast
namespace Puan
namespace P

/-- `_dependencies()`: (id, child ids: atoms first, then compounds), the node first, then its
    compound children's entries -/
def depsOf : P → Option (String × List String)
  | .leaf .. => none
  | .node i _ _ _ ks _ => some (i, (ks.filter (·.isLeaf)).map (·.id) ++ (ks.filter (fun k => !k.isLeaf)).map (·.id))

def deps (t : P) : List (String × List String) := (subs t).filterMap depsOf

/-- `dict(list)`: the last entry per key wins -/
def dictLookup (g : List (String × List String)) (k : String) : Option (List String) :=
  (g.reverse.find? (fun e => e.1 == k)).map (·.2)

/-- ids reachable in at most `fuel` further steps from the frontier -/
def reach (g : List (String × List String)) : Nat → List String → List String → List String
  | 0, seen, _ => seen
  | fuel + 1, seen, frontier =>
      let next := (frontier.flatMap (fun k => (dictLookup g k).getD [])).eraseDups
      let new := next.filter (fun k => !seen.contains k)
      if new.isEmpty then seen else reach g fuel (seen ++ new) new

/-- the id dependency graph has a cycle (what `graphlib.TopologicalSorter.prepare` reports) -/
def hasCycle (t : P) : Bool :=
  let g := deps t
  let keys := (g.map (·.1)).eraseDups
  keys.any (fun k =>
    let start := ((dictLookup g k).getD []).eraseDups
    (reach g (g.length + 1) start start).contains k)

/-- two occurrences of one id with different bounds -/
def ambivalentVars (t : P) : Bool :=
  (subs t).any (fun a => (subs t).any (fun b => a.id == b.id && !(a.bnd.lo == b.bnd.lo && a.bnd.hi == b.bnd.hi)))

def sameDef : P → P → Bool
  | .node _ b s v ks _, .node _ c t w ls _ =>
      b.lo == c.lo && b.hi == c.hi && s == t && v == w && ks.map (·.id) == ls.map (·.id)
  | _, _ => true

/-- two sub-propositions with one id but different bounds, sign, value or child ids -/
def ambivalentComps (t : P) : Bool :=
  let cs := (subs t).filter (fun k => !k.isLeaf)
  cs.any (fun a => cs.any (fun b => a.id == b.id && !sameDef a b))

/-- `flatten()` keeps one object per `__hash__`/`__eq__` class -/
def dedupBeq : List P → List P
  | [] => []
  | x :: xs => if xs.any (beq x) then dedupBeq xs else x :: dedupBeq xs

def edges : P → List (String × String)
  | .leaf .. => []
  | .node i _ _ _ ks _ => ks.map (fun k => (i, k.id))

def hasDup : List (String × String) → Bool
  | [] => false
  | x :: xs => xs.contains x || hasDup xs

/-- some (parent, child) edge occurs twice among the flattened sub-propositions -/
def dupEdges (t : P) : Bool :=
  hasDup ((dedupBeq ((subs t).filter (fun k => !k.isLeaf))).flatMap edges)

inductive VErr where
  | circular | ambivalent | nonUnique
deriving DecidableEq, Repr

/-- `errors()` -/
def errors (t : P) : List VErr :=
  (if hasCycle t then [.circular] else []) ++
  (if ambivalentVars t then [.ambivalent] else []) ++
  (if ambivalentComps t then [.ambivalent] else []) ++
  (if dupEdges t then [.nonUnique] else [])

end P
end Puan
