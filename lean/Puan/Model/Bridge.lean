/-
  Id/position bridges of puan/ndarray: `variable_ndarray.construct`, `variable_indices`,
  `boolean_ndarray.from_list / to_list`, `integer_ndarray.from_list`, `ge_polyhedron.A / b`.
  Ids are opaque strings (the harness passes a canonical text of each Python id).
-/
import Puan.Model.Tree
namespace Puan
namespace Bridge

/-- how missing entries are filled -/
inductive Dflt where
  | lower            -- integer dtype, no callable: the variable's lower bound
  | nan              -- float dtype, no callable: NaN
  | const (c : Int)  -- callable returning a constant
  | upper            -- callable returning the variable's upper bound
deriving Repr

def fill (d : Dflt) (b : Bnd) : Option Int :=
  match d with
  | .lower => some b.lo
  | .nan => none
  | .const c => some c
  | .upper => some b.hi

/-- `construct`: the given value at the column of the variable with that id, else the default -/
def entry (dict : List (String × Int)) (d : Dflt) (v : String × Bnd) : Option Int :=
  match dict.lookup v.1 with
  | some x => some x
  | none => fill d v.2

def construct (vars : List (String × Bnd)) (dict : List (String × Int)) (d : Dflt) : List (Option Int) :=
  vars.map (entry dict d)

/-- `boolean_ndarray.from_list` (one level) -/
def fromListBool (lst ctx : List String) : List Int := ctx.map (fun x => if lst.contains x then 1 else 0)

/-- `integer_ndarray.from_list` (one level): 1-based first position -/
def fromListInt (lst ctx : List String) : List Int :=
  ctx.map (fun x => if lst.contains x then 1 + (lst.idxOf x : Int) else 0)

/-- `boolean_ndarray.to_list` (one level): the variables at the 1-entries -/
def toList : List Int → List String → List String
  | v :: vs, x :: xs => if v = 1 then x :: toList vs xs else toList vs xs
  | _, _ => []

def idxWhere (pred : Bnd → Bool) : Nat → List Bnd → List Nat
  | _, [] => []
  | j, b :: bs => if pred b then j :: idxWhere pred (j + 1) bs else idxWhere pred (j + 1) bs

def isBoolB (b : Bnd) : Bool := b.lo == 0 && b.hi == 1

/-- `boolean_variable_indices` / `integer_variable_indices` -/
def boolIdx (bs : List Bnd) : List Nat := idxWhere isBoolB 0 bs
def intIdx (bs : List Bnd) : List Nat := idxWhere (fun b => !isBoolB b) 0 bs

/-- `A` / `b`: the matrix without, and the first column; variables of `A` are `variables[1:]` -/
def splitRow (r : List Int) : Int × List Int := (r.headD 0, r.tail)

end Bridge
end Puan
