/-
  Call histories over a heap of live objects (C09).  In the model every value is immutable:
  a call returns a result and leaves the heap as it is (`step`).  The implementation has one
  known impurity (finding F-C09a): `assume` / `evaluate` / `evaluate_propositions` overwrite the
  variable of every *visited* node whose id is named in the dictionary; `stepLeaky` performs
  exactly that write and nothing more, so the finding cannot mask anything else.
-/
import Puan.Model.Eval
import Puan.Model.Build
import Puan.Model.Encode
import Puan.Model.Json
namespace Puan
namespace Hist

inductive Call where
  | evaluate (I : Interp)
  | evalProps (I : Interp)
  | assume (I : Interp)
  | reduce
  | negate
  | encode (active : Bool)
  | flatten
  | jsonRoundtrip (cfg : Bool)      -- `from_json(to_json(x))` with plog's (false) or the configurator's (true) class map

inductive Out where
  | bnd (b : Bnd)
  | props (l : List (String × Bnd))
  | tree (t : P)
  | rows (r : List Row)
  | otree (t : Option P)

/-- the result of a call: a function of the receiver's current value only -/
def out (t : P) : Call → Out
  | .evaluate I => .bnd (P.evalB I t)
  | .evalProps I => .props (P.evalProps I t)
  | .assume I => .tree (P.assume I t)
  | .reduce => .tree (P.reduce t)
  | .negate => .tree (P.negate t)
  | .encode a => .rows (P.encode a t)
  | .flatten => .props (P.flatIB t)
  | .jsonRoundtrip cfg => .otree ((PJ.toAst cfg (P.toJson t)).map Ast.build)

abbrev Heap := List P

/-- one public API call on object `h` of the heap -/
def step (heap : Heap) (h : Nat) (c : Call) : Heap × Option Out := (heap, (heap[h]?).map (out · c))

def run : Heap → List (Nat × Call) → List (Option Out)
  | _, [] => []
  | heap, (h, c) :: rest => (step heap h c).2 :: run (step heap h c).1 rest

mutual
/-- what `assume` leaves behind in the receiver (finding F-C09a) -/
def leak (I : Interp) : P → P
  | .leaf i b => .leaf i b
  | .node i b s v ks m =>
      if ((I i).getD b).lo = ((I i).getD b).hi then .node i ((I i).getD b) s v ks m
      else .node i ((I i).getD b) s v (leakL I ks) m
def leakL (I : Interp) : List P → List P
  | [] => []
  | k :: ks => leak I k :: leakL I ks
end

def leakOf (t : P) : Call → P
  | .evaluate I => leak I t
  | .evalProps I => leak I t
  | .assume I => leak I t
  | _ => t

def stepLeaky (heap : Heap) (h : Nat) (c : Call) : Heap × Option Out :=
  match heap[h]? with
  | some t => (heap.set h (leakOf t c), some (out t c))
  | none => (heap, none)

end Hist
end Puan
