/-
  Integer polyhedra `A x ≥ b` with column bounds (puan/ndarray `ge_polyhedron`):
  column/row bounds, bound tightening, reducible rows / forced columns, reduction,
  point classification.  Positional: a point is a list of integers aligned with the columns.
-/
import Puan.Model.Tree
namespace Puan

structure PRow where
  b : Int
  cs : List Int
deriving Repr, DecidableEq, Inhabited

structure Poly where
  bnds : List Bnd          -- bounds of the variables of A (support column excluded)
  rows : List PRow
deriving Repr, Inhabited

namespace Poly

def defaultMin : Int := -32768
def defaultMax : Int := 32767

def dot : List Int → List Int → Int
  | c :: cs, x :: xs => c * x + dot cs xs
  | _, _ => 0

def rowSat (r : PRow) (xs : List Int) : Prop := dot r.cs xs ≥ r.b
instance (r : PRow) (xs : List Int) : Decidable (rowSat r xs) := by unfold rowSat; infer_instance

/-- `A_min` / `A_max` entries -/
def tmin (c : Int) (b : Bnd) : Int := if c > 0 then b.lo * c else if c < 0 then b.hi * c else 0
def tmax (c : Int) (b : Bnd) : Int := if c > 0 then b.hi * c else if c < 0 then b.lo * c else 0

def sumMin : List Int → List Bnd → Int
  | c :: cs, b :: bs => tmin c b + sumMin cs bs
  | _, _ => 0
def sumMax : List Int → List Bnd → Int
  | c :: cs, b :: bs => tmax c b + sumMax cs bs
  | _, _ => 0

/-- the matrices `A_min` / `A_max` themselves -/
def zipTerm (f : Int → Bnd → Int) : List Int → List Bnd → List Int
  | c :: cs, b :: bs => f c b :: zipTerm f cs bs
  | _, _ => []
def aMin (p : Poly) : List (List Int) := p.rows.map (fun r => zipTerm tmin r.cs p.bnds)
def aMax (p : Poly) : List (List Int) := p.rows.map (fun r => zipTerm tmax r.cs p.bnds)

/-- `row_bounds`: entrywise min/max of (lo·c, hi·c), summed, minus b -/
def emin (c : Int) (b : Bnd) : Int := min (b.lo * c) (b.hi * c)
def emax (c : Int) (b : Bnd) : Int := max (b.lo * c) (b.hi * c)
def rbLo : List Int → List Bnd → Int
  | c :: cs, b :: bs => emin c b + rbLo cs bs
  | _, _ => 0
def rbHi : List Int → List Bnd → Int
  | c :: cs, b :: bs => emax c b + rbHi cs bs
  | _, _ => 0
def rowBounds (p : Poly) : List Bnd := p.rows.map (fun r => ⟨rbLo r.cs p.bnds - r.b, rbHi r.cs p.bnds - r.b⟩)

/-- `n_row_combinations` -/
def nComb : List Int → List Bnd → Int
  | c :: cs, b :: bs => (if c != 0 then b.hi - b.lo + 1 else 1) * nComb cs bs
  | _, _ => 1
def nRowComb (p : Poly) : List Int := p.rows.map (fun r => nComb r.cs p.bnds)

/-- `floor(r / a)` for a ≠ 0 -/
def floorDiv (r a : Int) : Int := if a > 0 then r / a else (-r) / (-a)

/-- per row and column: floor(−(rowUpper − A_max[i,j]) / A[i,j]) = floor((b − (Σmax − tmax_j)) / c_j) -/
def slackQ (row : PRow) (bnds : List Bnd) (c : Int) (b : Bnd) : Int :=
  floorDiv (row.b - (rbHi row.cs bnds - tmax c b)) c

def nth (l : List Int) (j : Nat) : Int := l.getD j 0

/-- candidates for the lower bound of column j: rows with a positive entry there -/
def lbCands (p : Poly) (j : Nat) (b : Bnd) : List Int :=
  p.rows.filterMap (fun r => if nth r.cs j > 0 then some (slackQ r p.bnds (nth r.cs j) b) else none)
def ubCands (p : Poly) (j : Nat) (b : Bnd) : List Int :=
  p.rows.filterMap (fun r => if nth r.cs j < 0 then some (slackQ r p.bnds (nth r.cs j) b) else none)

def maxL (d : Int) : List Int → Int
  | [] => d
  | x :: xs => max x (maxL d xs)
def minL (d : Int) : List Int → Int
  | [] => d
  | x :: xs => min x (minL d xs)

def tightenCol (p : Poly) (j : Nat) (b : Bnd) : Bnd :=
  let lb := maxL defaultMin (lbCands p j b)
  let ub := minL defaultMax (ubCands p j b)
  ⟨if lb > b.lo then lb else b.lo, if ub < b.hi then ub else b.hi⟩

def enum {α} (l : List α) : List (Nat × α) := (List.range l.length).zip l

/-- `tighten_column_bounds` -/
def tighten (p : Poly) : List Bnd := (enum p.bnds).map (fun (j, b) => tightenCol p j b)

/-- `reducable_columns_approx`: forced value where tightened lower = upper, else none (NaN) -/
def redCols (p : Poly) : List (Option Int) := (tighten p).map (fun b => if b.lo = b.hi then some b.lo else none)

/-- `reducable_rows`: rows whose minimum already reaches b -/
def redRows (p : Poly) : List Bool := p.rows.map (fun r => decide (sumMin r.cs p.bnds ≥ r.b))

/-! ### reduction -/

def keep {α} : List (Option Int) → List α → List α
  | none :: m, x :: xs => x :: keep m xs
  | some _ :: m, _ :: xs => keep m xs
  | _, _ => []

def fixedSum : List (Option Int) → List Int → Int
  | some a :: m, c :: cs => c * a + fixedSum m cs
  | none :: m, _ :: cs => fixedSum m cs
  | _, _ => 0

def reduceRow (m : List (Option Int)) (r : PRow) : PRow := ⟨r.b - fixedSum m r.cs, keep m r.cs⟩

/-- `reduce_columns` -/
def reduceCols (p : Poly) (m : List (Option Int)) : Poly := ⟨keep m p.bnds, p.rows.map (reduceRow m)⟩

def keepRows {α} : List Bool → List α → List α
  | false :: m, x :: xs => x :: keepRows m xs
  | true :: m, _ :: xs => keepRows m xs
  | _, _ => []

/-- `reduce_rows`: rows with mask 0 stay -/
def reduceRows (p : Poly) (m : List Bool) : Poly := ⟨p.bnds, keepRows m p.rows⟩

/-- `full_cols[isnan(full_cols)] = red_cols` -/
def scatter : List (Option Int) → List (Option Int) → List (Option Int)
  | none :: f, r :: rs => r :: scatter f rs
  | some a :: f, rs => some a :: scatter f rs
  | none :: f, [] => none :: scatter f []
  | [], _ => []

/-- `full_rows[full_rows == 0] = red_rows` -/
def scatterRows : List Bool → List Bool → List Bool
  | false :: f, r :: rs => r :: scatterRows f rs
  | true :: f, rs => true :: scatterRows f rs
  | false :: f, [] => false :: scatterRows f []
  | [], _ => []

structure RState where
  m : Poly
  fr : List Bool
  fc : List (Option Int)
deriving Inhabited

/-- the fixpoint loop of `reducable_rows_and_columns` (fuel ≥ rows + cols + 1 never runs out) -/
def rrcLoop : Nat → RState → List (Option Int) → List Bool → RState
  | 0, st, _, _ => st
  | fuel + 1, st, rc, rr =>
      if rc.any (·.isSome) || rr.any (·) then
        let m1 := reduceCols st.m rc
        let fc := scatter st.fc rc
        if m1.bnds.length == 0 then { st with m := m1, fc := fc }
        else
          let rr1 := redRows m1
          let m2 := reduceRows m1 rr1
          let fr := scatterRows st.fr rr1
          if m2.rows.length == 0 then ⟨m2, fr, fc⟩
          else rrcLoop fuel ⟨m2, fr, fc⟩ (redCols m2) (redRows m2)
      else st

/-- `reducable_rows_and_columns` -/
def rrc (p : Poly) : List Bool × List (Option Int) :=
  let st := rrcLoop (p.rows.length + p.bnds.length + 1)
    ⟨p, p.rows.map (fun _ => false), p.bnds.map (fun _ => none)⟩ (redCols p) (redRows p)
  (st.fr, st.fc)

/-- `reduce(rows_vector, columns_vector)` -/
def reduce (p : Poly) (rows : List Bool) (cols : List (Option Int)) : Poly :=
  reduceCols (reduceRows p rows) cols

/-! ### point classification -/

def satisfied (p : Poly) (xs : List Int) : Bool := p.rows.all (fun r => decide (rowSat r xs))
/-- `separable`: some row violated -/
def separable (p : Poly) (xs : List Int) : Bool := p.rows.any (fun r => !decide (rowSat r xs))
/-- `ineq_separate_points`: per row, some point of the group violates it -/
def ineqSep (p : Poly) (pts : List (List Int)) : List Bool :=
  p.rows.map (fun r => pts.any (fun xs => !decide (rowSat r xs)))

/-- a vector, a matrix of points, or a stack of matrices -/
inductive Points where
  | d1 (x : List Int)
  | d2 (xs : List (List Int))
  | d3 (xss : List (List (List Int)))
deriving Repr

/-- output shapes follow the input shape -/
inductive Out where
  | b (v : Bool)
  | v (l : List Bool)
  | m (l : List (List Bool))
deriving Repr, DecidableEq

/-- `ineqs_satisfied` -/
def ineqsSatisfied (p : Poly) : Points → Out
  | .d1 x => .b (satisfied p x)
  | .d2 xs => .v (xs.map (satisfied p))
  | .d3 xss => .m (xss.map (fun xs => xs.map (satisfied p)))

/-- `separable` -/
def separableP (p : Poly) : Points → Out
  | .d1 x => .b (separable p x)
  | .d2 xs => .v (xs.map (separable p))
  | .d3 xss => .m (xss.map (fun xs => xs.map (separable p)))

/-- `ineq_separate_points`: per row; a single point is a group of one -/
def ineqSeparatePoints (p : Poly) : Points → Out
  | .d1 x => .v (ineqSep p [x])
  | .d2 xs => .v (ineqSep p xs)
  | .d3 xss => .m (xss.map (ineqSep p))

end Poly
end Puan
