/-
  Objective vectors of the configurator (C14): default priorities, the stacking
  [defaults, user priorities] that is shadow-compressed, and the decidable dominance
  certificate evaluated on the objective actually handed to the solver.
-/
import Puan.Model.Eval
import Puan.Model.Prio
namespace Puan
namespace Lex

/-- `StingyConfigurator.default_prios`: the `prio` tag where present, else −1, per flattened id.
    `flatten()` is a nest of `set`s over the children's flattened lists: of several EQUAL sub-propositions (equality ignores
    the tag) it keeps the one met first, children in id order — the first entry per id of the pre-order list -/
def defaultPrios (t : P) : List (String × Int) :=
  let l := ((P.sortById (P.subs t)).map (fun p => (p.id, (p.mt.prio.getD (-1)))))
  let rec dedup : List (String × Int) → List (String × Int)
    | [] => []
    | [x] => [x]
    | x :: y :: r => if x.1 = y.1 then dedup (x :: r) else x :: dedup (y :: r)
  termination_by l => l.length
  dedup l

/-- `_vectors_from_prios` for one priority dictionary: shadow over the rows [defaults, user] -/
def objective (dpv user : List Int) : List Int := Prio.shadow2d [dpv, user]

/-- a column of an objective: its priority level (larger = more important), its absolute
    weight, and the signed difference d = sgn·(x − y) ∈ {−1,0,1} of two 0/1 configurations -/
structure Col where
  lev : Nat
  w : Int
  d : Int
deriving Repr

def wBelow (l : Nat) (cs : List Col) : Int := ((cs.filter fun c => c.lev < l).map (·.w)).foldr (· + ·) 0

/-- the certificate: weights non-negative, equal inside a level, and each strictly larger than
    the sum of all weights of lower levels -/
def dominates (cs : List Col) : Bool :=
  cs.all (fun c => decide (0 ≤ c.w) && decide (wBelow c.lev cs < c.w) &&
    cs.all (fun c' => c'.lev != c.lev || c'.w == c.w))

end Lex
end Puan
