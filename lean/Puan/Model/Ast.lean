/-
  Constructor calls as data (`Ast`) and what they build (`build`): the Python
  constructors All / Any / AtLeast / AtMost / Xor / ExactlyOne / XNor / Imply / Not,
  cc.Any / cc.Xor (defaults) and StingyConfigurator.
-/
import Puan.Model.Build
namespace Puan

inductive Ast where
  | var (id : String) (b : Bnd)                                   -- puan.variable(id, bounds)
  | str (id : String)                                             -- a bare string argument
  | atLeast (v : Int) (as : List Ast) (id : Option String) (sgn : Option Int)
  | atMost (v : Int) (as : List Ast) (id : Option String)
  | all (as : List Ast) (id : Option String)
  | any (as : List Ast) (id : Option String)
  | xor (as : List Ast) (id : Option String) (exactlyOne : Bool)
  | xnor (as : List Ast) (id : Option String)
  | imply (c d : Ast) (id : Option String)
  | not (a : Ast)
  | ccAny (as : List Ast) (dflt : List (String × Bnd)) (id : Option String)
  | ccXor (as : List Ast) (dflt : List (String × Bnd)) (id : Option String)
  | stingy (as : List Ast) (id : Option String)
deriving Repr, Inhabited

namespace Ast

def isAtom : Ast → Bool
  | var .. => true
  | str .. => true
  | _ => false

def isStr : Ast → Bool
  | str .. => true
  | _ => false

end Ast

namespace P

mutual
/-- equality of propositions as Python's `set` sees constructor arguments: same class
    (`__eq__` compares types), ids, bounds, sign, value, children -/
def beq : P → P → Bool
  | .leaf i b, .leaf j c => i == j && b.lo == c.lo && b.hi == c.hi
  | .node i b s v ks m, .node j c t w ls n =>
      i == j && b.lo == c.lo && b.hi == c.hi && s == t && v == w && decide (m.cls = n.cls) && beqL ks ls
  | _, _ => false
def beqL : List P → List P → Bool
  | [], [] => true
  | k :: ks, l :: ls => beq k l && beqL ks ls
  | _, _ => false
end

/-- `len(set(propositions))` for constructor arguments (flag = was a bare string) -/
def distinctCount : List (Bool × P) → Nat
  | [] => 0
  | x :: r => (if r.any (fun y => x.1 == y.1 && beq x.2 y.2) then 0 else 1) + distinctCount r

/-- constructor argument order: non-strings first, then strings -/
def orderArgs (l : List (Bool × P)) : List P :=
  (l.filter (fun x => !x.1)).map (·.2) ++ (l.filter (·.1)).map (·.2)

def varOf (id : Option String) : Option (String × Bnd) := id.map (fun i => (i, ⟨0, 1⟩))

def mkAll (args : List (Bool × P)) (id : Option String) (cls : Cls := .all) : P :=
  mkAtLeast (distinctCount args) (orderArgs args) (varOf id) none cls

def mkAny (args : List (Bool × P)) (id : Option String) (cls : Cls := .any) : P :=
  mkAtLeast 1 (orderArgs args) (varOf id) none cls

def setCond (p : P) (cid : String) : P :=
  match p with
  | .leaf i b => .leaf i b
  | .node i b s v ks m => .node i b s v ks { m with cond := ks.findIdx (fun k => k.id == cid) }

/-- `Xor(*props)` = `All(AtLeast(1, props), AtMost(1, props))` -/
def mkXor (args : List (Bool × P)) (id : Option String) (cls : Cls := .xor) : P :=
  mkAll [(false, mkAtLeast 1 (orderArgs args) none none), (false, mkAtMost 1 (orderArgs args) none)] id cls

/-- `XNor(*props)` = `Any(AtLeast(1, props).negate(), AtMost(1, props).negate())` -/
def mkXNor (args : List (Bool × P)) (id : Option String) : P :=
  -- `cond` marks the half whose children are the propositions as given (`xnor_propositions`)
  setCond (mkAny [(false, negate (mkAtLeast 1 (orderArgs args) none none)),
         (false, negate (mkAtMost 1 (orderArgs args) none))] id .xnor) (negate (mkAtMost 1 (orderArgs args) none)).id

/-- `Not(p)`: atoms are wrapped in `All(p)` first -/
def mkNot (isAtom : Bool) (a : Bool × P) : P :=
  if isAtom then negate (mkAll [a] none) else negate a.2

/-- `Imply(condition, consequence)` = `Any(condition.negate(), consequence)` -/
def mkImply (cAtom : Bool) (c d : Bool × P) (id : Option String) : P :=
  let nc := mkNot cAtom c
  setCond (mkAny [(false, nc), d] id .imply) nc.id

def setPrio (p : P) (prio : Int) : P :=
  match p with
  | .leaf i b => .leaf i b
  | .node i b s v ks m => .node i b s v ks { m with prio := some prio }

def setDflt (p : P) (d : List (String × Bnd)) : P :=
  match p with
  | .leaf i b => .leaf i b
  | .node i b s v ks m => .node i b s v ks { m with dflt := d }

/-- `cc.Any(*props, default=…)`: the non-default branch becomes an inner `Any` tagged prio −2 -/
def mkCcAny (args : List (Bool × P)) (dflt : List (String × Bnd)) (id : Option String) : P :=
  let plain := setDflt (mkAny args id .ccAny) dflt
  match dflt with
  | [] => plain
  | (d, _) :: _ =>
      if args.length ≤ 1 then plain
      else
        let isDef : Bool × P → Bool := fun x => x.2.isLeaf && x.2.id == d
        let compl := args.filter (fun x => !isDef x)
        if compl.length == args.length || compl.length == 0 then plain
        else
          let inner := setPrio (mkAny compl none) (-2)
          setDflt (mkAny (args.filter isDef ++ [(false, inner)]) id .ccAny) dflt

def replaceFirst (ks : List P) (pred : P → Bool) (f : P → P) : List P :=
  match ks with
  | [] => []
  | k :: r => if pred k then f k :: r else k :: replaceFirst r pred f

/-- `cc.Xor(*props, default=…)`: the "at least one" half is rebuilt as a `cc.Any` around the
    old node's variable object (so its id counts as explicit from then on) -/
def mkCcXor (args : List (Bool × P)) (dflt : List (String × Bnd)) (id : Option String) : P :=
  let x := setDflt (mkXor args id .ccXor) dflt
  match dflt, x with
  | [], _ => x
  | _, .leaf i b => .leaf i b
  | _, .node i b s v ks m =>
      .node i b s v
        (replaceFirst ks (fun k => !k.isLeaf && (match k with | .node _ _ _ w _ _ => w == 1 | _ => false))
          (fun k => mkCcAny (k.kids.map (fun c => (false, c))) dflt (some k.id))) m

end P

namespace Ast
open P

mutual
/-- the proposition a constructor call builds -/
def build : Ast → P
  | .var i b => .leaf i b
  | .str i => .leaf i ⟨0, 1⟩
  | .atLeast v as oid sgn => mkAtLeast v (orderArgs (buildL as)) (varOf oid) sgn
  | .atMost v as oid => mkAtMost v (orderArgs (buildL as)) (varOf oid)
  | .all as oid => mkAll (buildL as) oid
  | .any as oid => mkAny (buildL as) oid
  | .xor as oid e => mkXor (buildL as) oid (if e then .exactlyOne else .xor)
  | .xnor as oid => mkXNor (buildL as) oid
  | .imply c d oid => mkImply c.isAtom (c.isStr, build c) (d.isStr, build d) oid
  | .not a => mkNot a.isAtom (a.isStr, build a)
  | .ccAny as dflt oid => mkCcAny (buildL as) dflt oid
  | .ccXor as dflt oid => mkCcXor (buildL as) dflt oid
  | .stingy as oid => mkAll (buildL as) oid .stingy
def buildL : List Ast → List (Bool × P)
  | [] => []
  | a :: as => (a.isStr, build a) :: buildL as
end

end Ast
end Puan
