/-
  The proposition tree as Python holds it, and the point semantics.
  Core Lean only (no Mathlib) so that the driver links as an executable.
-/
namespace Puan

structure Bnd where
  lo : Int
  hi : Int
deriving DecidableEq, Repr, Inhabited

namespace Bnd
def isConst (b : Bnd) : Bool := b.lo == b.hi
def wf (b : Bnd) : Prop := b.lo ≤ b.hi
def sub (b1 b2 : Bnd) : Prop := b2.lo ≤ b1.lo ∧ b1.hi ≤ b2.hi
def mem (x : Int) (b : Bnd) : Prop := b.lo ≤ x ∧ x ≤ b.hi
def pt (c : Int) : Bnd := ⟨c, c⟩
def bool : Bnd := ⟨0, 1⟩
end Bnd

/-- Python class of a compound node (only read by the JSON / configurator layer). -/
inductive Cls where
  | atLeast | atMost | all | any | imply | xor | exactlyOne | xnor | ccAny | ccXor | stingy
deriving DecidableEq, Repr, Inhabited

/-- Everything about a compound node that does not enter its truth function. -/
structure Meta where
  cls  : Cls := .atLeast
  gen  : Bool := false                 -- `generated_id`
  prio : Option Int := none            -- `prio` attribute set by cc.Any on the non-default branch
  dflt : List (String × Bnd) := []     -- `default` of cc.Any / cc.Xor
  cond : Nat := 0                      -- Imply: position of the (negated) condition among the children
deriving DecidableEq, Repr, Inhabited

/-- A proposition: `leaf` = `puan.variable`, `node` = `AtLeast` (or a subclass):
    `id : s·(Σ kids) ≥ v`, own variable bounds `b` ⊆ (0,1). -/
inductive P where
  | leaf (id : String) (b : Bnd)
  | node (id : String) (b : Bnd) (s v : Int) (ks : List P) (m : Meta)
deriving Repr, Inhabited

namespace P

def id : P → String
  | leaf i _ => i
  | node i _ _ _ _ _ => i

def bnd : P → Bnd
  | leaf _ b => b
  | node _ b _ _ _ _ => b

def isLeaf : P → Bool
  | leaf .. => true
  | node .. => false

def kids : P → List P
  | leaf .. => []
  | node _ _ _ _ ks _ => ks

def mt : P → Meta
  | leaf .. => {}
  | node _ _ _ _ _ m => m

def isGen (p : P) : Bool := !p.isLeaf && p.mt.gen

/-! ### point semantics: the arithmetic truth function -/

mutual
def evalPt (σ : String → Int) : P → Int
  | .leaf i _ => σ i
  | .node _ _ s v ks _ => if s * sumPt σ ks ≥ v then 1 else 0
def sumPt (σ : String → Int) : List P → Int
  | [] => 0
  | k :: ks => evalPt σ k + sumPt σ ks
end

/-! ### structural predicates -/

mutual
/-- every leaf value lies within the leaf's declared bounds -/
def InB (σ : String → Int) : P → Prop
  | .leaf i b => b.lo ≤ σ i ∧ σ i ≤ b.hi
  | .node _ _ _ _ ks _ => InBs σ ks
def InBs (σ : String → Int) : List P → Prop
  | [] => True
  | k :: ks => InB σ k ∧ InBs σ ks
end

mutual
/-- every sign is +1 or −1 (the constructor rejects anything else) -/
def SignOk : P → Prop
  | .leaf .. => True
  | .node _ _ s _ ks _ => (s = 1 ∨ s = -1) ∧ SignOks ks
def SignOks : List P → Prop
  | [] => True
  | k :: ks => SignOk k ∧ SignOks ks
end

mutual
/-- solver-safe form: no compound child under a negatively signed parent -/
def Safe : P → Prop
  | .leaf .. => True
  | .node _ _ s _ ks _ => (s = 1 ∨ (s = -1 ∧ ∀ k ∈ ks, k.isLeaf = true)) ∧ SafeL ks
def SafeL : List P → Prop
  | [] => True
  | k :: ks => Safe k ∧ SafeL ks
end

mutual
/-- no compound node's own variable is pre-fixed: its bounds are exactly (0,1) -/
def Free01 : P → Prop
  | .leaf .. => True
  | .node _ b _ _ ks _ => (b.lo = 0 ∧ b.hi = 1) ∧ Free01L ks
def Free01L : List P → Prop
  | [] => True
  | k :: ks => Free01 k ∧ Free01L ks
end

mutual
/-- all sub-propositions, the node itself first (pre-order, duplicates kept) -/
def subs : P → List P
  | .leaf i b => [.leaf i b]
  | .node i b s v ks m => .node i b s v ks m :: subsL ks
def subsL : List P → List P
  | [] => []
  | k :: ks => subs k ++ subsL ks
end

/-! ### executable versions of the predicates (used by the driver) -/

mutual
def safeB : P → Bool
  | .leaf .. => true
  | .node _ _ s _ ks _ => (s == 1 || (s == -1 && ks.all (·.isLeaf))) && safeBL ks
def safeBL : List P → Bool
  | [] => true
  | k :: ks => safeB k && safeBL ks
end

end P
end Puan
