/-
  The JSON codec: every `to_json` / `from_json` of plog and the configurator module, over a
  typed JSON tree `PJ` (the driver converts real JSON text to and from it).
  Models the code as repaired by the fix: commits for findings F16a–F16e.
-/
import Puan.Model.Ast
namespace Puan

/-- a proposition in JSON form -/
inductive PJ where
  | var (id : String) (bounds : Option Bnd)
  | node (type : Option String) (id : Option String) (value : Option Int) (sign : Option Int)
         (hasProps : Bool) (props : List PJ) (cond cons prop : Option PJ) (dflt : List (String × Bnd))
deriving Repr, Inhabited

namespace P

def idJ (i : String) (m : Meta) : Option String := if m.gen then none else some i

def defaultSign (v : Int) : Int := if v > 0 then 1 else -1

/-- `sign` is written only when it differs from what the constructor would infer (F16a) -/
def signJ (s v : Int) : Option Int := if s = defaultSign v then none else some s

def leafJ (i : String) (b : Bnd) : PJ := .var i (if b.lo = 0 ∧ b.hi = 1 then none else some b)

def leafsJ (l : List (String × Bnd)) : List PJ := l.map (fun x => leafJ x.1 x.2)

/-- JSON of `AtLeast(1, atoms, sign=+1).negate()` -/
def groupJ (atoms : List PJ) : PJ := .node (some "AtLeast") none (some 0) none true atoms none none none []

mutual
/-- `to_json` -/
def toJson : P → PJ
  | .leaf i b => leafJ i b
  | .node i _ s v ks m =>
      match m.cls with
      | .atLeast => .node (some "AtLeast") (idJ i m) (some v) (signJ s v) true (toJsonL ks) none none none []
      | .atMost => .node (some "AtMost") (idJ i m) (some (-v)) none true (toJsonL ks) none none none []
      | .all => .node (some "All") (idJ i m) none none true (toJsonL ks) none none none []
      | .any => .node (some "Any") (idJ i m) none none true (toJsonL ks) none none none []
      | .stingy => .node (some "StingyConfigurator") (idJ i m) none none true (toJsonL ks) none none none []
      | .imply => .node (some "Imply") (idJ i m) none none false [] (negNth ks m.cond) (jsonOther ks m.cond) none []
      | .xor => .node (some "Xor") (idJ i m) none none true (kidsOfNth ks 0) none none none []
      | .exactlyOne => .node (some "ExactlyOne") (idJ i m) none none true (kidsOfNth ks 0) none none none []
      | .xnor => .node (some "XNor") (idJ i m) none none true (kidsOfNth ks m.cond) none none none []
      | .ccAny =>
          if ks.length = 2 ∧ ks.any (fun k => k.mt.prio.isSome) then
            .node (some "Any") (idJ i m) none none true (ccAnyProps ks) none none none m.dflt
          else .node (some "Any") (idJ i m) none none true (toJsonL ks) none none none m.dflt
      | .ccXor =>
          if m.dflt ≠ [] then .node (some "Xor") (idJ i m) none none true (kidsOfAtMost ks) none none none m.dflt
          else .node (some "Xor") (idJ i m) none none true (kidsOfNth ks 0) none none none []
def toJsonL : List P → List PJ
  | [] => []
  | k :: ks => toJson k :: toJsonL ks
/-- JSON of the children of the n-th child -/
def kidsOfNth : List P → Nat → List PJ
  | [], _ => []
  | .leaf _ _ :: _, 0 => []
  | .node _ _ _ _ ks' _ :: _, 0 => toJsonL ks'
  | _ :: ks, n + 1 => kidsOfNth ks n
/-- JSON of the children of the `AtMost` half of a defaulted cc.Xor -/
def kidsOfAtMost : List P → List PJ
  | [] => []
  | .leaf _ _ :: ks => kidsOfAtMost ks
  | .node _ _ _ _ ks' m :: ks => if m.cls = .atMost then toJsonL ks' else kidsOfAtMost ks
/-- cc.Any with a default: the untagged children followed by the children of the prio-tagged inner node -/
def ccAnyProps : List P → List PJ
  | [] => []
  | .leaf i b :: ks => leafJ i b :: ccAnyProps ks
  | .node i b s v ks' m :: ks =>
      if m.prio.isSome then ccAnyProps ks ++ toJsonL ks'
      else toJson (.node i b s v ks' m) :: ccAnyProps ks
/-- JSON of the negation of the n-th child (`self.condition.negate().to_json()`) -/
def negNth : List P → Nat → Option PJ
  | [], _ => none
  | k :: _, 0 => some (toJsonNeg k)
  | _ :: ks, n + 1 => negNth ks n
/-- JSON of the child that is not the n-th (`self.consequence.to_json()`, two children) -/
def jsonOther : List P → Nat → Option PJ
  | [], _ => none
  | _ :: ks, 0 => (toJsonL ks).head?
  | k :: _, _ + 1 => some (toJson k)
/-- `negate().to_json()`, following the case analysis of `negate` -/
def toJsonNeg : P → PJ
  | .leaf i b => leafJ i b
  | .node i _ s v ks m =>
      let nid : Option String := if m.gen then none else some i
      let ks0 := sortById ks
      let atoms := ks0.filter (·.isLeaf)
      let ncomp := (ks.filter (fun k => !k.isLeaf)).length
      let atomsJ := atoms.map (fun a => leafJ a.id a.bnd)
      if s = 1 ∧ ncomp ≠ 0 then
        if atoms = [] then
          .node (some "AtLeast") nid (some ((1 - v) + ncomp)) (signJ 1 ((1 - v) + ncomp)) true (negJsonComps ks) none none none []
        else if v = 1 ∧ atoms.all (fun a => decide (0 ≤ a.bnd.lo)) then
          .node (some "AtLeast") nid (some ((1 - v) + (ncomp + 1))) (signJ 1 ((1 - v) + (ncomp + 1)))
            true (negJsonComps ks ++ [groupJ atomsJ]) none none none []
        else if atoms.all (fun a => a.bnd.lo == 0 && a.bnd.hi == 1) then
          .node (some "AtLeast") nid (some ((1 - v) + (ncomp + atoms.length))) (signJ 1 ((1 - v) + (ncomp + atoms.length)))
            true (negJsonComps ks ++ atomsJ.map (fun a => groupJ [a])) none none none []
        else .node (some "AtLeast") nid (some (1 - v)) (signJ (-s) (1 - v)) true (toJsonSorted ks) none none none []
      else .node (some "AtLeast") nid (some (1 - v)) (signJ (-s) (1 - v)) true (toJsonSorted ks) none none none []
/-- JSON of the negated compound children (order is restored by `canon` on both sides) -/
def negJsonComps : List P → List PJ
  | [] => []
  | .leaf _ _ :: ks => negJsonComps ks
  | .node i b s v ks' m :: ks => toJsonNeg (.node i b s v ks' m) :: negJsonComps ks
def toJsonSorted : List P → List PJ
  | [] => []
  | k :: ks => toJson k :: toJsonSorted ks
end

end P

namespace PJ

mutual
/-- the constructor call `from_json` makes; `cfg` = the configurator's class list -/
def toAst (cfg : Bool) : PJ → Option Ast
  | .var i b => some (.var i (b.getD ⟨0, 1⟩))
  | .node none oid value sign hasProps props _ _ _ _ =>
      if hasProps then (toAstL cfg props).map (fun a => .atLeast (value.getD 1) a oid sign) else none
  | .node (some ty) oid value sign _ props cond cons prop dflt =>
      if ty = "AtLeast" then (toAstL cfg props).map (fun a => .atLeast (value.getD 1) a oid sign)
      else if ty = "AtMost" then (toAstL cfg props).map (fun a => .atMost (value.getD 1) a oid)
      else if ty = "All" then (toAstL cfg props).map (fun a => .all a oid)
      else if ty = "Any" then
        (if cfg && !dflt.isEmpty then (toAstL cfg props).map (fun a => .ccAny a dflt oid)
         else (toAstL cfg props).map (fun a => .any a oid))
      else if ty = "Xor" then
        (if cfg then (toAstL cfg props).map (fun a => .ccXor a dflt oid)
         else (toAstL cfg props).map (fun a => .xor a oid false))
      else if ty = "ExactlyOne" then (toAstL cfg props).map (fun a => .xor a oid true)
      else if ty = "XNor" then (toAstL cfg props).map (fun a => .xnor a oid)
      else if ty = "StingyConfigurator" then
        (if cfg then (toAstL cfg props).map (fun a => .stingy a oid) else none)
      else if ty = "Not" then (toAstOpt cfg prop).map Ast.not
      else if ty = "Imply" then
        (if cons.isNone then none
         else if cond.isNone then toAstOpt cfg cons
         else match toAstOpt cfg cond, toAstOpt cfg cons with
           | some c', some d' => some (.imply c' d' oid)
           | _, _ => none)
      else none
def toAstOpt (cfg : Bool) : Option PJ → Option Ast
  | some p => toAst cfg p
  | none => none
def toAstL (cfg : Bool) : List PJ → Option (List Ast)
  | [] => some []
  | x :: xs => match toAst cfg x, toAstL cfg xs with
      | some a, some as => some (a :: as)
      | _, _ => none
end

end PJ
end Puan
