/-
  The rule-dictionary constructor `Imply.from_cicJE` (plog/__init__.py) and the JSON a user writes
  for a constructor expression, both as functions into constructor calls (`Ast`).
-/
import Puan.Model.Json
namespace Puan

inductive RuleType where
  | requiresAll | requiresAny | oneOrNone | forbidsAll | requiresExclusively
deriving DecidableEq, Repr, Inhabited

/-- one entry of `condition.subConditions` -/
structure SubCond where
  all : Bool                 -- relation "ALL" (the default) or "ANY"
  comps : List String
  id : Option String
deriving Repr, Inhabited

/-- a rule dictionary -/
structure Cic where
  id : Option String
  ruleType : RuleType
  comps : List String        -- consequence.components
  consId : Option String
  hasCond : Bool             -- the key "condition" is present
  condAll : Bool             -- condition.relation
  subs : List SubCond
  condId : Option String
deriving Repr, Inhabited

namespace Cic

/-- how `cmp2prop` turns a component into a constructor argument: the default builds a boolean
    variable, a caller-supplied one may return the bare id string -/
def comp (strMode : Bool) (i : String) : Ast := if strMode then .str i else .var i ⟨0, 1⟩

def consAst (strMode : Bool) (d : Cic) : Ast :=
  let xs := d.comps.map (comp strMode)
  match d.ruleType with
  | .requiresAll => .all xs d.consId
  | .requiresAny => .any xs d.consId
  | .oneOrNone => .atMost 1 xs d.consId
  | .forbidsAll => .not (.any xs d.consId)
  | .requiresExclusively => .xor xs d.consId false

def subAst (strMode : Bool) (s : SubCond) : Ast :=
  if s.all then .all (s.comps.map (comp strMode)) s.id else .any (s.comps.map (comp strMode)) s.id

/-- the constructor calls `from_cicJE` makes -/
def toAst (strMode : Bool) (d : Cic) : Ast :=
  if !d.hasCond then consAst strMode d
  else match d.subs with
    | [] => consAst strMode d
    | [s] => .imply (subAst strMode s) (consAst strMode d) d.id
    | ss => .imply (if d.condAll then .all (ss.map (subAst strMode)) d.condId else .any (ss.map (subAst strMode)) d.condId)
              (consAst strMode d) d.id

end Cic

namespace Ast

mutual
/-- the JSON a user writes for a constructor expression (variables by id, `AtLeast` without sign) -/
def userJson : Ast → PJ
  | .var i _ => .var i none
  | .str i => .var i none
  | .atLeast v as oid _ => .node (some "AtLeast") oid (some v) none true (userJsonL as) none none none []
  | .atMost v as oid => .node (some "AtMost") oid (some v) none true (userJsonL as) none none none []
  | .all as oid => .node (some "All") oid none none true (userJsonL as) none none none []
  | .any as oid => .node (some "Any") oid none none true (userJsonL as) none none none []
  | .xor as oid e => .node (some (if e then "ExactlyOne" else "Xor")) oid none none true (userJsonL as) none none none []
  | .xnor as oid => .node (some "XNor") oid none none true (userJsonL as) none none none []
  | .imply c d oid => .node (some "Imply") oid none none false [] (some (userJson c)) (some (userJson d)) none []
  | .not a => .node (some "Not") none none none false [] none none (some (userJson a)) []
  | .ccAny as _ oid => .node (some "Any") oid none none true (userJsonL as) none none none []
  | .ccXor as _ oid => .node (some "Xor") oid none none true (userJsonL as) none none none []
  | .stingy as oid => .node (some "All") oid none none true (userJsonL as) none none none []
def userJsonL : List Ast → List PJ
  | [] => []
  | a :: as => userJson a :: userJsonL as
end

mutual
/-- what `plog.from_json` builds from `userJson a`: strings become boolean variables, signs are inferred -/
def viaJson : Ast → Ast
  | .var i _ => .var i ⟨0, 1⟩
  | .str i => .var i ⟨0, 1⟩
  | .atLeast v as oid _ => .atLeast v (viaJsonL as) oid none
  | .atMost v as oid => .atMost v (viaJsonL as) oid
  | .all as oid => .all (viaJsonL as) oid
  | .any as oid => .any (viaJsonL as) oid
  | .xor as oid e => .xor (viaJsonL as) oid e
  | .xnor as oid => .xnor (viaJsonL as) oid
  | .imply c d oid => .imply (viaJson c) (viaJson d) oid
  | .not a => .not (viaJson a)
  | .ccAny as _ oid => .any (viaJsonL as) oid
  | .ccXor as _ oid => .xor (viaJsonL as) oid false
  | .stingy as oid => .all (viaJsonL as) oid
def viaJsonL : List Ast → List Ast
  | [] => []
  | a :: as => viaJson a :: viaJsonL as
end

end Ast
end Puan
