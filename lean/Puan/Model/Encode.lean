/-
  The big-M rows that `AtLeast.to_ge_polyhedron` obtains from puan-rspy, keyed by
  column id.  One row per compound node:  s·Σ x(kid) + (m − v)·x(id) ≥ m,
  m = Σ min over the kid's bounds of s·kid.  With `active` the top node's column
  is dropped and its row is  s·Σ x(kid) ≥ v.
-/
import Puan.Model.Tree
namespace Puan

structure Row where
  b : Int
  coefs : List (String × Int)
deriving Repr, DecidableEq

namespace Row
def lhs (x : String → Int) : List (String × Int) → Int
  | [] => 0
  | (i, c) :: r => c * x i + lhs x r
def sat (x : String → Int) (r : Row) : Prop := lhs x r.coefs ≥ r.b
instance (x : String → Int) (r : Row) : Decidable (r.sat x) := by unfold sat; infer_instance
end Row

namespace P

def minTerm (s : Int) (b : Bnd) : Int := if s ≥ 0 then s * b.lo else s * b.hi
def minSum (s : Int) : List P → Int
  | [] => 0
  | k :: ks => minTerm s k.bnd + minSum s ks

def kidCoefs (s : Int) : List P → List (String × Int)
  | [] => []
  | k :: ks => (k.id, s) :: kidCoefs s ks

def rowOf (i : String) (s v : Int) (ks : List P) : Row :=
  ⟨minSum s ks, kidCoefs s ks ++ [(i, minSum s ks - v)]⟩

def topRow (s v : Int) (ks : List P) : Row := ⟨v, kidCoefs s ks⟩

mutual
def rows : P → List Row
  | .leaf .. => []
  | .node i _ s v ks _ => rowOf i s v ks :: rowsL ks
def rowsL : List P → List Row
  | [] => []
  | k :: ks => rows k ++ rowsL ks
end

/-- rows of `to_ge_polyhedron(active)` -/
def encode (active : Bool) : P → List Row
  | .leaf _ _ => []
  | .node i b s v ks m => if active then topRow s v ks :: rowsL ks else rows (.node i b s v ks m)

end P
end Puan
