/-
  `StingyConfigurator.add` (C18).
-/
import Puan.Model.Ast
namespace Puan
namespace Config
open P

/-- `StingyConfigurator(*rules, id=i)` from already built rules -/
def mkStingy (rules : List P) (i : String) : P := mkAll (rules.map (fun r => (false, r))) (some i) .stingy

/-- `add`: refuse a rule whose id names an existing top-level rule or item, else rebuild from
    the current rules followed by the new one, keeping the configurator's id -/
def add (c : P) (r : P) : Option P :=
  match c with
  | .leaf _ _ => none
  | .node i _ _ _ ks _ => if ks.any (fun k => k.id == r.id) then none else some (mkStingy (ks ++ [r]) i)

/-- any sequence of additions; `none` as soon as one is refused -/
def addAll (c : P) : List P → Option P
  | [] => some c
  | r :: rs => match add c r with
      | none => none
      | some c' => addAll c' rs

end Config
end Puan
