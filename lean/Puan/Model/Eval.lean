/-
  Interval evaluation: `AtLeast.assume`, `evaluate`, `evaluate_propositions`,
  `equation_bounds`, `is_tautology`, `is_contradiction` (plog/__init__.py).
-/
import Puan.Model.Tree
namespace Puan

/-- an interpretation / assumption dictionary: id ↦ bounds (an int `c` is `(c,c)`) -/
abbrev Interp := String → Option Bnd

def Interp.ofList (l : List (String × Bnd)) : Interp := fun i => l.lookup i

def Interp.union (A I : Interp) : Interp := fun i => match A i with | some a => some a | none => I i

namespace P

/-- stable sort by id, as `sorted(...)` with `__lt__` on ids -/
def sortById (l : List P) : List P := l.mergeSort (fun a b => decide (a.id ≤ b.id))

/-- signed lower / upper end of a child's bounds, exactly as the code flips them -/
def sLo (s : Int) (b : Bnd) : Int := if s > 0 then b.lo else b.hi * s
def sHi (s : Int) (b : Bnd) : Int := if s > 0 then b.hi else b.lo * s

def sumLo (s : Int) : List P → Int
  | [] => 0
  | k :: ks => sLo s k.bnd + sumLo s ks
def sumHi (s : Int) : List P → Int
  | [] => 0
  | k :: ks => sHi s k.bnd + sumHi s ks

/-- `(Σ bounds >= value) * 1` -/
def thr (s v : Int) (ks : List P) : Bnd :=
  ⟨if sumLo s ks ≥ v then 1 else 0, if sumHi s ks ≥ v then 1 else 0⟩

/-- a compound child that was named in the dictionary and came out constant is
    replaced by its bare variable (plog `assume`, the `filter_map_concat` step) -/
def prune (I : Interp) : P → P
  | .leaf i b => .leaf i b
  | .node i b s v ks m => if (I i).isSome && b.isConst then .leaf i b else .node i b s v ks m

mutual
/-- `AtLeast.assume` / `variable.assume` -/
def assume (I : Interp) : P → P
  | .leaf i b => .leaf i ((I i).getD b)
  | .node i b s v ks _ =>
      if ((I i).getD b).lo = ((I i).getD b).hi then .leaf i ((I i).getD b)
      else .node i (thr s v (assumeL I ks)) s v (sortById ((assumeL I ks).map (prune I))) {}
def assumeL (I : Interp) : List P → List P
  | [] => []
  | k :: ks => assume I k :: assumeL I ks
end

/-- `evaluate` -/
def evalB (I : Interp) (t : P) : Bnd := (assume I t).bnd

/-- keep the last entry per key of a key-sorted association list (`dict(zip(...))`) -/
def dedupLast : List (String × Bnd) → List (String × Bnd)
  | [] => []
  | [x] => [x]
  | x :: y :: r => if x.1 = y.1 then dedupLast (y :: r) else x :: dedupLast (y :: r)

/-- `flatten()` as an id-sorted list of (id, bounds) -/
def flatIB (t : P) : List (String × Bnd) :=
  dedupLast ((sortById (subs t)).map (fun p => (p.id, p.bnd)))

/-- `evaluate_propositions` -/
def evalProps (I : Interp) (t : P) : List (String × Bnd) := flatIB (assume I t)

/-! ### the specification side: point semantics with the two override rules -/

mutual
/-- value of a node under leaf assignment `σ` when ids fixed by `I` (or by their own
    bounds) take that fixed value instead of being computed -/
def evalOv (I : Interp) (σ : String → Int) : P → Int
  | .leaf i _ => σ i
  | .node i b s v ks _ =>
      if ((I i).getD b).lo = ((I i).getD b).hi then ((I i).getD b).lo
      else if s * sumOv I σ ks ≥ v then 1 else 0
def sumOv (I : Interp) (σ : String → Int) : List P → Int
  | [] => 0
  | k :: ks => evalOv I σ k + sumOv I σ ks
end

/-! ### equation bounds and flags -/

def eqSumLo (s : Int) : List P → Int
  | [] => 0
  | k :: ks => k.bnd.lo * s + eqSumLo s ks
def eqSumHi (s : Int) : List P → Int
  | [] => 0
  | k :: ks => k.bnd.hi * s + eqSumHi s ks

/-- `equation_bounds` -/
def eqBounds (s v : Int) (ks : List P) : Bnd :=
  ⟨min (eqSumLo s ks) (eqSumHi s ks) - v, max (eqSumLo s ks) (eqSumHi s ks) - v⟩

def isTautology (s v : Int) (ks : List P) : Bool := decide ((eqBounds s v ks).lo ≥ 0)
def isContradiction (s v : Int) (ks : List P) : Bool := decide ((eqBounds s v ks).hi < 0)

structure Flags where
  id : String
  eq : Bnd
  taut : Bool
  contra : Bool
deriving Repr

def flagsOf : P → Option Flags
  | .leaf .. => none
  | .node i _ s v ks _ => some ⟨i, eqBounds s v ks, isTautology s v ks, isContradiction s v ks⟩

/-- flags of every compound sub-node, pre-order -/
def flags (t : P) : List Flags := (subs t).filterMap flagsOf

end P
end Puan
