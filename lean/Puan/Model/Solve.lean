/-
  The custom-solver branches of `AtLeast.solve`, `ge_polyhedron_config.select` and
  `StingyConfigurator.select` (C15): how objective dictionaries become vectors over the
  polyhedron's columns and how solution vectors become id → value dictionaries.
  The solver itself is a parameter.
-/
import Puan.Model.Eval
namespace Puan
namespace Solve

structure ColInfo where
  id : String
  isLeaf : Bool
  gen : Bool
deriving Repr, DecidableEq

def dedupIds : List ColInfo → List ColInfo
  | [] => []
  | [x] => [x]
  | x :: y :: r => if x.id = y.id then dedupIds (y :: r) else x :: dedupIds (y :: r)

/-- columns of `to_ge_polyhedron(active=True).A`: the flattened ids in sorted order, top node removed -/
def columns (t : P) : List ColInfo :=
  (dedupIds ((P.sortById (P.subs t)).map (fun p => ⟨p.id, p.isLeaf, p.isGen⟩))).filter (fun c => c.id != t.id)

/-- `A.construct(objective, default 0)` -/
def objectiveVec (cols : List ColInfo) (obj : List (String × Int)) : List Int :=
  cols.map (fun c => (obj.lookup c.id).getD 0)

/-- one objective vector per request, each built from its own dictionary -/
def objectives (cols : List ColInfo) (objs : List (List (String × Int))) : List (List Int) :=
  objs.map (objectiveVec cols)

/-- `zip(A.variables, solution)` filtered -/
def zipKeep (keep : ColInfo → Bool) : List ColInfo → List Int → List (String × Int)
  | c :: cs, v :: vs => if keep c then (c.id, v) :: zipKeep keep cs vs else zipKeep keep cs vs
  | _, _ => []

/-- `solve`: generated helper variables are omitted unless asked for -/
def solveResult (cols : List ColInfo) (sol : Option (List Int)) (includeVirtual : Bool) : List (String × Int) :=
  match sol with
  | none => []
  | some s => zipKeep (fun c => c.isLeaf || !c.gen || includeVirtual) cols s

/-- `select`: every column; with `only_leafs` only leaf items -/
def selectResult (cols : List ColInfo) (sol : Option (List Int)) (onlyLeafs : Bool) : List (String × Int) :=
  match sol with
  | none => []
  | some s => zipKeep (fun c => !onlyLeafs || c.isLeaf) cols s

end Solve
end Puan
