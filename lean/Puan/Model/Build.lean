/-
  Constructors (`AtLeast.__init__` and subclasses), `_id_generator`,
  `negate`, `reduce` (plog/__init__.py).
-/
import Puan.Model.Sha256
import Puan.Model.Eval
namespace Puan
namespace P

def signStr : Option Int → String
  | none => "None"
  | some s => toString s

/-- `AtLeast._id_generator`: atoms' ids, then compounds' ids, then value and sign as passed -/
def genId (ks : List P) (v : Int) (s : Option Int) : String :=
  "VAR" ++ Sha256.hexdigest
    (String.join ((ks.filter (·.isLeaf)).map (·.id) ++ (ks.filter (fun k => !k.isLeaf)).map (·.id))
      ++ toString v ++ signStr s)

/-- `AtLeast(value, propositions, variable, sign)`; `ks` in the order the constructor
    chains them (non-strings first, then strings) -/
def mkAtLeast (v : Int) (ks : List P) (var : Option (String × Bnd)) (sgn : Option Int)
    (cls : Cls := .atLeast) : P :=
  let s := sgn.getD (if v > 0 then 1 else -1)
  let ks' := sortById ks
  match var with
  | none => .node (genId ks' v sgn) ⟨0, 1⟩ s v ks' { cls := cls, gen := true }
  | some (i, b) => .node i b s v ks' { cls := cls, gen := false }

def mkAtMost (v : Int) (ks : List P) (var : Option (String × Bnd)) : P :=
  mkAtLeast (-v) ks var (some (-1)) .atMost

/-- a negated node that is not pushed inwards -/
def negFlat (i : String) (b : Bnd) (s v : Int) (ks : List P) (m : Meta) : P :=
  .node i b (-s) (1 - v) ks m

/-- `AtLeast(1, atoms, sign=+1).negate()` (generated ids) -/
def negGroup (atoms : List P) : P :=
  .node (genId atoms 0 (some (-1))) ⟨0, 1⟩ (-1) 0 atoms { gen := true }

def sortPairs (l : List (String × P)) : List (String × P) :=
  l.mergeSort (fun a b => decide (a.1 ≤ b.1))

mutual
/-- `AtLeast.negate` (with the D1 repair: atoms are grouped only for value 1 and
    non-negative atoms, wrapped one by one when boolean, otherwise no inward push; and the F05b repair: a node whose own
    variable is fixed to a constant is negated into one fixed to the opposite constant) -/
def negate : P → P
  | .leaf i b => .leaf i b
  | .node i b s v ks m =>
      let ks0 := sortById ks
      let nid := if m.gen then genId ks0 (1 - v) (some (-s)) else i
      let nb : Bnd := if m.gen then ⟨0, 1⟩ else if b.lo = b.hi then ⟨1 - b.hi, 1 - b.lo⟩ else b
      let nm : Meta := { gen := m.gen }
      let atoms := ks0.filter (·.isLeaf)
      let ncomp := (ks.filter (fun k => !k.isLeaf)).length
      let negs := (sortPairs (negPairs ks)).map (·.2)
      if s = 1 ∧ ncomp ≠ 0 then
        if atoms = [] then
          .node nid nb 1 ((1 - v) + ncomp) negs nm
        else if v = 1 ∧ atoms.all (fun a => decide (0 ≤ a.bnd.lo)) then
          .node nid nb 1 ((1 - v) + (ncomp + 1)) (negs ++ [negGroup atoms]) nm
        else if atoms.all (fun a => a.bnd.lo == 0 && a.bnd.hi == 1) then
          .node nid nb 1 ((1 - v) + (ncomp + atoms.length))
            (negs ++ atoms.map (fun a => negGroup [a])) nm
        else negFlat nid nb s v ks0 nm
      else negFlat nid nb s v ks0 nm
/-- the compound children, each with its id before negation and its negation -/
def negPairs : List P → List (String × P)
  | [] => []
  | .leaf _ _ :: ks => negPairs ks
  | .node i b s v ks' m :: ks => (i, negate (.node i b s v ks' m)) :: negPairs ks
end

def constSum : List P → Int
  | [] => 0
  | k :: ks => (if k.bnd.isConst then k.bnd.lo else 0) + constSum ks

mutual
/-- `AtLeast.reduce` -/
def reduce : P → P
  | .leaf i b => .leaf i b
  | .node i b s v ks _ =>
      if b.isConst then .leaf i b
      else
        let sub := reduceComps ks ++ ks.filter (·.isLeaf)
        if (thr s v sub).isConst then .leaf i (thr s v sub)
        else .node i (thr s v sub) s (v - constSum sub * s)
               (sortById (sub.filter (fun k => !k.bnd.isConst))) {}
def reduceComps : List P → List P
  | [] => []
  | .leaf _ _ :: ks => reduceComps ks
  | .node i b s v ks' m :: ks => reduce (.node i b s v ks' m) :: reduceComps ks
end

end P
end Puan
