/-
  Priority compression (puan/ndarray `integer_ndarray.ndint_compress`, `reduce2d`, `ranking`)
  and puan-rspy's `py_optimized_bit_allocation_64`.
-/
namespace Puan
namespace Prio

/-! ### optimized bit allocation: runs of equal consecutive values share a weight; a new run
    gets 1 + (sum of all weights so far) -/

def obaGo (prev w total : Int) : List Int → List Int
  | [] => []
  | x :: xs => if x = prev then w :: obaGo prev w (total + w) xs
               else (total + 1) :: obaGo x (total + 1) (total + (total + 1)) xs

def oba : List Int → List Int
  | [] => []
  | x :: xs => 1 :: obaGo x 1 1 xs

/-! ### matrices as lists of rows -/

abbrev Mat := List (List Int)

def ncols (m : Mat) : Nat := (m.headD []).length

def transpose (m : Mat) : Mat :=
  (List.range (ncols m)).map (fun j => m.map (fun r => r.getD j 0))

def col (m : Mat) (j : Nat) : List Int := m.map (fun r => r.getD j 0)

/-- last non-zero entry of a column with its row index -/
def lastNZ (c : List Int) : Option (Nat × Int) :=
  (List.zip (List.range c.length) c).foldl (fun acc (i, v) => if v != 0 then some (i, v) else acc) none

def firstNZ (c : List Int) : Int := (c.find? (· != 0)).getD 0

/-- `reduce2d(method="last", axis=0)`: keep only the last non-zero entry of every column -/
def reduceLast (m : Mat) : Mat :=
  let n := ncols m
  let ls := (List.range n).map (fun j => lastNZ (col m j))
  (List.zip (List.range m.length) m).map (fun (i, _) =>
    (List.range n).map (fun j => match ls.getD j none with
      | some (i', v) => if i' = i then v else 0
      | none => 0))

def absI (x : Int) : Int := if x < 0 then -x else x

/-- stable sort of the positions of a row by value (an `argsort`) -/
def argsort (r : List Int) : List Nat :=
  ((List.zip r (List.range r.length)).mergeSort (fun a b => decide (a.1 ≤ b.1))).map (·.2)

/-- put the weights back at the non-zero positions, row by row, in sorted order -/
def put : List (List Nat × List Int) → List Int → List (Nat × Int) → List (Nat × Int)
  | [], _, acc => acc
  | (idx, vals) :: rest, ws, acc =>
      let nz := (List.zip idx vals).filter (fun p => p.2 != 0)
      put rest (ws.drop nz.length) (acc ++ List.zip (nz.map (·.1)) (ws.take nz.length))

/-- `shadow` on a 2-D array along axis 0 -/
def shadow2d (m : Mat) : List Int :=
  let n := ncols m
  let red := reduceLast m
  let rows := (red.map (fun r => r.map absI)).filter (fun r => r.any (· != 0))
  if rows.isEmpty then List.replicate n 0
  else
    -- per row: positions sorted by value, row sign alternates
    let perRow := (List.zip (List.range rows.length) rows).map (fun (i, r) =>
      let idx := argsort r
      let sgn : Int := if i % 2 == 0 then 1 else -1
      (idx, idx.map (fun j => sgn * r.getD j 0)))
    let inp := (perRow.map (·.2)).flatten.filter (· != 0)
    let ws := oba inp
    let table := put perRow ws []
    (List.range n).map (fun j =>
      let w := (table.lookup j).getD 0
      let mn := (col red j).foldl min 0
      if mn < 0 then -w else w)

/-- `ranking` of a 1-D array: dense ranks by value; the smallest value gets 1 if it is positive, else 0 -/
def ranking (r : List Int) : List Int :=
  match r with
  | [] => []
  | _ =>
    let mn := r.foldl min (r.headD 0)
    let base : Int := if mn > 0 then 1 else 0
    r.map (fun x => base + ((r.eraseDups.filter (· < x)).length : Int))

def lsum (l : List Int) : Int := l.foldl (· + ·) 0
def lmax (l : List Int) : Int := l.foldl max (l.headD 0)

/-- `prio` on a 2-D array along axis 0 -/
def prio2d (m : Mat) : List Int :=
  let n := ncols m
  let red := reduceLast m
  let rows := (red.map (fun r => r.map absI)).filter (fun r => r.any (· != 0))
  if rows.isEmpty then List.replicate n 0
  else
    let ranked := rows.map ranking
    let maxes := ranked.map lmax
    let offs := (List.range ranked.length).map (fun i => lsum (maxes.take i))
    let shifted := (List.zip ranked offs).map (fun (r, o) => r.map (fun x => if x > 0 then x + o else x))
    (List.range n).map (fun j =>
      let p := firstNZ (col shifted j)
      let lst := match lastNZ (col m j) with | some (_, v) => v | none => 0
      if lst < 0 then -p else p)

def minNZ (c : List Int) : Int :=
  match c.filter (· != 0) with
  | [] => 0
  | x :: xs => xs.foldl min x

/-- compression of a 2-D array along axis 0 (one value per column) -/
def compress0 (method : String) (m : Mat) : Option (List Int) :=
  let n := ncols m
  let cols := (List.range n).map (col m)
  match method with
  | "first" => some (cols.map firstNZ)
  | "last" => some (cols.map (fun c => match lastNZ c with | some (_, v) => v | none => 0))
  | "min" => some (cols.map minNZ)
  | "max" => some (cols.map lmax)
  | "prio" => some (prio2d m)
  | "rank" => some (ranking (prio2d m))
  | "shadow" => some (shadow2d m)
  | _ => none

/-- 2-D on either axis -/
def compress2 (method : String) (axis : Nat) (m : Mat) : Option (List Int) :=
  if axis = 0 then compress0 method m else compress0 method (transpose m)

/-- batched 3-D for the methods the code maps over slices:
    `swapaxes(stack(map(compress(·, axis=0), swapaxes(self, 0, axis))), 0, axis)`, axis ∈ {0,1} -/
def compress3 (method : String) (axis : Nat) (a : List Mat) : Option Mat := do
  let slices : List Mat := if axis = 0 then a else
    -- swapaxes(0,1): new[i][j] = old[j][i]
    (List.range ((a.headD []).length)).map (fun i => a.map (fun s => s.getD i []))
  let rs ← slices.mapM (compress0 method)
  if axis = 0 then pure rs else pure (transpose rs)

/-! ### `shadow` as a specification: weights by priority *key*

  The key of a column is (row of its last non-zero entry, magnitude of that entry); later rows
  rank above earlier rows, then magnitude.  The weights are the bit allocation over the sorted
  keys (one entry per column).  `shadowSpec` is what the statement of C13 describes; that
  `ndint_compress(method="shadow")` computes it is tied by the correspondence (and `shadow2d`
  above mirrors the code's own plumbing). -/

structure Key where
  row : Nat
  mag : Int
deriving DecidableEq, Repr, Inhabited

def Key.lt (a b : Key) : Prop := a.row < b.row ∨ (a.row = b.row ∧ a.mag < b.mag)
def Key.le (a b : Key) : Prop := a.row < b.row ∨ (a.row = b.row ∧ a.mag ≤ b.mag)
instance (a b : Key) : Decidable (Key.lt a b) := by unfold Key.lt; infer_instance
instance (a b : Key) : Decidable (Key.le a b) := by unfold Key.le; infer_instance

def insertK (k : Key) : List Key → List Key
  | [] => [k]
  | x :: xs => if Key.le k x then k :: x :: xs else x :: insertK k xs

def sortK : List Key → List Key
  | [] => []
  | k :: ks => insertK k (sortK ks)

/-- the bit allocation over keys: runs of equal consecutive keys share a weight; a new run gets
    1 + (sum of all weights so far) — `obaGo`/`oba` with keys instead of encoded integers -/
def obaGoK (prev : Key) (w total : Int) : List Key → List Int
  | [] => []
  | x :: xs => if x = prev then w :: obaGoK prev w (total + w) xs
               else (total + 1) :: obaGoK x (total + 1) (total + (total + 1)) xs

def obaK : List Key → List Int
  | [] => []
  | x :: xs => 1 :: obaGoK x 1 1 xs

/-- sorted keys paired with their weights -/
def table (ks : List Key) : List (Key × Int) := List.zip (sortK ks) (obaK (sortK ks))

def keyOf (c : List Int) : Option Key := (lastNZ c).map (fun p => ⟨p.1, absI p.2⟩)
def sgnOf (c : List Int) : Int := match lastNZ c with
  | some (_, v) => if v < 0 then -1 else 1
  | none => 0

def weightOf (t : List (Key × Int)) (k : Key) : Int := (t.lookup k).getD 0

/-- `shadow` along axis 0, by keys -/
def shadowSpec (m : Mat) : List Int :=
  let cols := (List.range (ncols m)).map (col m)
  let t := table (cols.filterMap keyOf)
  cols.map (fun c => match keyOf c with
    | none => 0
    | some k => sgnOf c * weightOf t k)

/-- a level function on keys: the number of entries ranked strictly below -/
def levOf (ks : List Key) (k : Key) : Nat := (ks.filter (fun k' => decide (Key.lt k' k))).length

/-- distinct keys (the last occurrence of each is kept) -/
def dedupK : List Key → List Key
  | [] => []
  | k :: r => if r.contains k then dedupK r else k :: dedupK r

/-- `prio` along axis 0, by keys: the dense rank of the column's key among the distinct keys, with the sign of the
    column's last non-zero entry; 0 for an all-zero column -/
def prioSpec (m : Mat) : List Int :=
  let cols := (List.range (ncols m)).map (col m)
  let ds := dedupK (cols.filterMap keyOf)
  cols.map (fun c => match keyOf c with
    | none => 0
    | some k => sgnOf c * (1 + (levOf ds k : Int)))

/-- `compress0` with `shadow` computed from the key specification instead of the code's plumbing -/
def compress0Spec (method : String) (m : Mat) : Option (List Int) :=
  if method = "shadow" then some (shadowSpec m)
  else if method = "prio" then some (prioSpec m)
  else if method = "rank" then some (ranking (prioSpec m))
  else compress0 method m

def compress2Spec (method : String) (axis : Nat) (m : Mat) : Option (List Int) :=
  if axis = 0 then compress0Spec method m else compress0Spec method (transpose m)

def compress3Spec (method : String) (axis : Nat) (a : List Mat) : Option Mat := do
  let slices : List Mat := if axis = 0 then a else
    (List.range ((a.headD []).length)).map (fun i => a.map (fun s => s.getD i []))
  let rs ← slices.mapM (compress0Spec method)
  if axis = 0 then pure rs else pure (transpose rs)

end Prio
end Puan
