/-
  Helper lemmas for C07: `assume` followed by evaluation, through the pruning and
  re-sorting that `assume` performs on the stored children.
-/
import Puan.Lemmas.Eval
namespace Puan
namespace P

theorem sumLo_perm (s) {l1 l2 : List P} (h : l1.Perm l2) : sumLo s l1 = sumLo s l2 := by
  induction h with
  | nil => rfl
  | cons x _ ih => simp [sumLo, ih]
  | swap x y l => simp [sumLo]; omega
  | trans _ _ ih1 ih2 => exact ih1.trans ih2

theorem sumHi_perm (s) {l1 l2 : List P} (h : l1.Perm l2) : sumHi s l1 = sumHi s l2 := by
  induction h with
  | nil => rfl
  | cons x _ ih => simp [sumHi, ih]
  | swap x y l => simp [sumHi]; omega
  | trans _ _ ih1 ih2 => exact ih1.trans ih2

theorem sortById_perm' (l : List P) : (sortById l).Perm l := List.mergeSort_perm l _

/-- evaluating a pruned child gives what evaluating the unpruned child gives, as long as the
    further interpretation does not name that compound id -/
theorem assume_prune (A I : Interp) : ∀ k : P, (k.isLeaf = false → I k.id = none) →
    assume I (prune A k) = assume I k
  | .leaf i b, _ => by simp [prune]
  | .node i b s v ks m, h => by
      have hI : I i = none := h rfl
      simp only [prune]
      split
      · rename_i hc
        have hconst : b.lo = b.hi := by
          have : b.isConst = true := by simp at hc; exact hc.2
          simpa [Bnd.isConst] using this
        simp [assume, hI, hconst]
      · rfl

theorem assumeL_prune (A I : Interp) : ∀ l : List P, (∀ k ∈ l, k.isLeaf = false → I k.id = none) →
    assumeL I (l.map (prune A)) = assumeL I l
  | [], _ => by simp [assumeL]
  | k :: l, h => by
      simp only [List.map_cons, assumeL]
      rw [assume_prune A I k (h k (by simp)), assumeL_prune A I l (fun k' hk' => h k' (by simp [hk']))]

theorem assume_isLeaf_of_leaf (A : Interp) : ∀ k : P, k.isLeaf = true → (assume A k).isLeaf = true
  | .leaf i b, _ => by simp [assume, isLeaf]
  | .node .., h => by simp [isLeaf] at h

/-- the stored (pruned, re-sorted) children evaluate to the same interval sums -/
theorem stored_sums (A I : Interp) (s : Int) (ks : List P)
    (h : ∀ k ∈ ks, k.isLeaf = false → I k.id = none) :
    sumLo s (assumeL I (sortById ((assumeL A ks).map (prune A)))) = sumLo s (assumeL I (assumeL A ks)) ∧
    sumHi s (assumeL I (sortById ((assumeL A ks).map (prune A)))) = sumHi s (assumeL I (assumeL A ks)) := by
  have hp : (assumeL I (sortById ((assumeL A ks).map (prune A)))).Perm
      (assumeL I ((assumeL A ks).map (prune A))) := by
    simp only [assumeL_eq_map]
    exact (sortById_perm' _).map _
  have h' : ∀ k' ∈ assumeL A ks, k'.isLeaf = false → I k'.id = none := by
    intro k' hk' hl
    rw [assumeL_eq_map] at hk'
    obtain ⟨k, hk, rfl⟩ := List.mem_map.1 hk'
    rw [assume_id]
    apply h k hk
    cases hkl : k.isLeaf with
    | false => rfl
    | true => rw [assume_isLeaf_of_leaf A k hkl] at hl; cases hl
  rw [sumLo_perm s hp, sumHi_perm s hp, assumeL_prune A I _ h']
  exact ⟨rfl, rfl⟩

/-! ### side conditions of C07 on the further interpretation `I` -/
mutual
/-- `I` interprets only leaves that `A` left open, with values inside their declared bounds -/
def Rest (A I : Interp) : P → Prop
  | .leaf i b => (A i ≠ none → I i = none) ∧ (A i = none → ((I i).getD b).sub b)
  | .node i _ _ _ ks _ => I i = none ∧ RestL A I ks
def RestL (A I : Interp) : List P → Prop
  | [] => True
  | k :: ks => Rest A I k ∧ RestL A I ks
end

theorem restL_nodes (A I : Interp) : ∀ ks, RestL A I ks → ∀ k ∈ ks, k.isLeaf = false → I k.id = none
  | [], _ => by simp
  | k :: ks, h => by
      have ⟨h1, h2⟩ : Rest A I k ∧ RestL A I ks := by simpa [RestL] using h
      intro k' hk' hl
      rcases List.mem_cons.1 hk' with rfl | hk'
      · cases k' with
        | leaf => simp [isLeaf] at hl
        | node i b s v ks' m =>
            have : I i = none ∧ RestL A I ks' := by simpa [Rest] using h1
            simpa [id] using this.1
      · exact restL_nodes A I ks h2 k' hk' hl

mutual
theorem rest_refines (A I) : ∀ p, Rest A I p → Refines A (Interp.union A I) p
  | .leaf i b, h => by
      have ⟨h1, h2⟩ : (A i ≠ none → I i = none) ∧ (A i = none → ((I i).getD b).sub b) := by simpa [Rest] using h
      simp only [Refines, Interp.union]
      cases hA : A i with
      | none => simpa [hA] using h2 hA
      | some a => simp [Bnd.sub]
  | .node i b s v ks m, h => by
      have ⟨h1, h2⟩ : I i = none ∧ RestL A I ks := by simpa [Rest] using h
      simp only [Refines]
      refine ⟨?_, rest_refinesL A I ks h2⟩
      simp only [Interp.union]; cases hA : A i <;> simp [h1]
theorem rest_refinesL (A I) : ∀ ks, RestL A I ks → RefinesL A (Interp.union A I) ks
  | [], _ => by simp [RefinesL]
  | k :: ks, h => by
      have ⟨h1, h2⟩ : Rest A I k ∧ RestL A I ks := by simpa [RestL] using h
      simp only [RefinesL]; exact ⟨rest_refines A I k h1, rest_refinesL A I ks h2⟩
end

theorem sub_const_eq (b c : Bnd) (hc : c.lo = c.hi) (hw : b.wf) (hs : b.sub c) : b = c := by
  cases b; cases c; simp_all [Bnd.wf, Bnd.sub]; omega

theorem union_wf (A I : Interp) (hA : IWf A) (hI : IWf I) : IWf (Interp.union A I) := by
  intro j bj hj; simp only [Interp.union] at hj
  cases hA' : A j with
  | none => rw [hA'] at hj; exact hI j bj hj
  | some a => rw [hA'] at hj; cases hj; exact hA j _ hA'

mutual
/-- evaluating the assumed model with `I` = evaluating the original with `A ∪ I` -/
theorem assume_evaluate (A I) (hA : IWf A) (hI : IWf I) : ∀ p, SignOk p → DeclWf p → Rest A I p →
    (assume I (assume A p)).bnd = (assume (Interp.union A I) p).bnd
  | .leaf i b, _, _, h => by
      have ⟨h1, _⟩ : (A i ≠ none → I i = none) ∧ (A i = none → ((I i).getD b).sub b) := by simpa [Rest] using h
      simp only [assume, bnd, Interp.union]
      cases hA' : A i with
      | none => simp
      | some a => simp [h1 (by simp [hA'])]
  | .node i b s v ks m, hs, hd, h => by
      have ⟨hs1, hs2⟩ : (s = 1 ∨ s = -1) ∧ SignOks ks := by simpa [SignOk] using hs
      have ⟨h1, h2⟩ : I i = none ∧ RestL A I ks := by simpa [Rest] using h
      have ⟨hb, hks⟩ : b.wf ∧ DeclWfL ks := by simpa [DeclWf] using hd
      have hU : Interp.union A I i = A i := by simp only [Interp.union]; cases hA' : A i <;> simp [h1]
      have hUwf : IWf (Interp.union A I) := union_wf A I hA hI
      have hL := assume_evaluateL A I hA hI s ks hs2 hks h2
      have hst := stored_sums A I s ks (restL_nodes A I ks h2)
      conv => rhs; simp only [assume, hU]
      conv => lhs; arg 1; arg 2; simp only [assume]
      split
      · simp [assume, bnd, h1]
      · simp only [assume, h1, Option.getD_none]
        split
        · rename_i hconst
          simp only [bnd]
          have hsub : (thr s v (assumeL (Interp.union A I) ks)).sub (thr s v (assumeL A ks)) := by
            have ⟨m1, m2⟩ := monoL A (Interp.union A I) s hs1 ks hs2 (rest_refinesL A I ks h2)
            exact thr_sub s v _ _ m1 m2
          have hw : (thr s v (assumeL (Interp.union A I) ks)).wf :=
            thr_wf s v _ (assumeL_wf _ hUwf s hs1 ks hs2 hks)
          exact (sub_const_eq _ _ hconst hw hsub).symm
        · simp only [bnd, thr, hst.1, hst.2, hL.1, hL.2]
theorem assume_evaluateL (A I) (hA : IWf A) (hI : IWf I) (s : Int) : ∀ ks, SignOks ks → DeclWfL ks → RestL A I ks →
    sumLo s (assumeL I (assumeL A ks)) = sumLo s (assumeL (Interp.union A I) ks) ∧
    sumHi s (assumeL I (assumeL A ks)) = sumHi s (assumeL (Interp.union A I) ks)
  | [], _, _, _ => by simp [assumeL, sumLo, sumHi]
  | k :: ks, hk, hd, h => by
      have ⟨k1, k2⟩ : SignOk k ∧ SignOks ks := by simpa [SignOks] using hk
      have ⟨d1, d2⟩ : DeclWf k ∧ DeclWfL ks := by simpa [DeclWfL] using hd
      have ⟨r1, r2⟩ : Rest A I k ∧ RestL A I ks := by simpa [RestL] using h
      have a := assume_evaluate A I hA hI k k1 d1 r1
      have ⟨b1, b2⟩ := assume_evaluateL A I hA hI s ks k2 d2 r2
      simp only [assumeL, sumLo, sumHi, a, b1, b2]
      exact ⟨trivial, trivial⟩
end

end P
end Puan
